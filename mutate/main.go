// mutate lists single-site syntactic mutants of the repository's non-test Go sources as JSON
// (file, byte range, replacement text, operator, line, enclosing function).  bin/mutsweep applies
// them one at a time to a scratch copy, keeps those that compile and pass the existing test suite,
// and runs the checks of the properties anchored in the mutated file.
package main

import (
	"encoding/json"
	"flag"
	"fmt"
	"go/ast"
	"go/parser"
	"go/token"
	"os"
	"path/filepath"
	"strconv"
	"strings"
)

type Mutant struct {
	ID    int    `json:"id"`
	File  string `json:"file"`
	Start int    `json:"start"`
	End   int    `json:"end"`
	New   string `json:"new"`
	Op    string `json:"op"`
	Line  int    `json:"line"`
	Func  string `json:"func"`
	Old   string `json:"old"`
}

var flip = map[token.Token][]string{
	token.EQL: {"!="}, token.NEQ: {"=="}, token.LSS: {"<=", ">"}, token.LEQ: {"<"}, token.GTR: {">=", "<"}, token.GEQ: {">"},
	token.LAND: {"||"}, token.LOR: {"&&"}, token.ADD: {"-"}, token.SUB: {"+"}, token.SHL: {">>"}, token.SHR: {"<<"}, token.AND: {"|"}, token.OR: {"&"},
}

func main() {
	repo := flag.String("repo", "/repo", "repository root")
	flag.Parse()
	var out []Mutant
	filepath.Walk(*repo, func(p string, info os.FileInfo, err error) error {
		if err != nil {
			return nil
		}
		rel, _ := filepath.Rel(*repo, p)
		if info.IsDir() {
			if strings.HasPrefix(info.Name(), ".") && rel != "." || info.Name() == "vendor" || info.Name() == "mock" || info.Name() == "_seed" {
				return filepath.SkipDir
			}
			return nil
		}
		if !strings.HasSuffix(p, ".go") || strings.HasSuffix(p, "_test.go") || strings.HasSuffix(p, "_windows.go") || info.Name() == "doc.go" || info.Name() == "tools.go" {
			return nil
		}
		src, _ := os.ReadFile(p)
		fset := token.NewFileSet()
		f, err := parser.ParseFile(fset, p, src, 0)
		if err != nil {
			return nil
		}
		off := func(pos token.Pos) int { return fset.Position(pos).Offset }
		for _, d := range f.Decls {
			fd, ok := d.(*ast.FuncDecl)
			fn := "(package level)"
			if ok {
				fn = fd.Name.Name
				if fd.Recv != nil && len(fd.Recv.List) > 0 {
					fn = string(src[off(fd.Recv.List[0].Type.Pos()):off(fd.Recv.List[0].Type.End())]) + "." + fn
				}
			}
			add := func(n ast.Node, s, e token.Pos, repl, op string) {
				out = append(out, Mutant{File: rel, Start: off(s), End: off(e), New: repl, Op: op, Line: fset.Position(s).Line, Func: fn, Old: string(src[off(s):off(e)])})
			}
			ast.Inspect(d, func(n ast.Node) bool {
				switch x := n.(type) {
				case *ast.BinaryExpr:
					for _, r := range flip[x.Op] {
						if x.Op == token.ADD || x.Op == token.SUB {
							if isStr(x.X) || isStr(x.Y) {
								continue
							}
						}
						add(x, x.OpPos, x.OpPos+token.Pos(len(x.Op.String())), r, "binop "+x.Op.String()+"→"+r)
					}
				case *ast.UnaryExpr:
					if x.Op == token.NOT {
						add(x, x.OpPos, x.OpPos+1, "", "drop !")
					}
				case *ast.IfStmt:
					if _, isNot := x.Cond.(*ast.UnaryExpr); !isNot {
						add(x, x.Cond.Pos(), x.Cond.End(), "!("+string(src[off(x.Cond.Pos()):off(x.Cond.End())])+")", "negate condition")
					}
				case *ast.BasicLit:
					if x.Kind == token.INT {
						if v, err := strconv.ParseInt(x.Value, 0, 64); err == nil {
							add(x, x.Pos(), x.End(), strconv.FormatInt(v+1, 10), "int+1")
							if v > 0 {
								add(x, x.Pos(), x.End(), strconv.FormatInt(v-1, 10), "int-1")
							}
						}
					}
				case *ast.Ident:
					if x.Name == "true" && x.Obj == nil {
						add(x, x.Pos(), x.End(), "false", "true→false")
					} else if x.Name == "false" && x.Obj == nil {
						add(x, x.Pos(), x.End(), "true", "false→true")
					}
				case *ast.BranchStmt:
					if x.Label == nil && x.Tok == token.BREAK {
						add(x, x.Pos(), x.End(), "continue", "break→continue")
					} else if x.Label == nil && x.Tok == token.CONTINUE {
						add(x, x.Pos(), x.End(), "break", "continue→break")
					}
				case *ast.ReturnStmt:
					// return …, err  →  return …, nil
					if len(x.Results) > 0 {
						if id, ok := x.Results[len(x.Results)-1].(*ast.Ident); ok && strings.HasPrefix(id.Name, "err") {
							add(x, id.Pos(), id.End(), "nil", "return err→nil")
						}
					}
				case *ast.BlockStmt:
					for _, st := range x.List {
						stmtMut(st, add)
					}
				case *ast.CaseClause:
					for _, st := range x.Body {
						stmtMut(st, add)
					}
				}
				return true
			})
		}
		return nil
	})
	for i := range out {
		out[i].ID = i
	}
	b, _ := json.MarshalIndent(out, "", " ")
	fmt.Println(string(b))
}

func isStr(e ast.Expr) bool {
	if b, ok := e.(*ast.BasicLit); ok {
		return b.Kind == token.STRING || b.Kind == token.CHAR
	}
	if b, ok := e.(*ast.BinaryExpr); ok {
		return isStr(b.X) || isStr(b.Y)
	}
	return false
}

func stmtMut(st ast.Stmt, add func(n ast.Node, s, e token.Pos, repl, op string)) {
	switch x := st.(type) {
	case *ast.ExprStmt:
		add(x, x.Pos(), x.End(), "", "delete call statement")
	case *ast.AssignStmt:
		if x.Tok != token.DEFINE {
			add(x, x.Pos(), x.End(), "", "delete assignment")
		}
	case *ast.IncDecStmt:
		add(x, x.Pos(), x.End(), "", "delete inc/dec")
	case *ast.DeferStmt:
		add(x, x.Pos(), x.End(), "", "delete defer")
	case *ast.GoStmt:
		add(x, x.Pos(), x.End(), "", "delete go statement")
	case *ast.IfStmt:
		if x.Else == nil && x.Init == nil {
			add(x, x.Pos(), x.End(), "", "delete if statement")
		}
	}
}
