module mutate

go 1.23
