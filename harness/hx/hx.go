// Package hx: helpers shared by the verification harness groups (case files,
// hex, PRNG-driven generators, JSON tokeniser).  Compiled inside the ysshra
// module through `go build -overlay`; never part of /repo.
package hx

import (
	"bufio"
	"bytes"
	"encoding/hex"
	"encoding/json"
	"flag"
	"fmt"
	"math/rand"
	"os"
	"path/filepath"
	"strconv"
	"strings"
)

type Out struct {
	cases, impl *bufio.Writer
	fc, fi      *os.File
	N           int
}

var (
	Seed   = flag.Int64("seed", 1, "PRNG seed")
	Count  = flag.Int("n", 1000, "number of generated cases per family (scaled per family)")
	OutDir = flag.String("out", "", "output directory (cases.tsv, impl.tsv)")
	Replay = flag.String("replay", "", "re-run the case lines of this file instead of generating")
	Only   = flag.String("only", "", "comma-separated op prefixes to generate (empty = all)")
)

func Open() *Out {
	if *OutDir == "" {
		fmt.Fprintln(os.Stderr, "need -out")
		os.Exit(2)
	}
	os.MkdirAll(*OutDir, 0o755)
	fc, err := os.Create(filepath.Join(*OutDir, "cases.tsv"))
	if err != nil {
		panic(err)
	}
	fi, err := os.Create(filepath.Join(*OutDir, "impl.tsv"))
	if err != nil {
		panic(err)
	}
	return &Out{cases: bufio.NewWriter(fc), impl: bufio.NewWriter(fi), fc: fc, fi: fi}
}

func (o *Out) Close() {
	o.cases.Flush()
	o.impl.Flush()
	o.fc.Close()
	o.fi.Close()
}

// Case writes one case line and the implementation's output for it.
func (o *Out) Case(id, op string, args []string, implOut []string) {
	o.N++
	fmt.Fprintf(o.cases, "%s\t%s\t%s\n", id, op, strings.Join(args, "\t"))
	fmt.Fprintf(o.impl, "%s\t%s\n", id, strings.Join(implOut, "\t"))
	o.cases.Flush()
	o.impl.Flush()
}

// Serial: VERIF_SERIAL=1 — run one case at a time, write each as soon as it is done, and leave a
// marker naming the case in flight, so that a case that kills the whole process (a Go runtime
// fatal error cannot be recovered) can be told from the others. bin/check reruns a crashed
// harness in this mode.
func Serial() bool { return os.Getenv("VERIF_SERIAL") == "1" }

// MarkRunning records the case about to run (serial mode only).
func MarkRunning(id, op string, args []string) {
	if Serial() && *OutDir != "" {
		os.WriteFile(filepath.Join(*OutDir, "running.tsv"), []byte(id+"\t"+op+"\t"+strings.Join(args, "\t")+"\n"), 0o644)
	}
}

// Batch runs fn over the argument sets with `workers` goroutines and writes the cases in order.
func (o *Out) Batch(prefix, op string, argSets [][]string, workers int, fn func([]string) []string) {
	if Serial() {
		for i := range argSets {
			id := fmt.Sprintf("%s%d", prefix, i)
			MarkRunning(id, op, argSets[i])
			o.Case(id, op, argSets[i], fn(argSets[i]))
		}
		os.Remove(filepath.Join(*OutDir, "running.tsv"))
		return
	}
	res := make([][]string, len(argSets))
	sem := make(chan struct{}, workers)
	done := make(chan struct{})
	for i := range argSets {
		go func(i int) {
			sem <- struct{}{}
			res[i] = fn(argSets[i])
			<-sem
			done <- struct{}{}
		}(i)
	}
	for range argSets {
		<-done
	}
	for i := range argSets {
		o.Case(fmt.Sprintf("%s%d", prefix, i), op, argSets[i], res[i])
	}
}

func Want(op string) bool {
	if *Only == "" {
		return true
	}
	for _, p := range strings.Split(*Only, ",") {
		if strings.HasPrefix(op, p) {
			return true
		}
	}
	return false
}

// ReplayLines returns the case lines (id, op, args…) of the replay file.
func ReplayLines() [][]string {
	if *Replay == "" {
		return nil
	}
	data, err := os.ReadFile(*Replay)
	if err != nil {
		panic(err)
	}
	var out [][]string
	for _, l := range strings.Split(string(data), "\n") {
		l = strings.TrimRight(l, "\r")
		if l == "" || strings.HasPrefix(l, "#") {
			continue
		}
		out = append(out, strings.Split(l, "\t"))
	}
	return out
}

func Hex(b []byte) string {
	if len(b) == 0 {
		return "-"
	}
	return hex.EncodeToString(b)
}

func HexS(s string) string { return Hex([]byte(s)) }

func UnHex(s string) []byte {
	if s == "-" {
		return nil
	}
	b, err := hex.DecodeString(s)
	if err != nil {
		panic("bad hex " + s)
	}
	return b
}

func B01(b bool) string {
	if b {
		return "1"
	}
	return "0"
}

func StrList(l []string) string {
	var p []string
	for _, s := range l {
		p = append(p, HexS(s))
	}
	return "[" + strings.Join(p, "|") + "]"
}

func ParseStrList(s string) []string {
	if s == "[]" {
		return []string{}
	}
	var out []string
	for _, p := range strings.Split(s[1:len(s)-1], "|") {
		out = append(out, string(UnHex(p)))
	}
	return out
}

// Tok renders a JSON text in the driver's token-tree form, "!" if not valid JSON.
func Tok(text []byte) string {
	if !json.Valid(text) {
		return "!"
	}
	dec := json.NewDecoder(bytes.NewReader(text))
	dec.UseNumber()
	var b strings.Builder
	if !tokValue(dec, &b) {
		return "!"
	}
	return b.String()
}

func tokValue(dec *json.Decoder, b *strings.Builder) bool {
	t, err := dec.Token()
	if err != nil {
		return false
	}
	return tokFrom(dec, t, b)
}

func tokFrom(dec *json.Decoder, t json.Token, b *strings.Builder) bool {
	switch x := t.(type) {
	case nil:
		b.WriteString("z")
	case bool:
		if x {
			b.WriteString("t")
		} else {
			b.WriteString("f")
		}
	case json.Number:
		if _, err := strconv.ParseFloat(string(x), 64); err != nil {
			b.WriteString("N")
		} else {
			b.WriteString("n")
		}
		b.WriteString(string(x))
		b.WriteString(";")
	case string:
		b.WriteString("s" + HexS(x) + ";")
	case json.Delim:
		switch x {
		case '[':
			b.WriteString("[")
			for dec.More() {
				if !tokValue(dec, b) {
					return false
				}
			}
			if _, err := dec.Token(); err != nil {
				return false
			}
			b.WriteString("]")
		case '{':
			b.WriteString("{")
			for dec.More() {
				k, err := dec.Token()
				if err != nil {
					return false
				}
				ks, ok := k.(string)
				if !ok {
					return false
				}
				b.WriteString("s" + HexS(ks) + ";")
				if !tokValue(dec, b) {
					return false
				}
			}
			if _, err := dec.Token(); err != nil {
				return false
			}
			b.WriteString("}")
		default:
			return false
		}
	default:
		return false
	}
	return true
}

// ---------------------------------------------------------------- generators

type Gen struct{ R *rand.Rand }

func NewGen(seed int64) *Gen { return &Gen{rand.New(rand.NewSource(seed))} }

func (g *Gen) Intn(n int) int { return g.R.Intn(n) }
func (g *Gen) Bool() bool     { return g.R.Intn(2) == 0 }
func (g *Gen) Pick(l []string) string {
	return l[g.R.Intn(len(l))]
}

var interesting = []string{
	// text that looks like an escape sequence of some notation (a literal backslash and letters)
	`\u0026`, `a\u003cb`, `x\u003e`, `\n`, `\\`, `\"q`, `&amp;`, `%00`, `\x41`, `\u00e9`,
	"", "a", "alice", "bob", "host-1.example.com", "10.0.0.1", "::1", "ab12cd34ef",
	`"`, `\`, `a"b`, `a\b`, "<script>", "a&b", "tab\there", "nl\nhere", "\x00", "\x1f", "\x7f",
	"é", "日本語", "😀", "a😀b", " ", " ", "K", "ſ", "user:touch", "x,y", "{}", "[]", "null", " ", "  lead", "trail  ",
	"Screwdriver:alice", "root", strings.Repeat("x", 300),
}

// Str returns a valid-UTF-8 string, mostly drawn from a list of interesting values.
func (g *Gen) Str() string {
	switch g.R.Intn(10) {
	case 0, 1, 2, 3, 4, 5:
		return g.Pick(interesting)
	case 6:
		return g.Pick(interesting) + g.Pick(interesting)
	default:
		n := g.R.Intn(12)
		var b strings.Builder
		for i := 0; i < n; i++ {
			switch g.R.Intn(6) {
			case 0:
				b.WriteRune(rune(g.R.Intn(0x80)))
			case 1:
				b.WriteRune(rune(0x80 + g.R.Intn(0x700)))
			case 2:
				r := rune(0x800 + g.R.Intn(0xF000))
				if r >= 0xD800 && r <= 0xDFFF {
					r = 0x4E2D
				}
				b.WriteRune(r)
			case 3:
				b.WriteRune(rune(0x10000 + g.R.Intn(0x10000)))
			default:
				b.WriteByte(byte('a' + g.R.Intn(26)))
			}
		}
		return b.String()
	}
}

// Name returns a short plain identifier.
func (g *Gen) Name() string {
	n := 1 + g.R.Intn(8)
	var b strings.Builder
	for i := 0; i < n; i++ {
		b.WriteByte(byte('a' + g.R.Intn(26)))
	}
	return b.String()
}

func (g *Gen) Bytes(n int) []byte {
	b := make([]byte, n)
	g.R.Read(b)
	return b
}
