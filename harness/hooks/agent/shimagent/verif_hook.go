//go:build verif

package shimagent

import "reflect"

// VerifWaiters reports how many goroutines are blocked in Wait(code) (-1: code outside the table).
// Verification hook, supplied by `go build -overlay`; never part of the repository.
func (s *Server) VerifWaiters(code byte) int {
	if int(code) >= len(s.conds) {
		return -1
	}
	c := s.conds[code]
	c.L.Lock()
	defer c.L.Unlock()
	nl := reflect.ValueOf(c).Elem().FieldByName("notify")
	return int(uint32(nl.FieldByName("wait").Uint()) - uint32(nl.FieldByName("notify").Uint()))
}

// VerifCondsLen is the size of the condition-variable table.
func (s *Server) VerifCondsLen() int { return len(s.conds) }
