// Harness group `crypki`: the real crypki.Signer against real TLS gRPC Signing servers on
// 127.0.0.1 … 127.0.0.4 (one port), and backoff.Config.Backoff.
package main

import (
	"context"
	"crypto/ecdsa"
	"crypto/ed25519"
	"crypto/elliptic"
	"crypto/rand"
	"crypto/tls"
	"crypto/x509"
	"crypto/x509/pkix"
	"encoding/pem"
	"flag"
	"fmt"
	"io"
	"log"
	"math/big"
	"net"
	"os"
	"path/filepath"
	"strconv"
	"strings"
	"sync"
	"sync/atomic"
	"time"

	"github.com/rs/zerolog"
	"github.com/theparanoids/crypki/proto"
	"golang.org/x/crypto/ssh"
	"google.golang.org/grpc"
	"google.golang.org/grpc/codes"
	"google.golang.org/grpc/credentials"
	"google.golang.org/grpc/grpclog"
	"google.golang.org/grpc/peer"
	"google.golang.org/grpc/status"

	"github.com/theparanoids/ysshra/crypki"
	"github.com/theparanoids/ysshra/internal/backoff"
	"github.com/theparanoids/ysshra/internal/verifharness/hx"
)

type opFn func(args []string) []string

var ops = map[string]opFn{"sign": runSign, "backoff": runBackoff}

func main() {
	flag.Parse()
	log.SetOutput(io.Discard)
	zerolog.SetGlobalLevel(zerolog.Disabled)
	grpclog.SetLoggerV2(grpclog.NewLoggerV2(io.Discard, io.Discard, io.Discard))
	out := hx.Open()
	defer out.Close()
	defer func() {
		if w != nil {
			os.RemoveAll(w.dir)
		}
	}()
	if lines := hx.ReplayLines(); lines != nil {
		for _, l := range lines {
			if len(l) >= 2 {
				if fn, ok := ops[l[1]]; ok {
					out.Case(l[0], l[1], l[2:], safe(fn, l[2:]))
				}
			}
		}
		return
	}
	g := hx.NewGen(*hx.Seed)
	if hx.Want("backoff") {
		genBackoff(g, out)
	}
	if hx.Want("sign") {
		genSign(g, out)
	}
}

func safe(fn opFn, args []string) (res []string) {
	defer func() {
		if r := recover(); r != nil {
			res = []string{"crash:" + hx.HexS(fmt.Sprint(r))}
		}
	}()
	return fn(args)
}

// ---------------------------------------------------------------- PKI

type ca struct {
	key  *ecdsa.PrivateKey
	cert *x509.Certificate
	pem  []byte
}

func newCA(cn string) *ca {
	k, _ := ecdsa.GenerateKey(elliptic.P256(), rand.Reader)
	t := &x509.Certificate{SerialNumber: big.NewInt(time.Now().UnixNano()), Subject: pkix.Name{CommonName: cn}, NotBefore: time.Now().Add(-time.Hour),
		NotAfter: time.Now().Add(48 * time.Hour), IsCA: true, BasicConstraintsValid: true, KeyUsage: x509.KeyUsageCertSign | x509.KeyUsageDigitalSignature}
	der, err := x509.CreateCertificate(rand.Reader, t, t, &k.PublicKey, k)
	if err != nil {
		panic(err)
	}
	c, _ := x509.ParseCertificate(der)
	return &ca{k, c, pem.EncodeToMemory(&pem.Block{Type: "CERTIFICATE", Bytes: der})}
}

func (a *ca) leaf(cn string, ips []net.IP, notBefore, notAfter time.Time, client bool) tls.Certificate {
	k, _ := ecdsa.GenerateKey(elliptic.P256(), rand.Reader)
	t := &x509.Certificate{SerialNumber: big.NewInt(time.Now().UnixNano()), Subject: pkix.Name{CommonName: cn}, NotBefore: notBefore, NotAfter: notAfter,
		IPAddresses: ips, KeyUsage: x509.KeyUsageDigitalSignature, ExtKeyUsage: []x509.ExtKeyUsage{x509.ExtKeyUsageServerAuth, x509.ExtKeyUsageClientAuth}}
	parent, pk := a.cert, a.key
	if a == nil {
		panic("nil ca")
	}
	der, err := x509.CreateCertificate(rand.Reader, t, parent, &k.PublicKey, pk)
	if err != nil {
		panic(err)
	}
	return tls.Certificate{Certificate: [][]byte{der}, PrivateKey: k}
}

func selfSignedLeaf(ips []net.IP) tls.Certificate {
	k, _ := ecdsa.GenerateKey(elliptic.P256(), rand.Reader)
	t := &x509.Certificate{SerialNumber: big.NewInt(7), Subject: pkix.Name{CommonName: "self"}, NotBefore: time.Now().Add(-time.Hour), NotAfter: time.Now().Add(time.Hour),
		IPAddresses: ips, KeyUsage: x509.KeyUsageDigitalSignature, ExtKeyUsage: []x509.ExtKeyUsage{x509.ExtKeyUsageServerAuth}}
	der, _ := x509.CreateCertificate(rand.Reader, t, t, &k.PublicKey, k)
	return tls.Certificate{Certificate: [][]byte{der}, PrivateKey: k}
}

type world struct {
	dir                 string
	ca1, ca2, other     *ca
	clientCA, clientCA2 *ca
	clientCertFile      string
	clientKeyFile       string
	caFiles             []string
	sshCA               ssh.Signer
	userKey             ssh.PublicKey
}

var (
	w     *world
	wOnce sync.Once
)

func getWorld() *world {
	wOnce.Do(func() {
		d, err := os.MkdirTemp("", "verifcrypki")
		if err != nil {
			panic(err)
		}
		w = &world{dir: d, ca1: newCA("configured CA 1"), ca2: newCA("configured CA 2"), other: newCA("other CA"), clientCA: newCA("client CA"), clientCA2: newCA("other client CA")}
		cl := w.clientCA.leaf("ysshra", nil, time.Now().Add(-time.Hour), time.Now().Add(24*time.Hour), true)
		w.clientCertFile = filepath.Join(d, "client.crt")
		w.clientKeyFile = filepath.Join(d, "client.key")
		os.WriteFile(w.clientCertFile, pem.EncodeToMemory(&pem.Block{Type: "CERTIFICATE", Bytes: cl.Certificate[0]}), 0o600)
		kb, _ := x509.MarshalECPrivateKey(cl.PrivateKey.(*ecdsa.PrivateKey))
		os.WriteFile(w.clientKeyFile, pem.EncodeToMemory(&pem.Block{Type: "EC PRIVATE KEY", Bytes: kb}), 0o600)
		for i, c := range []*ca{w.ca1, w.ca2} {
			f := filepath.Join(d, fmt.Sprintf("ca%d.pem", i+1))
			os.WriteFile(f, c.pem, 0o600)
			w.caFiles = append(w.caFiles, f)
		}
		_, sk, _ := ed25519.GenerateKey(rand.Reader)
		w.sshCA, _ = ssh.NewSignerFromKey(sk)
		_, uk, _ := ed25519.GenerateKey(rand.Reader)
		us, _ := ssh.NewSignerFromKey(uk)
		w.userKey = us.PublicKey()
	})
	return w
}

// ---------------------------------------------------------------- servers

type signServer struct {
	proto.UnimplementedSigningServer
	behav string
	mu    sync.Mutex
	calls int
	sawCl bool
	reqs  []string
}

func (s *signServer) PostUserSSHCertificate(ctx context.Context, r *proto.SSHCertificateSigningRequest) (*proto.SSHKey, error) {
	s.mu.Lock()
	s.calls++
	if p, ok := peer.FromContext(ctx); ok {
		if ti, ok := p.AuthInfo.(credentials.TLSInfo); ok && len(ti.State.PeerCertificates) > 0 && ti.State.PeerCertificates[0].Subject.CommonName == "ysshra" {
			s.sawCl = true
		}
	}
	s.reqs = append(s.reqs, r.KeyId+"|"+strings.Join(r.Principals, ",")+"|"+strconv.FormatUint(r.Validity, 10))
	s.mu.Unlock()
	f := strings.Split(s.behav, ".")
	if f[0] == "flaky" && len(f) > 2 { // flaky.<k>.<behaviour>: the first k requests fail, later ones get <behaviour>
		k, _ := strconv.Atoi(f[1])
		s.mu.Lock()
		nth := s.calls
		s.mu.Unlock()
		if nth <= k {
			return nil, status.Error(codes.Unavailable, "scripted: not yet")
		}
		f = f[2:]
	}
	switch f[0] {
	case "ok": // ok.<n certs>.<comment shape>
		n, _ := strconv.Atoi(f[1])
		var b strings.Builder
		for i := 0; i < n; i++ {
			c := &ssh.Certificate{Key: getWorld().userKey, Serial: uint64(100 + i), CertType: ssh.UserCert, KeyId: "k", ValidBefore: ssh.CertTimeInfinity}
			c.SignCert(rand.Reader, getWorld().sshCA)
			line := strings.TrimSuffix(string(ssh.MarshalAuthorizedKey(c)), "\n")
			switch f[2] {
			case "c":
				line += fmt.Sprintf(" comment-%d", i)
			case "sp":
				line += fmt.Sprintf(" two words %d", i)
			case "none":
			}
			if i%2 == 1 && len(f) > 3 && f[3] == "junk" {
				b.WriteString("this line is not a key\n\n# a comment line\n")
			}
			b.WriteString(line + "\n")
		}
		return &proto.SSHKey{Key: b.String()}, nil
	case "empty":
		return &proto.SSHKey{Key: ""}, nil
	case "garbage":
		return &proto.SSHKey{Key: "not a key at all\nnor this\n"}, nil
	case "err":
		c, _ := strconv.Atoi(f[1])
		return nil, status.Error(codes.Code(c), "scripted")
	case "slow":
		select {
		case <-ctx.Done():
			return nil, ctx.Err()
		case <-time.After(3 * time.Second):
			return nil, status.Error(codes.DeadlineExceeded, "late")
		}
	}
	return nil, status.Error(codes.Internal, "bad behaviour spec")
}

type running struct {
	srv *grpc.Server
	ss  *signServer
}

// endpoint spec: <identity>:<clientmode>:<behaviour>
// identity: good1 good2 otherca selfsigned expired notyet wrongname tls10 tls11 tls12 tls13 down
// clientmode: none request requesthint require requireother ifgiven ifgivenother
func startServer(ip string, port int, spec string) (*running, error) {
	w := getWorld()
	f := strings.SplitN(spec, ":", 3)
	ident, cmode, behav := f[0], f[1], f[2]
	if ident == "down" {
		return &running{nil, &signServer{behav: behav}}, nil
	}
	ips := []net.IP{net.ParseIP(ip)}
	now := time.Now()
	var cert tls.Certificate
	cfg := &tls.Config{MinVersion: tls.VersionTLS10}
	switch ident {
	case "good1":
		cert = w.ca1.leaf("crypki", ips, now.Add(-time.Hour), now.Add(time.Hour), false)
	case "good2":
		cert = w.ca2.leaf("crypki", ips, now.Add(-time.Hour), now.Add(time.Hour), false)
	case "otherca":
		cert = w.other.leaf("crypki", ips, now.Add(-time.Hour), now.Add(time.Hour), false)
	case "selfsigned":
		cert = selfSignedLeaf(ips)
	case "expired":
		cert = w.ca1.leaf("crypki", ips, now.Add(-2*time.Hour), now.Add(-time.Hour), false)
	case "notyet":
		cert = w.ca1.leaf("crypki", ips, now.Add(time.Hour), now.Add(2*time.Hour), false)
	case "swap":
		// the genuine certificate for the first handshake; afterwards a look-alike issued by a CA that
		// merely carries the genuine CA's name, with the genuine certificate's serial number and names
		cert = w.ca1.leaf("crypki", ips, now.Add(-time.Hour), now.Add(time.Hour), false)
		genuine, _ := x509.ParseCertificate(cert.Certificate[0])
		fk, _ := ecdsa.GenerateKey(elliptic.P256(), rand.Reader)
		ft := &x509.Certificate{SerialNumber: w.ca1.cert.SerialNumber, Subject: w.ca1.cert.Subject, NotBefore: now.Add(-time.Hour), NotAfter: now.Add(48 * time.Hour),
			IsCA: true, BasicConstraintsValid: true, KeyUsage: x509.KeyUsageCertSign | x509.KeyUsageDigitalSignature, SubjectKeyId: w.ca1.cert.SubjectKeyId}
		fder, _ := x509.CreateCertificate(rand.Reader, ft, ft, &fk.PublicKey, fk)
		fca, _ := x509.ParseCertificate(fder)
		lk, _ := ecdsa.GenerateKey(elliptic.P256(), rand.Reader)
		lt := &x509.Certificate{SerialNumber: genuine.SerialNumber, Subject: genuine.Subject, NotBefore: genuine.NotBefore, NotAfter: genuine.NotAfter,
			IPAddresses: ips, KeyUsage: x509.KeyUsageDigitalSignature, ExtKeyUsage: []x509.ExtKeyUsage{x509.ExtKeyUsageServerAuth, x509.ExtKeyUsageClientAuth}}
		lder, err := x509.CreateCertificate(rand.Reader, lt, fca, &lk.PublicKey, fk)
		if err != nil {
			panic(err)
		}
		forged := tls.Certificate{Certificate: [][]byte{lder}, PrivateKey: lk}
		var hs int32
		first := cert
		cfg.GetCertificate = func(*tls.ClientHelloInfo) (*tls.Certificate, error) {
			if atomic.AddInt32(&hs, 1) == 1 {
				return &first, nil
			}
			return &forged, nil
		}
	case "lapsing": // valid while the signer is being set up, expired by the time of the signing call
		cert = w.ca1.leaf("crypki", ips, now.Add(-time.Hour), now.Add(3*time.Second), false)
	case "wrongname":
		cert = w.ca1.leaf("crypki", []net.IP{net.ParseIP("10.9.9.9")}, now.Add(-time.Hour), now.Add(time.Hour), false)
	case "tls12": // exactly TLS 1.2: genuine
		cert = w.ca1.leaf("crypki", ips, now.Add(-time.Hour), now.Add(time.Hour), false)
		cfg.MinVersion, cfg.MaxVersion = tls.VersionTLS12, tls.VersionTLS12
	case "tls13": // TLS 1.3 only: genuine
		cert = w.ca1.leaf("crypki", ips, now.Add(-time.Hour), now.Add(time.Hour), false)
		cfg.MinVersion = tls.VersionTLS13
	case "tls11", "tls10":
		cert = w.ca1.leaf("crypki", ips, now.Add(-time.Hour), now.Add(time.Hour), false)
		cfg.MaxVersion = tls.VersionTLS11
		if ident == "tls10" {
			cfg.MaxVersion = tls.VersionTLS10
		}
		// suites that exist below TLS 1.2, set explicitly (gRPC would otherwise restrict the server to
		// the HTTP/2-approved ones, none of which exists there): a client willing to speak TLS 1.0 / 1.1
		// can complete the handshake with this server
		for _, cs := range tls.CipherSuites() {
			for _, v := range cs.SupportedVersions {
				if v == cfg.MaxVersion {
					cfg.CipherSuites = append(cfg.CipherSuites, cs.ID)
					break
				}
			}
		}
	default:
		return nil, fmt.Errorf("identity %s", ident)
	}
	if cfg.GetCertificate == nil { // (a server that picks its certificate per handshake has none configured)
		cfg.Certificates = []tls.Certificate{cert}
	}
	pool := x509.NewCertPool()
	switch cmode {
	case "request":
		cfg.ClientAuth = tls.RequestClientCert
	case "requesthint": // asks without requiring, and names another issuer as acceptable
		pool.AddCert(w.clientCA2.cert)
		cfg.ClientAuth, cfg.ClientCAs = tls.RequestClientCert, pool
	case "require":
		pool.AddCert(w.clientCA.cert)
		cfg.ClientAuth, cfg.ClientCAs = tls.RequireAndVerifyClientCert, pool
	case "requireother":
		pool.AddCert(w.clientCA2.cert)
		cfg.ClientAuth, cfg.ClientCAs = tls.RequireAndVerifyClientCert, pool
	case "ifgivenother": // does not insist on a certificate but verifies the one it is given, against another issuer
		pool.AddCert(w.clientCA2.cert)
		cfg.ClientAuth, cfg.ClientCAs = tls.VerifyClientCertIfGiven, pool
	case "ifgiven":
		pool.AddCert(w.clientCA.cert)
		cfg.ClientAuth, cfg.ClientCAs = tls.VerifyClientCertIfGiven, pool
	}
	l, err := net.Listen("tcp", fmt.Sprintf("%s:%d", ip, port))
	if err != nil {
		return nil, err
	}
	ss := &signServer{behav: behav}
	srv := grpc.NewServer(grpc.Creds(credentials.NewTLS(cfg)))
	proto.RegisterSigningServer(srv, ss)
	go srv.Serve(l)
	return &running{srv, ss}, nil
}

// sign args: endpoints "spec|spec|…" or "-", number of CA bundle files (1|2), retries
// output: result ("ok <n> <comment shape>" | "err"), calls per endpoint "[1.0]", client certificate seen per endpoint, requests unmodified
func runSign(args []string) []string {
	w := getWorld()
	var specs []string
	if args[0] != "-" {
		specs = strings.Split(args[0], "|")
	}
	nfiles, _ := strconv.Atoi(args[1])
	retries, _ := strconv.Atoi(args[2])
	var rs []*running
	var port int
	started := len(specs) == 0
	for attempt := 0; attempt < 200; attempt++ {
		l, err := net.Listen("tcp", "127.0.0.1:0")
		if err != nil {
			panic(err)
		}
		port = l.Addr().(*net.TCPAddr).Port
		l.Close()
		rs = nil
		ok := true
		for i, sp := range specs {
			r, err := startServer(fmt.Sprintf("127.0.0.%d", i+1), port, sp)
			if err != nil {
				ok = false
				break
			}
			rs = append(rs, r)
		}
		if ok {
			started = true
			break
		}
		for _, r := range rs {
			if r.srv != nil {
				r.srv.Stop()
			}
		}
	}
	if !started {
		// not a verdict on the signer: the harness could not set its servers up
		fmt.Fprintln(os.Stderr, "crypki harness: no free port on the loopback addresses after 200 attempts")
		os.Exit(3)
	}
	defer func() {
		for _, r := range rs {
			if r.srv != nil {
				r.srv.Stop()
			}
		}
	}()
	eps := []string{}
	for i := range specs {
		eps = append(eps, fmt.Sprintf("127.0.0.%d", i+1))
	}
	conf := crypki.SignerConfig{TLSClientKeyFile: w.clientKeyFile, TLSClientCertFile: w.clientCertFile, TLSCACertFiles: w.caFiles[:nfiles],
		CrypkiEndpoints: eps, CrypkiPort: uint(port), Retries: uint(retries), PerTryTimeout: 1500 * time.Millisecond}
	signer, err := crypki.NewSigner(conf)
	if err != nil {
		return []string{"newerr"}
	}
	if strings.Contains(args[0], "lapsing:") {
		// the signer exists; let the lapsing server certificates run out before the signing call
		time.Sleep(4500 * time.Millisecond)
	}
	ncalls := 1
	if len(args) > 3 {
		ncalls, _ = strconv.Atoi(args[3])
	}
	var ress, callss, saws []string
	unmodified := "1"
	prevCalls := make([]int, len(rs))
	for call := 0; call < ncalls; call++ {
		for _, r := range rs { // what each server saw is reported per call
			r.ss.mu.Lock()
			r.ss.sawCl = false
			r.ss.mu.Unlock()
		}
		res, calls, saw, unmod := signOnce(signer, w, rs, prevCalls)
		ress, callss, saws = append(ress, res), append(callss, calls), append(saws, saw)
		if unmod != "1" {
			unmodified = "0"
		}
	}
	return []string{strings.Join(ress, "/"), strings.Join(callss, "/"), strings.Join(saws, "/"), unmodified}
}

// signOnce: one signing call; which endpoints it reached (request counts since the previous call)
func signOnce(signer *crypki.Signer, w *world, rs []*running, prevCalls []int) (string, string, string, string) {
	req := &proto.SSHCertificateSigningRequest{KeyMeta: &proto.KeyMeta{Identifier: "id"}, Principals: []string{"zoe", "adam", "mallory"}, Validity: 3600, KeyId: "the-key-id",
		PublicKey: string(ssh.MarshalAuthorizedKey(w.userKey))}
	ctx, cancel := context.WithTimeout(context.Background(), 20*time.Second)
	defer cancel()
	certs, comments, err := signer.Sign(ctx, req)
	res := "err"
	if err == nil {
		var serials []string
		for _, c := range certs {
			if cc, ok := c.(*ssh.Certificate); ok {
				serials = append(serials, strconv.FormatUint(cc.Serial, 10))
			} else {
				serials = append(serials, "key")
			}
		}
		var cs []string
		for _, c := range comments {
			cs = append(cs, hx.HexS(c))
		}
		res = "ok [" + strings.Join(serials, ".") + "] [" + strings.Join(cs, ".") + "]"
	}
	var calls, saw []string
	unmodified := "1"
	// the caller's own request object is as it was
	if strings.Join(req.Principals, ",") != "zoe,adam,mallory" || req.KeyId != "the-key-id" || req.Validity != 3600 || req.KeyMeta.GetIdentifier() != "id" {
		unmodified = "0"
	}
	for ri, r := range rs {
		r.ss.mu.Lock()
		calls = append(calls, strconv.Itoa(r.ss.calls-prevCalls[ri]))
		prevCalls[ri] = r.ss.calls
		saw = append(saw, hx.B01(r.ss.sawCl))
		for _, q := range r.ss.reqs {
			if q != "the-key-id|zoe,adam,mallory|3600" {
				unmodified = "0"
			}
		}
		r.ss.mu.Unlock()
	}
	return res, "[" + strings.Join(calls, ".") + "]", "[" + strings.Join(saw, ".") + "]", unmodified
}

func genSign(g *hx.Gen, out *hx.Out) {
	idents := []string{"good1", "good1", "good1", "good2", "otherca", "selfsigned", "expired", "notyet", "wrongname", "tls11", "down", "tls10", "tls12", "tls13"}
	cmodes := []string{"none", "request", "requesthint", "require", "require", "requireother", "ifgiven", "ifgivenother"}
	behavs := []string{"ok.1.c", "ok.1.c", "ok.2.c", "ok.3.sp", "ok.1.none", "ok.3.c.junk", "ok.2.none.junk", "empty", "garbage", "err.2", "err.14", "err.4", "err.7", "err.16", "err.13", "slow"}
	var sets [][]string
	sets = append(sets, []string{"-", "1", "1"})
	sets = append(sets, []string{"-", "2", "1"})
	// every single way an endpoint can fail, followed by a genuine endpoint that signs: every gRPC
	// status code, an empty / unparsable reply, a reply after the deadline, and every way the TLS
	// identity can be wrong
	for code := 1; code <= 16; code++ {
		sets = append(sets, []string{fmt.Sprintf("good1:none:err.%d|good2:request:ok.1.c", code), "2", "1"})
	}
	// every way a server can ask for the client certificate, alone and in front of one that signs
	for _, cm := range []string{"none", "request", "requesthint", "require", "requireother", "ifgiven", "ifgivenother"} {
		sets = append(sets, []string{"good1:" + cm + ":ok.1.c", "2", "1"})
		sets = append(sets, []string{"good1:" + cm + ":ok.1.c|good2:require:ok.2.c", "2", "1"})
	}
	for _, b := range []string{"empty", "garbage", "slow"} {
		sets = append(sets, []string{"good1:require:" + b + "|good1:none:ok.2.c", "2", "1"})
	}
	// several calls on one signer: every call starts at the first endpoint again and judges every
	// server as it is now — a first endpoint that recovers is used again; a server that shows a
	// look-alike certificate after a genuine one is a failed endpoint from then on
	for _, sq := range [][]string{
		{"good1:none:flaky.1.ok.1.c|good2:none:ok.2.c", "3"},
		{"good1:none:err.14|good2:request:ok.2.c", "3"},
		{"good1:require:flaky.2.ok.1.c|good2:none:flaky.1.ok.2.c|good1:none:ok.3.sp", "4"},
		{"swap:none:ok.1.c|good2:none:ok.2.c", "3"},
		{"swap:require:ok.1.c", "2"},
		{"good1:none:ok.1.c|swap:none:ok.2.c", "2"},
		{"good1:none:flaky.2.ok.1.c|swap:none:ok.3.sp|good2:none:ok.2.c", "4"},
		{"good1:none:ok.1.c", "3"},
	} {
		sets = append(sets, []string{sq[0], "2", "1", sq[1]})
	}
	// a server certificate that runs out between the set-up of the signer and the signing call
	sets = append(sets, []string{"lapsing:none:ok.1.c|good2:none:ok.2.c", "2", "1"})
	sets = append(sets, []string{"lapsing:require:ok.1.c", "2", "1"})
	for _, id := range []string{"otherca", "selfsigned", "expired", "notyet", "wrongname", "tls11", "tls10", "down"} {
		sets = append(sets, []string{id + ":none:ok.1.c|good1:require:ok.1.c", "2", "1"})
		sets = append(sets, []string{id + ":request:ok.1.c|" + id + ":none:ok.1.c|good2:none:ok.3.sp", "2", "1"})
	}
	for i := 0; i < *hx.Count; i++ {
		n := 1 + g.Intn(4)
		var specs []string
		slow := false
		for j := 0; j < n; j++ {
			b := behavs[g.Intn(len(behavs))]
			if b == "slow" {
				if slow {
					b = "err.14"
				}
				slow = true
			}
			specs = append(specs, idents[g.Intn(len(idents))]+":"+cmodes[g.Intn(len(cmodes))]+":"+b)
		}
		nfiles := 2
		if g.Intn(3) == 0 {
			nfiles = 1
		}
		sets = append(sets, []string{strings.Join(specs, "|"), strconv.Itoa(nfiles), "1"})
	}
	// serialised: the servers of different cases share the loopback addresses
	for i, a := range sets {
		out.Case(fmt.Sprintf("sg%d", i), "sign", a, safe(runSign, a))
	}
}

// ---------------------------------------------------------------- backoff

// backoff args: base ns, multiplier (decimal), max ns, jitter (decimal), attempt
// output: min and max of 6 draws (ns)
func runBackoff(args []string) []string {
	base, _ := strconv.ParseInt(args[0], 10, 64)
	mult, _ := strconv.ParseFloat(args[1], 64)
	max, _ := strconv.ParseInt(args[2], 10, 64)
	jit, _ := strconv.ParseFloat(args[3], 64)
	att, _ := strconv.ParseUint(args[4], 10, 64)
	c := backoff.Config{BaseDelay: time.Duration(base), Multiplier: mult, MaxDelay: time.Duration(max), Jitter: jit}
	lo, hi := int64(1<<63-1), int64(-1<<63)
	for i := 0; i < 6; i++ {
		d := int64(c.Backoff(uint(att)))
		if d < lo {
			lo = d
		}
		if d > hi {
			hi = d
		}
		time.Sleep(time.Microsecond)
	}
	return []string{strconv.FormatInt(lo, 10), strconv.FormatInt(hi, 10)}
}

func genBackoff(g *hx.Gen, out *hx.Out) {
	bases := []int64{0, 1, 1000, 1e6, 1e9, 2e9, 15e9, 3600e9}
	mults := []string{"1", "1.1", "1.5", "2", "3", "10"}
	jits := []string{"0", "0.2", "0.5", "1"}
	atts := []uint64{0, 1, 2, 3, 5, 10, 40, 64, 100, 646, 647, 648, 1000, 65535, 1 << 31, 1<<32 - 1}
	n := 0
	emit := func(a []string) {
		out.Case(fmt.Sprintf("bo%d", n), "backoff", a, safe(runBackoff, a))
		n++
	}
	emit([]string{"2000000000", "3", "15000000000", "0.2", "1"})
	for i := 0; i < *hx.Count*4; i++ {
		b := bases[g.Intn(len(bases))]
		mx := b
		switch g.Intn(4) {
		case 0:
		case 1:
			mx = b * int64(1+g.Intn(10))
		case 2:
			mx = b + int64(g.Intn(1000000))
		default:
			mx = []int64{15e9, 3600e9, 1 << 40, 1 << 61}[g.Intn(4)]
			if mx < b {
				mx = b
			}
		}
		emit([]string{strconv.FormatInt(b, 10), mults[g.Intn(len(mults))], strconv.FormatInt(mx, 10), jits[g.Intn(len(jits))], strconv.FormatUint(atts[g.Intn(len(atts))], 10)})
	}
	// the representability corner: maximum near MaxInt64 with jitter (known finding F9b)
	emit([]string{"1000000000", "3", "9223372036854775807", "1", "60"})
}
