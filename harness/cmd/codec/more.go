package main

import "github.com/theparanoids/ysshra/internal/verifharness/hx"

// registerMore is extended by further op families of this group.
func registerMore(g *hx.Gen, out *hx.Out) {}
