package main

import "github.com/theparanoids/ysshra/internal/verifharness/hx"

// registerMore is extended by further op families of this group.
func registerMore(g *hx.Gen, out *hx.Out) {
	if hx.Want("msg") {
		genMsg(g, out)
	}
	if hx.Want("param") {
		genParam(g, out)
	}
}

func init() {
	ops["msg.dec"] = runMsgDec
	ops["msg.enc"] = runMsgEnc
	ops["param.new"] = runParamNew
}
