package main

import (
	"crypto/x509"
	"encoding/json"
	"fmt"
	"net"
	"regexp"
	"sort"
	"strconv"
	"strings"

	"github.com/theparanoids/ysshra/csr"
	"github.com/theparanoids/ysshra/internal/verifharness/hx"
	"github.com/theparanoids/ysshra/message"
)

// canonical text of a decoded interface{} value (same rules as the driver's canonVal)
func canonAny(v interface{}) string {
	switch x := v.(type) {
	case nil:
		return "z"
	case bool:
		if x {
			return "t"
		}
		return "f"
	case float64, int, int64, json.Number:
		return "n?;"
	case string:
		return "s" + hx.HexS(x) + ";"
	case []interface{}:
		var b strings.Builder
		b.WriteString("[")
		for _, e := range x {
			b.WriteString(canonAny(e))
		}
		b.WriteString("]")
		return b.String()
	case map[string]interface{}:
		return canonMap(x)
	}
	return fmt.Sprintf("?%T", v)
}

func canonMap(m map[string]interface{}) string {
	keys := make([]string, 0, len(m))
	for k := range m {
		keys = append(keys, k)
	}
	sort.Strings(keys)
	var b strings.Builder
	b.WriteString("{")
	for _, k := range keys {
		b.WriteString("s" + hx.HexS(k) + ";" + canonAny(m[k]))
	}
	b.WriteString("}")
	return b.String()
}

func showAttrs(a *message.Attributes) string {
	ts := "nil"
	if a.TouchlessSudo != nil {
		ts = strings.Join([]string{hx.B01(a.TouchlessSudo.IsFirefighter), hx.HexS(a.TouchlessSudo.Hosts), strconv.FormatInt(a.TouchlessSudo.Time, 10)}, ",")
	}
	return "at(" + strings.Join([]string{strconv.Itoa(a.IfVer), hx.HexS(a.Username), hx.HexS(a.Hostname), hx.HexS(a.SSHClientVersion),
		strconv.Itoa(int(a.CAPubKeyAlgo)), strconv.Itoa(int(a.SignatureAlgo)), hx.B01(a.HardKey), hx.B01(a.Touch2SSH), ts, canonMap(a.Exts)}, "/") + ")"
}

// anyFromTok rebuilds a Go value from a token tree (only the forms the generator emits).
func anyFromTok(s string, pos *int) interface{} {
	c := s[*pos]
	*pos++
	switch c {
	case 'z':
		return nil
	case 't':
		return true
	case 'f':
		return false
	case 'n':
		j := strings.IndexByte(s[*pos:], ';')
		lit := s[*pos : *pos+j]
		*pos += j + 1
		f, _ := strconv.ParseFloat(lit, 64)
		return f
	case 's':
		j := strings.IndexByte(s[*pos:], ';')
		h := s[*pos : *pos+j]
		*pos += j + 1
		return string(hx.UnHex(h))
	case '[':
		arr := []interface{}{}
		for s[*pos] != ']' {
			arr = append(arr, anyFromTok(s, pos))
		}
		*pos++
		return arr
	case '{':
		m := map[string]interface{}{}
		for s[*pos] != '}' {
			k := anyFromTok(s, pos).(string)
			m[k] = anyFromTok(s, pos)
		}
		*pos++
		return m
	}
	panic("bad tok " + s)
}

func parseAttrs(s string) *message.Attributes {
	f := strings.Split(s[3:len(s)-1], "/")
	a := &message.Attributes{}
	a.IfVer, _ = strconv.Atoi(f[0])
	a.Username, a.Hostname, a.SSHClientVersion = string(hx.UnHex(f[1])), string(hx.UnHex(f[2])), string(hx.UnHex(f[3]))
	ca, _ := strconv.Atoi(f[4])
	sa, _ := strconv.Atoi(f[5])
	a.CAPubKeyAlgo, a.SignatureAlgo = x509.PublicKeyAlgorithm(ca), x509.SignatureAlgorithm(sa)
	a.HardKey, a.Touch2SSH = f[6] == "1", f[7] == "1"
	if f[8] != "nil" {
		t := strings.Split(f[8], ",")
		tm, _ := strconv.ParseInt(t[2], 10, 64)
		a.TouchlessSudo = &message.TouchlessSudo{IsFirefighter: t[0] == "1", Hosts: string(hx.UnHex(t[1])), Time: tm}
	}
	pos := 0
	m := anyFromTok(f[9], &pos).(map[string]interface{})
	if len(m) > 0 {
		a.Exts = m
	}
	return a
}

func runMsgDec(args []string) []string {
	a, err := message.Unmarshal(string(hx.UnHex(args[1])))
	if err != nil {
		return []string{"err"}
	}
	return []string{"ok", showAttrs(a)}
}

func runMsgEnc(args []string) []string {
	a := parseAttrs(args[0])
	text, err := a.Marshal()
	if err != nil {
		return []string{"refused"}
	}
	dec := "err"
	if b, err := message.Unmarshal(text); err == nil {
		dec = showAttrs(b)
	}
	if a.IfVer < 7 {
		return []string{"legacy", hx.HexS(text), dec}
	}
	return []string{"json", hx.Tok([]byte(text)), dec}
}

var (
	seenTid = map[string]bool{}
	tidRE   = regexp.MustCompile(`^[0-9a-f]{10}$`)
)

func runParamNew(args []string) []string {
	env := map[string]string{"SSH_ORIGINAL_COMMAND": string(hx.UnHex(args[1])), "LOGNAME": string(hx.UnHex(args[2])), "SSH_CONNECTION": string(hx.UnHex(args[3]))}
	argv := hx.ParseStrList(args[4])
	p, err := csr.NewReqParam(func(k string) string { return env[k] }, func() []string { return argv })
	if err != nil {
		return []string{"err"}
	}
	tid := "ok"
	if !tidRE.MatchString(p.TransID) {
		tid = "bad:" + hx.HexS(p.TransID)
	} else if seenTid[p.TransID] {
		tid = "dup:" + p.TransID
	}
	seenTid[p.TransID] = true
	return []string{"ok", strings.Join([]string{hx.HexS(string(p.NamespacePolicy)), hx.HexS(p.HandlerName), hx.HexS(p.ClientIP), hx.HexS(p.LogName),
		hx.HexS(p.ReqUser), hx.HexS(p.ReqHost), tid, p.SSHClientVersion.Marshal(), strconv.Itoa(int(p.SignatureAlgo)), hx.B01(p.Attrs.HardKey),
		strconv.Itoa(int(p.Attrs.CAPubKeyAlgo))}, "/")}
}

// ---------------------------------------------------------------- generators

var versions = []string{"8.1", "9.0", "0.0", "65535.65535", "65536.0", "8", "8.", ".1", "8.1.2", "8.1 ", " 8.1", "٨.١", "8.1\n", "-1.0", "+1.0", "00008.01", "1e1.0", "8.x", "", "7.9p1",
	// components with leading zeros are decimal numbers; values next to and beyond the 16-bit range; twins modulo 2^16
	"010.1", "8.010", "0100.017", "09.08", "00.0", "007.7", "0.00", "65535.0", "0.65535", "65536.1", "1.65536", "65537.65537", "70000.1", "131080.1", "4294967304.1", "18446744073709551624.1", "0x10.1", "1_0.1", "1.0_1"}

func genExts(g *hx.Gen, depth int) string {
	// a canonical (sorted, duplicate-free) token tree object with integer numbers only
	n := g.Intn(4)
	keys := map[string]bool{}
	for i := 0; i < n; i++ {
		keys[g.Pick([]string{"a", "b", "HardKey", "é", "x y", "k=v", "", "Z", "日本"})] = true
	}
	var ks []string
	for k := range keys {
		ks = append(ks, k)
	}
	sort.Strings(ks)
	var b strings.Builder
	b.WriteString("{")
	for _, k := range ks {
		b.WriteString("s" + hx.HexS(k) + ";")
		b.WriteString(genExtVal(g, depth))
	}
	b.WriteString("}")
	return b.String()
}

func genExtVal(g *hx.Gen, depth int) string {
	switch g.Intn(8) {
	case 0:
		return "z"
	case 1:
		return "t"
	case 2:
		return "f"
	case 3:
		return "n" + strconv.Itoa(g.Intn(2000000)-1000000) + ";"
	case 4, 5:
		return "s" + hx.HexS(g.Str()) + ";"
	case 6:
		if depth > 1 {
			return "z"
		}
		k := g.Intn(3)
		s := "["
		for i := 0; i < k; i++ {
			s += genExtVal(g, depth+1)
		}
		return s + "]"
	default:
		if depth > 1 {
			return "t"
		}
		return genExts(g, depth+1)
	}
}

func genAttrs(g *hx.Gen) string {
	str := func() string {
		switch g.Intn(6) {
		case 0:
			return ""
		case 1:
			return g.Str()
		default:
			return g.Pick([]string{"alice", "host1.example.com", "8.1", "bob", "a@b", "a b", "x=y", "é", "u "})
		}
	}
	ifver := []int{0, 5, 6, 7, 8, -1, 100, 6, 7, 1<<32 + 6, 1<<32 + 7, 263, 65543, -249}[g.Intn(14)]
	ver := str()
	if g.Intn(3) > 0 {
		ver = g.Pick(versions)
	}
	ts := "nil"
	if g.Intn(3) > 0 {
		ts = strings.Join([]string{hx.B01(g.Bool()), hx.HexS(g.Pick([]string{"", "h1", "h1,h2", "h 1", "a=b", "é"})), strconv.Itoa([]int{0, 0, 30, -5, 1 << 40, 1 << 31, 1<<31 - 1, -1 << 31, -1<<31 - 1, 1 << 32, 1<<63 - 1, -1 << 63, 1<<32 + 30}[g.Intn(13)])}, ",")
	}
	user, host := str(), str()
	if g.Intn(3) > 0 && user == "" {
		user = "alice"
	}
	if g.Intn(3) > 0 && host == "" {
		host = "h1"
	}
	if g.Intn(3) > 0 && ver == "" {
		ver = "8.1"
	}
	return "at(" + strings.Join([]string{strconv.Itoa(ifver), hx.HexS(user), hx.HexS(host), hx.HexS(ver),
		strconv.Itoa([]int{0, 0, 1, 3, 4, 99, 257, 1<<32 + 3, -1}[g.Intn(9)]), strconv.Itoa([]int{0, 0, 4, 16, 260, 1<<32 + 4, -1}[g.Intn(7)]), hx.B01(g.Bool()), hx.B01(g.Bool()), ts, genExts(g, 0)}, "/") + ")"
}

var legacyTexts = []string{
	"IFVer=6 SSHClientVersion=8.1 req=alice@host1",
	"IFVer=6 req=alice@host1",
	"req=alice@host1 HardKey=true Touch2SSH=1 IsFirefighter=T TouchlessSudoHosts=h1,h2 TouchlessSudoTime=30",
	"req=a@b@c", "req=alice", "req=@", "req=", "req", "IFVer=x req=u@h", "IFVer=99999999999999999999 req=u@h",
	"req=u@h req=v@w", "  req=u@h   extra ", "req=u@h\tHardKey=true", "req=u@h HardKey=yes", "req=u@h TouchlessSudoTime=-9223372036854775809",
	"req=u@h TouchlessSudoTime=+5", "req=u@h k=v=w =x", "SSHClientVersion= req=u@h", "req=u@h  HardKey=true ", "　req=u@h",
	"IFVer=7 SSHClientVersion=8.1 req=alice@host1", "", " ", "null", "req=u@h SSHClientVersion=8.x",
}

func jsonTexts(g *hx.Gen) []string {
	return []string{
		`null`, `true`, `0`, `"req=u@h"`, `[]`, `{}`, ` {} `, `{"username":"u","hostname":"h","sshClientVersion":"8.1"}`,
		`{"ifVer":7,"username":"u","hostname":"h","sshClientVersion":"8.1","touchlessSudo":null,"exts":null}`,
		`{"ifVer":7,"username":"u","hostname":"h","sshClientVersion":"8.1","touchlessSudo":{"isFirefighter":true,"hosts":"a","time":5},"touchlessSudo":{"time":7}}`,
		`{"ifVer":7,"username":"u","hostname":"h","sshClientVersion":"8.1","exts":{"a":1},"exts":{"b":[1,{"c":null}]}}`,
		`{"ifVer":"7","username":"u","hostname":"h","sshClientVersion":"8.1"}`,
		`{"ifVer":7,"username":"","hostname":"h","sshClientVersion":"8.1"}`,
		`{"ifVer":7,"username":"u","hostname":"h","sshClientVersion":""}`,
		`{"IFVER":7,"USERNAME":"u","HOSTNAME":"h","SSHCLIENTVERSION":"8.1"}`,
		`{"ifVer":7,"username":"u","hostname":"h","sshClientVersion":"8.1","hardKey":1}`,
		`{"ifVer":7,"username":"u","hostname":"h","sshClientVersion":"8.1","exts":{"x":1e400}}`,
		`{"ifVer":7,"username":"u","hostname":"h","sshClientVersion":"8.1","exts":[]}`,
		`{"ifVer":7.0,"username":"u","hostname":"h","sshClientVersion":"8.1"}`,
		`{"ifVer":7,"username":"u","hostname":"h","sshClientVersion":"8.1","caPubKeyAlgo":3,"signatureAlgo":-1}`,
		`{"ifVer":7,"username":"u","hostname":"h","sshClientVersion":"8.1"} req=u@h`,
		`{"ifVer":7,"username":"req=x@y","hostname":"h","sshClientVersion":"8.1","touchlessSudo":[]}`,
		`{"ifVer":7,"username":"alice","hostname":"laptop","exts":{"note":"x req=root@bastion y"}}`,
		`{"username":"a req=root@bastion b","hostname":"h"}`,
		`{"hostname":"h","sshClientVersion":"8.1","exts":{"k":" req=u@h SSHClientVersion=8.1 "}}`,
		// long requests (sizes on both sides of 4 KiB and 64 KiB): complete ones, and ones that lack
		// required members while a string inside carries text the legacy parser would accept
		longJSON(3900, true), longJSON(4096, true), longJSON(5000, true), longJSON(70000, true),
		longJSON(4096, false), longJSON(5000, false), longJSON(70000, false),
	}
}

// longJSON: an attribute object padded to at least n bytes by an extension string
func longJSON(n int, complete bool) string {
	pad := strings.Repeat("x", n)
	if complete {
		return `{"ifVer":7,"username":"u","hostname":"h","sshClientVersion":"8.1","exts":{"pad":"` + pad + `","note":"tail"}}`
	}
	return `{"ifVer":7,"username":"","hostname":"","sshClientVersion":"","exts":{"pad":"` + pad + `","note":" req=root@prod.example.com HardKey=true SSHClientVersion=8.1 "}}`
}

// crossText: a JSON attribute object, complete or lacking / emptying required members, whose
// string values carry text that the legacy parser would accept (and vice versa nothing): the
// two formats must never be confused.
func crossText(g *hx.Gen) string {
	legacyish := []string{"x req=root@bastion.example.com y", "req=u@h", " SSHClientVersion=8.1 req=a@b ", "IFVer=6 req=alice@host1 HardKey=true",
		"req=alice@host1 TouchlessSudoHosts=h1 TouchlessSudoTime=30", "a req=b", "req=@", "q req=u@h\tHardKey=true"}
	val := func() string {
		if g.Intn(3) == 0 {
			return g.Pick([]string{"u", "h", "8.1", "", "alice"})
		}
		return g.Pick(legacyish)
	}
	q := func(s string) string { b, _ := json.Marshal(s); return string(b) }
	var ms []string
	for _, k := range []string{"username", "hostname", "sshClientVersion"} {
		switch g.Intn(5) {
		case 0: // omitted
		case 1:
			ms = append(ms, q(k)+`:""`)
		default:
			v := val()
			if k == "sshClientVersion" && g.Bool() {
				v = "8.1"
			}
			ms = append(ms, q(k)+":"+q(v))
		}
	}
	if g.Bool() {
		ms = append(ms, `"ifVer":`+g.Pick([]string{"7", "6", "0", "8"}))
	}
	if g.Bool() {
		ms = append(ms, `"exts":{`+q(g.Pick([]string{"note", "req=u@h", "k"}))+":"+q(val())+"}")
	}
	if g.Intn(3) == 0 {
		ms = append(ms, `"touchlessSudo":{"hosts":`+q(val())+`,"time":5}`)
	}
	g.R.Shuffle(len(ms), func(i, j int) { ms[i], ms[j] = ms[j], ms[i] })
	return g.Pick([]string{"", " ", "\n"}) + "{" + strings.Join(ms, g.Pick([]string{",", ", ", " , "})) + "}" + g.Pick([]string{"", " ", "\n"})
}

func mutateMsg(g *hx.Gen, text string) string {
	var m []member
	dec := json.NewDecoder(strings.NewReader(text))
	var raw map[string]json.RawMessage
	if dec.Decode(&raw) != nil {
		return text
	}
	var keys []string
	for k := range raw {
		keys = append(keys, k)
	}
	sort.Strings(keys)
	for _, k := range keys {
		m = append(m, member{k, string(raw[k])})
	}
	if len(m) == 0 {
		return text
	}
	return mutate(g, m)
}

func genMsg(g *hx.Gen, out *hx.Out) {
	n := 0
	dec := func(text string) {
		id := fmt.Sprintf("mdec%d", n)
		n++
		args := []string{hx.Tok([]byte(text)), hx.HexS(text)}
		out.Case(id, "msg.dec", args, safe(runMsgDec, args))
	}
	for _, t := range legacyTexts {
		dec(t)
	}
	for _, t := range jsonTexts(g) {
		dec(t)
	}
	m := 0
	for i := 0; i < *hx.Count/2; i++ {
		a := genAttrs(g)
		if i < 6 { // attribute sets whose encoding is long
			a = "at(" + strings.Join([]string{"7", hx.HexS("alice"), hx.HexS("h1"), hx.HexS("8.1"), "0", "0", "0", "0", "nil",
				"{s" + hx.HexS("pad") + ";s" + hx.HexS(strings.Repeat("y", []int{3900, 4096, 4200, 9000, 70000, 5000}[i])) + ";}"}, "/") + ")"
		}
		id := fmt.Sprintf("menc%d", m)
		m++
		args := []string{a}
		res := safe(runMsgEnc, args)
		out.Case(id, "msg.enc", args, res)
		// feed encoder outputs, and damaged versions of them, to the decoder
		if len(res) == 3 {
			var text string
			if res[0] == "legacy" {
				text = string(hx.UnHex(res[1]))
			} else {
				t, _ := parseAttrs(a).Marshal()
				text = t
			}
			switch g.Intn(4) {
			case 0:
				dec(text)
			case 1:
				dec(mutate2(g, text))
			case 2:
				if res[0] == "json" {
					dec(mutateMsg(g, text))
				} else {
					toks := strings.Split(text, " ")
					g.R.Shuffle(len(toks), func(i, j int) { toks[i], toks[j] = toks[j], toks[i] })
					dec(strings.Join(toks, g.Pick([]string{" ", "  ", " \t"})))
				}
			}
		}
	}
	for i := 0; i < *hx.Count/10; i++ {
		dec(string(g.Bytes(g.Intn(30))))
	}
	for i := 0; i < *hx.Count/5; i++ {
		dec(crossText(g))
	}
}

func genParam(g *hx.Gen, out *hx.Out) {
	n := 0
	cmds := append(append([]string{}, legacyTexts...), jsonTexts(g)...)
	lognames := []string{"alice", "alice", "alice", "", "bob", "é", "a b", "root"}
	conns := []string{"10.0.0.1 1234 10.0.0.2 22", "10.0.0.1 1234 10.0.0.2 22", "::1 1 ::1 22", "10.0.0.1", "", " 10.0.0.1 22", "10.0.0.256 1 2 3", "host 1 2 3", "10.0.0.1\t22", "fe80::1%eth0 1 2 3", "1.2.3.4  5"}
	argvs := [][]string{
		{"gensign", "-c", "/usr/bin/gensign NONS regular"}, {"gensign", "-c", "/usr/bin/gensign NSOK regular"},
		{"/usr/bin/gensign", "NONS", "regular"}, {"gensign", "NONS"}, {}, {"a"}, {"gensign", "-c", "/usr/bin/gensign NONS regular extra more"},
		{"gensign", "-c", "/usr/bin/gensign nons regular"}, {"gensign", "-c", "/usr/bin/gensign regular NONS"}, {"a b c d e f g"}, {"a b c NSOK e f"},
		{"gensign", "-c", "/usr/bin/gensign  NONS regular"}, {"NONS", "NSOK", "x"}, {"x", "NONS ", "y"}, {"", "", "NONS", ""}, {"a", "b", "c", "d", "e", "f", "g", "h"},
		{"gensign", "-c", "/usr/bin/gensign nsok regular"}, {"gensign", "-c", "/usr/bin/gensign Nons regular"}, {"gensign", "-c", "/usr/bin/gensign NSOKx regular"}, {"gensign", "-c", "/usr/bin/gensign NSO regular"},
		{"a", "b", "c", "d", "NSOK", "f"}, {"a", "b", "c", "d", "e", "NSOK", "g"}, {"NSOK", "h"}, {"x", "NSOK", "h"}, {"x y", "NSOK h"}, {"NSOK\tregular", "x", "y"},
	}
	// every declared client version, in the JSON and in the legacy form, in a fully valid environment
	for _, v := range versions {
		vj, _ := json.Marshal(v)
		for _, cmd := range []string{`{"ifVer":7,"username":"u","hostname":"h","sshClientVersion":` + string(vj) + `}`, "IFVer=6 SSHClientVersion=" + v + " req=u@h"} {
			args := []string{hx.Tok([]byte(cmd)), hx.HexS(cmd), hx.HexS("alice"), hx.HexS(conns[0]), hx.StrList(argvs[0]), "1"}
			out.Case(fmt.Sprintf("prm%d", n), "param.new", args, safe(runParamNew, args))
			n++
		}
	}
	// every argument vector, with a valid request
	for _, argv := range argvs {
		cmd := `{"ifVer":7,"username":"u","hostname":"h","sshClientVersion":"8.1"}`
		args := []string{hx.Tok([]byte(cmd)), hx.HexS(cmd), hx.HexS("alice"), hx.HexS(conns[0]), hx.StrList(argv), "1"}
		out.Case(fmt.Sprintf("prm%d", n), "param.new", args, safe(runParamNew, args))
		n++
	}
	for i := 0; i < *hx.Count; i++ {
		cmd := g.Pick(cmds)
		if g.Intn(3) == 0 {
			a := genAttrs(g)
			if t, err := parseAttrs(a).Marshal(); err == nil {
				cmd = t
			}
		}
		ln := lognames[g.Intn(len(lognames))]
		conn := conns[g.Intn(len(conns))]
		argv := argvs[g.Intn(len(argvs))]
		if g.Intn(2) == 0 { // the common, fully valid environment most of the time
			ln, conn, argv = "alice", conns[0], argvs[g.Intn(2)]
		}
		first := strings.Split(conn, " ")[0]
		ipok := net.ParseIP(first) != nil
		id := fmt.Sprintf("prm%d", n)
		n++
		args := []string{hx.Tok([]byte(cmd)), hx.HexS(cmd), hx.HexS(ln), hx.HexS(conn), hx.StrList(argv), hx.B01(ipok)}
		out.Case(id, "param.new", args, safe(runParamNew, args))
	}
}
