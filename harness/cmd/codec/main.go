// Harness group `codec`: stateless encoders / decoders / decision functions.
// Runs the real ysshra functions in-process on generated inputs and writes
// case lines + implementation outputs for the Lean driver to judge.
package main

import (
	"encoding/json"
	"flag"
	"fmt"
	"strconv"
	"strings"

	"golang.org/x/crypto/ssh"

	"github.com/theparanoids/ysshra/internal/verifharness/hx"
	"github.com/theparanoids/ysshra/keyid"
	certutil "github.com/theparanoids/ysshra/sshutils/cert"
)

type opFn func(args []string) []string

var ops = map[string]opFn{
	"keyid.rt":  runKeyidRt,
	"keyid.dec": runKeyidDec,
	"certtype":  runCertType,
}

func main() {
	flag.Parse()
	out := hx.Open()
	defer out.Close()
	if lines := hx.ReplayLines(); lines != nil {
		for _, l := range lines {
			if len(l) < 2 {
				continue
			}
			fn, ok := ops[l[1]]
			if !ok {
				continue
			}
			out.Case(l[0], l[1], l[2:], safe(fn, l[2:]))
		}
		return
	}
	g := hx.NewGen(*hx.Seed)
	if hx.Want("keyid") {
		genKeyid(g, out)
	}
	if hx.Want("certtype") {
		genCertType(g, out)
	}
	registerMore(g, out)
}

// safe runs fn and reports a panic as the outcome `crash`.
func safe(fn opFn, args []string) (res []string) {
	defer func() {
		if r := recover(); r != nil {
			res = []string{"crash", hx.HexS(fmt.Sprint(r))}
		}
	}()
	return fn(args)
}

// ---------------------------------------------------------------- keyid

func showKid(k *keyid.KeyID) string {
	prins := "nil"
	if k.Principals != nil {
		prins = hx.StrList(k.Principals)
	}
	return "kid(" + strings.Join([]string{prins, hx.HexS(k.TransID), hx.HexS(k.ReqUser), hx.HexS(k.ReqIP), hx.HexS(k.ReqHost),
		hx.B01(k.IsFirefighter), hx.B01(k.IsHWKey), hx.B01(k.IsHeadless), hx.B01(k.IsNonce),
		strconv.Itoa(int(k.Usage)), strconv.Itoa(int(k.TouchPolicy)), strconv.Itoa(int(k.Version))}, ";") + ")"
}

func parseKid(s string) *keyid.KeyID {
	f := strings.Split(s[4:len(s)-1], ";")
	k := &keyid.KeyID{}
	if f[0] != "nil" {
		k.Principals = hx.ParseStrList(f[0])
	}
	k.TransID, k.ReqUser, k.ReqIP, k.ReqHost = string(hx.UnHex(f[1])), string(hx.UnHex(f[2])), string(hx.UnHex(f[3])), string(hx.UnHex(f[4]))
	k.IsFirefighter, k.IsHWKey, k.IsHeadless, k.IsNonce = f[5] == "1", f[6] == "1", f[7] == "1", f[8] == "1"
	u, _ := strconv.ParseInt(f[9], 10, 64)
	t, _ := strconv.ParseInt(f[10], 10, 64)
	v, _ := strconv.ParseUint(f[11], 10, 16)
	k.Usage, k.TouchPolicy, k.Version = keyid.Usage(u), keyid.TouchPolicy(t), uint16(v)
	return k
}

func runKeyidRt(args []string) []string {
	k := parseKid(args[0])
	text, err := k.Marshal()
	if err != nil {
		return []string{"err"}
	}
	dec := "err"
	if k2, err := keyid.Unmarshal(text); err == nil {
		dec = showKid(k2)
	}
	return []string{"ok", hx.Tok([]byte(text)), dec}
}

// keyid.dec carries the text itself (hex) so that replays run the real bytes;
// the driver only looks at the token tree in the second argument.
func runKeyidDec(args []string) []string {
	text := hx.UnHex(args[1])
	k, err := keyid.Unmarshal(string(text))
	if err != nil {
		return []string{"err"}
	}
	return []string{"ok", showKid(k)}
}

func genKid(g *hx.Gen, flags int, touch, usage int64, ver uint16) *keyid.KeyID {
	k := &keyid.KeyID{TransID: g.Str(), ReqUser: g.Str(), ReqIP: g.Str(), ReqHost: g.Str(),
		IsFirefighter: flags&1 != 0, IsHWKey: flags&2 != 0, IsHeadless: flags&4 != 0, IsNonce: flags&8 != 0,
		Usage: keyid.Usage(usage), TouchPolicy: keyid.TouchPolicy(touch), Version: ver}
	switch g.Intn(5) {
	case 0:
		k.Principals = nil
	case 1:
		k.Principals = []string{}
	default:
		n := 1 + g.Intn(3)
		for i := 0; i < n; i++ {
			k.Principals = append(k.Principals, g.Str())
		}
	}
	return k
}

type member struct{ key, raw string }

func render(ms []member) string {
	var parts []string
	for _, m := range ms {
		kb, _ := json.Marshal(m.key)
		parts = append(parts, string(kb)+":"+m.raw)
	}
	return "{" + strings.Join(parts, ",") + "}"
}

func members(k *keyid.KeyID) []member {
	j := func(v any) string { b, _ := json.Marshal(v); return string(b) }
	return []member{{"prins", j(k.Principals)}, {"transID", j(k.TransID)}, {"reqUser", j(k.ReqUser)}, {"reqIP", j(k.ReqIP)},
		{"reqHost", j(k.ReqHost)}, {"isFirefighter", j(k.IsFirefighter)}, {"isHWKey", j(k.IsHWKey)}, {"isHeadless", j(k.IsHeadless)},
		{"isNonce", j(k.IsNonce)}, {"usage", j(int(k.Usage))}, {"touchPolicy", j(int(k.TouchPolicy))}, {"ver", j(k.Version)}}
}

var retypes = []string{`null`, `true`, `0`, `1`, `-1`, `1.0`, `1e0`, `65536`, `-0`, `"x"`, `""`, `[]`, `["a"]`, `[1]`, `[null]`, `{}`, `{"a":1}`,
	`9223372036854775807`, `9223372036854775808`, `-9223372036854775808`, `-9223372036854775809`, `1e400`, `0.5`, `2`, `3`, `4`, `65535`}

func caseVariants(g *hx.Gen, key string) string {
	switch g.Intn(4) {
	case 0:
		return strings.ToUpper(key)
	case 1:
		return strings.ToLower(key)
	case 2:
		return strings.ReplaceAll(strings.ReplaceAll(key, "s", "ſ"), "k", "K")
	default:
		b := []byte(key)
		i := g.Intn(len(b))
		if b[i] >= 'a' && b[i] <= 'z' {
			b[i] -= 32
		} else if b[i] >= 'A' && b[i] <= 'Z' {
			b[i] += 32
		}
		return string(b)
	}
}

// mutate returns a near-miss of a valid KeyID text.
func mutate(g *hx.Gen, ms []member) string {
	ms = append([]member{}, ms...)
	i := g.Intn(len(ms))
	switch g.Intn(9) {
	case 0: // delete
		ms = append(ms[:i], ms[i+1:]...)
	case 1: // rename in case
		ms[i].key = caseVariants(g, ms[i].key)
	case 2: // duplicate (same value)
		ms = append(ms, ms[i])
	case 3: // duplicate with another value, later wins
		ms = append(ms, member{ms[i].key, g.Pick(retypes)})
	case 4: // retype
		ms[i].raw = g.Pick(retypes)
	case 5: // add an unknown member
		ms = append(ms, member{g.Pick([]string{"extra", "Prins2", "", "ver2", "exts"}), g.Pick(retypes)})
	case 6: // case-variant duplicate before the exact one
		ms = append([]member{{caseVariants(g, ms[i].key), g.Pick(retypes)}}, ms...)
	case 7: // case-variant duplicate after the exact one
		ms = append(ms, member{caseVariants(g, ms[i].key), g.Pick(retypes)})
	case 8: // swap two members
		j := g.Intn(len(ms))
		ms[i], ms[j] = ms[j], ms[i]
	}
	return render(ms)
}

var otherJSON = []string{`null`, `true`, `false`, `0`, `1`, `-1.5e3`, `"str"`, `""`, `[]`, `[1,2]`, `{}`, `{"ver":1}`, `{"ver":"1"}`,
	`{"ver":1,"prins":null}`, `[{"ver":1}]`, ` {"ver":1} `, `{"ver":1}x`, `{"ver":1,}`, `{ver:1}`, `{"a":{"b":[1,{"c":null}]}}`, ``, ` `, `nul`, `{"ver":01}`, `{"ver":1e400}`, `{"x":1e400,"ver":1}`}

func genKeyid(g *hx.Gen, out *hx.Out) {
	// the meaningful values, their neighbours, and "wrap-around twins": values that equal a
	// meaningful one modulo 2^4, 2^8, 2^16, 2^32 (a narrowing conversion or a mask turns them into it)
	touches := []int64{-1, 0, 1, 2, 3, 4, 1 << 31, -1 << 63, 1<<63 - 1, 17, 257, 65537, 1<<32 + 1, -15, -255, 1<<32 + 2, 19, 1 << 32}
	usages := []int64{0, 1, 7, -1, 256, 1 << 32}
	vers := []uint16{1, 1, 1, 0, 2, 65535}
	n := 0
	// the whole attribute grid, strings random
	for flags := 0; flags < 16; flags++ {
		for _, t := range touches {
			for _, u := range usages {
				ver := vers[g.Intn(len(vers))]
				k := genKid(g, flags, t, u, ver)
				id := fmt.Sprintf("krt%d", n)
				n++
				args := []string{showKid(k)}
				out.Case(id, "keyid.rt", args, safe(runKeyidRt, args))
			}
		}
	}
	// decoding: valid encodings and near-misses
	m := 0
	emit := func(text string) {
		id := fmt.Sprintf("kdec%d", m)
		m++
		args := []string{hx.Tok([]byte(text)), hx.HexS(text)}
		out.Case(id, "keyid.dec", args, safe(runKeyidDec, args))
	}
	for _, t := range otherJSON {
		emit(t)
	}
	total := *hx.Count
	for i := 0; i < total; i++ {
		flags := g.Intn(16)
		if g.Intn(3) > 0 { // mostly consistent
			flags = []int{0, 1, 2, 3, 4, 8, 10}[g.Intn(7)]
		}
		touch := touches[g.Intn(4)+1]
		if flags&12 != 0 && g.Intn(4) > 0 {
			touch = 1
		}
		k := genKid(g, flags, touch, usages[g.Intn(2)], 1)
		ms := members(k)
		switch g.Intn(8) {
		case 0:
			emit(render(ms))
		case 1:
			emit(string(g.Bytes(g.Intn(40))))
		case 2:
			t := mutate(g, ms)
			emit(mutate2(g, t))
		default:
			emit(mutate(g, ms))
		}
	}
	// every single required member deleted / retyped, systematically
	base := members(genKid(g, 0, 1, 0, 1))
	for i := range base {
		del := append(append([]member{}, base[:i]...), base[i+1:]...)
		emit(render(del))
		for _, r := range retypes {
			mm := append([]member{}, base...)
			mm[i].raw = r
			emit(render(mm))
		}
	}
	for _, fl := range []int{0, 1, 8} {
		for _, t := range nearTexts(members(genKid(g, fl, 1, 0, 1))) {
			emit(t)
		}
	}
	// every member duplicated, exactly and under a case-variant name, before and after the original,
	// with another value of the same JSON kind (which of the two wins must not depend on the check)
	otherOfKind := func(raw string) []string {
		switch {
		case raw == "true":
			return []string{"false"}
		case raw == "false":
			return []string{"true"}
		case strings.HasPrefix(raw, `"`):
			return []string{`"other"`, `""`}
		case strings.HasPrefix(raw, "["):
			return []string{`["z"]`, `[]`}
		default:
			return []string{"0", "2", "7", "65535", "1"}
		}
	}
	for _, fl := range []int{0, 3} {
		b2 := members(genKid(g, fl, 1, 0, 1))
		for i := range b2 {
			for _, name := range []string{b2[i].key, strings.ToUpper(b2[i].key), strings.ToUpper(b2[i].key[:1]) + b2[i].key[1:]} {
				for _, v := range otherOfKind(b2[i].raw) {
					emit(render(append(append([]member{}, b2...), member{name, v})))
					emit(render(append([]member{{name, v}}, b2...)))
				}
			}
		}
	}
}

// nearTexts: systematic near-misses of one complete, consistent KeyID text that a decoder built
// differently could take for complete — a required member absent while its name occurs elsewhere
// (as the value of a string member, inside the principals array, as a member of a nested object),
// and the complete object followed by further data (not one JSON value any more).
func nearTexts(base []member) []string {
	var out []string
	for i := range base {
		del := append(append([]member{}, base[:i]...), base[i+1:]...)
		name := strconv.Quote(base[i].key)
		for j := range del {
			if strings.HasPrefix(del[j].raw, `"`) {
				mm := append([]member{}, del...)
				mm[j].raw = name
				out = append(out, render(mm))
			}
			if strings.HasPrefix(del[j].raw, "[") {
				mm := append([]member{}, del...)
				mm[j].raw = "[" + name + "]"
				out = append(out, render(mm))
			}
		}
		out = append(out, render(append(append([]member{}, del...), member{"extra", "{" + name + ":" + base[i].raw + "}"})))
	}
	whole := render(base)
	for _, tail := range []string{"x", "]", "}", ",", `,"isNonce":true}`, whole, "null", " 1", "\n{}", "\x00", `"ver"`} {
		out = append(out, whole+tail)
	}
	return out
}

// mutate2 damages the text itself (truncation, byte flip, trailing data).
func mutate2(g *hx.Gen, t string) string {
	b := []byte(t)
	if len(b) == 0 {
		return t
	}
	switch g.Intn(4) {
	case 0:
		return string(b[:g.Intn(len(b))])
	case 1:
		b[g.Intn(len(b))] = byte(g.Intn(256))
		return string(b)
	case 2:
		return t + g.Pick([]string{" ", "\n", "x", "{}", ","})
	default:
		return " \t\n" + t
	}
}

// ---------------------------------------------------------------- certtype

func runCertType(args []string) []string {
	var c *ssh.Certificate
	if args[0] != "nilcert" {
		c = &ssh.Certificate{KeyId: string(hx.UnHex(args[3]))}
		if args[1] != "nil" {
			c.CriticalOptions = map[string]string{}
			if args[1] != "map:" {
				for _, kv := range strings.Split(args[1][4:], ",") {
					p := strings.Split(kv, "=")
					c.CriticalOptions[string(hx.UnHex(p[0]))] = string(hx.UnHex(p[1]))
				}
			}
		}
	}
	prins := hx.ParseStrList(args[2])
	t := certutil.GetType(c)
	label := "none"
	if l, err := certutil.Label(c); err == nil {
		label = hx.HexS(l)
	}
	got := certutil.GetPrincipals(prins, t)
	if got == nil {
		got = []string{}
	}
	// the classification is a function of the certificate: what a caller does to a KeyID value it
	// decoded from the same text must not change it
	again := "again=same"
	if c != nil {
		if k, err := keyid.Unmarshal(c.KeyId); err == nil && k != nil {
			k.TouchPolicy = (k.TouchPolicy + 1) % 4
			k.IsNonce, k.IsFirefighter, k.IsHWKey, k.IsHeadless = !k.IsNonce, !k.IsFirefighter, !k.IsHWKey, !k.IsHeadless
			k.TransID = "mutated-by-caller"
			k.Principals = append(k.Principals, "x")
		}
		t2 := certutil.GetType(c)
		label2 := "none"
		if l, err := certutil.Label(c); err == nil {
			label2 = hx.HexS(l)
		}
		if t2 != t || label2 != label || hx.StrList(certutil.GetPrincipals(prins, t2)) != hx.StrList(got) {
			again = "again=changed"
		}
	}
	return []string{strconv.Itoa(int(t)), label, hx.StrList(got), again}
}

func genCertType(g *hx.Gen, out *hx.Out) {
	n := 0
	emit := func(kidText string, crit string, prins []string, nilcert bool) {
		id := fmt.Sprintf("ct%d", n)
		n++
		tok := hx.Tok([]byte(kidText))
		if nilcert {
			tok = "nilcert"
		}
		args := []string{tok, crit, hx.StrList(prins), hx.HexS(kidText)}
		out.Case(id, "certtype", args, safe(runCertType, args))
	}
	host := hx.HexS(certutil.CriticalOptionTouchlessSudoHosts)
	crits := []string{"nil", "map:", "map:" + host + "=-", "map:" + host + "=" + hx.HexS("h1,h2"), "map:" + hx.HexS("force-command") + "=" + hx.HexS("ls")}
	prinsSets := [][]string{{}, {"alice"}, {"alice", "bob"}, {"", "a:b", "日本"},
		// principals that already look labelled
		{"root:touch", "x:notouch"}, {"a:touch:notouch", ":touch", ":notouch", "touch"}}
	emit("", "nil", []string{"a"}, true)
	touches := []int64{-1, 0, 1, 2, 3, 4, 1 << 31, 17, 18, 19, 257, 258, 259, 65537, 1<<32 + 1, 1<<32 + 2, 1<<32 + 3, -15, -14, -13, 1 << 32}
	for flags := 0; flags < 16; flags++ {
		for _, t := range touches {
			for ci, crit := range crits {
				k := genKid(g, flags, t, 0, 1)
				b, _ := json.Marshal(k) // bypasses the sanity check on purpose: inconsistent KeyIDs must come out unknown
				emit(string(b), crit, prinsSets[(flags+ci)%len(prinsSets)], false)
			}
		}
	}
	// undecodable / near-miss KeyIDs
	for i := 0; i < *hx.Count/4; i++ {
		k := genKid(g, []int{0, 1, 2, 3, 8}[g.Intn(5)], []int64{1, 2, 3}[g.Intn(3)], 0, 1)
		emit(mutate(g, members(k)), crits[g.Intn(len(crits))], prinsSets[g.Intn(len(prinsSets))], false)
	}
	for _, t := range otherJSON {
		emit(t, crits[g.Intn(len(crits))], []string{"p"}, false)
	}
	for _, fl := range []int{0, 1, 2, 8} {
		for _, t := range nearTexts(members(genKid(g, fl, 1, 0, 1))) {
			emit(t, crits[g.Intn(len(crits))], []string{"p"}, false)
		}
	}
}
