// Harness group `attest`: yubiattest.Attest / ModHex / ParseCertificate and PEM bundles,
// through the exported API only.
package main

import (
	"crypto"
	"crypto/ecdsa"
	"crypto/ed25519"
	"crypto/elliptic"
	"crypto/rand"
	"crypto/rsa"
	"crypto/sha1"
	"crypto/sha256"
	"crypto/sha512"
	"crypto/x509"
	"crypto/x509/pkix"
	"encoding/asn1"
	"flag"
	"fmt"
	"math/big"
	"os"
	"strconv"
	"strings"
	"time"

	"github.com/theparanoids/ysshra/attestation/yubiattest"
	"github.com/theparanoids/ysshra/internal/verifharness/hx"
)

type opFn func(args []string) []string

var ops = map[string]opFn{
	"attest": runAttest,
	"modhex": runModHex,
}

func main() {
	flag.Parse()
	out := hx.Open()
	defer out.Close()
	if lines := hx.ReplayLines(); lines != nil {
		for _, l := range lines {
			if len(l) < 2 {
				continue
			}
			if fn, ok := ops[l[1]]; ok {
				out.Case(l[0], l[1], l[2:], safe(fn, l[2:]))
			}
		}
		return
	}
	g := hx.NewGen(*hx.Seed)
	if hx.Want("attest") {
		genAttest(g, out)
	}
	if hx.Want("modhex") {
		genModHex(g, out)
	}
	registerMore(g, out)
}

func safe(fn opFn, args []string) (res []string) {
	defer func() {
		if r := recover(); r != nil {
			res = []string{"crash", hx.HexS(fmt.Sprint(r))}
		}
	}()
	return fn(args)
}

// ---------------------------------------------------------------- PKI scaffolding

type pki struct {
	rootKey, otherKey *ecdsa.PrivateKey
	root, other       *x509.Certificate
	pool              *x509.CertPool
}

var thePKI *pki

func getPKI() *pki {
	if thePKI != nil {
		return thePKI
	}
	p := &pki{}
	mk := func(cn string) (*ecdsa.PrivateKey, *x509.Certificate) {
		k, _ := ecdsa.GenerateKey(elliptic.P256(), rand.Reader)
		tmpl := &x509.Certificate{SerialNumber: big.NewInt(1), Subject: pkix.Name{CommonName: cn}, NotBefore: time.Now().Add(-time.Hour),
			NotAfter: time.Now().Add(24 * time.Hour), IsCA: true, BasicConstraintsValid: true, KeyUsage: x509.KeyUsageCertSign}
		der, err := x509.CreateCertificate(rand.Reader, tmpl, tmpl, &k.PublicKey, k)
		if err != nil {
			panic(err)
		}
		c, _ := x509.ParseCertificate(der)
		return k, c
	}
	p.rootKey, p.root = mk("verif root")
	p.otherKey, p.other = mk("verif other CA")
	p.pool = x509.NewCertPool()
	p.pool.AddCert(p.root)
	thePKI = p
	return p
}

// deviceCert issues an f9-style certificate for pub, related to the root pool as `kind` says.
func deviceCert(pub crypto.PublicKey, kind string) *x509.Certificate {
	p := getPKI()
	tmpl := &x509.Certificate{SerialNumber: big.NewInt(2), Subject: pkix.Name{CommonName: "device f9"},
		NotBefore: time.Now().Add(-time.Hour), NotAfter: time.Now().Add(time.Hour)}
	parent, signer := p.root, crypto.Signer(p.rootKey)
	switch kind {
	case "root":
	case "otherca":
		parent, signer = p.other, p.otherKey
	case "expired":
		tmpl.NotBefore, tmpl.NotAfter = time.Now().Add(-2*time.Hour), time.Now().Add(-time.Hour)
	case "lapsing": // valid now, expires within about two seconds
		tmpl.NotAfter = time.Now().Add(2 * time.Second)
	case "notyet":
		tmpl.NotBefore, tmpl.NotAfter = time.Now().Add(time.Hour), time.Now().Add(2*time.Hour)
	case "forgedroot", "forgedrootkey":
		// same issuer name and serial as the genuine device certificate, but issued by a
		// throw-away CA that merely carries the root's name
		k, _ := ecdsa.GenerateKey(elliptic.P256(), rand.Reader)
		fake := &x509.Certificate{SerialNumber: big.NewInt(1), Subject: p.root.Subject, NotBefore: time.Now().Add(-time.Hour),
			NotAfter: time.Now().Add(24 * time.Hour), IsCA: true, BasicConstraintsValid: true, KeyUsage: x509.KeyUsageCertSign,
			SubjectKeyId: p.root.SubjectKeyId}
		parent, signer = fake, k
	case "selfsigned":
		// signed by a throw-away key under its own name
		k, _ := ecdsa.GenerateKey(elliptic.P256(), rand.Reader)
		parent, signer = tmpl, k
		der, err := x509.CreateCertificate(rand.Reader, tmpl, tmpl, pub, k)
		if err != nil {
			panic(err)
		}
		c, _ := x509.ParseCertificate(der)
		return c
	}
	der, err := x509.CreateCertificate(rand.Reader, tmpl, parent, pub, signer)
	if err != nil {
		panic(err)
	}
	c, err := x509.ParseCertificate(der)
	if err != nil {
		panic(err)
	}
	return c
}

var certCache = map[string]*x509.Certificate{}
var theAttestor *yubiattest.Attestor

func parseKey(s string) crypto.PublicKey {
	switch {
	case strings.HasPrefix(s, "rsa:"):
		p := strings.Split(s, ":")
		n, _ := new(big.Int).SetString(p[1], 16)
		e, _ := strconv.Atoi(p[2])
		return &rsa.PublicKey{N: n, E: e}
	case s == "ecdsa":
		return &otherKeys().ec.PublicKey
	default:
		return otherKeys().ed
	}
}

type others struct {
	ec *ecdsa.PrivateKey
	ed ed25519.PublicKey
}

var oth *others

func otherKeys() *others {
	if oth == nil {
		ec, _ := ecdsa.GenerateKey(elliptic.P256(), rand.Reader)
		ed, _, _ := ed25519.GenerateKey(rand.Reader)
		oth = &others{ec, ed}
	}
	return oth
}

// attest args: chainKind, algo, tbsHex, sigHex, key, then oracle fields chainok d3 d5 d6 d7 (ignored here)
func runAttest(args []string) []string {
	kind, keyS := args[0], args[4]
	algo, _ := strconv.Atoi(args[1])
	tbs, sig := hx.UnHex(args[2]), hx.UnHex(args[3])
	f9 := f9For(kind, keyS)
	att := &x509.Certificate{SignatureAlgorithm: x509.SignatureAlgorithm(algo), RawTBSCertificate: tbs, Signature: sig}
	// everything else a slot certificate carries is what its sender chose: dated inside the device
	// certificate's own validity window, issued in the device certificate's name
	att.NotBefore, att.NotAfter = f9.NotBefore.Add(time.Second), f9.NotAfter
	att.Issuer, att.RawIssuer, att.AuthorityKeyId = f9.Subject, f9.RawSubject, f9.SubjectKeyId
	att.Subject = pkix.Name{CommonName: "YubiKey PIV Attestation 9a"}
	att.PublicKey, att.PublicKeyAlgorithm = f9.PublicKey, f9.PublicKeyAlgorithm
	att.KeyUsage, att.BasicConstraintsValid, att.IsCA = x509.KeyUsageCertSign|x509.KeyUsageDigitalSignature, true, true
	// one attestor for the whole run, as in the RA (it is built once from the configured pool):
	// what it did for earlier pairs must not change its verdict on this one
	if theAttestor == nil {
		theAttestor = yubiattest.NewAttestorWithCAPool(getPKI().pool)
	}
	a := theAttestor
	if err := a.Attest(f9, att); err != nil {
		return []string{"reject"}
	}
	return []string{"accept"}
}

// f9For: the device certificate of a relation kind. "lapsed" is the "lapsing" certificate looked at
// again after its validity has ended (the call waits for that moment).
func f9For(kind, keyS string) *x509.Certificate {
	k := kind
	if kind == "lapsed" {
		k = "lapsing"
	}
	ck := k + "|" + keyS
	f9, ok := certCache[ck]
	if !ok {
		f9 = deviceCert(parseKey(keyS), k)
		certCache[ck] = f9
	}
	if kind == "lapsed" {
		if d := time.Until(f9.NotAfter.Add(1200 * time.Millisecond)); d > 0 {
			time.Sleep(d)
		}
	}
	return f9
}

func oracle(kind, keyS string, tbs []byte) []string {
	f9 := f9For(kind, keyS)
	_, err := f9.Verify(x509.VerifyOptions{Roots: getPKI().pool})
	d1 := sha1.Sum(tbs)
	d2 := sha256.Sum256(tbs)
	d3 := sha512.Sum384(tbs)
	d4 := sha512.Sum512(tbs)
	return []string{hx.B01(err == nil), hx.Hex(d1[:]), hx.Hex(d2[:]), hx.Hex(d3[:]), hx.Hex(d4[:])}
}

var prefixes1 = map[int][]byte{
	2: {0x30, 0x20, 0x30, 0x0c, 0x06, 0x08, 0x2a, 0x86, 0x48, 0x86, 0xf7, 0x0d, 0x02, 0x05, 0x05, 0x00, 0x04, 0x10},
	3: {0x30, 0x21, 0x30, 0x09, 0x06, 0x05, 0x2b, 0x0e, 0x03, 0x02, 0x1a, 0x05, 0x00, 0x04, 0x14},
	5: {0x30, 0x31, 0x30, 0x0d, 0x06, 0x09, 0x60, 0x86, 0x48, 0x01, 0x65, 0x03, 0x04, 0x02, 0x01, 0x05, 0x00, 0x04, 0x20},
	6: {0x30, 0x41, 0x30, 0x0d, 0x06, 0x09, 0x60, 0x86, 0x48, 0x01, 0x65, 0x03, 0x04, 0x02, 0x02, 0x05, 0x00, 0x04, 0x30},
	7: {0x30, 0x51, 0x30, 0x0d, 0x06, 0x09, 0x60, 0x86, 0x48, 0x01, 0x65, 0x03, 0x04, 0x02, 0x03, 0x05, 0x00, 0x04, 0x40},
}

func noNull(p []byte) []byte {
	// drop the "05 00" NULL and fix the two enclosing lengths
	q := append([]byte{}, p...)
	i := len(q) - 4
	q = append(q[:i], q[i+2:]...)
	q[1] -= 2
	q[3] -= 2
	return q
}

var algoHash = map[int]int{3: 3, 4: 5, 5: 6, 6: 7, 7: 3, 8: 5, 9: 3, 10: 5, 11: 6, 12: 7}

func digestOf(h int, tbs []byte) []byte {
	switch h {
	case 3:
		d := sha1.Sum(tbs)
		return d[:]
	case 5:
		d := sha256.Sum256(tbs)
		return d[:]
	case 6:
		d := sha512.Sum384(tbs)
		return d[:]
	case 7:
		d := sha512.Sum512(tbs)
		return d[:]
	}
	return nil
}

func canonEM(k int, prefix, digest []byte) []byte {
	em := make([]byte, k)
	em[1] = 1
	t := len(prefix) + len(digest)
	for i := 2; i < k-t-1; i++ {
		em[i] = 0xff
	}
	copy(em[k-t:], prefix)
	copy(em[k-len(digest):], digest)
	return em
}

func genAttest(g *hx.Gen, out *hx.Out) {
	// modulus sizes, including ones that are not a multiple of 8 bits (the encoded message is
	// ceil(bits/8) bytes long)
	sizes := []int{1024, 1025, 1031, 2048}
	if os.Getenv("VERIF_TIER") == "thorough" {
		sizes = []int{1024, 1025, 1031, 1033, 1536, 2047, 2048, 2049, 3072, 4096}
	}
	n := 0
	emit := func(kind string, algo int, tbs, sig []byte, keyS string) {
		id := fmt.Sprintf("att%d", n)
		n++
		args := append([]string{kind, strconv.Itoa(algo), hx.Hex(tbs), hx.Hex(sig), keyS}, oracle(kind, keyS, tbs)...)
		out.Case(id, "attest", args, safe(runAttest, args))
	}
	// moduli around the shortest one that can hold a full-length message for SHA-512 / SHA-384 / SHA-256
	// (prefix + digest + 11 bytes): one byte too short, exactly long enough, one byte longer
	for _, hb := range [][2]int{{7, 83}, {6, 67}, {5, 51}} {
		h, tLen := hb[0], hb[1]
		algo := map[int]int{5: 4, 6: 5, 7: 6}[h]
		for _, k := range []int{tLen + 10, tLen + 11, tLen + 12, tLen - 11, tLen - 10, tLen + 9} {
			key, err := rsa.GenerateKey(rand.Reader, 8*k)
			if err != nil {
				continue
			}
			keyS := fmt.Sprintf("rsa:%x:%d", key.N, key.E)
			kk := (key.N.BitLen() + 7) / 8
			tbs := g.Bytes(30)
			d := digestOf(h, tbs)
			for _, p := range [][]byte{prefixes1[h], noNull(prefixes1[h])} {
				var sig []byte
				if kk >= len(p)+len(d)+3 {
					m := new(big.Int).SetBytes(canonEM(kk, p, d))
					m.Mod(m, key.N)
					sig = new(big.Int).Exp(m, key.D, key.N).FillBytes(make([]byte, kk))
				} else {
					sig = g.Bytes(kk)
				}
				emit("root", algo, tbs, sig, keyS)
			}
		}
	}
	budget := *hx.Count
	for _, bits := range sizes {
		key, err := rsa.GenerateKey(rand.Reader, bits)
		if err != nil {
			panic(err)
		}
		keyS := fmt.Sprintf("rsa:%x:%d", key.N, key.E)
		k := (key.N.BitLen() + 7) / 8
		sign := func(em []byte) []byte {
			m := new(big.Int).SetBytes(em)
			m.Mod(m, key.N)
			s := new(big.Int).Exp(m, key.D, key.N)
			return s.FillBytes(make([]byte, k))
		}
		tbs := g.Bytes(20 + g.Intn(40))
		// canonical messages: both encodings x four hashes x every algorithm label with that hash
		for algo, h := range algoHash {
			d := digestOf(h, tbs)
			for _, p := range [][]byte{prefixes1[h], noNull(prefixes1[h])} {
				emit("root", algo, tbs, sign(canonEM(k, p, d)), keyS)
			}
		}
		// every relation of the device certificate to the pool, with a good signature
		for _, kind := range []string{"root", "otherca", "selfsigned", "expired", "notyet", "forgedroot"} {
			emit(kind, 4, tbs, sign(canonEM(k, prefixes1[5], digestOf(5, tbs))), keyS)
		}
		// a device certificate that is valid when the attestor first sees it and has expired when it
		// is presented again (the attestor is long-lived: "at the current time" is the time of the call)
		if bits == sizes[0] {
			emit("lapsing", 4, tbs, sign(canonEM(k, prefixes1[5], digestOf(5, tbs))), keyS)
			emit("lapsed", 4, tbs, sign(canonEM(k, prefixes1[5], digestOf(5, tbs))), keyS)
		}
		// after the genuine pair was accepted: the same issuer name and serial over another device
		// key, under a forged issuer, with a signature that is good under that other key
		emit("root", 4, tbs, sign(canonEM(k, prefixes1[5], digestOf(5, tbs))), keyS)
		// every algorithm label 0..17 with a SHA-256 style message
		for algo := 0; algo <= 17; algo++ {
			emit("root", algo, tbs, sign(canonEM(k, prefixes1[5], digestOf(5, tbs))), keyS)
		}
		// MD5 / wrong-hash identifiers under a supported label
		d5 := digestOf(5, tbs)
		emit("root", 4, tbs, sign(canonEM(k, prefixes1[2], d5[:16])), keyS)
		emit("root", 4, tbs, sign(canonEM(k, prefixes1[6], d5)), keyS)
		emit("root", 3, tbs, sign(canonEM(k, prefixes1[5], d5)), keyS)
		// every byte position of the encoded message replaced (two hashes, both encodings)
		per := budget / len(sizes)
		for _, h := range []int{5, 3} {
			algo := map[int]int{5: 4, 3: 3}[h]
			d := digestOf(h, tbs)
			for pi, p := range [][]byte{prefixes1[h], noNull(prefixes1[h])} {
				em0 := canonEM(k, p, d)
				step := 1
				if k*4 > per {
					step = 1 + k*4/per
				}
				for pos := 0; pos < k; pos++ {
					// always cover the structural positions; sample the padding
					structural := pos < 3 || pos >= k-len(p)-len(d)-2
					if !structural && (pos+pi)%step != 0 {
						continue
					}
					for _, v := range []byte{0x00, 0x01, 0xff, em0[pos] ^ 0x80} {
						if v == em0[pos] {
							continue
						}
						em := append([]byte{}, em0...)
						em[pos] = v
						emit("root", algo, tbs, sign(em), keyS)
					}
				}
				// truncated / shifted padding
				for _, sh := range []int{1, 2, 8} {
					em := append([]byte{}, em0...)
					copy(em[2:], em0[2+sh:]) // shift left: padding shorter, garbage at the end
					emit("root", algo, tbs, sign(em), keyS)
					em2 := append([]byte{}, em0...)
					copy(em2[2+sh:], em0[2:k-sh]) // shift right
					for i := 2; i < 2+sh; i++ {
						em2[i] = 0xff
					}
					emit("root", algo, tbs, sign(em2), keyS)
				}
				// a zero byte inside the padding followed by the rest ("short padding" forgery shape)
				em := append([]byte{}, em0...)
				em[10] = 0
				emit("root", algo, tbs, sign(em), keyS)
			}
		}
		// single-bit changes of signature and body
		good := sign(canonEM(k, prefixes1[5], d5))
		for i := 0; i < 24; i++ {
			s := append([]byte{}, good...)
			bit := g.Intn(len(s) * 8)
			s[bit/8] ^= 1 << uint(bit%8)
			emit("root", 4, tbs, s, keyS)
			t := append([]byte{}, tbs...)
			bit = g.Intn(len(t) * 8)
			t[bit/8] ^= 1 << uint(bit%8)
			emit("root", 4, t, good, keyS)
		}
		// signature of other lengths, empty, random
		emit("root", 4, tbs, nil, keyS)
		emit("root", 4, tbs, good[1:], keyS)
		emit("root", 4, tbs, append([]byte{0}, good...), keyS)
		emit("root", 4, tbs, g.Bytes(k), keyS)
		emit("root", 4, tbs, g.Bytes(k+5), keyS)
		// the genuine signature followed by extra bytes, and the genuine value plus the modulus
		// (same residue; longer or not smaller than the modulus)
		emit("root", 4, tbs, append(append([]byte{}, good...), 0), keyS)
		emit("root", 4, tbs, append(append([]byte{}, good...), g.Bytes(1+g.Intn(4))...), keyS)
		emit("root", 4, tbs, append(append([]byte{}, good...), good...), keyS)
		sn := new(big.Int).Add(new(big.Int).SetBytes(good), key.N)
		emit("root", 4, tbs, sn.Bytes(), keyS)
		if len(sn.Bytes()) <= k {
			emit("root", 4, tbs, sn.FillBytes(make([]byte, k)), keyS)
		}
	}
	// non-RSA device keys
	for _, ks := range []string{"ecdsa", "ed25519"} {
		for _, algo := range []int{4, 10, 16, 3} {
			emit("root", algo, []byte("tbs"), g.Bytes(64), ks)
		}
	}
}

// ---------------------------------------------------------------- modhex

var serialOID = asn1.ObjectIdentifier{1, 3, 6, 1, 4, 1, 41482, 3, 7}

func parseOID(s string) asn1.ObjectIdentifier {
	var o asn1.ObjectIdentifier
	for _, p := range strings.Split(s, ".") {
		v, _ := strconv.Atoi(p)
		o = append(o, v)
	}
	return o
}

// modhex args: ext list "oid=hex,oid=hex" ("none" for no extensions)
func runModHex(args []string) []string {
	c := &x509.Certificate{}
	if args[0] != "none" {
		for _, kv := range strings.Split(args[0], ",") {
			p := strings.Split(kv, "=")
			c.Extensions = append(c.Extensions, pkix.Extension{Id: parseOID(p[0]), Value: hx.UnHex(p[1])})
		}
	}
	s, err := yubiattest.ModHex(c)
	if err != nil {
		return []string{"err"}
	}
	return []string{"ok", hx.HexS(s)}
}

func genModHex(g *hx.Gen, out *hx.Out) {
	n := 0
	emit := func(exts string) {
		id := fmt.Sprintf("mh%d", n)
		n++
		args := []string{exts}
		out.Case(id, "modhex", args, safe(runModHex, args))
	}
	oid := serialOID.String()
	emit("none")
	emit("2.5.29.19=" + hx.Hex([]byte{0x30, 0}))
	// every serial-extension value length 0..8
	for l := 0; l <= 8; l++ {
		for rep := 0; rep < 3; rep++ {
			v := g.Bytes(l)
			if l >= 2 && rep == 0 {
				v[0], v[1] = 2, byte(l-2)
			}
			emit(oid + "=" + hx.Hex(v))
		}
	}
	// DER-shaped values: tag x declared length (short form below / at / above the content length, long
	// form) x content length 0..6 x leading content bytes at the sign-padding boundaries
	edge := []byte{0x00, 0x7f, 0x80, 0xff}
	for n := 0; n <= 6; n++ {
		for _, tag := range []byte{2, 4, 0x82} {
			var heads [][]byte
			heads = append(heads, []byte{tag, byte(n)}, []byte{tag, byte(n + 1)}, []byte{tag, 0x81, byte(n)})
			if n > 0 {
				heads = append(heads, []byte{tag, byte(n - 1)})
			}
			for _, h := range heads {
				for _, b0 := range edge {
					for _, b1 := range edge {
						c := g.Bytes(n)
						if n > 0 {
							c[0] = b0
						}
						if n > 1 {
							c[1] = b1
						}
						emit(oid + "=" + hx.Hex(append(append([]byte{}, h...), c...)))
						if n == 0 {
							break
						}
					}
					if n == 0 {
						break
					}
				}
			}
		}
	}
	// a valid serial extension next to other extensions whose identifier is close to its own
	// (siblings, parent, child, neighbouring arcs) and whose values are shorter than a serial's
	good := oid + "=" + hx.Hex([]byte{2, 4, 0x01, 0x23, 0x45, 0x67})
	for _, near := range []string{"1.3.6.1.4.1.41482.3.9", "1.3.6.1.4.1.41482.3.3", "1.3.6.1.4.1.41482.3.8", "1.3.6.1.4.1.41482.3.1", "1.3.6.1.4.1.41482.3.10",
		"1.3.6.1.4.1.41482.3", "1.3.6.1.4.1.41482.3.7.1", "1.3.6.1.4.1.41482.2.7", "1.3.6.1.4.1.41482.4.7", "1.3.6.1.4.1.41483.3.7", "1.3.6.1.4.1.41482.3.71", "1.3.6.1.4.1.41482.3.17", "0.3.6.1.4.1.41482.3.7", "1.3.6.1.4.1.41482.3.0"} {
		for _, l := range []int{0, 1, 2, 6} {
			sib := near + "=" + hx.Hex(g.Bytes(l))
			emit(sib + "," + good)
			emit(good + "," + sib)
			emit(sib) // and alone: not a serial extension at all
		}
	}
	for i := 0; i < *hx.Count; i++ {
		l := []int{5, 6, 5, 6, 5, 6, 2, 7}[g.Intn(8)]
		v := append([]byte{2, byte(l - 2)}, g.Bytes(l-2)...)
		var parts []string
		if g.Intn(3) == 0 {
			parts = append(parts, "2.5.29.15="+hx.Hex(g.Bytes(3)))
		}
		if g.Intn(4) == 0 { // an earlier vendor extension: the last one wins
			parts = append(parts, oid+"="+hx.Hex(append([]byte{2, 4}, g.Bytes(4)...)))
		}
		parts = append(parts, oid+"="+hx.Hex(v))
		if g.Intn(3) == 0 {
			parts = append(parts, "1.3.6.1.4.1.41482.3.3="+hx.Hex(g.Bytes(3)))
		}
		emit(strings.Join(parts, ","))
	}
}
