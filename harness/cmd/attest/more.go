package main

import (
	"bytes"
	"crypto"
	"crypto/ecdsa"
	"crypto/elliptic"
	"crypto/rand"
	"crypto/rsa"
	"crypto/x509"
	"crypto/x509/pkix"
	"encoding/asn1"
	"encoding/pem"
	"fmt"
	"math/big"
	"net"
	"reflect"
	"strings"
	"time"

	"github.com/theparanoids/ysshra/agent/utils"
	"github.com/theparanoids/ysshra/attestation/yubiattest"
	"github.com/theparanoids/ysshra/internal/verifharness/hx"
)

func init() {
	ops["certparse"] = runCertParse
	ops["pem"] = runPEM
}

func registerMore(g *hx.Gen, out *hx.Out) {
	if hx.Want("certparse") {
		genCertParse(g, out)
	}
	if hx.Want("pem") {
		genPEM(g, out)
	}
}

// compare lists the fields of C16 on which two parsed certificates differ.
func compare(a, b *x509.Certificate, raw bool) []string {
	var d []string
	add := func(name string, eq bool) {
		if !eq {
			d = append(d, name)
		}
	}
	if raw {
		add("Raw", bytes.Equal(a.Raw, b.Raw))
		add("RawTBS", bytes.Equal(a.RawTBSCertificate, b.RawTBSCertificate))
		add("RawSPKI", bytes.Equal(a.RawSubjectPublicKeyInfo, b.RawSubjectPublicKeyInfo))
	}
	add("RawSubject", bytes.Equal(a.RawSubject, b.RawSubject))
	add("RawIssuer", bytes.Equal(a.RawIssuer, b.RawIssuer))
	add("PublicKeyAlgorithm", a.PublicKeyAlgorithm == b.PublicKeyAlgorithm)
	add("PublicKey", pubEq(a.PublicKey, b.PublicKey))
	add("Signature", bytes.Equal(a.Signature, b.Signature))
	add("SignatureAlgorithm", a.SignatureAlgorithm == b.SignatureAlgorithm)
	add("SerialNumber", a.SerialNumber != nil && b.SerialNumber != nil && a.SerialNumber.Cmp(b.SerialNumber) == 0)
	add("Version", a.Version == b.Version)
	add("Subject", a.Subject.String() == b.Subject.String())
	add("Issuer", a.Issuer.String() == b.Issuer.String())
	add("NotBefore", a.NotBefore.Equal(b.NotBefore))
	add("NotAfter", a.NotAfter.Equal(b.NotAfter))
	add("Extensions", extEq(a.Extensions, b.Extensions))
	return d
}

func pubEq(a, b interface{}) bool {
	switch x := a.(type) {
	case *rsa.PublicKey:
		y, ok := b.(*rsa.PublicKey)
		return ok && x.N.Cmp(y.N) == 0 && x.E == y.E
	case *ecdsa.PublicKey:
		y, ok := b.(*ecdsa.PublicKey)
		return ok && x.Curve == y.Curve && x.X.Cmp(y.X) == 0 && x.Y.Cmp(y.Y) == 0
	}
	return reflect.DeepEqual(a, b)
}

func extEq(a, b []pkix.Extension) bool {
	if len(a) != len(b) {
		return false
	}
	for i := range a {
		if !a[i].Id.Equal(b[i].Id) || a[i].Critical != b[i].Critical || !bytes.Equal(a[i].Value, b[i].Value) {
			return false
		}
	}
	return true
}

// certparse args: kind, derHex, [origDerHex for kind=nonull]
// output: yubi=ok|err std=ok|err diff=<fields or -> [vsorig=<fields or ->]
func runCertParse(args []string) []string {
	der := hx.UnHex(args[1])
	y, yerr := yubiattest.ParseCertificate(der)
	s, serr := x509.ParseCertificate(der)
	res := []string{"yubi=" + okErr(yerr), "std=" + okErr(serr)}
	diff := "-"
	if yerr == nil && serr == nil {
		if d := compare(y, s, true); len(d) > 0 {
			diff = strings.Join(d, ",")
		}
	}
	res = append(res, "diff="+diff)
	if args[0] == "nonull" && len(args) > 2 {
		vs := "-"
		if yerr == nil {
			o, err := x509.ParseCertificate(hx.UnHex(args[2]))
			if err != nil {
				vs = "origerr"
			} else if d := compare(y, o, false); len(d) > 0 {
				vs = strings.Join(d, ",")
			}
		} else {
			vs = "rejected"
		}
		res = append(res, "vsorig="+vs)
	}
	return res
}

func okErr(e error) string {
	if e == nil {
		return "ok"
	}
	return "err"
}

type keyPair struct {
	name string
	priv crypto.Signer
}

var keyPairs []keyPair

func getKeyPairs() []keyPair {
	if keyPairs == nil {
		r, _ := rsa.GenerateKey(rand.Reader, 2048)
		p256, _ := ecdsa.GenerateKey(elliptic.P256(), rand.Reader)
		p384, _ := ecdsa.GenerateKey(elliptic.P384(), rand.Reader)
		p521, _ := ecdsa.GenerateKey(elliptic.P521(), rand.Reader)
		keyPairs = []keyPair{{"rsa2048", r}, {"p256", p256}, {"p384", p384}, {"p521", p521}}
	}
	return keyPairs
}

var serialCounter int64 = 1000

func makeCert(g *hx.Gen, subj, issuer keyPair, sigAlg x509.SignatureAlgorithm) ([]byte, error) {
	serialCounter++
	tmpl := &x509.Certificate{
		SerialNumber: big.NewInt(serialCounter),
		Subject:      pkix.Name{CommonName: "YubiKey PIV Attestation " + g.Name(), Organization: []string{g.Name()}},
		NotBefore:    time.Unix(1600000000+int64(g.Intn(1000000)), 0).UTC(),
		NotAfter:     time.Unix(1900000000+int64(g.Intn(1000000)), 0).UTC(),
	}
	if g.Bool() {
		tmpl.SignatureAlgorithm = sigAlg
	}
	if g.Intn(4) == 0 {
		// no extensions field at all (an optional element of the TBS structure): the parser keeps
		// nothing from whatever it decoded before
		parent := &x509.Certificate{Subject: pkix.Name{CommonName: "Yubico PIV Attestation"}, SerialNumber: big.NewInt(1)}
		return x509.CreateCertificate(rand.Reader, tmpl, parent, subj.priv.Public(), issuer.priv)
	}
	if g.Bool() {
		tmpl.BasicConstraintsValid, tmpl.IsCA, tmpl.MaxPathLen = true, g.Bool(), g.Intn(3)
		if tmpl.MaxPathLen == 0 {
			tmpl.MaxPathLenZero = true
		}
		if !tmpl.IsCA {
			tmpl.MaxPathLen, tmpl.MaxPathLenZero = -1, false
		}
	}
	if g.Bool() {
		tmpl.KeyUsage = x509.KeyUsage(1 + g.Intn(255))
	}
	if g.Bool() {
		tmpl.SubjectKeyId = g.Bytes(20)
	}
	if g.Intn(3) == 0 {
		tmpl.DNSNames = []string{g.Name() + ".example.com"}
		tmpl.IPAddresses = []net.IP{net.IPv4(10, 0, 0, byte(g.Intn(255)))}
		tmpl.EmailAddresses = []string{g.Name() + "@example.com"}
	}
	if g.Intn(3) == 0 {
		tmpl.ExtKeyUsage = []x509.ExtKeyUsage{x509.ExtKeyUsageClientAuth, x509.ExtKeyUsageCodeSigning}
	}
	if g.Intn(3) == 0 {
		tmpl.PolicyIdentifiers = []asn1.ObjectIdentifier{{1, 3, 6, 1, 4, 1, 41482, 9, g.Intn(9)}}
	}
	// vendor extensions of PIV attestation certificates
	tmpl.ExtraExtensions = []pkix.Extension{
		{Id: asn1.ObjectIdentifier{1, 3, 6, 1, 4, 1, 41482, 3, 3}, Value: g.Bytes(3)},
		{Id: asn1.ObjectIdentifier{1, 3, 6, 1, 4, 1, 41482, 3, 7}, Value: append([]byte{2, 4}, g.Bytes(4)...)},
		{Id: asn1.ObjectIdentifier{1, 3, 6, 1, 4, 1, 41482, 3, 8}, Value: g.Bytes(2), Critical: false},
	}
	parent := &x509.Certificate{Subject: pkix.Name{CommonName: "Yubico PIV Attestation"}, SerialNumber: big.NewInt(1)}
	if g.Bool() {
		parent.SubjectKeyId = g.Bytes(20) // gives the child an authority key identifier
	}
	return x509.CreateCertificate(rand.Reader, tmpl, parent, subj.priv.Public(), issuer.priv)
}

type algID struct {
	Algorithm  asn1.ObjectIdentifier
	Parameters asn1.RawValue `asn1:"optional"`
}
type spki struct {
	Algorithm algID
	PublicKey asn1.BitString
}
type tbsMirror struct {
	Version      asn1.RawValue `asn1:"optional,explicit,tag:0"`
	SerialNumber *big.Int
	SigAlg       asn1.RawValue
	Issuer       asn1.RawValue
	Validity     asn1.RawValue
	Subject      asn1.RawValue
	PublicKey    spki
	Extensions   asn1.RawValue `asn1:"optional,explicit,tag:3"`
}
type certMirror struct {
	TBS    tbsMirror
	SigAlg asn1.RawValue
	Sig    asn1.BitString
}

// dropNULL re-encodes the certificate with the key-algorithm NULL parameter removed.
func dropNULL(der []byte) ([]byte, bool) {
	var c certMirror
	if rest, err := asn1.Unmarshal(der, &c); err != nil || len(rest) != 0 {
		return nil, false
	}
	if !bytes.Equal(c.TBS.PublicKey.Algorithm.Parameters.FullBytes, []byte{5, 0}) {
		return nil, false
	}
	c.TBS.PublicKey.Algorithm.Parameters = asn1.RawValue{}
	out, err := asn1.Marshal(c)
	if err != nil {
		return nil, false
	}
	return out, true
}

func genCertParse(g *hx.Gen, out *hx.Out) {
	n := 0
	emit := func(kind string, der []byte, orig []byte) {
		id := fmt.Sprintf("cp%d", n)
		n++
		args := []string{kind, hx.Hex(der)}
		if orig != nil {
			args = append(args, hx.Hex(orig))
		}
		out.Case(id, "certparse", args, safe(runCertParse, args))
	}
	kps := getKeyPairs()
	rsaAlgs := []x509.SignatureAlgorithm{x509.SHA256WithRSA, x509.SHA384WithRSA, x509.SHA512WithRSA, x509.SHA1WithRSA}
	ecAlgs := []x509.SignatureAlgorithm{x509.ECDSAWithSHA256, x509.ECDSAWithSHA384, x509.ECDSAWithSHA512, x509.ECDSAWithSHA1}
	total := *hx.Count / 8
	if total < 24 {
		total = 24
	}
	var prevDER []byte
	for i := 0; i < total; i++ {
		subj := kps[i%len(kps)]
		issuer := kps[(i/len(kps))%len(kps)]
		algs := ecAlgs
		if issuer.name == "rsa2048" {
			algs = rsaAlgs
		}
		der, err := makeCert(g, subj, issuer, algs[g.Intn(len(algs))])
		if err != nil {
			continue
		}
		emit("wellformed", der, nil)
		if nn, ok := dropNULL(der); ok {
			emit("nonull", nn, der)
		}
		emit("trailing", append(append([]byte{}, der...), byte(g.Intn(256))), nil)
		emit("trailing", append(append([]byte{}, der...), der[:5]...), nil)
		// the trailing data is itself a complete certificate (the same one, another one), or two
		emit("trailing", append(append([]byte{}, der...), der...), nil)
		if prevDER != nil {
			emit("trailing", append(append([]byte{}, der...), prevDER...), nil)
			emit("trailing", append(append(append([]byte{}, der...), prevDER...), der...), nil)
		}
		prevDER = der
		for j := 0; j < 6; j++ {
			m := append([]byte{}, der...)
			switch g.Intn(3) {
			case 0:
				m[g.Intn(len(m))] ^= byte(1 << uint(g.Intn(8)))
			case 1:
				m = m[:g.Intn(len(m))]
			case 2:
				m[g.Intn(len(m))] = byte(g.Intn(256))
			}
			emit("mutated", m, nil)
		}
	}
	for i := 0; i < 40; i++ {
		emit("mutated", g.Bytes(g.Intn(200)), nil)
	}
}

// pem args: expected structure "pre:<0|1>;blocks:<ok|bad>,…;between:<0|1>;trail:<none|ws|garbage>", text hex, serials of ok blocks
// output: ok [serials] | err
func runPEM(args []string) []string {
	certs, err := utils.ParsePEMCertificates(hx.UnHex(args[1]))
	if err != nil {
		return []string{"err"}
	}
	var s []string
	for _, c := range certs {
		s = append(s, c.SerialNumber.String())
	}
	return []string{"ok", "[" + strings.Join(s, ",") + "]"}
}

func genPEM(g *hx.Gen, out *hx.Out) {
	kps := getKeyPairs()
	n := 0
	total := *hx.Count / 4
	if total < 40 {
		total = 40
	}
	for i := 0; i < total; i++ {
		nb := g.Intn(6)
		var text bytes.Buffer
		var blocks, serials []string
		pre := g.Bool()
		if pre {
			text.WriteString(g.Pick([]string{"Bag Attributes\n    friendlyName: x\n", "subject=/CN=x\n", "# comment\n", "garbage text\n"}))
		}
		between := g.Intn(4) == 0
		for b := 0; b < nb; b++ {
			der, err := makeCert(g, kps[g.Intn(len(kps))], kps[g.Intn(len(kps))], 0)
			if err != nil {
				continue
			}
			kind := "ok"
			typ := "CERTIFICATE"
			if g.Intn(8) == 0 {
				kind = "bad"
				der = der[:len(der)/2]
			} else if g.Intn(6) == 0 {
				typ = g.Pick([]string{"X509 CERTIFICATE", "PUBLIC KEY", "TRUSTED CERTIFICATE"})
			}
			pem.Encode(&text, &pem.Block{Type: typ, Bytes: der})
			blocks = append(blocks, kind)
			if kind == "ok" {
				c, _ := x509.ParseCertificate(der)
				serials = append(serials, c.SerialNumber.String())
			} else {
				serials = append(serials, "x")
			}
			if between && b < nb-1 {
				text.WriteString("text between blocks\n")
			}
		}
		trail := g.Pick([]string{"none", "ws", "ws", "garbage"})
		switch trail {
		case "ws":
			text.WriteString(g.Pick([]string{"\n", "  \n\t", "\r\n\r\n", " "}))
		case "garbage":
			text.WriteString(g.Pick([]string{"x", "-----BEGIN CERTIFICATE-----\nAAAA", "trailing text\n", "\n."}))
		}
		id := fmt.Sprintf("pem%d", n)
		n++
		args := []string{fmt.Sprintf("pre:%s;blocks:%s;between:%s;trail:%s", hx.B01(pre), strings.Join(blocks, ","), hx.B01(between), trail),
			hx.Hex(text.Bytes()), "[" + strings.Join(serials, ",") + "]"}
		out.Case(id, "pem", args, safe(runPEM, args))
	}
}
