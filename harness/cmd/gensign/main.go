// Harness group `gensign`: the real gensign.Run with the real regular handler against a scripted
// forwarded agent (x/crypto server over a Unix socket pair), a scripted key directory, scripted
// further handlers and a recording scripted signer.
package main

import (
	"bytes"
	"context"
	"crypto/ecdsa"
	"crypto/ed25519"
	"crypto/elliptic"
	"crypto/rand"
	"crypto/x509"
	"encoding/json"
	"errors"
	"flag"
	"fmt"
	"io"
	"log"
	"net"
	"os"
	"path/filepath"
	"sort"
	"strconv"
	"strings"
	"sync"
	"syscall"
	"time"

	"github.com/rs/zerolog"
	"github.com/theparanoids/crypki/proto"
	"golang.org/x/crypto/ssh"
	sshagent "golang.org/x/crypto/ssh/agent"

	"github.com/theparanoids/ysshra/common"
	"github.com/theparanoids/ysshra/config"
	"github.com/theparanoids/ysshra/csr"
	"github.com/theparanoids/ysshra/gensign"
	"github.com/theparanoids/ysshra/gensign/regular"
	"github.com/theparanoids/ysshra/internal/verifharness/hx"
	"github.com/theparanoids/ysshra/message"
)

type opFn func(args []string) []string

var ops = map[string]opFn{"gs": runGS}

func main() {
	flag.Parse()
	log.SetOutput(io.Discard)
	zerolog.SetGlobalLevel(zerolog.Disabled)
	out := hx.Open()
	defer out.Close()
	defer func() {
		if realDir != "" {
			os.RemoveAll(realDir)
		}
	}()
	if lines := hx.ReplayLines(); lines != nil {
		for _, l := range lines {
			if len(l) >= 2 {
				if fn, ok := ops[l[1]]; ok {
					out.Case(l[0], l[1], l[2:], safe(fn, l[2:]))
				}
			}
		}
		return
	}
	g := hx.NewGen(*hx.Seed)
	genGS(g, out)
}

func safe(fn opFn, args []string) (res []string) {
	defer func() {
		if r := recover(); r != nil {
			res = []string{"crash:" + hx.HexS(fmt.Sprint(r))}
		}
	}()
	return fn(args)
}

// ---------------------------------------------------------------- long-term keys

type lkey struct {
	name   string
	priv   ed25519.PrivateKey
	signer ssh.Signer
}

var (
	lkeys  []*lkey
	lkOnce sync.Once
	caKey  ssh.Signer
)

func longTerm() []*lkey {
	lkOnce.Do(func() {
		for i := 1; i <= 4; i++ {
			_, p, _ := ed25519.GenerateKey(rand.Reader)
			s, _ := ssh.NewSignerFromKey(p)
			lkeys = append(lkeys, &lkey{fmt.Sprintf("L%d", i), p, s})
		}
		_, p, _ := ed25519.GenerateKey(rand.Reader)
		caKey, _ = ssh.NewSignerFromKey(p)
	})
	return lkeys
}

var (
	padMu   sync.Mutex
	padKeys = map[string]*lkey{}
	e1Once  sync.Once
	e1Key   *ecdsa.PrivateKey
	e1Sign  ssh.Signer
)

// e1: a long-term ECDSA P-384 key of the user (the type the RA generates its request keys with)
func e1() (*ecdsa.PrivateKey, ssh.Signer) {
	e1Once.Do(func() {
		e1Key, _ = ecdsa.GenerateKey(elliptic.P384(), rand.Reader)
		e1Sign, _ = ssh.NewSignerFromKey(e1Key)
	})
	return e1Key, e1Sign
}

func lk(name string) *lkey {
	for _, k := range longTerm() {
		if k.name == name {
			return k
		}
	}
	if strings.HasPrefix(name, "P") { // padding identities, generated on demand
		padMu.Lock()
		defer padMu.Unlock()
		if k, ok := padKeys[name]; ok {
			return k
		}
		_, p, _ := ed25519.GenerateKey(rand.Reader)
		sg, _ := ssh.NewSignerFromKey(p)
		k := &lkey{name, p, sg}
		padKeys[name] = k
		return k
	}
	panic("key " + name)
}

// ---------------------------------------------------------------- naming of keys and certificates

type namer struct {
	mu    sync.Mutex
	fresh map[string]string // blob -> f<rank>
	certs map[string]string // blob -> c<id>
}

func (n *namer) key(pub ssh.PublicKey) string {
	if p, err := ssh.ParsePublicKey(pub.Marshal()); err == nil {
		pub = p
	}
	if c, ok := pub.(*ssh.Certificate); ok {
		pub = c.Key
	}
	b := string(pub.Marshal())
	for _, k := range longTerm() {
		if string(k.signer.PublicKey().Marshal()) == b {
			return k.name
		}
	}
	padMu.Lock()
	for _, k := range padKeys {
		if string(k.signer.PublicKey().Marshal()) == b {
			padMu.Unlock()
			return k.name
		}
	}
	padMu.Unlock()
	if _, sg := e1(); string(sg.PublicKey().Marshal()) == b {
		return "E1"
	}
	n.mu.Lock()
	defer n.mu.Unlock()
	if s, ok := n.fresh[b]; ok {
		return s
	}
	s := fmt.Sprintf("f%d", len(n.fresh))
	n.fresh[b] = s
	return s
}

func (n *namer) cert(pub ssh.PublicKey) string {
	b := pub.Marshal()
	p, err := ssh.ParsePublicKey(b)
	if err != nil {
		return "-"
	}
	if _, ok := p.(*ssh.Certificate); !ok {
		return "-"
	}
	n.mu.Lock()
	defer n.mu.Unlock()
	if s, ok := n.certs[string(b)]; ok {
		return s
	}
	return "c?"
}

// ---------------------------------------------------------------- the scripted forwarded agent

type sagent struct {
	mu      sync.Mutex
	ring    sshagent.Agent
	nm      *namer
	behav   string
	ops     int
	failAt  int
	closeAt int
	conn    net.Conn
	events  []string
	lastSig map[string]*ssh.Signature // per key name: signature over the previous challenge
	chals   *[]string
	dups    map[string]bool // blobs the agent lists twice
}

func (a *sagent) gate() error {
	i := a.ops
	a.ops++
	if a.closeAt >= 0 && i >= a.closeAt {
		if a.conn != nil {
			a.conn.Close()
		}
		return errors.New("closed")
	}
	if a.failAt == i {
		return errors.New("scripted failure")
	}
	return nil
}

func (a *sagent) List() ([]*sshagent.Key, error) {
	a.mu.Lock()
	defer a.mu.Unlock()
	if err := a.gate(); err != nil {
		a.events = append(a.events, "list:0")
		return nil, err
	}
	a.events = append(a.events, "list:1")
	keys, err := a.ring.List()
	if err != nil {
		return keys, err
	}
	// an agent that lists some identities twice
	var out []*sshagent.Key
	for _, k := range keys {
		out = append(out, k)
		if a.dups[string(k.Blob)] {
			out = append(out, k)
		}
	}
	// … or that ends its answer with one more identity: the user's own long-term P-384 key under
	// the comment the RA gives the keys it generates
	if strings.HasSuffix(a.behav, "+le") {
		_, sg := e1()
		out = append(out, &sshagent.Key{Format: sg.PublicKey().Type(), Blob: sg.PublicKey().Marshal(), Comment: "private-key"})
	}
	return out, nil
}

func (a *sagent) Sign(key ssh.PublicKey, data []byte) (*ssh.Signature, error) {
	return a.SignWithFlags(key, data, 0)
}

func (a *sagent) SignWithFlags(key ssh.PublicKey, data []byte, flags sshagent.SignatureFlags) (sig *ssh.Signature, err error) {
	a.mu.Lock()
	defer a.mu.Unlock()
	name := a.nm.key(key)
	*a.chals = append(*a.chals, hx.Hex(data))
	defer func() {
		ok := "1"
		if err != nil {
			ok = "0"
		}
		a.events = append(a.events, "sign:"+name+":"+ok)
	}()
	if err := a.gate(); err != nil {
		return nil, err
	}
	honest := func(k ssh.PublicKey, d []byte) (*ssh.Signature, error) {
		if _, sg := e1(); strings.HasSuffix(a.behav, "+le") && bytes.Equal(k.Marshal(), sg.PublicKey().Marshal()) {
			return sg.Sign(rand.Reader, d) // the extra identity is genuinely held
		}
		return a.ring.Sign(k, d)
	}
	switch {
	case a.behav == "honest" || a.behav == "honest+le":
		s, err := honest(key, data)
		if err == nil {
			a.lastSig[name] = s
		}
		return s, err
	case strings.HasPrefix(a.behav, "okey:"):
		return honest(lk(a.behav[5:]).signer.PublicKey(), data)
	case a.behav == "odata":
		return honest(key, append([]byte("x"), data...))
	case a.behav == "replay":
		if s, ok := a.lastSig[name]; ok {
			return s, nil
		}
		return honest(key, append([]byte("x"), data...))
	case a.behav == "garbage":
		return &ssh.Signature{Format: key.Type(), Blob: []byte{1, 2, 3}}, nil
	case a.behav == "empty":
		return &ssh.Signature{}, nil
	}
	return nil, errors.New("scripted sign failure")
}

func (a *sagent) Add(k sshagent.AddedKey) (err error) {
	a.mu.Lock()
	defer a.mu.Unlock()
	signer, serr := ssh.NewSignerFromKey(k.PrivateKey)
	name, cert := "?", "-"
	if serr == nil {
		name = a.nm.key(signer.PublicKey())
	}
	if k.Certificate != nil {
		cert = a.nm.cert(k.Certificate)
	}
	lifetime := k.LifetimeSecs
	defer func() {
		ok := "1"
		if err != nil {
			ok = "0"
		}
		a.events = append(a.events, fmt.Sprintf("add:%s:%s:%d:%s:%s", name, cert, lifetime, hx.HexS(k.Comment), ok))
	}()
	if err := a.gate(); err != nil {
		return err
	}
	k.LifetimeSecs = 0 // the harness keyring must not expire identities behind the model's back
	return a.ring.Add(k)
}

func (a *sagent) Remove(key ssh.PublicKey) (err error) {
	a.mu.Lock()
	defer a.mu.Unlock()
	defer func() {
		ok := "1"
		if err != nil {
			ok = "0"
		}
		a.events = append(a.events, fmt.Sprintf("rm:%s:%s:%s", a.nm.key(key), a.nm.cert(key), ok))
	}()
	if err := a.gate(); err != nil {
		return err
	}
	return a.ring.Remove(key)
}

func (a *sagent) RemoveAll() error               { return errors.New("unsupported") }
func (a *sagent) Lock(p []byte) error            { return errors.New("unsupported") }
func (a *sagent) Unlock(p []byte) error          { return errors.New("unsupported") }
func (a *sagent) Signers() ([]ssh.Signer, error) { return nil, errors.New("unsupported") }

func socketPair() (net.Conn, net.Conn) {
	fds, err := syscall.Socketpair(syscall.AF_UNIX, syscall.SOCK_STREAM, 0)
	if err != nil {
		panic(err)
	}
	f0, f1 := os.NewFile(uintptr(fds[0]), "a"), os.NewFile(uintptr(fds[1]), "b")
	c0, _ := net.FileConn(f0)
	c1, _ := net.FileConn(f1)
	f0.Close()
	f1.Close()
	return c0, c1
}

// ---------------------------------------------------------------- scripted handlers / agent keys / signer

type shandler struct {
	kind string
	idx  int
	tr   *[]string
}

func (h *shandler) Name() string {
	if h.kind == "npanic" || strings.HasPrefix(h.kind, "gkeyn:") {
		panic("name panic")
	}
	return "scripted" + strconv.Itoa(h.idx)
}

func (h *shandler) Authenticate(p *csr.ReqParam) error {
	*h.tr = append(*h.tr, fmt.Sprintf("auth:%d", h.idx))
	switch h.kind {
	case "rej", "npanic":
		return gensign.NewErrorWithMsg(gensign.HandlerAuthN, "scripted", "no")
	case "apanic":
		panic("auth panic")
	}
	return nil
}

var kindByName = map[string]gensign.ErrorType{"invalidParams": gensign.InvalidParams, "handlerAuthN": gensign.HandlerAuthN,
	"handlerGenCSR": gensign.HandlerGenCSRErr, "handlerConf": gensign.HandlerConfErr, "allAuthFailed": gensign.AllAuthFailed,
	"signerSign": gensign.SignerSignErr, "agentOpCert": gensign.AgentOpCertErr, "panic": gensign.Panic}

func (h *shandler) Generate(p *csr.ReqParam) ([]csr.AgentKey, error) {
	*h.tr = append(*h.tr, fmt.Sprintf("gen:%d", h.idx))
	f := strings.Split(h.kind, ":")
	switch f[0] {
	case "gerr":
		if f[1] == "other" {
			return nil, errors.New("plain error")
		}
		return nil, gensign.NewError(kindByName[f[1]], "scripted", errors.New("x"))
	case "gpanic":
		panic("generate panic")
	case "gcpanic": // generates a key whose CSRs() panics
		return []csr.AgentKey{&skey{addErr: "-", csrsPanic: true, idx: h.idx}}, nil
	case "gempty":
		return nil, nil
	case "gkey", "gkeyn": // gkeyn: authenticates and generates, but its Name() panics
		n, _ := strconv.Atoi(f[1])
		if f[0] == "gkeyn" {
			f = []string{"gkey", f[1], "-", "0"}
		}
		k := &skey{addErr: f[2], addPanic: f[3] == "1", pub: lk("L4").signer.PublicKey(), idx: h.idx}
		for i := 0; i < n; i++ {
			k.csrs = append(k.csrs, &proto.SSHCertificateSigningRequest{KeyMeta: &proto.KeyMeta{Identifier: "scripted"}, Principals: []string{"s"},
				PublicKey: fmt.Sprintf("scripted-key-%d", 500+h.idx)})
		}
		return []csr.AgentKey{k}, nil
	}
	panic("handler kind " + h.kind)
}

type skey struct {
	csrs      []*proto.SSHCertificateSigningRequest
	addErr    string
	addPanic  bool
	csrsPanic bool
	pub       ssh.PublicKey
	idx       int
}

func (k *skey) CSRs() []*proto.SSHCertificateSigningRequest {
	if k.csrsPanic {
		panic("csrs panic")
	}
	return k.csrs
}
func (k *skey) AddCertsToAgent(certs []ssh.PublicKey, comments []string) error {
	if k.addPanic {
		panic("addcerts panic")
	}
	if k.addErr != "-" {
		return errors.New("scripted add failure")
	}
	return nil
}

type ssigner struct {
	nm      *namer
	replies []string
	tr      *[]string
	csrs    *[]string
	certN   *int
}

func (s *ssigner) Sign(ctx context.Context, r *proto.SSHCertificateSigningRequest) ([]ssh.PublicKey, []string, error) {
	keyName := r.PublicKey
	var pub ssh.PublicKey
	if strings.HasPrefix(r.PublicKey, "scripted-key-") {
		keyName = "S" + r.PublicKey[len("scripted-key-"):]
	} else {
		p, _, _, _, err := ssh.ParseAuthorizedKey([]byte(r.PublicKey))
		if err != nil {
			keyName = "unparsable"
		} else {
			pub = p
			keyName = s.nm.key(p)
		}
		// record what the CA was asked for
		*s.csrs = append(*s.csrs, showRequest(r, keyName))
	}
	reply := "err"
	if len(s.replies) > 0 {
		reply = s.replies[0]
		s.replies = s.replies[1:]
	}
	f := strings.Split(reply, ":")
	ok := "1"
	if f[0] == "err" || f[0] == "panic" {
		ok = "0"
	}
	*s.tr = append(*s.tr, "ca:"+keyName+":"+ok)
	mk := func(k ssh.PublicKey) ssh.PublicKey {
		*s.certN++
		c := &ssh.Certificate{Key: k, Serial: uint64(*s.certN), CertType: ssh.UserCert, KeyId: "harness", ValidPrincipals: r.Principals,
			ValidAfter: 0, ValidBefore: ssh.CertTimeInfinity}
		if err := c.SignCert(rand.Reader, caKey); err != nil {
			panic(err)
		}
		s.nm.mu.Lock()
		s.nm.certs[string(c.Marshal())] = fmt.Sprintf("c%d", *s.certN)
		s.nm.mu.Unlock()
		return c
	}
	switch f[0] {
	case "certs":
		n, _ := strconv.Atoi(f[1])
		m, _ := strconv.Atoi(f[2])
		var certs []ssh.PublicKey
		if pub == nil {
			pub = lk("L4").signer.PublicKey()
		}
		for i := 0; i < n; i++ {
			certs = append(certs, mk(pub))
		}
		var comments []string
		for i := 0; i < m; i++ {
			comments = append(comments, fmt.Sprintf("comment%d", i))
		}
		return certs, comments, nil
	case "foreign":
		return []ssh.PublicKey{mk(lk("L3").signer.PublicKey())}, []string{"x"}, nil
	case "plain":
		return []ssh.PublicKey{lk("L3").signer.PublicKey()}, []string{"x"}, nil
	case "mixed": // n certificates, a plain public key (the CA's own key line), m more certificates
		n, _ := strconv.Atoi(f[1])
		m, _ := strconv.Atoi(f[2])
		var certs []ssh.PublicKey
		if pub == nil {
			pub = lk("L4").signer.PublicKey()
		}
		for i := 0; i < n; i++ {
			certs = append(certs, mk(pub))
		}
		certs = append(certs, caKey.PublicKey())
		for i := 0; i < m; i++ {
			certs = append(certs, mk(pub))
		}
		return certs, []string{"x"}, nil
	case "panic":
		panic("signer panic")
	}
	return nil, nil, errors.New("scripted CA failure")
}

// showRequest renders a signing request as the driver expects it
func showRequest(r *proto.SSHCertificateSigningRequest, keyName string) string {
	var exts []string
	for k, v := range r.Extensions {
		exts = append(exts, hx.HexS(k)+"="+hx.HexS(v))
	}
	sort.Strings(exts)
	return fmt.Sprintf("meta=%s,val=%d,prins=%s,exts=%s,key=%s,kid=%s", hx.HexS(r.KeyMeta.GetIdentifier()), r.Validity,
		hx.StrList(r.Principals), strings.Join(exts, "+"), keyName, hx.Tok([]byte(r.KeyId)))
}

// ---------------------------------------------------------------- one history

func kv(s string) map[string]string {
	m := map[string]string{}
	for _, f := range strings.Split(s, ",") {
		p := strings.SplitN(f, "=", 2)
		if len(p) == 2 {
			m[p[0]] = p[1]
		}
	}
	return m
}

func atoiOr(s string, d int) int {
	if s == "-" || s == "" {
		return d
	}
	n, _ := strconv.Atoi(s)
	return n
}

var dirN int
var dirMu sync.Mutex

// gs args: init idents ("L2:<commenthex>,c:L3:<commenthex>" or "-"), runs (";"-separated descriptors)
func runGS(args []string) []string {
	longTerm()
	nm := &namer{fresh: map[string]string{}, certs: map[string]string{}}
	ring := sshagent.NewKeyring()
	certN := 0
	var chals []string
	lastSig := map[string]*ssh.Signature{}
	dups := map[string]bool{}
	if args[0] != "-" {
		for _, id := range strings.Split(args[0], ",") {
			p := strings.Split(id, ":")
			if p[0] == "c" || p[0] == "cc" { // a foreign certificate over a long-term key ("cc": the agent lists it twice)
				k := lk(p[1])
				certN++
				c := &ssh.Certificate{Key: k.signer.PublicKey(), Serial: uint64(certN), CertType: ssh.UserCert, KeyId: "pre", ValidBefore: ssh.CertTimeInfinity}
				c.SignCert(rand.Reader, caKey)
				nm.certs[string(c.Marshal())] = fmt.Sprintf("c%d", certN)
				ring.Add(sshagent.AddedKey{PrivateKey: &k.priv, Certificate: c, Comment: string(hx.UnHex(p[2]))})
				if p[0] == "cc" {
					dups[string(c.Marshal())] = true
				}
			} else {
				k := lk(p[0])
				ring.Add(sshagent.AddedKey{PrivateKey: &k.priv, Comment: string(hx.UnHex(p[1]))})
			}
		}
	}
	dirMu.Lock()
	dirN++
	base, err := os.MkdirTemp("", fmt.Sprintf("verifgs%d_", dirN))
	dirMu.Unlock()
	if err != nil {
		panic(err)
	}
	defer os.RemoveAll(base)
	var outs []string
	for ri, rs := range strings.Split(args[1], ";") {
		r := kv(rs)
		// key directory
		dir := filepath.Join(base, fmt.Sprintf("keys%d", ri))
		os.MkdirAll(dir, 0o755)
		logname := string(hx.UnHex(r["ln"]))
		put := func(path, st string) {
			switch {
			case st == "abs":
			case strings.HasPrefix(st, "key:"):
				os.WriteFile(path, ssh.MarshalAuthorizedKey(lk(st[4:]).signer.PublicKey()), 0o644)
			case st == "empty": // exists, holds no key at all
				os.WriteFile(path, nil, 0o644)
			case st == "ws":
				os.WriteFile(path, []byte(" \n\t\n"), 0o644)
			case st == "comment":
				os.WriteFile(path, []byte("# revoked\n"), 0o644)
			case st == "bad":
				os.WriteFile(path, []byte("this is not a key\n"), 0o644)
			case st == "dir":
				os.MkdirAll(path, 0o755)
			}
		}
		// other users' registered keys sit in the same directory (alice's is L1, the key the honest
		// agent usually holds); the files of the login name itself are as the run says
		for _, o := range [][2]string{{"alice", "L1"}, {"bob", "L2"}, {"alicia", "L3"}} {
			if o[0] != logname {
				put(filepath.Join(dir, o[0]+".pub"), "key:"+o[1])
			}
		}
		os.Remove(filepath.Join(dir, logname+".pub"))
		os.Remove(filepath.Join(dir, logname))
		put(filepath.Join(dir, logname+".pub"), r["pub"])
		put(filepath.Join(dir, logname), r["bare"])
		// configuration file
		kids := map[string]string{}
		if r["kids"] != "-" {
			for _, e := range strings.Split(r["kids"], "+") {
				p := strings.SplitN(e, ":", 2)
				kids[p[0]] = string(hx.UnHex(p[1]))
			}
		}
		hconf := map[string]interface{}{"pub_key_dir": dir, "cert_validity_sec": atoiOr(r["val"], 0), "key_identifiers": kids}
		cfgDoc := map[string]interface{}{"handlers": map[string]interface{}{regular.HandlerName: hconf}}
		cfgPath := filepath.Join(base, fmt.Sprintf("conf%d.json", ri))
		b, _ := json.Marshal(cfgDoc)
		os.WriteFile(cfgPath, b, 0o644)
		gconf, err := config.NewGensignConfig(cfgPath)
		if err != nil {
			panic(err)
		}
		// forwarded agent
		cc, sc := socketPair()
		ag := &sagent{ring: ring, nm: nm, behav: r["ag"], failAt: atoiOr(r["failat"], -1), closeAt: atoiOr(r["closeat"], -1), conn: sc, lastSig: lastSig, chals: &chals, dups: dups}
		go func() { sshagent.ServeAgent(ag, sc); sc.Close() }()
		var tr []string
		ag.events = nil
		var handlers []gensign.Handler
		for hi, hk := range strings.Split(r["hs"], "|") {
			if hk == "reg" {
				h, err := regular.NewHandler(gconf, cc)
				if err != nil {
					panic(err)
				}
				handlers = append(handlers, &tracedHandler{h, hi, &tr, ag})
			} else {
				handlers = append(handlers, &shandler{hk, hi, &tr})
			}
		}
		algo, _ := strconv.Atoi(r["algo"])
		pol := common.NamespacePolicy(r["pol"])
		param := &csr.ReqParam{NamespacePolicy: pol, HandlerName: "regular", ClientIP: string(hx.UnHex(r["ip"])), LogName: logname,
			ReqUser: string(hx.UnHex(r["ru"])), ReqHost: string(hx.UnHex(r["rh"])), TransID: string(hx.UnHex(r["tid"])),
			Attrs: &message.Attributes{HardKey: r["hk"] == "1", CAPubKeyAlgo: x509.PublicKeyAlgorithm(algo)}}
		// what else the client may claim in its request: none of it may reach the signing request
		for _, c := range strings.Split(r["cl"], "+") {
			switch c {
			case "ff":
				if param.Attrs.TouchlessSudo == nil {
					param.Attrs.TouchlessSudo = &message.TouchlessSudo{}
				}
				param.Attrs.TouchlessSudo.IsFirefighter = true
			case "sudo":
				if param.Attrs.TouchlessSudo == nil {
					param.Attrs.TouchlessSudo = &message.TouchlessSudo{}
				}
				param.Attrs.TouchlessSudo.Hosts, param.Attrs.TouchlessSudo.Time = "h1,h2", 30
			case "t2s":
				param.Attrs.Touch2SSH = true
			case "ver":
				param.Attrs.IfVer, param.Attrs.SSHClientVersion = 7, "9.9"
			case "user":
				param.Attrs.Username, param.Attrs.Hostname = "root", "bastion"
			case "exts":
				param.Attrs.Exts = map[string]interface{}{"isFirefighter": true, "prins": []interface{}{"root"}, "validity": 999999, "isHWKey": true, "touchPolicy": 3}
			case "sig":
				param.Attrs.SignatureAlgo = x509.SHA1WithRSA
				param.SignatureAlgo = x509.SHA1WithRSA
			}
		}
		var csrs []string
		signer := &ssigner{nm: nm, tr: &tr, csrs: &csrs, certN: &certN}
		if r["ca"] != "-" {
			signer.replies = strings.Split(r["ca"], "|")
		}
		nChalBefore := len(chals)
		// the request context: one with a deadline, as cmd/gensign sets it up (even runs), or none
		ctx := context.Background()
		cancelCtx := func() {}
		if ri%2 == 0 {
			ctx, cancelCtx = context.WithTimeout(ctx, 60*time.Second)
		}
		var theSigner csr.Signer = signer
		if r["ca"] == "realdown" || r["ca"] == "realdead" {
			// the real crypki signer: unreachable CA, and (realdead) a request context already over
			real, err := getRealSigner()
			if err != nil {
				panic(err)
			}
			theSigner = &rsigner{real, nm, &tr, &csrs}
			if r["ca"] == "realdead" {
				c2, cancel := context.WithCancel(ctx)
				cancel()
				ctx = c2
			}
		}
		runErr := gensign.Run(ctx, param, handlers, theSigner)
		cancelCtx()
		cc.Close()
		res := "ok"
		if runErr != nil {
			res = "other"
			if e, ok := gensign.IsError(runErr); ok {
				for n, t := range kindByName {
					if e.Type() == t {
						res = n
					}
				}
			}
		}
		// the public way to ask for the kind must say the same: IsErrorOfType holds for the kind
		// the error carries and for no other (and for nothing when the run succeeded)
		for n, t := range kindByName {
			if gensign.IsErrorOfType(runErr, t) != (res == n) {
				res = "other"
				break
			}
		}
		// merge agent events into the trace at the positions they were recorded
		chal := "none"
		for ci := nChalBefore; ci < len(chals); ci++ {
			if chal == "none" {
				chal = "fresh"
			}
			c := chals[ci]
			// "unpredictable": at least 128 bits from the random source (the statement does not fix the length)
			if len(c) < 32 {
				chal = fmt.Sprintf("len%d", len(c)/2)
			}
			for _, old := range chals[:ci] {
				if old == c {
					chal = "dup"
				}
			}
		}
		keys, _ := ring.List()
		var ids []string
		for _, k := range keys {
			pub, _ := ssh.ParsePublicKey(k.Blob)
			ids = append(ids, nm.key(pub)+":"+nm.cert(pub)+":"+hx.HexS(k.Comment))
			if dups[string(k.Blob)] { // listed twice, as the agent itself does
				ids = append(ids, nm.key(pub)+":"+nm.cert(pub)+":"+hx.HexS(k.Comment))
			}
		}
		sort.Strings(ids)
		outs = append(outs, fmt.Sprintf("res=%s tr=%s chal=%s ag=[%s] csr=[%s]", res, strings.Join(tr, ">"), chal, strings.Join(ids, "|"), strings.Join(csrs, "|")))
	}
	return []string{strings.Join(outs, ";")}
}

// tracedHandler wraps the real regular handler to put its calls, and the agent requests they
// cause, into the common trace in order.
type tracedHandler struct {
	gensign.Handler
	idx int
	tr  *[]string
	ag  *sagent
}

func (t *tracedHandler) flush() {
	t.ag.mu.Lock()
	*t.tr = append(*t.tr, t.ag.events...)
	t.ag.events = nil
	t.ag.mu.Unlock()
}

func (t *tracedHandler) Authenticate(p *csr.ReqParam) error {
	*t.tr = append(*t.tr, fmt.Sprintf("auth:%d", t.idx))
	err := t.Handler.Authenticate(p)
	t.flush()
	return err
}

func (t *tracedHandler) Generate(p *csr.ReqParam) ([]csr.AgentKey, error) {
	*t.tr = append(*t.tr, fmt.Sprintf("gen:%d", t.idx))
	ks, err := t.Handler.Generate(p)
	t.flush()
	var out []csr.AgentKey
	for _, k := range ks {
		out = append(out, &tracedKey{k, t})
	}
	return out, err
}

type tracedKey struct {
	csr.AgentKey
	t *tracedHandler
}

func (k *tracedKey) AddCertsToAgent(certs []ssh.PublicKey, comments []string) error {
	err := k.AgentKey.AddCertsToAgent(certs, comments)
	k.t.flush()
	return err
}
