package main

import (
	"fmt"
	"os"
	"strconv"
	"strings"

	"github.com/theparanoids/ysshra/internal/verifharness/hx"
)

var nearMiss = []string{"", "my key", "paranoids.regular-cert", "Paranoids.Regular-cert", "paranoids.regula", "xparanoids.regular", "private-key", "paranoids.regular", "PARANOIDS.REGULAR-CERT", "regular-cert"}

func genRun(g *hx.Gen, fam int) string {
	// login names: ordinary ones, prefixes / extensions of another user's name, and names that a
	// shell pattern or a case-insensitive comparison would take for another user's
	ln := g.Pick([]string{"alice", "bob", "a.b", "é", "alice", "alice", "alice", "alic", "alice2", "al*", "?lice", "[a-z]lice", "*", "Alice", "ALICE", "alice ", "bo?"})
	f := map[string]string{
		"pol": "NONS", "hk": "0", "ln": hx.HexS(ln), "tid": hx.HexS(g.Pick([]string{"ab12cd34ef", "", `q"uote`, "日本"})), "ip": hx.HexS(g.Pick([]string{"10.0.0.1", "::1", "<ip>"})),
		"ru": hx.HexS(g.Str()), "rh": hx.HexS(g.Str()), "algo": "0", "val": "43200", "kids": "0:" + hx.HexS("id-default") + "+1:" + hx.HexS("id-rsa") + "+ecdsa:" + hx.HexS("id-ec"),
		"pub": "key:L1", "bare": "abs", "hs": "reg", "ag": "honest", "failat": "-", "closeat": "-", "ca": "certs:1:1", "cl": "-",
	}
	if g.Intn(3) == 0 {
		f["cl"] = g.Pick([]string{"ff", "t2s", "sudo", "ff+sudo", "ver+user", "exts", "sig", "ff+t2s+sudo+ver+user+exts+sig"})
	}
	// validity: log-uniform over one second .. ten years, plus the ends
	vals := []int{1, 2, 60, 3600, 43200, 86400, 31557600, 315576000, 315576000 - 1, 4294963696, 4294967295 - 3600}
	f["val"] = strconv.Itoa(vals[g.Intn(len(vals)-2)])
	if g.Intn(30) == 0 {
		f["val"] = strconv.Itoa(vals[len(vals)-2+g.Intn(2)])
	}
	f["algo"] = strconv.Itoa([]int{0, 0, 1, 3, 3, 2, 4, 99, 8, 10}[g.Intn(10)])
	if g.Intn(4) == 0 {
		f["kids"] = g.Pick([]string{"-", "RSA:" + hx.HexS("id-rsa"), "EcDsa:" + hx.HexS("id-ec") + "+0:" + hx.HexS("d"), "3:" + hx.HexS("by-number"), "unknown:" + hx.HexS("u") + "+ed25519:" + hx.HexS("e"),
			// numbers written with leading zeros are decimal numbers
			"010:" + hx.HexS("slot-ten") + "+03:" + hx.HexS("slot-three"), "0010:" + hx.HexS("ten") + "+8:" + hx.HexS("eight") + "+001:" + hx.HexS("one")})
	}
	f["ca"] = g.Pick([]string{"certs:1:1", "certs:1:1", "certs:2:2", "certs:3:1", "certs:2:4", "certs:0:0", "certs:4:0", "plain", "foreign", "mixed:1:0", "mixed:0:1", "mixed:2:1", "mixed:1:0"})
	if g.Intn(10) == 0 { // long client-declared names
		f["ru"], f["rh"] = hx.HexS(strings.Repeat("u", []int{40, 64, 217}[g.Intn(3)])), hx.HexS("bastion-"+strings.Repeat("x", []int{30, 49, 200}[g.Intn(3)]))
	}
	if g.Intn(12) == 0 {
		f["ag"] = "honest+le"
	}
	switch fam {
	case 0: // success paths
	case 1: // authentication failures
		switch g.Intn(9) {
		case 0:
			f["pol"] = "NSOK"
		case 1:
			f["hk"] = "1"
		case 2:
			f["pub"], f["bare"] = "abs", g.Pick([]string{"abs", "key:L1", "key:L2", "bad", "dir", "empty", "ws", "comment"})
		case 3:
			f["pub"] = g.Pick([]string{"bad", "dir", "key:L2", "key:L3", "empty", "ws", "comment", "empty"})
			f["bare"] = g.Pick([]string{"abs", "key:L1"})
		case 4:
			f["ag"] = g.Pick([]string{"okey:L2", "odata", "replay", "garbage", "empty", "fail"})
		case 5:
			f["closeat"] = "0"
		case 6:
			f["failat"] = "0"
		case 7:
			f["pub"] = "key:L3" // a key the agent does not hold
		case 8:
			f["ag"] = "replay"
		}
	case 2: // handler lists
		n := 1 + g.Intn(4)
		var hs []string
		for i := 0; i < n; i++ {
			hs = append(hs, g.Pick([]string{"reg", "rej", "rej", "gkey:1:-:0", "gkey:2:-:0", "gempty", "gerr:handlerGenCSR", "gerr:invalidParams", "gerr:handlerConf", "gerr:other", "npanic", "apanic", "gpanic", "gkey:1:x:0", "gkey:1:-:1", "gkey:0:-:0", "gkeyn:1", "gkeyn:2", "gcpanic"}))
		}
		f["hs"] = strings.Join(hs, "|")
		if g.Bool() {
			f["ag"] = g.Pick([]string{"honest", "fail", "odata"})
		}
		f["ca"] = g.Pick([]string{"certs:1:1|certs:1:1|certs:1:1", "certs:1:1|err", "err", "panic", "certs:2:2|panic", "-"})
	case 3: // faults
		switch g.Intn(5) {
		case 0:
			f["failat"] = strconv.Itoa(g.Intn(9))
		case 1:
			f["closeat"] = strconv.Itoa(g.Intn(9))
		case 2:
			f["ca"] = g.Pick([]string{"err", "panic", "-", "realdown", "realdead"})
		case 3:
			f["failat"] = strconv.Itoa(1 + g.Intn(4))
			f["ca"] = "certs:3:3"
		case 4:
			f["closeat"] = strconv.Itoa(2 + g.Intn(5))
			f["ca"] = "certs:2:2"
		}
	}
	var parts []string
	for _, k := range []string{"pol", "hk", "ln", "tid", "ip", "ru", "rh", "algo", "val", "kids", "pub", "bare", "hs", "ag", "failat", "closeat", "ca", "cl"} {
		parts = append(parts, k+"="+f[k])
	}
	return strings.Join(parts, ",")
}

// runWith renders one run: the defaults of a plain successful request with the given fields replaced
func runWith(over ...string) string {
	f := map[string]string{
		"pol": "NONS", "hk": "0", "ln": hx.HexS("alice"), "tid": hx.HexS("ab12cd34ef"), "ip": hx.HexS("10.0.0.1"),
		"ru": hx.HexS("alice"), "rh": hx.HexS("host"), "algo": "0", "val": "43200", "kids": "0:" + hx.HexS("id-default") + "+1:" + hx.HexS("id-rsa") + "+ecdsa:" + hx.HexS("id-ec"),
		"pub": "key:L1", "bare": "abs", "hs": "reg", "ag": "honest", "failat": "-", "closeat": "-", "ca": "certs:1:1", "cl": "-",
	}
	for i := 0; i+1 < len(over); i += 2 {
		f[over[i]] = over[i+1]
	}
	var parts []string
	for _, k := range []string{"pol", "hk", "ln", "tid", "ip", "ru", "rh", "algo", "val", "kids", "pub", "bare", "hs", "ag", "failat", "closeat", "ca", "cl"} {
		parts = append(parts, k+"="+f[k])
	}
	return strings.Join(parts, ",")
}

// exhaustiveGS: every sequence of `depth` runs over a curated alphabet (one run per way a step can
// go: each reply shape of the CA, each answer of the agent to the challenge, a failure or a closed
// connection at each agent operation), from each starting agent.
// level 0: the core alphabet (every way a step of the regular run can go) for the deepest enumeration;
// 1: plus several-request keys, long names, lying agents, client claims, look-alike login names;
// 2: plus connection loss at every request, the real signer, further handlers
func exhaustiveGS(depth int, level int) [][]string {
	wide := level >= 2
	alphabet := []string{runWith(), runWith("ca", "certs:2:2"), runWith("ca", "mixed:1:0"), runWith("ca", "mixed:0:1"), runWith("ca", "plain"), runWith("ca", "foreign"),
		runWith("ca", "certs:0:0"), runWith("ca", "err"), runWith("ca", "panic"), runWith("ca", "-"), runWith("ag", "fail"), runWith("ag", "replay"), runWith("ag", "okey:L2"),
		runWith("ag", "odata"), runWith("ag", "empty"), runWith("pub", "key:L3"), runWith("pub", "empty"), runWith("hk", "1"), runWith("pol", "NSOK"), runWith("algo", "99"),
		runWith("hs", "rej|reg"), runWith("hs", "gkey:1:-:0", "ca", "certs:1:1"), runWith("hs", "gpanic")}
	for k := 0; k <= 6; k++ {
		alphabet = append(alphabet, runWith("failat", strconv.Itoa(k), "ca", "certs:2:2"))
		if wide {
			alphabet = append(alphabet, runWith("closeat", strconv.Itoa(k), "ca", "certs:2:2"))
		}
	}
	core := append([]string{}, alphabet...)
	core = append(core, runWith("hs", "gkey:2:-:0", "ca", "certs:1:1|panic"), runWith("ag", "honest+le"), runWith("cl", "ff+t2s+sudo+ver+user+exts+sig"))
	// several requests for one key: every reply shape at every position
	for _, ca := range []string{"panic", "err", "certs:1:1|panic", "certs:1:1|err", "certs:1:1|certs:1:1", "certs:1:1|plain", "certs:1:1"} {
		alphabet = append(alphabet, runWith("hs", "gkey:2:-:0", "ca", ca))
	}
	alphabet = append(alphabet, runWith("hs", "gkey:3:-:0", "ca", "certs:1:1|certs:1:1|panic"), runWith("hs", "gkey:2:x:0", "ca", "certs:1:1|certs:1:1"), runWith("hs", "gkey:2:-:1", "ca", "certs:1:1|certs:1:1"))
	// long client-declared user / host names (the same ones in consecutive runs), with an honest
	// agent and with one that replays its last signature
	longHost := hx.HexS("bastion-" + strings.Repeat("x", 49))
	longUser := hx.HexS(strings.Repeat("u", 217))
	alphabet = append(alphabet, runWith("rh", longHost), runWith("rh", longHost, "ag", "replay"), runWith("ru", longUser, "rh", longHost), runWith("ru", longUser, "rh", longHost, "ag", "replay"))
	// an agent that ends its listing with the user's own P-384 key under the RA's key comment
	alphabet = append(alphabet, runWith("ag", "honest+le"), runWith("ag", "honest+le", "ca", "certs:2:2"))
	// client claims of every kind
	for _, c := range []string{"ff", "t2s", "sudo", "ver+user", "exts", "sig", "ff+t2s+sudo+ver+user+exts+sig"} {
		alphabet = append(alphabet, runWith("cl", c))
	}
	// a login name without registered key next to other users' keys
	for _, n := range []string{"alic", "al*", "?lice", "[a-z]lice", "*", "Alice"} {
		alphabet = append(alphabet, runWith("ln", hx.HexS(n), "pub", "abs", "bare", "abs"))
	}
	if wide {
		alphabet = append(alphabet, runWith("ca", "realdead"), runWith("ca", "realdown"), runWith("ln", hx.HexS("bob")), runWith("hs", "gkeyn:1"), runWith("hs", "gerr:handlerConf"),
			runWith("ag", "garbage"), runWith("pub", "bad"), runWith("val", "1"), runWith("algo", "2"))
	}
	var pad []string
	for i := 0; i < 70; i++ {
		pad = append(pad, fmt.Sprintf("P%d:%s", i, hx.HexS(fmt.Sprintf("pad %d", i))))
	}
	starts := []string{"L1:" + hx.HexS("user key"), "L1:-,c:L2:" + hx.HexS("paranoids.regular-cert") + ",L2:" + hx.HexS("my key"), "-",
		// a stale certificate of the handler that the agent lists twice
		"L1:-,cc:L2:" + hx.HexS("paranoids.regular-cert")}
	if depth <= 2 {
		// an agent that already holds 70 unrelated identities
		starts = append(starts, strings.Join(pad, ",")+",L1:-")
	}
	if level == 0 {
		alphabet = core
	}
	var sets [][]string
	var rec func(prefix []string)
	rec = func(prefix []string) {
		if len(prefix) == depth {
			for _, st := range starts {
				sets = append(sets, []string{st, strings.Join(prefix, ";")})
			}
			return
		}
		for _, a := range alphabet {
			rec(append(append([]string{}, prefix...), a))
		}
	}
	rec(nil)
	return sets
}

func genGS(g *hx.Gen, out *hx.Out) {
	var sets [][]string
	if os.Getenv("VERIF_TIER") == "thorough" {
		sets = append(sets, exhaustiveGS(2, 2)...)
		sets = append(sets, exhaustiveGS(3, 0)...)
	} else {
		sets = append(sets, exhaustiveGS(1, 2)...)
		sets = append(sets, exhaustiveGS(2, 1)...)
	}
	for i := 0; i < *hx.Count; i++ {
		var init []string
		for j := g.Intn(4); j > 0; j-- {
			if g.Intn(3) == 0 {
				init = append(init, fmt.Sprintf("c:L%d:%s", 2+g.Intn(2), hx.HexS(nearMiss[g.Intn(len(nearMiss))])))
			} else {
				init = append(init, fmt.Sprintf("L%d:%s", 1+g.Intn(3), hx.HexS(nearMiss[g.Intn(len(nearMiss))])))
			}
		}
		// the user's long-term key is in the agent most of the time
		if g.Intn(5) > 0 {
			init = append(init, "L1:"+hx.HexS(g.Pick([]string{"", "user key"})))
		}
		initS := "-"
		if len(init) > 0 {
			initS = strings.Join(init, ",")
		}
		nruns := 1 + g.Intn(5)
		var runs []string
		for r := 0; r < nruns; r++ {
			fam := []int{0, 0, 0, 1, 1, 2, 3, 3}[g.Intn(8)]
			runs = append(runs, genRun(g, fam))
		}
		sets = append(sets, []string{initS, strings.Join(runs, ";")})
	}
	out.Batch("gs", "gs", sets, 12, func(a []string) []string { return safe(runGS, a) })
}
