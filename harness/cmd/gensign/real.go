package main

// The real crypki signer behind gensign.Run, for the CA-failure clauses that a scripted signer
// cannot exhibit: an unreachable CA and a request context that is already over.

import (
	"context"
	"crypto/ecdsa"
	"crypto/elliptic"
	"crypto/rand"
	"crypto/x509"
	"crypto/x509/pkix"
	"encoding/pem"
	"math/big"
	"os"
	"path/filepath"
	"sync"
	"time"

	"github.com/theparanoids/crypki/proto"
	"github.com/theparanoids/ysshra/crypki"
	"github.com/theparanoids/ysshra/csr"
	"golang.org/x/crypto/ssh"
)

var (
	realOnce   sync.Once
	realSigner csr.Signer
	realErr    error
)

// realDir: the directory of the real signer's key files, removed when the process ends
var realDir string

// getRealSigner: a crypki.Signer whose only endpoint is a closed local port
func getRealSigner() (csr.Signer, error) {
	realOnce.Do(func() {
		dir, err := os.MkdirTemp("", "verifgs_tls")
		if err != nil {
			realErr = err
			return
		}
		realDir = dir
		caKey, _ := ecdsa.GenerateKey(elliptic.P256(), rand.Reader)
		caT := &x509.Certificate{SerialNumber: big.NewInt(1), Subject: pkix.Name{CommonName: "verif ca"}, NotBefore: time.Now().Add(-time.Hour),
			NotAfter: time.Now().Add(24 * time.Hour), IsCA: true, BasicConstraintsValid: true, KeyUsage: x509.KeyUsageCertSign}
		caDER, _ := x509.CreateCertificate(rand.Reader, caT, caT, &caKey.PublicKey, caKey)
		caCert, _ := x509.ParseCertificate(caDER)
		clKey, _ := ecdsa.GenerateKey(elliptic.P256(), rand.Reader)
		clT := &x509.Certificate{SerialNumber: big.NewInt(2), Subject: pkix.Name{CommonName: "verif ra"}, NotBefore: time.Now().Add(-time.Hour),
			NotAfter: time.Now().Add(24 * time.Hour), KeyUsage: x509.KeyUsageDigitalSignature, ExtKeyUsage: []x509.ExtKeyUsage{x509.ExtKeyUsageClientAuth}}
		clDER, _ := x509.CreateCertificate(rand.Reader, clT, caCert, &clKey.PublicKey, caKey)
		keyDER, _ := x509.MarshalECPrivateKey(clKey)
		w := func(name, typ string, der []byte) string {
			p := filepath.Join(dir, name)
			os.WriteFile(p, pem.EncodeToMemory(&pem.Block{Type: typ, Bytes: der}), 0o600)
			return p
		}
		conf := crypki.SignerConfig{TLSClientKeyFile: w("client.key", "EC PRIVATE KEY", keyDER), TLSClientCertFile: w("client.crt", "CERTIFICATE", clDER),
			TLSCACertFiles: []string{w("ca.crt", "CERTIFICATE", caDER)}, CrypkiEndpoints: []string{"127.0.0.1"}, CrypkiPort: 1, Retries: 1,
			PerTryTimeout: 300 * time.Millisecond}
		realSigner, realErr = crypki.NewSigner(conf)
	})
	return realSigner, realErr
}

// rsigner records the CA call in the common trace like the scripted signer does
type rsigner struct {
	real csr.Signer
	nm   *namer
	tr   *[]string
	csrs *[]string
}

func (s *rsigner) Sign(ctx context.Context, r *proto.SSHCertificateSigningRequest) ([]ssh.PublicKey, []string, error) {
	name := "unparsable"
	if p, _, _, _, err := ssh.ParseAuthorizedKey([]byte(r.PublicKey)); err == nil {
		name = s.nm.key(p)
	}
	*s.csrs = append(*s.csrs, showRequest(r, name))
	certs, comments, err := s.real.Sign(ctx, r)
	ok := "1"
	if err != nil {
		ok = "0"
	}
	*s.tr = append(*s.tr, "ca:"+name+":"+ok)
	return certs, comments, err
}
