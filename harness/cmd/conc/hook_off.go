//go:build verifnohook

package main

import "github.com/theparanoids/ysshra/agent/shimagent"

// Built without the in-package hook (it no longer fits the source): registration of a waiter is
// waited for instead of observed; the table size is the one the statement names.
func waiters(s *shimagent.Server, code byte) int {
	if code >= 40 {
		return -1
	}
	return 0
}

const hooked = false
