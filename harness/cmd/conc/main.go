// Harness group `conc`: scheduling-sensitive behaviour of the shim agent behind yubiagent.ServeAgent:
// per-code wait / broadcast (C20) and concurrent clients (C11).
package main

import (
	"flag"
	"fmt"
	"io"
	"log"
	"net"
	"os"
	"path/filepath"
	"reflect"
	"sort"
	"strconv"
	"strings"
	"sync"
	"sync/atomic"
	"syscall"
	"time"

	"github.com/rs/zerolog"
	sshagent "golang.org/x/crypto/ssh/agent"

	"github.com/theparanoids/ysshra/agent/shimagent"
	"github.com/theparanoids/ysshra/agent/yubiagent"
	"github.com/theparanoids/ysshra/internal/verifharness/hx"
)

type opFn func(args []string) []string

var ops = map[string]opFn{"cond": runCond}

func main() {
	flag.Parse()
	log.SetOutput(io.Discard)
	zerolog.SetGlobalLevel(zerolog.Disabled)
	out := hx.Open()
	defer out.Close()
	defer cleanupTmp()
	if lines := hx.ReplayLines(); lines != nil {
		for _, l := range lines {
			if len(l) >= 2 {
				if fn, ok := ops[l[1]]; ok {
					out.Case(l[0], l[1], l[2:], safe(fn, l[2:]))
				}
			}
		}
		return
	}
	g := hx.NewGen(*hx.Seed)
	if hx.Want("cond") {
		genCond(g, out)
	}
	registerMore(g, out)
}

func safe(fn opFn, args []string) (res []string) {
	defer func() {
		if r := recover(); r != nil {
			res = []string{"crash", hx.HexS(fmt.Sprint(r))}
		}
	}()
	return fn(args)
}

func socketPair() (net.Conn, net.Conn) {
	fds, err := syscall.Socketpair(syscall.AF_UNIX, syscall.SOCK_STREAM, 0)
	if err != nil {
		panic(err)
	}
	f0, f1 := os.NewFile(uintptr(fds[0]), "a"), os.NewFile(uintptr(fds[1]), "b")
	c0, _ := net.FileConn(f0)
	c1, _ := net.FileConn(f1)
	f0.Close()
	f1.Close()
	return c0, c1
}

var (
	tmpDir  string
	tmpOnce sync.Once
	sockSeq int64
)

// cleanupTmp removes the directory of this process's sockets.
func cleanupTmp() {
	if tmpDir != "" {
		os.RemoveAll(tmpDir)
	}
}

// underlying starts a keyring-backed ssh-agent on a unix socket.
func underlying(ag sshagent.Agent) (string, func()) {
	tmpOnce.Do(func() {
		d, err := os.MkdirTemp("", "verifconc")
		if err != nil {
			panic(err)
		}
		tmpDir = d
	})
	sock := filepath.Join(tmpDir, fmt.Sprintf("a%d.sock", atomic.AddInt64(&sockSeq, 1)))
	l, err := net.Listen("unix", sock)
	if err != nil {
		panic(err)
	}
	go func() {
		for {
			c, err := l.Accept()
			if err != nil {
				return
			}
			go func() { sshagent.ServeAgent(ag, c); c.Close() }()
		}
	}()
	return sock, func() { l.Close(); os.Remove(sock) }
}

// shimOf reaches the *shimagent.Server inside the yubiagent server (exported embedded field).
func shimOf(y yubiagent.YubiAgent) *shimagent.Server {
	v := reflect.ValueOf(y).Elem().FieldByName("ShimAgent")
	return v.Interface().(*shimagent.Server)
}

// connect serves a new client connection of the yubiagent server and returns the client.
func connect(y yubiagent.YubiAgent) (yubiagent.YubiAgent, net.Conn) {
	return connectWith(y, func(r string) { globalPanics.Store(r) })
}

// globalPanics: a panic of ServeAgent on some connection of a scenario that has no handler of its own
var globalPanics atomic.Value

// connectWith: as connect; a panic inside ServeAgent (which would end the real agent process) is
// handed to onPanic instead of ending the harness
func connectWith(y yubiagent.YubiAgent, onPanic func(string)) (yubiagent.YubiAgent, net.Conn) {
	cc, sc := socketPair()
	go func() {
		defer func() {
			if r := recover(); r != nil {
				onPanic(fmt.Sprint(r))
				sc.Close()
			}
		}()
		yubiagent.ServeAgent(y, sc)
		sc.Close()
	}()
	cl, err := yubiagent.NewClientFromConn(cc)
	if err != nil {
		panic(err)
	}
	return cl, cc
}

// cond args: events "w<tid>:<code>,r:<code>,…"
// output: per event the sorted list of clients whose Wait returned because of it: "[1.3][][2]"
func runCond(args []string) []string {
	sock, stop := underlying(sshagent.NewKeyring())
	defer stop()
	y, err := yubiagent.NewServer(sock, true)
	if err != nil {
		panic(err)
	}
	defer y.Close()
	shim := shimOf(y)
	var crashed atomic.Value
	connect := func(y yubiagent.YubiAgent) (yubiagent.YubiAgent, net.Conn) {
		return connectWith(y, func(r string) { crashed.Store(r) })
	}
	released := make(chan int, 64)
	waitingOn := map[int]int{} // tid -> code, still believed blocked
	var conns []net.Conn
	defer func() {
		for _, c := range conns {
			c.Close()
		}
	}()
	var out []string
	collect := func(expect int) []int {
		var got []int
		deadline := time.After(6 * time.Second) // expected releases normally arrive within a millisecond; the margin is for a loaded machine
		for len(got) < expect {
			select {
			case t := <-released:
				got = append(got, t)
			case <-deadline:
				expect = -1
			}
			if expect < 0 {
				break
			}
		}
		// anything released that should not have been shows up shortly after
		settle := time.After(25 * time.Millisecond)
		for {
			select {
			case t := <-released:
				got = append(got, t)
				continue
			case <-settle:
			}
			break
		}
		sort.Ints(got)
		return got
	}
	show := func(l []int) string {
		var s []string
		for _, t := range l {
			s = append(s, strconv.Itoa(t))
		}
		return "[" + strings.Join(s, ".") + "]"
	}
	for _, ev := range strings.Split(args[0], ",") {
		p := strings.Split(ev, ":")
		if p[0] == "B" {
			// a burst: requests with these codes sent at the same moment on separate connections
			var codes []int
			for _, c := range strings.Split(p[1], "+") {
				n, _ := strconv.Atoi(c)
				codes = append(codes, n)
			}
			var bw sync.WaitGroup
			start := make(chan struct{})
			for _, c := range codes {
				cl, cc := connect(y)
				conns = append(conns, cc)
				cc.SetDeadline(time.Now().Add(15 * time.Second))
				bw.Add(1)
				go func(c int) {
					defer bw.Done()
					<-start
					if c == 35 {
						cl.Wait(255)
					} else {
						cl.Forward([]byte{byte(c)})
					}
				}(c)
			}
			close(start)
			bw.Wait()
			expect := 0
			for _, c := range waitingOn {
				for _, b := range codes {
					if c == b {
						expect++
						break
					}
				}
			}
			got := collect(expect)
			for _, t := range got {
				delete(waitingOn, t)
			}
			out = append(out, show(got))
			continue
		}
		code, _ := strconv.Atoi(p[1])
		if p[0] == "r" || p[0] == "R" {
			cl, cc := connect(y)
			conns = append(conns, cc)
			cc.SetDeadline(time.Now().Add(15 * time.Second))
			if p[0] == "R" {
				// a well-formed request with that code, one that takes effect (R:22 really locks the agent)
				switch code {
				case 22:
					cl.Lock([]byte("pw"))
				case 23:
					cl.Unlock([]byte("pw"))
				case 11:
					cl.List()
				case 19:
					cl.RemoveAll()
				default:
					cl.Forward([]byte{byte(code)})
				}
			} else if code == 35 {
				cl.Wait(255) // a wait request for a code outside the table: returns at once
			} else {
				cl.Forward([]byte{byte(code)})
			}
			expect := 0
			for _, c := range waitingOn {
				if c == code {
					expect++
				}
			}
			got := collect(expect)
			for _, t := range got {
				delete(waitingOn, t)
			}
			out = append(out, show(got))
			continue
		}
		tid, _ := strconv.Atoi(p[0][1:])
		cl, cc := connect(y)
		conns = append(conns, cc)
		before := waiters(shim, byte(code))
		go func() {
			if err := cl.Wait(byte(code)); err == nil {
				released <- tid
			} else {
				released <- -tid
			}
		}()
		if before < 0 { // outside the table: must return immediately
			got := collect(1)
			out = append(out, show(got))
			continue
		}
		// registration is observed, not slept for
		ok := false
		for i := 0; i < 2000 && hooked; i++ {
			if waiters(shim, byte(code)) > before {
				ok = true
				break
			}
			time.Sleep(time.Millisecond)
		}
		if !hooked {
			time.Sleep(40 * time.Millisecond)
			ok = true
		}
		waitingOn[tid] = code
		got := collect(0)
		for _, t := range got {
			delete(waitingOn, t)
		}
		if !ok && len(got) == 0 {
			out = append(out, "[unregistered]")
		} else {
			out = append(out, show(got))
		}
	}
	if r := crashed.Load(); r != nil {
		return []string{"crash", hx.HexS(r.(string))}
	}
	return []string{strings.Join(out, "")}
}

func genCond(g *hx.Gen, out *hx.Out) {
	var sets [][]string
	emit := func(ev string) { sets = append(sets, []string{ev}) }
	defer func() { out.Batch("cd", "cond", sets, 12, func(a []string) []string { return safe(runCond, a) }) }()
	// every code 0..255: one waiter, a non-matching request, the matching request
	for c := 0; c < 256; c++ {
		other := (c + 1) % 40
		emit(fmt.Sprintf("w1:%d,r:%d,r:%d", c, other, c))
	}
	// the same while the agent is locked, and across an unlock: a request still releases the waiters on its code
	for _, c := range []int{0, 11, 13, 19, 22, 23, 32, 35, 39, 200} {
		emit(fmt.Sprintf("R:22,w1:%d,r:%d,R:%d", c, (c+1)%40, c))
		emit(fmt.Sprintf("w1:%d,R:22,w2:%d,R:%d,R:23,w3:%d,R:%d", c, c, c, c, c))
	}
	// bursts: several waiters, then requests with different codes at the same moment — every waiter on
	// one of the codes is released, none of the others
	for rep := 0; rep < 6; rep++ {
		for _, pr := range [][2]int{{11, 13}, {13, 11}, {19, 39}, {0, 1}} {
			a, b := pr[0], pr[1]
			emit(fmt.Sprintf("w1:%d,w2:%d,w3:%d,B:%d+%d,r:%d", a, a, a, a, b, a))
			emit(fmt.Sprintf("w1:%d,w2:%d,w3:%d,w4:%d,B:%d+%d+200+%d,r:%d,r:%d", a, b, a, b, a, b, b, a, b))
			emit(fmt.Sprintf("w1:%d,w2:%d,w3:32,B:%d+%d+%d+%d+%d+%d,r:%d,r:32", a, a, a, b, b, b, b, b, a))
		}
	}
	codes := []int{0, 1, 11, 13, 17, 18, 19, 22, 25, 27, 31, 32, 35, 39, 40, 41, 200, 255, 23, 22}
	for i := 0; i < *hx.Count; i++ {
		k := 3 + g.Intn(8)
		var evs []string
		tid := 0
		pool := []int{codes[g.Intn(len(codes))], codes[g.Intn(len(codes))], codes[g.Intn(len(codes))]}
		for j := 0; j < k; j++ {
			c := pool[g.Intn(len(pool))]
			if g.Intn(5) == 0 {
				c = codes[g.Intn(len(codes))]
			}
			if g.Intn(5) < 3 && tid < 8 {
				tid++
				evs = append(evs, fmt.Sprintf("w%d:%d", tid, c))
			} else {
				evs = append(evs, fmt.Sprintf("%s:%d", g.Pick([]string{"r", "r", "R"}), c))
			}
		}
		emit(strings.Join(evs, ","))
	}
}
