package main

import "github.com/theparanoids/ysshra/internal/verifharness/hx"

func registerMore(g *hx.Gen, out *hx.Out) {}
