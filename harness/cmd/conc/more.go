package main

import (
	"bytes"
	"crypto/ed25519"
	"crypto/rand"
	"flag"
	"fmt"
	"os"
	"os/exec"
	"sort"
	"strconv"
	"strings"
	"sync"
	"sync/atomic"
	"time"

	"golang.org/x/crypto/ssh"
	sshagent "golang.org/x/crypto/ssh/agent"

	"github.com/theparanoids/ysshra/agent/shimagent"
	"github.com/theparanoids/ysshra/agent/yubiagent"
	"github.com/theparanoids/ysshra/internal/verifharness/hx"
	"github.com/theparanoids/ysshra/keyid"
)

// stressKeyIDs: the KeyID of a certificate must make no difference to the locking — free text and
// YSSHCA KeyIDs of every certificate type (hardware / touch policies / firefighter / nonce / headless)
var stressKeyIDs = func() []string {
	ids := []string{"x", ""}
	for _, k := range []keyid.KeyID{
		{TouchPolicy: keyid.NeverTouch}, {TouchPolicy: keyid.NeverTouch, IsHWKey: true}, {TouchPolicy: keyid.AlwaysTouch, IsHWKey: true}, {TouchPolicy: keyid.CachedTouch, IsHWKey: true},
		{TouchPolicy: keyid.AlwaysTouch}, {TouchPolicy: keyid.CachedTouch, IsHWKey: true, IsFirefighter: true}, {TouchPolicy: keyid.AlwaysTouch, IsFirefighter: true},
		{TouchPolicy: keyid.NeverTouch, IsNonce: true}, {TouchPolicy: keyid.NeverTouch, IsHeadless: true}, {TouchPolicy: keyid.DefaultTouch, IsHWKey: true},
	} {
		k.Version, k.Principals, k.TransID, k.ReqUser, k.ReqIP, k.ReqHost = 1, []string{"alice"}, "t1", "u", "1.2.3.4", "h"
		if text, err := k.Marshal(); err == nil {
			ids = append(ids, text)
		}
	}
	return ids
}()

var childSpec = flag.String("child", "", "internal: run one stress scenario in this (race-instrumented) process")

func init() { ops["race"] = runRace }

func registerMore(g *hx.Gen, out *hx.Out) {
	if hx.Want("race") {
		genRace(g, out)
	}
}

func init() {
	// the child mode must act before the normal flow: hook through an init-time wrapper of flag parsing
	for i, a := range os.Args {
		if a == "-child" && i+1 < len(os.Args) {
			if strings.HasPrefix(os.Args[i+1], "seq,") {
				fmt.Println(completes(os.Args[i+1]))
				cleanupTmp()
				os.Exit(0)
			}
			if strings.HasPrefix(os.Args[i+1], "slow,") {
				fmt.Println(slowUpstream(os.Args[i+1]))
				cleanupTmp()
				os.Exit(0)
			}
			if strings.HasPrefix(os.Args[i+1], "inf,") {
				fmt.Println(inflight(os.Args[i+1]))
				cleanupTmp()
				os.Exit(0)
			}
			if strings.HasPrefix(os.Args[i+1], "lin,") {
				fmt.Println(linearize(os.Args[i+1]))
				cleanupTmp()
				os.Exit(0)
			}
			fmt.Println(stress(os.Args[i+1]))
			cleanupTmp()
			os.Exit(0)
		}
	}
}

// echoAgent: a keyring whose extension requests echo their payload (lets a caller recognise its own reply)
type echoAgent struct{ sshagent.Agent }

func (e echoAgent) SignWithFlags(k ssh.PublicKey, d []byte, f sshagent.SignatureFlags) (*ssh.Signature, error) {
	return e.Agent.(sshagent.ExtendedAgent).SignWithFlags(k, d, f)
}
func (e echoAgent) Extension(t string, c []byte) ([]byte, error) {
	if t == "slow@verif" { // an answer that takes its time (a PIN prompt, a slow token)
		time.Sleep(5600 * time.Millisecond)
	}
	if t == "pause@verif" { // keeps the operation that forwards it inside the shim for a moment
		time.Sleep(3 * time.Millisecond)
	}
	time.Sleep(200 * time.Microsecond)
	return append([]byte(t+":"), c...), nil
}

// race args: goroutines, ops per goroutine, mode (noup 0/1), seed
// output: ok | race:<hex> | mixup:<what> | state:<what> | hang
func runRace(args []string) []string {
	spec := strings.Join(args, ",")
	cmd := exec.Command(os.Args[0], "-child", spec)
	cmd.Env = append(os.Environ(), "GORACE=halt_on_error=0 exitcode=0")
	var so, se bytes.Buffer
	cmd.Stdout, cmd.Stderr = &so, &se
	done := make(chan error, 1)
	cmd.Start()
	go func() { done <- cmd.Wait() }()
	select {
	case <-done:
	case <-time.After(100 * time.Second):
		cmd.Process.Kill()
		return []string{"hang"}
	}
	if i := strings.Index(se.String(), "DATA RACE"); i >= 0 {
		// name the two racing functions
		var fns []string
		for _, l := range strings.Split(se.String()[i:], "\n") {
			l = strings.TrimSpace(l)
			if strings.HasPrefix(l, "github.com/theparanoids/ysshra/") && len(fns) < 4 {
				fns = append(fns, strings.SplitN(strings.TrimPrefix(l, "github.com/theparanoids/ysshra/"), "(", 3)[0]+strings.SplitN(l, ")", 2)[0][strings.Index(l, "("):])
			}
		}
		return []string{"race:" + hx.HexS(strings.Join(fns, " | "))}
	}
	res := strings.TrimSpace(so.String())
	if res == "" {
		return []string{"childfail:" + hx.HexS(lastN(se.String(), 300))}
	}
	return []string{res}
}

func lastN(s string, n int) string {
	if len(s) > n {
		return s[len(s)-n:]
	}
	return s
}

func stress(spec string) string {
	f := strings.Split(spec, ",")
	ng, _ := strconv.Atoi(f[0])
	nops, _ := strconv.Atoi(f[1])
	seed, _ := strconv.ParseInt(f[3], 10, 64)
	ring := sshagent.NewKeyring()
	sock, stop := underlying(echoAgent{ring})
	defer stop()
	y, err := yubiagent.NewServer(sock, true)
	if err != nil {
		return "newerr"
	}
	defer y.Close()
	// an expired certificate in the underlying agent and a key for hardware certificates: makes the filter write
	_, caPriv, _ := ed25519.GenerateKey(rand.Reader)
	caS, _ := ssh.NewSignerFromKey(caPriv)
	mkKey := func() (ed25519.PrivateKey, ssh.Signer) {
		_, p, _ := ed25519.GenerateKey(rand.Reader)
		s, _ := ssh.NewSignerFromKey(p)
		return p, s
	}
	basePriv, baseS := mkKey()
	ring.Add(sshagent.AddedKey{PrivateKey: &basePriv, Comment: "base"})
	now := uint64(time.Now().Unix())
	expired := func() *ssh.Certificate {
		c := &ssh.Certificate{Key: baseS.PublicKey(), Serial: uint64(time.Now().UnixNano()), CertType: ssh.UserCert, KeyId: "x", ValidAfter: now - 2000, ValidBefore: now - 1000}
		c.SignCert(rand.Reader, caS)
		return c
	}
	var kidN atomic.Int64
	valid := func() *ssh.Certificate {
		kid := stressKeyIDs[int(kidN.Add(1))%len(stressKeyIDs)]
		c := &ssh.Certificate{Key: baseS.PublicKey(), Serial: uint64(time.Now().UnixNano()), CertType: ssh.UserCert, KeyId: kid, ValidAfter: now - 2000, ValidBefore: now + 100000}
		c.SignCert(rand.Reader, caS)
		return c
	}
	var wg sync.WaitGroup
	var mu sync.Mutex
	problems := []string{}
	report := func(s string) { mu.Lock(); problems = append(problems, s); mu.Unlock() }
	finalKeys := make([]string, ng)
	for gi := 0; gi < ng; gi++ {
		wg.Add(1)
		go func(gi int) {
			defer wg.Done()
			g := hx.NewGen(seed*1000 + int64(gi))
			cl, cc := connect(y)
			defer cc.Close()
			cc.SetDeadline(time.Now().Add(90 * time.Second))
			started := time.Now()
			myPriv, myS := mkKey()
			have := false
			var myHard *ssh.Certificate
			// on a loaded machine the scenario is cut short rather than declared hung: no new operation after 15 s
			for i := 0; i < nops && time.Since(started) < 15*time.Second; i++ {
				switch g.Intn(10) {
				case 9: // sign with the hardware certificate this goroutine added last, over its own data
					if myHard != nil {
						data := []byte(fmt.Sprintf("hard-g%d-op%d", gi, i))
						sig, err := cl.Sign(myHard, data)
						if err == nil && myHard.Key.Verify(data, sig) != nil {
							report("mixup:sign-hard")
						}
						if err != nil && !strings.Contains(err.Error(), "agent: failure") && !strings.Contains(err.Error(), "not found") && !strings.Contains(err.Error(), "failed to sign") {
							report("mixup:sign-hard-reply:" + hx.HexS(err.Error()))
						}
					}
				case 0:
					if _, err := cl.List(); err != nil {
						report("list-error")
					}
				case 1: // in-process caller of the shared agent (the wire protocol never reaches Signers)
					ss, err := y.Signers()
					if err != nil {
						report("signers-error")
					} else if len(ss) > 0 {
						// … and signs with one of the signers it was given, over data only this goroutine
						// knows (a signer whose certificate was purged meanwhile may fail; it may not
						// receive another request's reply)
						func() {
							defer func() {
								if r := recover(); r != nil {
									report("mixup:signer-panic:" + hx.HexS(fmt.Sprint(r)))
								}
							}()
							for si, sg := range ss {
								data := []byte(fmt.Sprintf("signer-g%d-op%d-%d", gi, i, si))
								sig, err := sg.Sign(rand.Reader, data)
								if err == nil && sg.PublicKey().Verify(data, sig) != nil {
									report("mixup:signer")
								}
								// a refusal is in order (the certificate may have been purged meanwhile);
								// a reply of a kind no sign request gets is another request's reply
								if err != nil && !strings.Contains(err.Error(), "agent: failure") && !strings.Contains(err.Error(), "not found") &&
									!strings.Contains(err.Error(), "failed to sign") {
									report("mixup:signer-reply:" + hx.HexS(err.Error()))
								}
							}
						}()
					}
				case 2: // sign with the shared base key over data only this goroutine knows
					data := []byte(fmt.Sprintf("g%d-op%d", gi, i))
					sig, err := cl.Sign(baseS.PublicKey(), data)
					if err != nil {
						report("sign-error")
					} else if baseS.PublicKey().Verify(data, sig) != nil {
						report("mixup:sign")
					}
				case 3:
					if cl.Add(sshagent.AddedKey{PrivateKey: &myPriv, Comment: fmt.Sprintf("g%d", gi)}) != nil {
						report("add-error")
					}
					have = true
				case 4:
					if have {
						if cl.Remove(myS.PublicKey()) != nil {
							report("remove-error")
						}
						have = false
					}
				case 5: // an expired certificate to purge, directly in the underlying agent
					ring.Add(sshagent.AddedKey{PrivateKey: &basePriv, Certificate: expired(), Comment: "old"})
				case 6: // hardware certificate, valid or expired
					c := valid()
					if g.Intn(3) == 0 {
						c = expired()
					} else {
						myHard = c
					}
					cl.AddHardCert(c, "yk")
				case 7: // extension: the reply must carry this goroutine's payload
					payload := []byte(fmt.Sprintf("ext-g%d-op%d", gi, i))
					resp, err := y.Extension("echo@verif", payload)
					if err == nil && !bytes.Contains(resp, payload) {
						report("mixup:extension")
					}
				case 8: // raw forward of an extension frame (code 27): same check
					payload := []byte(fmt.Sprintf("fwd-g%d-op%d", gi, i))
					req := append([]byte{27}, sshStr([]byte("echo@verif"))...)
					req = append(req, payload...)
					var resp []byte
					var err error
					if g.Bool() {
						resp, err = cl.Forward(req)
					} else {
						resp, err = y.Forward(req)
					}
					if err == nil && !bytes.Contains(resp, payload) {
						report("mixup:forward")
					}
				}
			}
			if have {
				finalKeys[gi] = fmt.Sprintf("g%d", gi)
			}
		}(gi)
	}
	wg.Wait()
	// second phase: signers obtained once — for the base key and for a hardware certificate — are
	// used by half of the goroutines while the other half forwards raw requests: every signature
	// must verify over the signer's own data and every forwarded reply must carry its own payload
	{
		cl0, cc0 := connect(y)
		for range stressKeyIDs {
			cl0.AddHardCert(valid(), "yk")
		}
		cc0.Close()
		ss, err := y.Signers()
		if err != nil {
			report("signers-error")
		}
		var wg2 sync.WaitGroup
		for gi := 0; gi < ng && gi < 8; gi++ {
			wg2.Add(1)
			go func(gi int) {
				defer wg2.Done()
				defer func() {
					if r := recover(); r != nil {
						report("mixup:signer-panic:" + hx.HexS(fmt.Sprint(r)))
					}
				}()
				started := time.Now()
				for i := 0; i < 3*nops && time.Since(started) < 6*time.Second; i++ {
					if gi%2 == 0 {
						// one signer per step, in rotation (every signer is used several times by every goroutine)
						for si, sg := range ss {
							if len(ss) > 3 && si != (i+gi)%len(ss) {
								continue
							}
							data := []byte(fmt.Sprintf("p2-g%d-op%d-%d", gi, i, si))
							sig, err := sg.Sign(rand.Reader, data)
							if err != nil {
								report("mixup:signer-reply:" + hx.HexS(err.Error()))
							} else if sg.PublicKey().Verify(data, sig) != nil {
								report("mixup:signer")
							}
						}
					} else {
						payload := []byte(fmt.Sprintf("p2fwd-g%d-op%d", gi, i))
						req := append([]byte{27}, sshStr([]byte("echo@verif"))...)
						resp, err := y.Forward(append(req, payload...))
						if err != nil {
							report("forward-error")
						} else if !bytes.Contains(resp, payload) {
							report("mixup:forward")
						}
					}
				}
			}(gi)
		}
		done2 := make(chan struct{})
		go func() { wg2.Wait(); close(done2) }()
		select {
		case <-done2:
		case <-time.After(60 * time.Second):
			report("hang:signers-with-forward")
		}
	}
	// final state = the sequential effect: the base key plus exactly the keys still added
	keys, err := ring.List()
	if err != nil {
		report("final-list-error")
	}
	var got, want []string
	for _, k := range keys {
		if strings.HasPrefix(k.Comment, "g") {
			got = append(got, k.Comment)
		}
	}
	for _, k := range finalKeys {
		if k != "" {
			want = append(want, k)
		}
	}
	sort.Strings(got)
	sort.Strings(want)
	if strings.Join(got, ",") != strings.Join(want, ",") {
		report("state:" + strings.Join(got, ",") + "!=" + strings.Join(want, ","))
	}
	if r := globalPanics.Load(); r != nil {
		report("crash:" + hx.HexS(r.(string)))
	}
	if len(problems) > 0 {
		sort.Strings(problems)
		return problems[0]
	}
	return "ok"
}

func sshStr(b []byte) []byte {
	l := len(b)
	return append([]byte{byte(l >> 24), byte(l >> 16), byte(l >> 8), byte(l)}, b...)
}

func genRace(g *hx.Gen, out *hx.Out) {
	n := *hx.Count / 10
	if n < 6 {
		n = 6
	}
	var sets [][]string
	for i := 0; i < n; i++ {
		ng := []int{2, 3, 4, 8, 16}[g.Intn(5)]
		sets = append(sets, []string{strconv.Itoa(ng), strconv.Itoa(20 + g.Intn(30)), "0", strconv.Itoa(g.Intn(1 << 30))})
	}
	// two-operation rounds: every pair whose orders differ observably, both modes
	pairs := [][]string{{"addhard", "removeall", "0"}, {"addhard", "removekey", "0"}, {"addhard", "uremovekey", "0"}, {"addhard", "lock", "0"},
		{"removecert", "list", "1"}, {"removeall", "sign", "1"}, {"lock", "list", "1"}, {"lock", "removeall", "1"}, {"addkey", "removeall", "0"},
		{"addhard", "addhard", "0"}, {"lock", "lock", "0"}, {"removecert", "removeall", "1"}, {"unlock", "addhard", "0"},
		{"fwd512", "list", "1"}, {"fwd4096", "sign", "1"}, {"fwd511", "fwd512", "0"}}
	rounds := 60
	if *hx.Count >= 1000 {
		rounds = 600
	}
	for _, p := range pairs {
		for _, noup := range []string{"0", "1"} {
			sets = append(sets, []string{"lin", p[0], p[1], strconv.Itoa(rounds), noup, p[2]})
		}
	}
	// every operation completes: all sequences of 4 operations, both modes
	sets = append(sets, []string{"seq", "0", "4"}, []string{"seq", "1", "4"})
	// an underlying agent that takes several seconds over one answer
	sets = append(sets, []string{"slow", "0"})
	// every kind of operation held in flight by a slow answer while another caller sends its own request
	sets = append(sets, []string{"inf", "0"}, []string{"inf", "1"})
	out.Batch("rc", "race", sets, 3, func(a []string) []string { return safe(runRace, a) })
}

// slowUpstream: one caller forwards a request that the underlying agent answers after several
// seconds; meanwhile other callers send their own. However long the answer takes, every caller gets
// the reply to its own request (or an error), and every operation completes.
// spec: slow,<noup 0|1>
func slowUpstream(spec string) string {
	ring := sshagent.NewKeyring()
	sock, stop := underlying(echoAgent{ring})
	defer stop()
	y, err := shimagent.New(shimagent.Option{Address: sock, NoUpstream: strings.HasSuffix(spec, ",1")})
	if err != nil {
		return "newerr"
	}
	mk := func(ext string, payload []byte) []byte {
		req := append([]byte{27}, sshStr([]byte(ext))...)
		return append(req, payload...)
	}
	var mu sync.Mutex
	var problems []string
	report := func(s string) { mu.Lock(); problems = append(problems, s); mu.Unlock() }
	var wg sync.WaitGroup
	wg.Add(1)
	go func() {
		defer wg.Done()
		payload := []byte("slow-caller")
		resp, err := y.Forward(mk("slow@verif", payload))
		if err == nil && !bytes.Contains(resp, payload) {
			report("mixup:slow-caller")
		}
	}()
	time.Sleep(300 * time.Millisecond)
	for gi := 0; gi < 6; gi++ {
		wg.Add(1)
		go func(gi int) {
			defer wg.Done()
			for i := 0; i < 3; i++ {
				payload := []byte(fmt.Sprintf("caller-%d-%d", gi, i))
				var resp []byte
				var err error
				if gi%2 == 0 {
					resp, err = y.Forward(mk("echo@verif", payload))
				} else {
					resp, err = y.Extension("echo@verif", payload)
				}
				if err == nil && !bytes.Contains(resp, payload) {
					report("mixup:forward-after-slow-reply")
				}
			}
		}(gi)
	}
	done := make(chan struct{})
	go func() { wg.Wait(); close(done) }()
	select {
	case <-done:
	case <-time.After(60 * time.Second):
		return "hang"
	}
	if len(problems) > 0 {
		sort.Strings(problems)
		return problems[0]
	}
	return "ok"
}

// ---------------------------------------------------------------- one operation in flight, another arrives

// slowAgent: the next request after arm() is answered only after a pause — whatever its kind
type slowAgent struct {
	echoAgent
	delay *atomic.Int32
}

func (a slowAgent) wait() {
	if a.delay.CompareAndSwap(1, 0) {
		time.Sleep(120 * time.Millisecond)
	}
}
func (a slowAgent) waitSign() {
	if a.delay.CompareAndSwap(2, 0) {
		time.Sleep(120 * time.Millisecond)
	}
}
func (a slowAgent) List() ([]*sshagent.Key, error) { a.wait(); return a.echoAgent.List() }
func (a slowAgent) Sign(k ssh.PublicKey, d []byte) (*ssh.Signature, error) {
	a.wait()
	a.waitSign()
	return a.echoAgent.Sign(k, d)
}
func (a slowAgent) SignWithFlags(k ssh.PublicKey, d []byte, f sshagent.SignatureFlags) (*ssh.Signature, error) {
	a.wait()
	a.waitSign()
	return a.echoAgent.SignWithFlags(k, d, f)
}
func (a slowAgent) Add(k sshagent.AddedKey) error  { a.wait(); return a.echoAgent.Add(k) }
func (a slowAgent) Remove(k ssh.PublicKey) error   { a.wait(); return a.echoAgent.Remove(k) }
func (a slowAgent) RemoveAll() error               { a.wait(); return a.echoAgent.RemoveAll() }
func (a slowAgent) Lock(p []byte) error            { a.wait(); return a.echoAgent.Lock(p) }
func (a slowAgent) Unlock(p []byte) error          { a.wait(); return a.echoAgent.Unlock(p) }
func (a slowAgent) Signers() ([]ssh.Signer, error) { a.wait(); return a.echoAgent.Signers() }
func (a slowAgent) Extension(t string, c []byte) ([]byte, error) {
	a.wait()
	return a.echoAgent.Extension(t, c)
}

// inflight: for every kind of operation A (signing with a hardware certificate of every KeyID kind,
// signing with a key, listing, signers, add, remove, remove-all, add-hardware-certificate, lock,
// unlock, extension, raw forward) the underlying agent takes its time over A's (first) request;
// while A is in flight another caller B sends a request of its own (raw forward, extension, sign).
// Both complete, B gets the reply to its own request, A's result is what A alone would have got.
// spec: inf,<noup 0|1>
func inflight(spec string) string {
	noup := strings.HasSuffix(spec, ",1")
	_, caPriv, _ := ed25519.GenerateKey(rand.Reader)
	caS, _ := ssh.NewSignerFromKey(caPriv)
	var aKinds []string
	for i := range stressKeyIDs {
		aKinds = append(aKinds, fmt.Sprintf("signhard:%d", i))
	}
	aKinds = append(aKinds, "signbase", "list", "signers", "add", "remove", "removeall", "addhard", "lock", "unlock", "ext", "fwd")
	var mu sync.Mutex
	var problems []string
	report := func(s string) { mu.Lock(); problems = append(problems, s); mu.Unlock() }
	var wg sync.WaitGroup
	sem := make(chan struct{}, 8)
	// which of two readers of one connection gets the bytes is up to the scheduler: every pair runs several times
	var pairs [][2]string
	for rep := 0; rep < 6; rep++ {
		for _, ak := range aKinds {
			for _, bk := range []string{"fwd", "ext", "sign"} {
				pairs = append(pairs, [2]string{ak, bk})
			}
		}
	}
	for _, pr := range pairs {
		{
			ak, bk := pr[0], pr[1]
			wg.Add(1)
			go func(ak, bk string) {
				defer wg.Done()
				sem <- struct{}{}
				defer func() { <-sem }()
				defer func() {
					if r := recover(); r != nil {
						report("crash:" + hx.HexS(fmt.Sprint(r)))
					}
				}()
				_, priv, _ := ed25519.GenerateKey(rand.Reader)
				ks, _ := ssh.NewSignerFromKey(priv)
				ring := sshagent.NewKeyring()
				ring.Add(sshagent.AddedKey{PrivateKey: &priv, Comment: "k"})
				delay := &atomic.Int32{}
				sock, stop := underlying(slowAgent{echoAgent{ring}, delay})
				defer stop()
				y, err := shimagent.New(shimagent.Option{Address: sock, NoUpstream: noup})
				if err != nil {
					report("newerr")
					return
				}
				defer y.Close()
				now := uint64(time.Now().Unix())
				kid := "x"
				if strings.HasPrefix(ak, "signhard:") {
					i, _ := strconv.Atoi(ak[9:])
					kid = stressKeyIDs[i]
				}
				cert := &ssh.Certificate{Key: ks.PublicKey(), Serial: 11, CertType: ssh.UserCert, KeyId: kid, ValidAfter: now - 2000, ValidBefore: now + 100000}
				cert.SignCert(rand.Reader, caS)
				if strings.HasPrefix(ak, "signhard:") {
					if err := y.AddHardCert(cert, "yk"); err != nil {
						report("addhard-error:" + ak)
						return
					}
				}
				if ak == "unlock" {
					y.Lock([]byte("pw"))
				}
				tag := ak + "+" + bk
				mk := func(payload []byte) []byte {
					req := append([]byte{27}, sshStr([]byte("echo@verif"))...)
					return append(req, payload...)
				}
				var pwg sync.WaitGroup
				pwg.Add(2)
				if strings.HasPrefix(ak, "sign") {
					delay.Store(2) // the signing request itself is the slow one
				} else {
					delay.Store(1)
				}
				go func() { // A
					defer pwg.Done()
					defer func() {
						if r := recover(); r != nil {
							report("crash:" + hx.HexS(fmt.Sprint(r)))
						}
					}()
					data := []byte("in-flight-" + tag)
					switch {
					case strings.HasPrefix(ak, "signhard:"):
						sig, err := y.Sign(cert, data)
						if err != nil {
							report("mixup:inflight-sign-hard-reply:" + hx.HexS(tag+" "+err.Error()))
						} else if ks.PublicKey().Verify(data, sig) != nil {
							report("mixup:inflight-sign-hard:" + hx.HexS(tag))
						}
					case ak == "signbase":
						sig, err := y.Sign(ks.PublicKey(), data)
						if err != nil {
							report("mixup:inflight-sign-reply:" + hx.HexS(tag+" "+err.Error()))
						} else if ks.PublicKey().Verify(data, sig) != nil {
							report("mixup:inflight-sign:" + hx.HexS(tag))
						}
					case ak == "list":
						if l, err := y.List(); err != nil || len(l) != 1 {
							report("mixup:inflight-list:" + hx.HexS(tag+" "+errS(err)))
						}
					case ak == "signers":
						if l, err := y.Signers(); err != nil || len(l) != 1 {
							report("mixup:inflight-signers:" + hx.HexS(tag+" "+errS(err)))
						}
					case ak == "add":
						_, p2, _ := ed25519.GenerateKey(rand.Reader)
						if err := y.Add(sshagent.AddedKey{PrivateKey: &p2, Comment: "k2"}); err != nil {
							report("mixup:inflight-add:" + hx.HexS(tag+" "+errS(err)))
						}
					case ak == "remove":
						if err := y.Remove(ks.PublicKey()); err != nil {
							report("mixup:inflight-remove:" + hx.HexS(tag+" "+errS(err)))
						}
					case ak == "removeall":
						if err := y.RemoveAll(); err != nil {
							report("mixup:inflight-removeall:" + hx.HexS(tag+" "+errS(err)))
						}
					case ak == "addhard":
						if err := y.AddHardCert(cert, "yk"); err != nil {
							report("mixup:inflight-addhard:" + hx.HexS(tag+" "+errS(err)))
						}
					case ak == "lock":
						if err := y.Lock([]byte("pw")); err != nil {
							report("mixup:inflight-lock:" + hx.HexS(tag+" "+errS(err)))
						}
					case ak == "unlock":
						if err := y.Unlock([]byte("pw")); err != nil {
							report("mixup:inflight-unlock:" + hx.HexS(tag+" "+errS(err)))
						}
					case ak == "ext":
						resp, err := y.Extension("echo@verif", data)
						if err != nil || !bytes.Contains(resp, data) {
							report("mixup:inflight-ext:" + hx.HexS(tag+" "+errS(err)))
						}
					case ak == "fwd":
						resp, err := y.Forward(mk(data))
						if err != nil || !bytes.Contains(resp, data) {
							report("mixup:inflight-fwd:" + hx.HexS(tag+" "+errS(err)))
						}
					}
				}()
				go func() { // B, while A's request is being answered
					defer pwg.Done()
					defer func() {
						if r := recover(); r != nil {
							report("crash:" + hx.HexS(fmt.Sprint(r)))
						}
					}()
					time.Sleep(40 * time.Millisecond)
					payload := []byte("arriving-" + tag)
					switch bk {
					case "fwd":
						resp, err := y.Forward(mk(payload))
						if err == nil && !bytes.Contains(resp, payload) {
							report("mixup:arriving-forward:" + hx.HexS(tag))
						}
						if err != nil && !strings.Contains(err.Error(), "locked") {
							report("mixup:arriving-forward-reply:" + hx.HexS(tag+" "+err.Error()))
						}
					case "ext":
						resp, err := y.Extension("echo@verif", payload)
						if err == nil && !bytes.Contains(resp, payload) {
							report("mixup:arriving-extension:" + hx.HexS(tag))
						}
					case "sign":
						// the key may be gone or the agent locked by A: a refusal is in order, a reply of another kind is not
						sig, err := y.Sign(ks.PublicKey(), payload)
						if err == nil && ks.PublicKey().Verify(payload, sig) != nil {
							report("mixup:arriving-sign:" + hx.HexS(tag))
						}
						if err != nil && !strings.Contains(err.Error(), "agent: failure") && !strings.Contains(err.Error(), "not found") &&
							!strings.Contains(err.Error(), "failed to sign") && !strings.Contains(err.Error(), "locked") {
							report("mixup:arriving-sign-reply:" + hx.HexS(tag+" "+err.Error()))
						}
					}
				}()
				done := make(chan struct{})
				go func() { pwg.Wait(); close(done) }()
				select {
				case <-done:
				case <-time.After(25 * time.Second):
					report("hang:inflight:" + hx.HexS(tag))
				}
			}(ak, bk)
		}
	}
	wg.Wait()
	if r := globalPanics.Load(); r != nil {
		report("crash:" + hx.HexS(r.(string)))
	}
	if len(problems) > 0 {
		sort.Strings(problems)
		return problems[0]
	}
	return "ok"
}

// ---------------------------------------------------------------- two-operation linearizability rounds

// linWorld: a fresh shim over a fresh keyring holding one key K; a valid certificate C over K
type linWorld struct {
	ring sshagent.Agent
	y    shimagent.ShimAgent
	stop func()
	priv ed25519.PrivateKey
	pub  ssh.PublicKey
	cert *ssh.Certificate
}

var linCA ssh.Signer

func newLinWorld(noup bool, priv ed25519.PrivateKey, cert *ssh.Certificate, preHard bool) *linWorld {
	ring := sshagent.NewKeyring()
	ring.Add(sshagent.AddedKey{PrivateKey: &priv, Comment: "k"})
	sock, stop := underlying(echoAgent{ring})
	y, err := shimagent.New(shimagent.Option{Address: sock, NoUpstream: noup})
	if err != nil {
		panic(err)
	}
	w := &linWorld{ring: ring, y: y, stop: func() { y.Close(); stop() }, priv: priv, cert: cert}
	s, _ := ssh.NewSignerFromKey(priv)
	w.pub = s.PublicKey()
	if preHard {
		if err := y.AddHardCert(cert, "yk"); err != nil {
			panic(err)
		}
	}
	return w
}

// observe: the client-visible and underlying state, canonical
func (w *linWorld) observe() string {
	show := func(keys []*sshagent.Key, err error) string {
		if err != nil {
			return "err"
		}
		var s []string
		for _, k := range keys {
			if bytes.Equal(k.Blob, w.cert.Marshal()) {
				s = append(s, "C")
			} else if bytes.Equal(k.Blob, w.pub.Marshal()) {
				s = append(s, "K")
			} else {
				s = append(s, "?")
			}
		}
		sort.Strings(s)
		return strings.Join(s, "")
	}
	shimList := show(w.y.List())
	// is the shim locked? (a second unlock attempt with the passphrase tells, and restores)
	under := show(w.ring.List())
	return "shim=" + shimList + " under=" + under
}

type linOp struct {
	name string
	run  func(w *linWorld) string
}

func errS(err error) string {
	if err != nil {
		return "e"
	}
	return "n"
}

var linOps = map[string]linOp{
	"addhard":    {"addhard", func(w *linWorld) string { return errS(w.y.AddHardCert(w.cert, "yk")) }},
	"removeall":  {"removeall", func(w *linWorld) string { return errS(w.y.RemoveAll()) }},
	"removekey":  {"removekey", func(w *linWorld) string { return errS(w.y.Remove(w.pub)) }},
	"removecert": {"removecert", func(w *linWorld) string { return errS(w.y.Remove(w.cert)) }},
	"uremovekey": {"uremovekey", func(w *linWorld) string { return errS(w.ring.Remove(w.pub)) }},
	"addkey": {"addkey", func(w *linWorld) string {
		return errS(w.y.Add(sshagent.AddedKey{PrivateKey: &w.priv, Comment: "again"}))
	}},
	"lock":   {"lock", func(w *linWorld) string { return errS(w.y.Lock([]byte("pw"))) }},
	"unlock": {"unlock", func(w *linWorld) string { return errS(w.y.Unlock([]byte("pw"))) }},
	"list": {"list", func(w *linWorld) string {
		keys, err := w.y.List()
		if err != nil {
			return "e"
		}
		return fmt.Sprintf("n%d", len(keys))
	}},
	// raw requests whose size sits on or next to a power of two (the upstream agent answers an
	// unknown code with a failure byte)
	"fwd511":  {"fwd511", func(w *linWorld) string { return fwdN(w, 511) }},
	"fwd512":  {"fwd512", func(w *linWorld) string { return fwdN(w, 512) }},
	"fwd4096": {"fwd4096", func(w *linWorld) string { return fwdN(w, 4096) }},
	"sign": {"sign", func(w *linWorld) string {
		_, err := w.y.Sign(w.cert, []byte("data"))
		return errS(err)
	}},
}

func fwdN(w *linWorld, n int) string {
	req := append([]byte{200}, bytes.Repeat([]byte{0x5A}, n-1)...)
	resp, err := w.y.Forward(req)
	if err != nil {
		return "e"
	}
	return fmt.Sprintf("n%d", len(resp))
}

// lin spec: "lin,<opA>,<opB>,<rounds>,<noup 0/1>,<prehard 0/1>"
// Every round runs A and B concurrently on a fresh world and requires (result of A, result of B,
// final observation after unlocking) to be what one of the two sequential orders gives on the
// same fresh world.  Output: ok | nonlinearizable:<detail>
func linearize(spec string) string {
	f := strings.Split(spec, ",")
	a, b := linOps[f[1]], linOps[f[2]]
	rounds, _ := strconv.Atoi(f[3])
	noup, pre := f[4] == "1", f[5] == "1"
	_, caPriv, _ := ed25519.GenerateKey(rand.Reader)
	caS, _ := ssh.NewSignerFromKey(caPriv)
	_, priv, _ := ed25519.GenerateKey(rand.Reader)
	ks, _ := ssh.NewSignerFromKey(priv)
	now := uint64(time.Now().Unix())
	cert := &ssh.Certificate{Key: ks.PublicKey(), Serial: 7, CertType: ssh.UserCert, KeyId: "x", ValidAfter: now - 2000, ValidBefore: now + 100000}
	cert.SignCert(rand.Reader, caS)
	final := func(w *linWorld) string {
		w.y.Unlock([]byte("pw")) // make the state visible whatever the lock flag is
		return w.observe()
	}
	seq := func(aFirst bool) string {
		w := newLinWorld(noup, priv, cert, pre)
		defer w.stop()
		var ra, rb string
		if aFirst {
			ra = a.run(w)
			rb = b.run(w)
		} else {
			rb = b.run(w)
			ra = a.run(w)
		}
		return ra + "," + rb + " " + final(w)
	}
	allowed := map[string]bool{seq(true): true, seq(false): true}
	for i := 0; i < rounds; i++ {
		w := newLinWorld(noup, priv, cert, pre)
		var ra, rb string
		var wg sync.WaitGroup
		start := make(chan struct{})
		wg.Add(2)
		go func() { defer wg.Done(); <-start; ra = a.run(w) }()
		go func() { defer wg.Done(); <-start; rb = b.run(w) }()
		if i%2 == 1 {
			// every other round the two operations arrive while a third one is inside the shim, so
			// that both queue for the lock and run back to back when it is released
			wg.Add(1)
			go func() { defer wg.Done(); w.y.Extension("pause@verif", nil) }()
			time.Sleep(500 * time.Microsecond)
		}
		close(start)
		wg.Wait()
		got := ra + "," + rb + " " + final(w)
		w.stop()
		if !allowed[got] {
			var al []string
			for k := range allowed {
				al = append(al, k)
			}
			sort.Strings(al)
			return "nonlinearizable:" + hx.HexS(fmt.Sprintf("%s||%s round %d: got {%s}, sequential orders give {%s}", a.name, b.name, i, got, strings.Join(al, "} or {")))
		}
	}
	return "ok"
}

// ---------------------------------------------------------------- every operation completes

// completes spec: "seq,<noup 0/1>,<maxlen>": every sequence of up to maxlen operations on a fresh
// shim, each operation under a watchdog — none may block (a leaked lock shows as the next
// operation that needs it never returning).  Output: ok | hang:<sequence>
func completes(spec string) string {
	f := strings.Split(spec, ",")
	noup := f[1] == "1"
	maxlen, _ := strconv.Atoi(f[2])
	_, caPriv, _ := ed25519.GenerateKey(rand.Reader)
	caS, _ := ssh.NewSignerFromKey(caPriv)
	_, priv, _ := ed25519.GenerateKey(rand.Reader)
	ks, _ := ssh.NewSignerFromKey(priv)
	now := uint64(time.Now().Unix())
	cert := &ssh.Certificate{Key: ks.PublicKey(), Serial: 9, CertType: ssh.UserCert, KeyId: "x", ValidAfter: now - 2000, ValidBefore: now + 100000}
	cert.SignCert(rand.Reader, caS)
	names := []string{"addhard", "lock", "unlock", "list", "removeall", "sign", "removecert", "addkey", "fwd511", "fwd512"}
	var seq []string
	var walk func(w *linWorld, depth int) string
	run := func(w *linWorld, name string) bool {
		done := make(chan struct{})
		go func() { linOps[name].run(w); close(done) }()
		select {
		case <-done:
			return true
		case <-time.After(12 * time.Second):
			return false
		}
	}
	// depth-first over all sequences; a fresh world per complete sequence would cost too much, so
	// each sequence replays its prefix on a fresh world only at the leaves of length maxlen
	var all [][]string
	var gen func(prefix []string)
	gen = func(prefix []string) {
		if len(prefix) == maxlen {
			all = append(all, append([]string{}, prefix...))
			return
		}
		for _, n := range names {
			gen(append(prefix, n))
		}
	}
	gen(nil)
	_ = walk
	_ = seq
	for _, s := range all {
		// skip sequences without a lock or a repeated hardware certificate: nothing can leak there
		w := newLinWorld(noup, priv, cert, false)
		for i, n := range s {
			if !run(w, n) {
				return "hang:" + hx.HexS(strings.Join(s[:i+1], ">")+" (operation "+n+" did not return within 3 s)")
			}
		}
		w.y.Unlock([]byte("pw"))
		w.stop()
	}
	return "ok"
}
