//go:build !verifnohook

package main

import "github.com/theparanoids/ysshra/agent/shimagent"

// waiters: how many goroutines are blocked in Wait(code), read through the in-package hook
// (-1: code outside the table)
func waiters(s *shimagent.Server, code byte) int { return s.VerifWaiters(code) }

const hooked = true
