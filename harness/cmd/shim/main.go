// Harness group `shim`: histories of operations against a real shimagent.Server whose underlying
// agent is an x/crypto keyring behind a fault-injecting frame server on a unix socket.
package main

import (
	"bytes"
	"crypto/ecdsa"
	"crypto/ed25519"
	"crypto/elliptic"
	"crypto/rand"
	"crypto/rsa"
	"encoding/binary"
	"encoding/json"
	"flag"
	"fmt"
	"io"
	"log"
	"net"
	"os"
	"path/filepath"
	"sort"
	"strconv"
	"strings"
	"sync"
	"time"

	"github.com/rs/zerolog"
	"golang.org/x/crypto/ssh"
	sshagent "golang.org/x/crypto/ssh/agent"

	"github.com/theparanoids/ysshra/agent/shimagent"
	"github.com/theparanoids/ysshra/internal/verifharness/hx"
	"github.com/theparanoids/ysshra/keyid"
	certutil "github.com/theparanoids/ysshra/sshutils/cert"
)

type opFn func(args []string) []string

var ops = map[string]opFn{"hist": runHist, "salgo": runSAlgo, "fwdmax": runFwdMax, "vtime": runVTime}

func main() {
	flag.Parse()
	log.SetOutput(io.Discard)
	zerolog.SetGlobalLevel(zerolog.Disabled)
	out := hx.Open()
	defer out.Close()
	defer func() {
		if tmpDir != "" {
			os.RemoveAll(tmpDir)
		}
	}()
	if lines := hx.ReplayLines(); lines != nil {
		for _, l := range lines {
			if len(l) >= 2 {
				if l[1] == "hist" {
					args, res := execHist(l[2:])
					out.Case(l[0], l[1], args, res)
				} else if fn, ok := ops[l[1]]; ok {
					out.Case(l[0], l[1], l[2:], fn(l[2:]))
				}
			}
		}
		return
	}
	g := hx.NewGen(*hx.Seed)
	if hx.Want("hist") {
		genHist(g, out)
	}
	if hx.Want("vtime") {
		genVTime(out)
	}
	if hx.Want("fwdmax") {
		for i, noup := range []string{"0", "1"} {
			out.Case(fmt.Sprintf("fm%d", i), "fwdmax", []string{noup}, runFwdMax([]string{noup}))
		}
	}
	if hx.Want("salgo") {
		for i, noup := range []string{"0", "1"} {
			out.Case(fmt.Sprintf("sa%d", i), "salgo", []string{noup}, runSAlgo([]string{noup}))
		}
	}
}

func runHist(args []string) []string { _, r := execHist(args); return r }

// ---------------------------------------------------------------- keys and certificates

type keyMat struct {
	name   string
	priv   interface{}
	signer ssh.Signer
}

var (
	keys   []*keyMat
	caSign ssh.Signer
	keyMu  sync.Mutex
)

func getKeys() []*keyMat {
	keyMu.Lock()
	defer keyMu.Unlock()
	if keys != nil {
		return keys
	}
	mk := func(name string, priv interface{}) *keyMat {
		s, err := ssh.NewSignerFromKey(priv)
		if err != nil {
			panic(err)
		}
		return &keyMat{name, priv, s}
	}
	_, e1, _ := ed25519.GenerateKey(rand.Reader)
	e2, _ := ecdsa.GenerateKey(elliptic.P256(), rand.Reader)
	e3, _ := rsa.GenerateKey(rand.Reader, 2048)
	_, e4, _ := ed25519.GenerateKey(rand.Reader)
	keys = []*keyMat{mk("k1", &e1), mk("k2", e2), mk("k3", e3), mk("k4", &e4)}
	_, ca, _ := ed25519.GenerateKey(rand.Reader)
	caSign, _ = ssh.NewSignerFromKey(&ca)
	return keys
}

func keyByName(n string) *keyMat {
	for _, k := range getKeys() {
		if k.name == n {
			return k
		}
	}
	panic("no key " + n)
}

const maxU64 = ^uint64(0)

// window kinds relative to the history start t0
func window(kind string, t0 uint64) (uint64, uint64) {
	switch kind {
	case "past":
		return t0 - 2000, t0 - 1000
	case "cur":
		return t0 - 1000, t0 + 100000
	case "future":
		return t0 + 1000, t0 + 2000
	case "forever":
		return 0, maxU64
	case "zero":
		return 0, 0
	case "vamax":
		return maxU64, maxU64
	case "vbmax":
		return t0 - 10, maxU64 - 1
	case "lapse":
		return t0 - 1000, t0 + 3
	case "edge": // valid from exactly... well before, until far
		return 1, 1 << 62
	// bounds next to the 31-, 32- and 63-bit limits (a narrowing or signed conversion turns them over)
	case "vb31": // valid: ends just after 2^31
		return t0 - 1000, 1<<31 + 5
	case "vb32": // valid: ends just after 2^32
		return t0 - 1000, 1<<32 + 5
	case "va32": // premature: starts after 2^32 (low 32 bits are small)
		return 1<<32 + 7, 1<<33 + 7
	case "vb63": // valid: ends at exactly MaxInt64 / just above it
		return t0 - 1000, 1<<63 - 1
	case "vb63p":
		return t0 - 1000, 1 << 63
	case "va63": // premature for ever: starts at MaxInt64
		return 1<<63 - 1, maxU64
	}
	panic("window " + kind)
}

func kidText(kind, id string) string {
	base := keyid.KeyID{Principals: []string{"alice"}, TransID: "t" + id, ReqUser: "u", ReqIP: "1.2.3.4", ReqHost: "h", Version: 1, TouchPolicy: keyid.NeverTouch}
	switch kind {
	case "ys":
	case "ystouch":
		base.TouchPolicy, base.IsHWKey = keyid.AlwaysTouch, true
	case "ysff":
		base.IsFirefighter, base.IsHWKey, base.TouchPolicy = true, true, keyid.CachedTouch
	case "ysnonce":
		base.IsNonce = true
	case "nover":
		base.Version = 2
	case "incons":
		base.IsHeadless, base.IsHWKey = true, true
	case "deftouch": // decodes, but no certificate type applies (DefaultTouch)
		base.TouchPolicy = keyid.DefaultTouch
	// near the consistency rules: a headless / nonce KeyID must have the never-touch policy
	case "headless": // consistent
		base.IsHeadless = true
	case "headless0": // inconsistent: default touch policy
		base.IsHeadless, base.TouchPolicy = true, keyid.DefaultTouch
	case "headlessneg":
		base.IsHeadless, base.TouchPolicy = true, -1
	case "nonce0":
		base.IsNonce, base.TouchPolicy = true, keyid.DefaultTouch
	case "headless17": // equals never-touch modulo 16
		base.IsHeadless, base.TouchPolicy = true, 17
	case "touch4": // decodes; out-of-range touch policy
		base.TouchPolicy = 4
	case "touch258":
		base.TouchPolicy = 258
	case "missing":
		b, _ := json.Marshal(base)
		return strings.Replace(string(b), `"isNonce":false,`, "", 1)
	// texts that decode as a YSSHCA KeyID although they are not what the encoder writes: white space
	// around the object, members in another order, an unknown member, unicode escapes
	case "ysws":
		b, _ := json.Marshal(base)
		return " \n\t" + string(b) + "\r\n "
	case "ysorder":
		return `{"ver":1,"touchPolicy":1,"usage":0,"isNonce":false,"isHeadless":false,"isHWKey":false,"isFirefighter":false,"reqHost":"h","reqIP":"1.2.3.4","reqUser":"u","transID":"t` + id + `","prins":["alice"],"extra":{"a":[1,2]}}`
	case "ysesc":
		return `{"prins":["\u0061lice"],"transID":"t` + id + `","reqUser":"u","reqIP":"1.2.3.4","reqHost":"h","isFirefighter":false,"isHWKey":false,"isHeadless":false,"isNonce":false,"usage":0,"touchPolicy":1,"\u0076er":1}`
	case "free":
		return "user certificate " + id
	case "empty":
		return ""
	}
	b, _ := json.Marshal(base)
	return string(b)
}

type certMat struct {
	name string
	cert *ssh.Certificate
	key  *keyMat
}

// descriptor: c<id>.<key>.<window>.<kidkind>.<crit 0|1>
func makeCert(desc string, t0 uint64) *certMat {
	p := strings.Split(desc, ".")
	k := keyByName(p[1])
	va, vb := window(p[2], t0)
	c := &ssh.Certificate{Key: k.signer.PublicKey(), Serial: 1, CertType: ssh.UserCert, KeyId: kidText(p[3], p[0]),
		ValidPrincipals: []string{"alice"}, ValidAfter: va, ValidBefore: vb}
	if p[4] == "1" {
		c.Permissions.CriticalOptions = map[string]string{certutil.CriticalOptionTouchlessSudoHosts: "h1"}
	}
	if err := c.SignCert(rand.Reader, caSign); err != nil {
		panic(err)
	}
	return &certMat{p[0], c, k}
}

// ---------------------------------------------------------------- fault-injecting underlying agent

type under struct {
	ring   sshagent.Agent
	l      net.Listener
	sock   string
	mu     sync.Mutex
	faults map[byte]string // request code -> style (fail|garbage|close|oversize|weird)
	closed bool            // sticky: every connection is dropped from now on
}

var tmpDir string
var sockN int
var sockMu sync.Mutex

func newUnder() *under {
	sockMu.Lock()
	if tmpDir == "" {
		d, err := os.MkdirTemp("", "verifshim")
		if err != nil {
			panic(err)
		}
		tmpDir = d
	}
	sockN++
	sock := filepath.Join(tmpDir, fmt.Sprintf("u%d.sock", sockN))
	sockMu.Unlock()
	l, err := net.Listen("unix", sock)
	if err != nil {
		panic(err)
	}
	u := &under{ring: sshagent.NewKeyring(), l: l, sock: sock, faults: map[byte]string{}}
	go func() {
		for {
			c, err := l.Accept()
			if err != nil {
				return
			}
			go u.serve(c)
		}
	}()
	return u
}

func (u *under) stop() { u.l.Close(); os.Remove(u.sock) }

type oneFrame struct {
	in  io.Reader
	out io.Writer
}

func (f oneFrame) Read(p []byte) (int, error)  { return f.in.Read(p) }
func (f oneFrame) Write(p []byte) (int, error) { return f.out.Write(p) }

func (u *under) serve(c net.Conn) {
	defer c.Close()
	for {
		var hdr [4]byte
		if _, err := io.ReadFull(c, hdr[:]); err != nil {
			return
		}
		l := binary.BigEndian.Uint32(hdr[:])
		if l > 1<<24 {
			return
		}
		req := make([]byte, l)
		if _, err := io.ReadFull(c, req); err != nil {
			return
		}
		u.mu.Lock()
		style := ""
		if len(req) > 0 {
			style = u.faults[req[0]]
		}
		if u.closed {
			style = "close"
		}
		if style == "close" {
			u.closed = true
		}
		u.mu.Unlock()
		switch style {
		case "fail":
			c.Write([]byte{0, 0, 0, 1, 5})
			continue
		case "garbage":
			c.Write([]byte{0, 0, 0, 3, 0xde, 0xad, 0xbe})
			continue
		case "oversize":
			c.Write([]byte{0x7f, 0xff, 0xff, 0xff, 1, 2, 3})
			return
		case "oversize2": // top bit set: negative as a 32-bit signed number
			c.Write([]byte{0x80, 0, 0, 0, 1, 2, 3})
			return
		case "oversize3":
			c.Write([]byte{0xff, 0xff, 0xff, 0xff, 1, 2, 3})
			return
		case "oversize4": // one byte above the 16 MiB bound
			c.Write([]byte{0x01, 0, 0, 0x01, 1, 2, 3})
			return
		case "weird":
			c.Write([]byte{0, 0, 0, 1, 6})
			continue
		case "close":
			return
		}
		if len(req) > 0 && req[0] == 200 { // raw request of the test protocol: echoed behind 0xAA
			var out [4]byte
			binary.BigEndian.PutUint32(out[:], uint32(len(req)+1))
			c.Write(append(append(out[:], 0xAA), req...))
			continue
		}
		var buf []byte
		buf = append(buf, hdr[:]...)
		buf = append(buf, req...)
		rd := strings.NewReader(string(buf))
		sshagent.ServeAgent(u.ring, oneFrame{rd, c})
	}
}

var kindCode = map[string][]byte{"list": {11}, "add": {17, 25}, "remove": {18}, "removeall": {19}, "sign": {13}, "lock": {22}, "unlock": {23}, "forward": {200}}

func (u *under) setFaults(spec string) {
	u.mu.Lock()
	defer u.mu.Unlock()
	u.faults = map[byte]string{}
	if spec == "-" {
		return
	}
	// spec: style:kind+kind   e.g. fail:list+remove
	p := strings.SplitN(spec, ":", 2)
	if p[0] == "close" {
		for _, cs := range kindCode {
			for _, c := range cs {
				u.faults[c] = "close"
			}
		}
		return
	}
	for _, k := range strings.Split(p[1], "+") {
		for _, c := range kindCode[k] {
			u.faults[c] = p[0]
		}
	}
}

// ---------------------------------------------------------------- one history

type world struct {
	t0    uint64
	certs map[string]*certMat // by name c<id>
	descs map[string]string
}

func (w *world) cert(desc string) *certMat {
	name := strings.Split(desc, ".")[0]
	if c, ok := w.certs[name]; ok {
		return c
	}
	c := makeCert(desc, w.t0)
	w.certs[name] = c
	w.descs[name] = desc
	return c
}

func (w *world) pub(blob string) ssh.PublicKey {
	if blob == "k0" { // no key at all (add-hardware-certificate with a nil key)
		return nil
	}
	if blob[0] == 'k' {
		return keyByName(blob).signer.PublicKey()
	}
	return w.cert(blob).cert
}

func (w *world) added(ident string) sshagent.AddedKey {
	p := strings.SplitN(ident, ":", 2)
	comment := string(hx.UnHex(p[1]))
	if p[0][0] == 'k' {
		return sshagent.AddedKey{PrivateKey: keyByName(p[0]).priv, Comment: comment}
	}
	c := w.cert(p[0])
	return sshagent.AddedKey{PrivateKey: c.key.priv, Certificate: c.cert, Comment: comment}
}

func (w *world) nameOf(blob []byte) string {
	for _, k := range getKeys() {
		if string(k.signer.PublicKey().Marshal()) == string(blob) {
			return k.name
		}
	}
	for n, c := range w.certs {
		if string(c.cert.Marshal()) == string(blob) {
			return n
		}
	}
	return "?" + hx.Hex(blob)[:16]
}

func (w *world) showKeys(ks []*sshagent.Key) string {
	var s []string
	for _, k := range ks {
		s = append(s, w.nameOf(k.Blob)+":"+hx.HexS(k.Comment))
	}
	sort.Strings(s)
	return "[" + strings.Join(s, "|") + "]"
}

// execHist args: noup, cf (constructor fault spec), init idents "a,b" or "-", ops "op;op;…", then
// (rewritten by this run) t0, per-op times, oracle "name=ys,labelhex;…"
func execHist(args []string) ([]string, []string) {
	getKeys()
	noup, cf, initS, opsS := args[0], args[1], args[2], args[3]
	w := &world{t0: uint64(time.Now().Unix()), certs: map[string]*certMat{}, descs: map[string]string{}}
	u := newUnder()
	defer u.stop()
	if initS != "-" {
		for _, id := range strings.Split(initS, ",") {
			if err := u.ring.Add(w.added(id)); err != nil {
				panic(err)
			}
		}
	}
	// materialise every certificate the history mentions, so that the oracle field is complete
	for _, tok := range strings.FieldsFunc(initS+";"+opsS, func(r rune) bool { return r == ';' || r == ',' || r == '=' || r == ':' || r == '!' }) {
		if len(tok) > 1 && tok[0] == 'c' && strings.Count(tok, ".") == 4 {
			w.cert(tok)
		}
	}
	var outs, times []string
	u.setFaults(cf)
	var shim shimagent.ShimAgent
	var err error
	res := func() (r string) {
		defer func() {
			if rec := recover(); rec != nil {
				r = "crash"
			}
		}()
		shim, err = shimagent.New(shimagent.Option{Address: u.sock, NoUpstream: noup == "1"})
		if err != nil {
			return "newerr"
		}
		return "new"
	}()
	outs = append(outs, res)
	dumpU := func() string {
		ks, err := u.ring.List()
		if err != nil {
			return "U!"
		}
		if ks == nil {
			// locked keyring lists nothing; tell the two apart through a probe
			if u.ring.Lock([]byte("probe")) != nil {
				return "U?"
			}
			u.ring.Unlock([]byte("probe"))
		}
		return "U" + w.showKeys(ks)
	}
	if res == "new" {
		hung := false
		defer func() {
			if hung {
				go shim.Close() // may block for ever on the lock that was leaked
			} else {
				shim.Close()
			}
		}()
		for _, opS := range strings.Split(opsS, ";") {
			if opS == "" {
				continue
			}
			p := strings.SplitN(opS, "!", 2)
			fspec := "-"
			if len(p) == 2 {
				fspec = p[1]
			}
			kv := strings.SplitN(p[0], "=", 2)
			op, arg := kv[0], ""
			if len(kv) == 2 {
				arg = kv[1]
			}
			if op == "sleep" {
				n, _ := strconv.Atoi(arg)
				time.Sleep(time.Duration(n) * time.Second)
				times = append(times, strconv.FormatInt(time.Now().Unix(), 10))
				outs = append(outs, "slept")
				continue
			}
			u.setFaults(fspec)
			times = append(times, strconv.FormatInt(time.Now().Unix(), 10))
			// every operation runs under a watchdog: one that never returns (a leaked lock, a lost
			// reply) ends the history with "hang" instead of blocking the harness
			res := make(chan string, 1)
			go func() {
				res <- func() (r string) {
					defer func() {
						if rec := recover(); rec != nil {
							r = "crash"
						}
					}()
					return w.doOp(shim, u, op, arg)
				}()
			}()
			var o string
			select {
			case o = <-res:
			case <-time.After(20 * time.Second):
				outs = append(outs, "hang")
				hung = true
			}
			if hung {
				break
			}
			if !strings.HasPrefix(fspec, "close") {
				u.setFaults("-")
			}
			outs = append(outs, o+"/"+dumpU())
		}
	}
	// oracle: what the libraries say about every certificate that appeared
	var orc []string
	var names []string
	for n := range w.certs {
		names = append(names, n)
	}
	sort.Strings(names)
	for _, n := range names {
		c := w.certs[n]
		ys := "0"
		if _, err := keyid.Unmarshal(c.cert.KeyId); err == nil {
			ys = "1"
		}
		label := "-"
		if l, err := certutil.Label(c.cert); err == nil {
			label = hx.HexS(l)
			if l == "" {
				label = "00"
			}
		}
		// the KeyID text travels as a token tree: the statement's own KeyID decoder (C05 model) decides
		// whether it is a YSSHCA KeyID, not the implementation's
		orc = append(orc, fmt.Sprintf("%s=%s,%s,%d,%d,%s", n, ys, label, c.cert.ValidAfter, c.cert.ValidBefore, strings.NewReplacer(";", "\u0001", ",", "\u0002", "=", "\u0003").Replace(hx.Tok([]byte(c.cert.KeyId)))))
	}
	newArgs := []string{noup, cf, initS, opsS, strconv.FormatUint(w.t0, 10), strings.Join(times, ","), strings.Join(orc, ";")}
	if len(orc) == 0 {
		newArgs[6] = "-"
	}
	if len(times) == 0 {
		newArgs[5] = "-"
	}
	return newArgs, []string{strings.Join(outs, ";")}
}

func okErr(err error) string {
	if err == nil {
		return "ok"
	}
	return "err"
}

func (w *world) doOp(shim shimagent.ShimAgent, u *under, op, arg string) string {
	switch op {
	case "list":
		ks, err := shim.List()
		if err != nil {
			return "err"
		}
		return "L" + w.showKeys(ks)
	case "signers":
		ss, err := shim.Signers()
		if err != nil {
			return "err"
		}
		var s []string
		for _, x := range ss {
			s = append(s, w.nameOf(x.PublicKey().Marshal()))
		}
		sort.Strings(s)
		return "S[" + strings.Join(s, "|") + "]"
	case "sign":
		pub := w.pub(arg)
		data := []byte("data to sign " + arg)
		sig, err := shim.Sign(pub, data)
		if err != nil {
			if err.Error() == "agent: key not found" {
				return "G:notfound"
			}
			return "G:err"
		}
		for _, k := range getKeys() {
			if k.signer.PublicKey().Verify(data, sig) == nil {
				return "G:ok:" + k.name
			}
		}
		return "G:ok:unverifiable"
	case "sign256", "sign512":
		pub := w.pub(arg)
		data := []byte("data to sign " + arg)
		flags, format := sshagent.SignatureFlagRsaSha256, ssh.KeyAlgoRSASHA256
		if op == "sign512" {
			flags, format = sshagent.SignatureFlagRsaSha512, ssh.KeyAlgoRSASHA512
		}
		sig, err := shim.SignWithFlags(pub, data, flags)
		if err != nil {
			if err.Error() == "agent: key not found" {
				return "G:notfound"
			}
			return "G:err"
		}
		if sig.Format != format {
			return "G:ok:format=" + sig.Format
		}
		for _, k := range getKeys() {
			if k.signer.PublicKey().Verify(data, sig) == nil {
				return "G:ok:" + k.name
			}
		}
		return "G:ok:unverifiable"
	case "add":
		return okErr(shim.Add(w.added(arg)))
	case "addhard":
		p := strings.SplitN(arg, "=", 2)
		return okErr(shim.AddHardCert(w.pub(p[0]), string(hx.UnHex(p[1]))))
	case "remove":
		return okErr(shim.Remove(w.pub(arg)))
	case "removeall":
		return okErr(shim.RemoveAll())
	case "lock":
		return okErr(shim.Lock(hx.UnHex(arg)))
	case "unlock":
		return okErr(shim.Unlock(hx.UnHex(arg)))
	case "close":
		return okErr(shim.Close())
	case "forward":
		resp, err := shim.Forward(hx.UnHex(arg))
		if err != nil {
			return "err"
		}
		return "F:" + hx.Hex(resp)
	case "uadd":
		return okErr(u.ring.Add(w.added(arg)))
	case "uremove":
		return okErr(u.ring.Remove(w.pub(arg)))
	case "uremoveall":
		return okErr(u.ring.RemoveAll())
	}
	panic("op " + op)
}

// ---------------------------------------------------------------- signers used with every algorithm

// salgo: every signer the shim hands out, used with every signature algorithm name, behaves like the
// underlying agent's own signer for the same identity ("signing has the same effect as on the
// underlying agent"): same refusal, same signature format; and whatever a signer — also one for an
// in-memory hardware certificate — signs verifies under the signer's key.
// args: noup 0|1      output: ok | diff:<hex of what differs>
func runSAlgo(args []string) (res []string) {
	defer func() {
		if r := recover(); r != nil {
			res = []string{"crash:" + hx.HexS(fmt.Sprint(r))}
		}
	}()
	ks := getKeys()
	ring := sshagent.NewKeyring()
	now := uint64(time.Now().Unix())
	mkCert := func(k *keyMat, kid string, serial uint64) *ssh.Certificate {
		c := &ssh.Certificate{Key: k.signer.PublicKey(), Serial: serial, CertType: ssh.UserCert, KeyId: kid, ValidAfter: now - 1000, ValidBefore: now + 100000}
		if err := c.SignCert(rand.Reader, caSign); err != nil {
			panic(err)
		}
		return c
	}
	for _, k := range ks[:3] {
		ring.Add(sshagent.AddedKey{PrivateKey: k.priv, Comment: k.name})
	}
	ring.Add(sshagent.AddedKey{PrivateKey: ks[2].priv, Certificate: mkCert(ks[2], "free text", 1), Comment: "upstream rsa cert"})
	dir, err := os.MkdirTemp("", "salgo")
	if err != nil {
		panic(err)
	}
	defer os.RemoveAll(dir)
	sock := dir + "/a.sock"
	ln, err := net.Listen("unix", sock)
	if err != nil {
		panic(err)
	}
	defer ln.Close()
	go func() {
		for {
			c, err := ln.Accept()
			if err != nil {
				return
			}
			go func() { sshagent.ServeAgent(ring, c); c.Close() }()
		}
	}()
	shim, err := shimagent.New(shimagent.Option{Address: sock, NoUpstream: args[0] == "1"})
	if err != nil {
		return []string{"diff:" + hx.HexS("construction failed")}
	}
	defer shim.Close()
	ysKid, _ := (&keyid.KeyID{Principals: []string{"alice"}, TransID: "t9", ReqUser: "u", ReqIP: "1.2.3.4", ReqHost: "h", Version: 1, TouchPolicy: keyid.AlwaysTouch, IsHWKey: true}).Marshal()
	for i, k := range ks[:3] {
		if err := shim.AddHardCert(mkCert(k, ysKid, uint64(10+i)), "yk"); err != nil {
			return []string{"diff:" + hx.HexS("add-hardware-certificate refused for "+k.name)}
		}
	}
	ss, err := shim.Signers()
	if err != nil {
		return []string{"diff:" + hx.HexS("signers failed")}
	}
	dc, err := net.Dial("unix", sock)
	if err != nil {
		panic(err)
	}
	defer dc.Close()
	us, err := sshagent.NewClient(dc).Signers()
	if err != nil {
		panic(err)
	}
	use := func(s ssh.Signer, alg string, data []byte) string {
		var sig *ssh.Signature
		var err error
		if alg == "-" {
			sig, err = s.Sign(rand.Reader, data)
		} else if as, ok := s.(ssh.AlgorithmSigner); ok {
			sig, err = as.SignWithAlgorithm(rand.Reader, data, alg)
		} else {
			return "no-algorithm-signer"
		}
		if err != nil {
			return "refused"
		}
		return sig.Format
	}
	if len(ss) < 7 {
		return []string{"diff:" + hx.HexS(fmt.Sprintf("%d signers for 3 keys, 1 underlying certificate and 3 hardware certificates", len(ss)))}
	}
	for _, s := range ss {
		// the key that signs: the signer's own blob if the underlying agent has it, else the certified key
		blob := s.PublicKey().Marshal()
		var u ssh.Signer
		for _, x := range us {
			if bytes.Equal(x.PublicKey().Marshal(), blob) {
				u = x
			}
		}
		upstream := u != nil
		parsed, _ := ssh.ParsePublicKey(blob)
		if c, ok := parsed.(*ssh.Certificate); ok && u == nil {
			for _, x := range us {
				if bytes.Equal(x.PublicKey().Marshal(), c.Key.Marshal()) {
					u = x
				}
			}
		}
		if u == nil {
			return []string{"diff:" + hx.HexS("a signer for a key the underlying agent does not hold: "+s.PublicKey().Type())}
		}
		for _, alg := range []string{"-", "", "ssh-rsa", "rsa-sha2-256", "rsa-sha2-512", "ssh-ed25519", "ecdsa-sha2-nistp256", "ssh-dss", "rsa-sha2-256-cert-v01@openssh.com"} {
			data := []byte("signed with " + alg + " by " + s.PublicKey().Type())
			got, want := use(s, alg, data), use(u, alg, data)
			// an identity of the underlying agent: same effect as on the underlying agent; an in-memory
			// hardware certificate: whatever is signed verifies under the certificate's key
			if upstream && got != want {
				return []string{"diff:" + hx.HexS(fmt.Sprintf("%s signer, algorithm %q: %s through the shim, %s on the underlying agent", s.PublicKey().Type(), alg, got, want))}
			}
			if got != "refused" && got != "no-algorithm-signer" {
				var sig *ssh.Signature
				if alg == "-" {
					sig, _ = s.Sign(rand.Reader, data)
				} else {
					sig, _ = s.(ssh.AlgorithmSigner).SignWithAlgorithm(rand.Reader, data, alg)
				}
				if sig == nil || s.PublicKey().Verify(data, sig) != nil {
					return []string{"diff:" + hx.HexS(fmt.Sprintf("%s signer, algorithm %q: the signature does not verify under the signer's key", s.PublicKey().Type(), alg))}
				}
			}
		}
	}
	return []string{"ok"}
}

// ---------------------------------------------------------------- raw requests at the size bound

// fwdmax: raw requests whose reply is one byte below, exactly at, and one byte above the 16 MiB bound
// of the shim's framing: the first two come back byte for byte, the third is an error or comes back
// byte for byte (not a crash, not a hang, not an altered reply).  args: noup 0|1      output: ok | diff:<hex of what differs>
func runFwdMax(args []string) (res []string) {
	defer func() {
		if r := recover(); r != nil {
			res = []string{"crash:" + hx.HexS(fmt.Sprint(r))}
		}
	}()
	dir, err := os.MkdirTemp("", "fwdmax")
	if err != nil {
		panic(err)
	}
	defer os.RemoveAll(dir)
	sock := dir + "/a.sock"
	ln, err := net.Listen("unix", sock)
	if err != nil {
		panic(err)
	}
	defer ln.Close()
	ring := sshagent.NewKeyring()
	serve := func(c net.Conn) {
		defer c.Close()
		for {
			var hdr [4]byte
			if _, err := io.ReadFull(c, hdr[:]); err != nil {
				return
			}
			l := binary.BigEndian.Uint32(hdr[:])
			if l > 1<<25 {
				return
			}
			req := make([]byte, l)
			if _, err := io.ReadFull(c, req); err != nil {
				return
			}
			if len(req) > 0 && req[0] == 200 { // echoed behind 0xAA
				var out [4]byte
				binary.BigEndian.PutUint32(out[:], uint32(len(req)+1))
				c.Write(append(append(out[:], 0xAA), req...))
				continue
			}
			buf := append(append([]byte{}, hdr[:]...), req...)
			sshagent.ServeAgent(ring, oneFrame{strings.NewReader(string(buf)), c})
		}
	}
	go func() {
		for {
			c, err := ln.Accept()
			if err != nil {
				return
			}
			go serve(c)
		}
	}()
	for _, replyLen := range []int{1<<24 - 1, 1 << 24, 1<<24 + 1} {
		shim, err := shimagent.New(shimagent.Option{Address: sock, NoUpstream: args[0] == "1"})
		if err != nil {
			return []string{"diff:" + hx.HexS("construction failed")}
		}
		req := make([]byte, replyLen-1)
		req[0] = 200
		for i := 1; i < len(req); i += 4099 {
			req[i] = byte(i)
		}
		type fr struct {
			resp []byte
			err  error
		}
		ch := make(chan fr, 1)
		go func() {
			defer func() {
				if r := recover(); r != nil {
					ch <- fr{nil, fmt.Errorf("panic: %v", r)}
				}
			}()
			resp, err := shim.Forward(req)
			ch <- fr{resp, err}
		}()
		var r fr
		select {
		case r = <-ch:
		case <-time.After(60 * time.Second):
			return []string{"diff:" + hx.HexS(fmt.Sprintf("a raw request with a reply of %d bytes does not return", replyLen))}
		}
		shim.Close()
		if r.err != nil && strings.HasPrefix(r.err.Error(), "panic") {
			return []string{"crash:" + hx.HexS(r.err.Error())}
		}
		if replyLen <= 1<<24 {
			if r.err != nil || len(r.resp) != replyLen || r.resp[0] != 0xAA || !bytes.Equal(r.resp[1:], req) {
				return []string{"diff:" + hx.HexS(fmt.Sprintf("a reply of %d bytes (within the bound) is not relayed byte for byte: error %v, %d bytes", replyLen, r.err, len(r.resp)))}
			}
		} else if r.err == nil && (len(r.resp) != replyLen || r.resp[0] != 0xAA || !bytes.Equal(r.resp[1:], req)) {
			// above the bound: an error is in order (and so is relaying it, should the bound be raised); an altered reply is not
			return []string{"diff:" + hx.HexS(fmt.Sprintf("a reply of %d bytes comes back altered (%d bytes)", replyLen, len(r.resp)))}
		}
	}
	return []string{"ok"}
}

// ---------------------------------------------------------------- validity window, function level

// vtime args: ValidAfter, ValidBefore, time (Unix seconds)      output: 1 | 0
func runVTime(args []string) []string {
	va, _ := strconv.ParseUint(args[0], 10, 64)
	vb, _ := strconv.ParseUint(args[1], 10, 64)
	t, _ := strconv.ParseInt(args[2], 10, 64)
	return []string{hx.B01(certutil.ValidateSSHCertTime(&ssh.Certificate{ValidAfter: va, ValidBefore: vb}, time.Unix(t, 0)))}
}

// every pair of window ends from a grid around 0, 2^31, 2^32, 2^63 and 2^64, at the times one
// second before, at, and one second after each end
func genVTime(out *hx.Out) {
	ends := []uint64{0, 1, 2, 1000, 1<<31 - 1, 1 << 31, 1<<32 - 1, 1 << 32, 1<<63 - 2, 1<<63 - 1, 1 << 63, 1<<63 + 1, 1<<64 - 2, 1<<64 - 1}
	n := 0
	for _, va := range ends {
		for _, vb := range ends {
			seen := map[int64]bool{}
			for _, e := range []uint64{va, vb} {
				for _, d := range []int64{-1, 0, 1} {
					if e > 1<<63-1 {
						e = 1<<63 - 1
					}
					t := int64(e) + d
					if t < 1 || (d == 1 && e == 1<<63-1) || seen[t] {
						continue
					}
					seen[t] = true
					args := []string{strconv.FormatUint(va, 10), strconv.FormatUint(vb, 10), strconv.FormatInt(t, 10)}
					out.Case(fmt.Sprintf("vt%d", n), "vtime", args, runVTime(args))
					n++
				}
			}
		}
	}
}
