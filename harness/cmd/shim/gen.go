package main

import (
	"fmt"
	"os"
	"strings"

	"github.com/theparanoids/ysshra/internal/verifharness/hx"
)

var windows = []string{"cur", "cur", "cur", "past", "future", "forever", "zero", "vamax", "vbmax", "edge", "lapse", "vb31", "vb32", "va32", "vb63", "vb63p", "va63", "cur", "past"}
var kidKinds = []string{"ys", "ys", "ystouch", "ysff", "ysnonce", "nover", "incons", "deftouch", "missing", "free", "empty", "headless", "headless0", "headlessneg", "nonce0", "headless17", "touch4", "touch258", "ys", "ysws", "ysorder", "ysesc"}
var comments = []string{"", "c", "my key", "paranoids.regular-cert"}

// exhaustiveSets: every sequence of `depth` operations from a curated alphabet, from a handful of
// starting states, in both modes — small-scope exhaustive coverage next to the random histories.
func exhaustiveSets(depth int) [][]string {
	// a small universe: key k1 with a valid YSSHCA certificate c1, an expired one c2, a certificate
	// with a free-text KeyID c3; key k2 with a valid YSSHCA certificate c4
	c1, c2, c3, c4 := "c1.k1.cur.ys.0", "c2.k1.past.ys.0", "c3.k1.cur.free.0", "c4.k2.cur.ystouch.0"
	c5 := "c5.k1.cur.ysws.0" // a YSSHCA KeyID with white space around it
	alphabet := []string{"list", "signers", "sign=" + c1, "sign=k1", "sign=" + c2, "sign256=" + c1, "sign512=k1", "add=" + c4 + ":63", "addhard=" + c1 + "=-", "addhard=" + c2 + "=-",
		"addhard=" + c3 + "=796b", "remove=" + c1, "remove=k1", "removeall", "lock=7077", "unlock=7077", "unlock=6e6f", "uadd=k1:-", "uadd=" + c1 + ":63", "uadd=" + c5 + ":63", "sign=" + c5,
		"uremove=k1", "uremoveall", "forward=c80102", "list!fail:list", "list!fail:remove", "sign=" + c1 + "!fail:sign", "addhard=" + c1 + "=-!fail:list",
		// a lock / unlock / add / remove-all that the underlying agent refuses (it still answers everything else)
		"lock=7077!fail:lock", "unlock=7077!fail:unlock", "add=" + c4 + ":63!fail:add", "removeall!fail:removeall",
		// closing the shim (refused while locked; afterwards every request fails)
		"close",
		// a listing / removal that fails under every operation that needs one
		"signers!fail:list", "sign=k1!fail:list", "sign=" + c1 + "!fail:list", "remove=k1!fail:remove", "remove=" + c1 + "!fail:remove", "remove=" + c1 + "!fail:list", "sign=k1!fail:sign",
		// add-hardware-certificate without a key
		"addhard=k0=-"}
	starts := []string{"-", "k1:-", "k1:-," + c1 + ":63", "k1:-," + c2 + ":-,k2:6b", "k1:-," + c1 + ":63,k2:6b"}
	// … and the same starting agents with a hardware certificate already registered (2-operation
	// sequences only): one that is also held by the underlying agent, one that is not
	prefixes := []string{"", "addhard=" + c1 + "=-", "addhard=" + c3 + "=796b"}
	if depth > 2 {
		prefixes = prefixes[:1]
	}
	var seqs [][]string
	var rec func(prefix []string)
	rec = func(prefix []string) {
		if len(prefix) == depth {
			seqs = append(seqs, append([]string{}, prefix...))
			return
		}
		for _, a := range alphabet {
			rec(append(prefix, a))
		}
	}
	rec(nil)
	var sets [][]string
	for _, noup := range []string{"0", "1"} {
		for _, st := range starts {
			for _, pre := range prefixes {
				if pre != "" && !strings.Contains(st, "k1:-") {
					continue
				}
				for _, q := range seqs {
					ops := strings.Join(q, ";")
					if pre != "" {
						ops = pre + ";" + ops
					}
					sets = append(sets, []string{noup, "-", st, ops})
				}
			}
		}
	}
	return sets
}

func genHist(g *hx.Gen, out *hx.Out) {
	var sets [][]string
	total := *hx.Count
	for i := 0; i < total; i++ {
		sets = append(sets, genOne(g, i))
	}
	// small-scope exhaustive part: all sequences of 2 operations (thorough tier: 3)
	depth := 2
	if os.Getenv("VERIF_TIER") == "thorough" {
		depth = 3
	}
	sets = append(sets, exhaustiveSets(depth)...)
	if hx.Serial() {
		for i := range sets {
			id := fmt.Sprintf("h%d", i)
			hx.MarkRunning(id, "hist", sets[i])
			a, o := execHist(sets[i])
			out.Case(id, "hist", a, o)
		}
		return
	}
	// run in parallel, then write in order (each history owns its agents and sockets)
	type res struct {
		args, out []string
	}
	results := make([]res, len(sets))
	sem := make(chan struct{}, 12)
	done := make(chan struct{})
	for i := range sets {
		go func(i int) {
			sem <- struct{}{}
			a, o := func() (a, o []string) {
				defer func() {
					if r := recover(); r != nil {
						a, o = append(sets[i], "0", "-", "-"), []string{"crash:" + hx.HexS(fmt.Sprint(r))}
					}
				}()
				return execHist(sets[i])
			}()
			results[i] = res{a, o}
			<-sem
			done <- struct{}{}
		}(i)
	}
	for range sets {
		<-done
	}
	for i := range sets {
		out.Case(fmt.Sprintf("h%d", i), "hist", results[i].args, results[i].out)
	}
}

func genOne(g *hx.Gen, i int) []string {
	noup := hx.B01(g.Intn(2) == 0)
	// a small universe of certificates for this history
	nc := 2 + g.Intn(4)
	var certs []string
	hasLapse := false
	for j := 0; j < nc; j++ {
		w := windows[g.Intn(len(windows))]
		if w == "lapse" {
			if hasLapse || i%7 != 0 { // only some histories pay for a sleep
				w = "cur"
			} else {
				hasLapse = true
			}
		}
		certs = append(certs, fmt.Sprintf("c%d.k%d.%s.%s.%s", j+1, 1+g.Intn(4), w, kidKinds[g.Intn(len(kidKinds))], hx.B01(g.Intn(4) == 0)))
	}
	// state-aware choice: most operations name something the history has touched before (so that
	// re-adds, signs with registered certificates and removes of present identities are common),
	// the rest name anything in the universe
	var touched []string
	keyOf := func(b string) string {
		if strings.HasPrefix(b, "k") {
			return b
		}
		return strings.Split(b, ".")[1]
	}
	fresh := func() string {
		if g.Intn(3) == 0 {
			return fmt.Sprintf("k%d", 1+g.Intn(4))
		}
		return certs[g.Intn(len(certs))]
	}
	blob := func() string {
		if len(touched) > 0 && g.Intn(5) < 3 {
			b := touched[g.Intn(len(touched))]
			switch g.Intn(6) {
			case 0: // the bare key behind it
				return keyOf(b)
			case 1: // another certificate of the same key, if any
				for _, c := range certs {
					if c != b && keyOf(c) == keyOf(b) {
						return c
					}
				}
			}
			return b
		}
		b := fresh()
		touched = append(touched, b)
		return b
	}
	certBlob := func() string {
		for try := 0; try < 4; try++ {
			if b := blob(); !strings.HasPrefix(b, "k") {
				return b
			}
		}
		return certs[g.Intn(len(certs))]
	}
	ident := func() string { return blob() + ":" + hx.HexS(comments[g.Intn(len(comments))]) }
	var init []string
	for j := g.Intn(5); j > 0; j-- {
		init = append(init, ident())
	}
	initS := "-"
	if len(init) > 0 {
		initS = strings.Join(init, ",")
	}
	cf := "-"
	if g.Intn(12) == 0 {
		cf = "fail:list"
	}
	nops := 1 + g.Intn(24)
	var ops []string
	// set-up prefixes that make hardware certificates really registered: the bare key in the
	// underlying agent, then add-hard-cert; sometimes the same certificate upstream as well
	if g.Intn(2) == 0 {
		for n := 1 + g.Intn(3); n > 0; n-- {
			c := certs[g.Intn(len(certs))]
			touched = append(touched, c)
			ops = append(ops, "uadd="+keyOf(c)+":"+hx.HexS(comments[g.Intn(len(comments))]))
			if g.Intn(3) == 0 {
				ops = append(ops, "uadd="+c+":"+hx.HexS(comments[g.Intn(len(comments))]))
			}
			ops = append(ops, "addhard="+c+"="+hx.HexS(g.Pick([]string{"", "yk", "slot 9a"})))
			if g.Intn(4) == 0 {
				ops = append(ops, g.Pick([]string{"list", "signers"}))
			}
		}
	}
	slept := false
	// long passphrases that agree on a long prefix: nothing may compare only part of a passphrase
	long := strings.Repeat("p", 64)
	pass := []string{"pw", "", "other", "pw", long + "-tail-A", long + "-tail-B", long, "pw2"}
	// … and passphrases whose length sits on a power of two or next to it
	if g.Intn(3) == 0 {
		n := []int{63, 65, 255, 256, 257, 1023, 1024, 1025, 4096, 65535, 65536}[g.Intn(11)]
		pass = append(pass, strings.Repeat("q", n), strings.Repeat("q", n))
	}
	locked, lockPass := false, ""
	// a quarter of the histories may close the shim; they use no fault that makes the client give up
	// on the connection (what a second close of a connection returns is not part of the statement)
	mayClose := g.Intn(4) == 0
	for j := 0; j < nops; j++ {
		var op string
		if locked && g.Intn(5) == 0 { // get out of the locked state with the right passphrase most of the time
			op = "unlock=" + hx.HexS(lockPass)
			locked = false
			ops = append(ops, op)
			continue
		}
		switch r := g.Intn(28); {
		case r < 5:
			op = "list"
		case r < 7:
			op = "signers"
		case r < 10:
			// a plain sign request, or one that asks for an rsa-sha2 signature (signature flags 2 / 4)
			op = g.Pick([]string{"sign=", "sign=", "sign=", "sign256=", "sign512="}) + blob()
		case r < 12:
			op = "add=" + ident()
		case r < 15:
			b := certBlob()
			if g.Intn(6) == 0 {
				b = blob()
			}
			op = "addhard=" + b + "=" + hx.HexS(g.Pick([]string{"", "yk", "slot 9a"}))
		case r < 17:
			op = "remove=" + blob()
		case r < 18:
			op = "removeall"
		case r < 19:
			lp := pass[g.Intn(len(pass))]
			op = "lock=" + hx.HexS(lp)
			if !locked {
				locked, lockPass = true, lp
			}
		case r < 21:
			up := pass[g.Intn(len(pass))]
			op = "unlock=" + hx.HexS(up)
			if locked && up == lockPass {
				locked = false
			}
		case r < 23:
			op = "uadd=" + ident()
		case r < 25:
			op = "uremove=" + blob()
		case r < 26:
			op = "uremoveall"
		case r < 27:
			// a raw request: code 200 and a body whose size sits on or next to a power of two
			n := []int{0, 1, 2, 100, 254, 255, 256, 257, 507, 508, 509, 510, 511, 512, 513, 1023, 1024, 1025, 4095, 4096, 4097, 65535, 65536}[g.Intn(23)]
			body := make([]byte, n)
			for k := range body {
				body[k] = byte(k*7 + n)
			}
			op = "forward=" + hx.Hex(append([]byte{200}, body...))
			if g.Intn(4) == 0 {
				op += "!" + g.Pick([]string{"fail:forward", "oversize:forward", "oversize2:forward", "oversize3:forward", "oversize4:forward", "close"})
				if mayClose {
					op = strings.SplitN(op, "!", 2)[0] + "!fail:forward"
				}
			}
		default:
			op = "list"
			if mayClose && (locked || g.Intn(3) == 0) {
				op = "close"
			}
		}
		if hasLapse && !slept && j == nops/2 {
			ops = append(ops, "sleep=5")
			slept = true
		}
		if g.Intn(9) == 0 && !strings.HasPrefix(op, "u") && !strings.Contains(op, "!") {
			f := []string{"fail:list", "fail:remove", "fail:sign", "fail:add", "fail:removeall", "fail:lock", "fail:unlock", "fail:list+remove",
				"garbage:list", "garbage:sign", "oversize:list", "close", "fail:remove"}[g.Intn(13)]
			if g.Intn(40) == 0 && hx.Want("weird") && *hx.Only != "" {
				f = "weird:" + []string{"list", "sign"}[g.Intn(2)]
			}
			if mayClose && (f == "close" || strings.HasPrefix(f, "oversize") || strings.HasPrefix(f, "garbage")) {
				f = "fail:list"
			}
			if op != "close" {
				op += "!" + f
			}
		}
		ops = append(ops, op)
	}
	return []string{noup, cf, initS, strings.Join(ops, ";")}
}
