package main

import (
	"crypto/ecdsa"
	"crypto/elliptic"
	"crypto/rand"
	"crypto/x509"
	"crypto/x509/pkix"
	"math/big"
	"time"
)

func selfSigned() []byte {
	k, _ := ecdsa.GenerateKey(elliptic.P256(), rand.Reader)
	tmpl := &x509.Certificate{SerialNumber: big.NewInt(77), Subject: pkix.Name{CommonName: "slot 9a"},
		NotBefore: time.Unix(1700000000, 0), NotAfter: time.Unix(1900000000, 0)}
	der, err := x509.CreateCertificate(rand.Reader, tmpl, tmpl, &k.PublicKey, k)
	if err != nil {
		panic(err)
	}
	return der
}
