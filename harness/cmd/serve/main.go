// Harness group `serve`: yubiagent.ServeAgent on byte streams (C12) and the yubiagent client
// against a served agent (C13), with a scripted, recording YubiAgent.
package main

import (
	"bytes"
	"crypto/ed25519"
	"crypto/x509"
	"encoding/binary"
	"encoding/pem"
	"errors"
	"flag"
	"fmt"
	"io"
	"log"
	"os"
	"runtime"
	"strings"
	"time"

	"github.com/rs/zerolog"
	"golang.org/x/crypto/ssh"
	sshagent "golang.org/x/crypto/ssh/agent"

	"github.com/theparanoids/ysshra/agent/yubiagent"
	"github.com/theparanoids/ysshra/internal/verifharness/hx"
)

type opFn func(args []string) []string

var ops = map[string]opFn{
	"serve": runServe,
}

func main() {
	flag.Parse()
	log.SetOutput(io.Discard)
	zerolog.SetGlobalLevel(zerolog.Disabled)
	out := hx.Open()
	defer out.Close()
	defer func() {
		for _, d := range tmpDirs {
			os.RemoveAll(d)
		}
	}()
	if lines := hx.ReplayLines(); lines != nil {
		for _, l := range lines {
			if len(l) < 2 {
				continue
			}
			if fn, ok := ops[l[1]]; ok {
				out.Case(l[0], l[1], l[2:], safe(fn, l[2:]))
			}
		}
		return
	}
	g := hx.NewGen(*hx.Seed)
	if hx.Want("serve") {
		genServe(g, out)
		genServeReal(g, out)
	}
	registerMore(g, out)
}

func safe(fn opFn, args []string) (res []string) {
	defer func() {
		if r := recover(); r != nil {
			res = []string{"crash", hx.HexS(fmt.Sprint(r))}
		}
	}()
	return fn(args)
}

// ---------------------------------------------------------------- scripted agent

// script: the canned behaviour shared with the Lean driver (Drv/Serve.lean)
type scripted struct {
	slots   []string
	slotErr string
	pemCert []byte
	cert    *x509.Certificate
	log     []string      // what the agent received, for C13
	key     ssh.PublicKey // the identity this agent lists (default: the fixed Ed25519 key)
	quiet   bool          // follow-up traffic: not logged
	kept    []kept        // arguments retained by the agent, re-read after later requests
}

// kept: an argument the served agent holds on to (as a real agent does with a hardware
// certificate), with its bytes at the time of the call
type kept struct {
	what string
	get  func() []byte
	was  []byte
}

func (s *scripted) keep(what string, get func() []byte) {
	if !s.quiet {
		s.kept = append(s.kept, kept{what, get, append([]byte(nil), get()...)})
	}
}

// late: do the retained arguments still read as they did when they were delivered?
func (s *scripted) late() string {
	for _, k := range s.kept {
		if !bytes.Equal(k.get(), k.was) {
			return "late=changed:" + k.what
		}
	}
	return "late=same"
}

var errFail = errors.New("scripted failure")

func (s *scripted) rec(f string, a ...any) {
	if !s.quiet {
		s.log = append(s.log, fmt.Sprintf(f, a...))
	}
}

func (s *scripted) List() ([]*sshagent.Key, error) {
	k := s.key
	if k == nil {
		k = fixedKey()
	}
	return []*sshagent.Key{{Format: k.Type(), Blob: k.Marshal(), Comment: "fixed"}}, nil
}
func (s *scripted) Sign(key ssh.PublicKey, data []byte) (*ssh.Signature, error) {
	return s.SignWithFlags(key, data, 0)
}
func (s *scripted) SignWithFlags(key ssh.PublicKey, data []byte, flags sshagent.SignatureFlags) (*ssh.Signature, error) {
	s.rec("sign %x %x %d", key.Marshal(), data, flags)
	s.keep("sign-key", key.Marshal)
	s.keep("sign-data", func() []byte { return data })
	if len(data) > 0 && data[0] == 0xFE {
		return nil, errFail
	}
	return &ssh.Signature{Format: "ssh-ed25519", Blob: append([]byte{byte(flags)}, data...)}, nil
}
func (s *scripted) Add(key sshagent.AddedKey) error {
	s.rec("add %s %d %v", key.Comment, key.LifetimeSecs, key.ConfirmBeforeUse)
	if strings.HasPrefix(key.Comment, "fail") {
		return errFail
	}
	return nil
}
func (s *scripted) Remove(key ssh.PublicKey) error {
	s.rec("remove %x", key.Marshal())
	s.keep("remove-key", key.Marshal)
	return nil
}
func (s *scripted) RemoveAll() error { s.rec("removeall"); return nil }
func (s *scripted) Lock(p []byte) error {
	s.rec("lock %x", p)
	s.keep("passphrase", func() []byte { return p })
	if bytes.HasPrefix(p, []byte("fail")) {
		return errFail
	}
	return nil
}
func (s *scripted) Unlock(p []byte) error {
	s.rec("unlock %x", p)
	s.keep("passphrase", func() []byte { return p })
	if bytes.HasPrefix(p, []byte("fail")) {
		return errFail
	}
	return nil
}
func (s *scripted) Signers() ([]ssh.Signer, error) { return nil, nil }
func (s *scripted) Extension(t string, c []byte) ([]byte, error) {
	s.rec("ext %s %x", t, c)
	return nil, sshagent.ErrExtensionUnsupported
}
func (s *scripted) Forward(req []byte) ([]byte, error) {
	s.rec("forward %x", req)
	s.keep("forward-request", func() []byte { return req })
	if len(req) > 0 && req[0] == 0xFE {
		return nil, errFail
	}
	if len(req) > 0 && req[0] == 0xFC { // the underlying agent hangs up without answering
		return nil, io.EOF
	}
	if len(req) > 0 && (req[0] == 26 || req[0] == 21) { // smartcard requests: the reader id's first letter scripts the reply
		var m struct {
			ID   string
			Rest []byte `ssh:"rest"`
		}
		if ssh.Unmarshal(req[1:], &m) == nil && len(m.ID) > 0 {
			switch m.ID[0] {
			case 'S':
				return []byte{6}, nil
			case 'F':
				return []byte{5}, nil
			case 'E':
				return []byte{}, nil
			case 'X':
				return nil, errFail
			case 'L':
				return []byte{6, 1, 2, 3}, nil
			}
		}
	}
	if len(req) > 0 && req[0] == 0xFD { // the reply is the rest of the request, verbatim
		return append([]byte{}, req[1:]...), nil
	}
	return append([]byte{0xAA}, req...), nil
}
func (s *scripted) AddHardCert(key ssh.PublicKey, comment string) error {
	s.rec("addhard %x %x", key.Marshal(), comment)
	s.keep("hardware-certificate", key.Marshal)
	if strings.HasPrefix(comment, "fail:") {
		return errors.New(comment[5:])
	}
	return nil
}
func (s *scripted) Wait(c byte) error {
	s.rec("wait %d", c)
	if c == 0xEE {
		return errors.New("nope")
	}
	return nil
}
func (s *scripted) Close() error { return nil }
func (s *scripted) ListSlots() ([]string, error) {
	s.rec("listslots")
	if s.slotErr != "" {
		return s.slots, errors.New(s.slotErr)
	}
	return s.slots, nil
}
func (s *scripted) slot(kind, slot string) (*x509.Certificate, error) {
	s.rec("%s %x", kind, slot)
	switch slot {
	case "9a":
		return s.cert, nil
	case "9c": // certificate and error together
		return s.cert, errors.New("partial")
	case "bad":
		return nil, errors.New("no cert")
	}
	return nil, errors.New("unknown slot " + slot)
}
func (s *scripted) ReadSlot(slot string) (*x509.Certificate, error) { return s.slot("readslot", slot) }
func (s *scripted) AttestSlot(slot string) (*x509.Certificate, error) {
	return s.slot("attestslot", slot)
}
func (s *scripted) AddSmartcardKey(string, []byte, time.Duration, bool) error {
	return errors.New("unsupported")
}
func (s *scripted) RemoveSmartcardKey(string, []byte) error { return errors.New("unsupported") }

var fixedPub ssh.PublicKey

func fixedKey() ssh.PublicKey {
	if fixedPub == nil {
		seed := bytes.Repeat([]byte{7}, 32)
		k := ed25519.NewKeyFromSeed(seed)
		fixedPub, _ = ssh.NewPublicKey(k.Public())
	}
	return fixedPub
}

var theCert *x509.Certificate
var theCertPEM []byte

func fixedCert() (*x509.Certificate, []byte) {
	if theCert == nil {
		der := selfSigned()
		c, err := x509.ParseCertificate(der)
		if err != nil {
			panic(err)
		}
		theCert = c
		theCertPEM = pem.EncodeToMemory(&pem.Block{Type: "CERTIFICATE", Bytes: der})
	}
	return theCert, theCertPEM
}

func newScripted(slots []string, slotErr string) *scripted {
	c, p := fixedCert()
	return &scripted{slots: slots, slotErr: slotErr, cert: c, pemCert: p}
}

// ---------------------------------------------------------------- serve (C12)

type rw struct {
	in  *bytes.Reader
	out bytes.Buffer
}

func (r *rw) Read(p []byte) (int, error)  { return r.in.Read(p) }
func (r *rw) Write(p []byte) (int, error) { return r.out.Write(p) }

// splitFrames parses the bytes the server wrote into frame bodies.
func splitFrames(b []byte) ([][]byte, bool) {
	var out [][]byte
	for len(b) > 0 {
		if len(b) < 4 {
			return out, false
		}
		l := int(binary.BigEndian.Uint32(b))
		if len(b) < 4+l {
			return out, false
		}
		out = append(out, b[4:4+l])
		b = b[4+l:]
	}
	return out, true
}

// serve args: stream hex, oracle list (ignored here), slots list, slot error hex
func runServe(args []string) []string {
	stream := hx.UnHex(args[0])
	ag := newScripted(hx.ParseStrList(args[2]), string(hx.UnHex(args[3])))
	conn := &rw{in: bytes.NewReader(stream)}
	var m0, m1 runtime.MemStats
	runtime.ReadMemStats(&m0)
	err := yubiagent.ServeAgent(ag, conn)
	runtime.ReadMemStats(&m1)
	ending := "clean"
	if err != nil {
		ending = "error"
	}
	frames, ok := splitFrames(conn.out.Bytes())
	var fs []string
	for _, f := range frames {
		fs = append(fs, hx.Hex(f))
	}
	if !ok {
		fs = append(fs, "PARTIAL")
	}
	alloc := "ok"
	if m1.TotalAlloc-m0.TotalAlloc > 16<<20+uint64(4*len(stream))+(4<<20) {
		alloc = "big"
	}
	return []string{ending, "[" + strings.Join(fs, "|") + "]", alloc}
}

// oracleFor computes, for each complete frame of the stream, what the libraries decide:
// ParsePublicKey(req[1:]), ParsePublicKey(KeyBlob of the new format), and the reply of x/crypto's
// standard server to this single request against the scripted agent ("!" = error or panic).
func oracleFor(stream []byte, slots []string, slotErr string) string {
	var parts []string
	b := stream
	for len(b) >= 4 {
		l := int(binary.BigEndian.Uint32(b))
		if l > 16<<20 || len(b) < 4+l {
			break
		}
		req := b[4 : 4+l]
		b = b[4+l:]
		pk1, pk2, std := "0", "0", "-"
		if len(req) > 0 {
			if _, err := ssh.ParsePublicKey(req[1:]); err == nil {
				pk1 = "1"
			}
			var msg struct {
				KeyBlob []byte `sshtype:"31"`
				Comment string
			}
			if req[0] == 31 && ssh.Unmarshal(req, &msg) == nil {
				if _, err := ssh.ParsePublicKey(msg.KeyBlob); err == nil {
					pk2 = "1"
				}
			}
			switch req[0] {
			case 22, 23, 13, 17, 25, 18, 19, 1, 11:
				std = stdReply(req, slots, slotErr)
			}
		}
		parts = append(parts, pk1+","+pk2+","+std)
	}
	if len(parts) == 0 {
		return "[]"
	}
	return "[" + strings.Join(parts, "|") + "]"
}

func stdReply(req []byte, slots []string, slotErr string) (res string) {
	defer func() {
		if r := recover(); r != nil {
			res = "!"
		}
	}()
	var in bytes.Buffer
	var hdr [4]byte
	binary.BigEndian.PutUint32(hdr[:], uint32(len(req)))
	in.Write(hdr[:])
	in.Write(req)
	conn := &rw{in: bytes.NewReader(in.Bytes())}
	err := sshagent.ServeAgent(newScripted(slots, slotErr), conn)
	if err != nil && err != io.EOF {
		return "!"
	}
	frames, ok := splitFrames(conn.out.Bytes())
	if !ok || len(frames) != 1 {
		return "!"
	}
	return hx.Hex(frames[0])
}

func frame(body []byte) []byte {
	var hdr [4]byte
	binary.BigEndian.PutUint32(hdr[:], uint32(len(body)))
	return append(hdr[:], body...)
}

func sshString(b []byte) []byte { return frame(b) }

// grammar-derived request bodies
func genBody(g *hx.Gen) []byte {
	key := fixedKey().Marshal()
	switch g.Intn(24) {
	case 0:
		return []byte{}
	case 1:
		return []byte{byte(g.Intn(256))}
	case 2: // old add-hardware-certificate format
		return append([]byte{31}, key...)
	case 3: // new format
		return append(append([]byte{31}, sshString(key)...), sshString([]byte(g.Pick([]string{"", "yk", "fail:boom", "fail:", "fail:SUCCESS", "é"})))...)
	case 4: // new format, bad blob / trailing data / truncated
		b := append(append([]byte{31}, sshString(g.Bytes(g.Intn(20)))...), sshString([]byte("c"))...)
		if g.Bool() {
			b = append(b, 0)
		}
		return b
	case 5:
		return []byte{32}
	case 6:
		return append([]byte{33}, []byte(g.Pick([]string{"9a", "9c", "bad", "", "zz", "9a "}))...)
	case 7:
		return append([]byte{34}, []byte(g.Pick([]string{"9a", "9c", "bad", "", "f9"}))...)
	case 8:
		return []byte{35, byte(g.Intn(256))}
	case 9:
		return []byte{35}
	case 10:
		return []byte{35, 0xEE, 1, 2}
	case 11:
		return []byte{11}
	case 12:
		return []byte{1}
	case 13: // sign request
		return append(append(append([]byte{13}, sshString(key)...), sshString(g.Bytes(g.Intn(40)))...), 0, 0, 0, byte(g.Intn(8)))
	case 14: // constrained add of an ed25519 key with possibly truncated constraints
		priv := ed25519.NewKeyFromSeed(bytes.Repeat([]byte{9}, 32))
		b := append([]byte{25}, sshString([]byte("ssh-ed25519"))...)
		b = append(b, sshString(priv.Public().(ed25519.PublicKey))...)
		b = append(b, sshString(priv)...)
		b = append(b, sshString([]byte(g.Pick([]string{"c", "fail", ""})))...)
		cons := [][]byte{{1, 0, 0, 0, 60}, {2}, {1, 0}, {1}, {1, 0, 0, 0, 60, 2}, {3}, {}, {255, 0, 0, 0, 1, 'x', 0, 0, 0, 0}, {1, 0, 0, 0}}
		return append(b, cons[g.Intn(len(cons))]...)
	case 15: // plain add
		priv := ed25519.NewKeyFromSeed(bytes.Repeat([]byte{9}, 32))
		b := append([]byte{17}, sshString([]byte("ssh-ed25519"))...)
		b = append(b, sshString(priv.Public().(ed25519.PublicKey))...)
		b = append(b, sshString(priv)...)
		return append(b, sshString([]byte("c"))...)
	case 16:
		return append([]byte{18}, sshString(key)...)
	case 17:
		return []byte{19}
	case 18:
		return append([]byte{byte(22 + g.Intn(2))}, sshString([]byte(g.Pick([]string{"pw", "fail", ""})))...)
	case 19: // standard code with random body
		c := []byte{22, 23, 13, 17, 25, 18, 19, 1, 11}[g.Intn(9)]
		return append([]byte{c}, g.Bytes(g.Intn(30))...)
	case 20: // unknown codes are forwarded raw
		return append([]byte{byte(g.Pick([]string{"\x14", "\x15", "\x1a", "\x1b", "\xfe", "\xfc", "\xfc", "\x00", "\xff", "\x28"})[0])}, g.Bytes(g.Intn(10))...)
	case 21:
		return append([]byte{27}, sshString([]byte("ext@example.com"))...)
	default:
		return append([]byte{byte(g.Intn(256))}, g.Bytes(g.Intn(16))...)
	}
}

func genServe(g *hx.Gen, out *hx.Out) {
	n := 0
	slotSets := [][]string{{}, {"9a"}, {"9a", "9c", "9d", "9e"}, {"82", "f9"}}
	emit := func(stream []byte) {
		slots := slotSets[g.Intn(len(slotSets))]
		slotErr := g.Pick([]string{"", "", "", "pivtool failed"})
		id := fmt.Sprintf("sv%d", n)
		n++
		_, pemBytes := fixedCert()
		args := []string{hx.Hex(stream), oracleFor(stream, slots, slotErr), hx.StrList(slots), hx.HexS(slotErr), hx.Hex(pemBytes)}
		out.Case(id, "serve", args, safe(runServe, args))
	}
	// frames of length 0 and 1 for every message code
	emit(frame(nil))
	for c := 0; c < 256; c++ {
		emit(frame([]byte{byte(c)}))
	}
	// truncated prefixes, declared lengths up to 2^32-1
	emit(nil)
	for l := 1; l < 4; l++ {
		emit(make([]byte, l))
	}
	for _, decl := range []uint32{1, 5, 16<<20 - 1, 16 << 20, 16<<20 + 1, 16<<20 + 2, 16<<20 + 3, 16<<20 + 4, 16<<20 + 5, 16<<20 + 8, 16<<20 + 1024, 17 << 20, 32 << 20, 1 << 31, 1<<32 - 1} {
		var hdr [4]byte
		binary.BigEndian.PutUint32(hdr[:], decl)
		emit(hdr[:])
		emit(append(hdr[:], 11))
		emit(append(frame([]byte{11}), hdr[:]...))
	}
	// a forwarded request the underlying agent fails (0xFE) or hangs up on (0xFC), followed by
	// further requests of every kind
	for _, c := range []byte{0xFE, 0xFC} {
		for _, next := range [][]byte{{32}, {11}, {35, 11}, {200, 1, 2}, {c}} {
			emit(append(frame([]byte{c, 1, 2, 3}), frame(next)...))
			emit(append(append(frame([]byte{32}), frame([]byte{c})...), frame(next)...))
		}
	}
	for i := 0; i < *hx.Count; i++ {
		var s []byte
		k := 1 + g.Intn(4)
		for j := 0; j < k; j++ {
			s = append(s, frame(genBody(g))...)
		}
		switch g.Intn(10) {
		case 0: // truncated tail
			s = s[:len(s)-g.Intn(min(len(s), 6))]
		case 1: // trailing partial header
			s = append(s, g.Bytes(1+g.Intn(3))...)
		case 2: // random bytes
			s = append(s, g.Bytes(g.Intn(12))...)
		}
		emit(s)
	}
}

func min(a, b int) int {
	if a < b {
		return a
	}
	return b
}
