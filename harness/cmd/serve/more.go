package main

import (
	"bytes"
	"crypto/ecdsa"
	"crypto/ed25519"
	"crypto/elliptic"
	"crypto/rand"
	"crypto/rsa"
	"encoding/binary"
	"encoding/pem"
	"errors"
	"fmt"
	"io"
	"net"
	"os"
	"os/exec"
	"path/filepath"
	"strconv"
	"strings"
	"syscall"
	"time"

	"golang.org/x/crypto/ssh"
	sshagent "golang.org/x/crypto/ssh/agent"

	"github.com/theparanoids/ysshra/agent/yubiagent"
	"github.com/theparanoids/ysshra/internal/verifharness/hx"
)

func init() {
	ops["rpc"] = runRPC
	ops["trunc"] = runTrunc
	ops["garb"] = runGarb
	ops["slots"] = runSlots
	ops["slotop"] = runSlotOp
}

func registerMore(g *hx.Gen, out *hx.Out) {
	if hx.Want("rpc") {
		genRPC(g, out)
		genTrunc(g, out)
		genGarb(g, out)
	}
	if hx.Want("slots") {
		genSlots(g, out)
	}
}

func socketPair() (net.Conn, net.Conn) {
	fds, err := syscall.Socketpair(syscall.AF_UNIX, syscall.SOCK_STREAM, 0)
	if err != nil {
		panic(err)
	}
	f0, f1 := os.NewFile(uintptr(fds[0]), "a"), os.NewFile(uintptr(fds[1]), "b")
	c0, err := net.FileConn(f0)
	if err != nil {
		panic(err)
	}
	c1, err := net.FileConn(f1)
	if err != nil {
		panic(err)
	}
	f0.Close()
	f1.Close()
	return c0, c1
}

func errRes(err error) string {
	if err == nil {
		return "ok"
	}
	if errors.Is(err, io.EOF) || errors.Is(err, io.ErrUnexpectedEOF) || errors.Is(err, syscall.ECONNRESET) || errors.Is(err, syscall.EPIPE) {
		return "connerr"
	}
	return "err:" + hx.HexS(err.Error())
}

// runTrunc: the client against a peer that announces a response of `declared` bytes, sends only
// `sent` of them and closes. Whatever the operation, the caller must get an error, never a result
// made of the bytes that did arrive.
// trunc args: client operation (forward | listslots | readslot | attestslot), declared, sent
func runTrunc(args []string) []string {
	declared, _ := strconv.Atoi(args[1])
	sent, _ := strconv.Atoi(args[2])
	cc, sc := socketPair()
	go func() {
		defer sc.Close()
		var hdr [4]byte
		if _, err := io.ReadFull(sc, hdr[:]); err != nil {
			return
		}
		body := make([]byte, binary.BigEndian.Uint32(hdr[:]))
		if _, err := io.ReadFull(sc, body); err != nil {
			return
		}
		// a well-formed response of the right kind, as far as it goes
		var resp []byte
		_, pemBytes := fixedCert()
		switch args[0] {
		case "listslots":
			resp = append(sshStringB([]byte("9a,9c,9d,9e,82,83,84,85,86,87,88,89,8a,8b,8c,8d,8e,8f,90,91,92,93,94,95,f9")), sshStringB(nil)...)
		case "readslot", "attestslot":
			resp = append(sshStringB(pemBytes), sshStringB(nil)...)
		default:
			resp = bytes.Repeat([]byte{0x5A}, 4096)
		}
		for len(resp) < declared {
			resp = append(resp, resp...)
		}
		binary.BigEndian.PutUint32(hdr[:], uint32(declared))
		sc.Write(hdr[:])
		sc.Write(resp[:sent])
	}()
	cl, err := yubiagent.NewClientFromConn(cc)
	if err != nil {
		panic(err)
	}
	defer cc.Close()
	cc.SetDeadline(time.Now().Add(5 * time.Second))
	switch args[0] {
	case "listslots":
		slots, err := cl.ListSlots()
		if err != nil {
			return []string{"error"}
		}
		return []string{"result " + hx.StrList(slots)}
	case "readslot", "attestslot":
		fn := cl.ReadSlot
		if args[0] == "attestslot" {
			fn = cl.AttestSlot
		}
		c, err := fn("9a")
		if err != nil {
			return []string{"error"}
		}
		return []string{fmt.Sprintf("result %d bytes", len(c.Raw))}
	default:
		resp, err := cl.Forward([]byte{200, 1, 2, 3})
		if err != nil {
			return []string{"error"}
		}
		return []string{fmt.Sprintf("result %d bytes", len(resp))}
	}
}

// garb: a peer that answers a request with a complete frame that is not a response of the expected
// kind: every operation of the client that expects a structured response must return an error.
// args: operation, reply hex      output: error | result
func runGarb(args []string) []string {
	cc, sc := socketPair()
	go func() {
		defer sc.Close()
		var hdr [4]byte
		if _, err := io.ReadFull(sc, hdr[:]); err != nil {
			return
		}
		body := make([]byte, binary.BigEndian.Uint32(hdr[:]))
		if _, err := io.ReadFull(sc, body); err != nil {
			return
		}
		resp := hx.UnHex(args[1])
		binary.BigEndian.PutUint32(hdr[:], uint32(len(resp)))
		sc.Write(hdr[:])
		sc.Write(resp)
	}()
	cl, err := yubiagent.NewClientFromConn(cc)
	if err != nil {
		panic(err)
	}
	defer cc.Close()
	cc.SetDeadline(time.Now().Add(5 * time.Second))
	theKey := fixedKey()
	switch args[0] {
	case "listslots":
		_, err = cl.ListSlots()
	case "readslot":
		_, err = cl.ReadSlot("9a")
	case "attestslot":
		_, err = cl.AttestSlot("9a")
	case "addhard":
		err = cl.AddHardCert(theKey, "yk")
	case "wait":
		err = cl.Wait(11)
	case "scadd":
		err = cl.AddSmartcardKey("reader", []byte("123456"), time.Minute, true)
	case "scremove":
		err = cl.RemoveSmartcardKey("reader", []byte("123456"))
	case "list":
		_, err = cl.List()
	case "sign":
		_, err = cl.Sign(theKey, []byte("data"))
	case "signers":
		_, err = cl.Signers()
	case "remove":
		err = cl.Remove(theKey)
	case "lock":
		err = cl.Lock([]byte("pw"))
	default:
		panic("garb op " + args[0])
	}
	if err != nil {
		return []string{"error"}
	}
	return []string{"result"}
}

func genGarb(g *hx.Gen, out *hx.Out) {
	n := 0
	// replies that are no response of the kind the operation expects: empty, a failure byte, a lone
	// success byte where a structure is expected, a string length that overruns the frame, one string
	// where two are expected, text, random bytes
	structured := [][]byte{{}, {5}, {6}, {0xff, 0xff, 0xff, 0xff, 1}, {0, 0, 0, 2, 'a'}, sshStringB([]byte("9a")), []byte("SUCCES"), []byte("success"), {0}, g.Bytes(3), g.Bytes(9)}
	// (the standard operations travel through x/crypto's client: malformed replies only — a well-formed
	// reply of another type is finding F10)
	for _, op := range []string{"list", "sign", "signers"} {
		for _, r := range [][]byte{{}, {5}, {0xde, 0xad, 0xbe}, {12}, {12, 0, 0}, {14, 0, 0, 0, 9, 1}} {
			args := []string{op, hx.Hex(r)}
			out.Case(fmt.Sprintf("gb%d", n), "garb", args, safe(runGarb, args))
			n++
		}
	}
	for _, op := range []string{"listslots", "readslot", "attestslot"} {
		for _, r := range structured {
			args := []string{op, hx.Hex(r)}
			out.Case(fmt.Sprintf("gb%d", n), "garb", args, safe(runGarb, args))
			n++
		}
	}
	// operations answered by a status: everything but the success marker is an error
	for _, op := range []string{"addhard", "wait"} {
		for _, r := range [][]byte{{}, {5}, {6}, []byte("SUCCES"), []byte("SUCCESS "), []byte("success"), []byte(" SUCCESS"), []byte("SUCCESSS"), {0}} {
			args := []string{op, hx.Hex(r)}
			out.Case(fmt.Sprintf("gb%d", n), "garb", args, safe(runGarb, args))
			n++
		}
	}
	for _, op := range []string{"scadd", "scremove", "remove", "lock"} {
		for _, r := range [][]byte{{}, {5}, {5, 6}, {0}, {7}, {0, 0, 0, 1, 6}, []byte("SUCCESS")} {
			args := []string{op, hx.Hex(r)}
			out.Case(fmt.Sprintf("gb%d", n), "garb", args, safe(runGarb, args))
			n++
		}
	}
}

func sshStringB(b []byte) []byte {
	l := len(b)
	return append([]byte{byte(l >> 24), byte(l >> 16), byte(l >> 8), byte(l)}, b...)
}

func genTrunc(g *hx.Gen, out *hx.Out) {
	n := 0
	for _, op := range []string{"forward", "listslots", "readslot", "attestslot"} {
		for _, d := range [][2]int{{1000, 500}, {1000, 999}, {1000, 0}, {1000, 1}, {8, 7}, {5, 4}, {70000, 4096}, {70000, 69999}, {100, 50}, {300, 299}} {
			args := []string{op, strconv.Itoa(d[0]), strconv.Itoa(d[1])}
			out.Case(fmt.Sprintf("tr%d", n), "trunc", args, safe(runTrunc, args))
			n++
		}
	}
}

// rpc args: op, then op-specific fields, last two: slots list, slot error (scripted agent setup)
// output: what the served agent received (log, hex-joined) and what the caller got
func runRPC(args []string) []string {
	op := args[0]
	p := args[1 : len(args)-4]
	ag := newScripted(hx.ParseStrList(args[len(args)-4]), string(hx.UnHex(args[len(args)-3])))
	theKey, kerr := ssh.ParsePublicKey(hx.UnHex(args[len(args)-2]))
	if kerr != nil {
		theKey = fixedKey()
	}
	ag.key = theKey
	cc, sc := socketPair()
	done := make(chan error, 1)
	var served string
	go func() {
		// a panic of ServeAgent would end the real agent process: report it as a crash of this case
		defer func() {
			if r := recover(); r != nil {
				served = fmt.Sprint(r)
				sc.Close()
				done <- nil
			}
		}()
		err := yubiagent.ServeAgent(ag, sc)
		sc.Close()
		done <- err
	}()
	cl, err := yubiagent.NewClientFromConn(cc)
	if err != nil {
		panic(err)
	}
	cc.SetDeadline(time.Now().Add(5 * time.Second))
	var res string
	switch op {
	case "addhard": // blob hex, comment hex
		key, err := ssh.ParsePublicKey(hx.UnHex(p[0]))
		if err != nil {
			key = rawKey(hx.UnHex(p[0]))
		}
		res = errRes(cl.AddHardCert(key, string(hx.UnHex(p[1]))))
	case "addhardold": // the old wire format: code 31 followed by the key blob, no comment field
		resp, err := cl.Forward(append([]byte{31}, hx.UnHex(p[0])...))
		if err != nil {
			res = "connerr"
		} else {
			res = "ok " + hx.Hex(resp)
		}
	case "addhardseq": // the current format with a comment, then the old format, on one connection
		key, err := ssh.ParsePublicKey(hx.UnHex(p[0]))
		if err != nil {
			key = rawKey(hx.UnHex(p[0]))
		}
		res = errRes(cl.AddHardCert(key, string(hx.UnHex(p[1]))))
		resp, err := cl.Forward(append([]byte{31}, hx.UnHex(p[0])...))
		if err != nil {
			res += ";connerr"
		} else {
			res += ";ok " + hx.Hex(resp)
		}
	case "listslots":
		slots, err := cl.ListSlots()
		if slots == nil {
			slots = []string{}
		}
		res = errRes(err) + " " + hx.StrList(slots)
	case "readslot", "attestslot":
		fn := cl.ReadSlot
		if op == "attestslot" {
			fn = cl.AttestSlot
		}
		c, err := fn(string(hx.UnHex(p[0])))
		if err != nil {
			res = errRes(err)
		} else {
			res = "ok " + hx.Hex(pem.EncodeToMemory(&pem.Block{Type: "CERTIFICATE", Bytes: c.Raw}))
		}
	case "wait":
		c, _ := strconv.Atoi(p[0])
		res = errRes(cl.Wait(byte(c)))
	case "forward":
		resp, err := cl.Forward(hx.UnHex(p[0]))
		if err != nil {
			res = "connerr"
		} else {
			res = "ok " + hx.Hex(resp)
		}
	case "scadd", "scremove": // reader id hex, pin hex [, lifetime in nanoseconds, confirm]
		var err error
		if op == "scadd" {
			lt, _ := strconv.ParseInt(p[2], 10, 64)
			err = cl.AddSmartcardKey(string(hx.UnHex(p[0])), hx.UnHex(p[1]), time.Duration(lt), p[3] == "1")
		} else {
			err = cl.RemoveSmartcardKey(string(hx.UnHex(p[0])), hx.UnHex(p[1]))
		}
		switch {
		case err == nil:
			res = "ok"
		case strings.Contains(err.Error(), "empty packet"):
			res = "empty"
		case strings.Contains(err.Error(), "agent failure"):
			res = "failure"
		default:
			res = "connerr"
		}
	case "sign": // data hex, flags
		fl, _ := strconv.Atoi(p[1])
		sig, err := cl.SignWithFlags(theKey, hx.UnHex(p[0]), sshagent.SignatureFlags(fl))
		if err != nil {
			res = "err"
		} else {
			res = "ok " + hx.HexS(sig.Format) + " " + hx.Hex(sig.Blob)
		}
	case "add": // comment hex, lifetime, confirm
		lt, _ := strconv.Atoi(p[1])
		priv := ed25519.NewKeyFromSeed(bytes.Repeat([]byte{9}, 32))
		err := cl.Add(sshagent.AddedKey{PrivateKey: &priv, Comment: string(hx.UnHex(p[0])), LifetimeSecs: uint32(lt), ConfirmBeforeUse: p[2] == "1"})
		if err != nil {
			res = "err"
		} else {
			res = "ok"
		}
	case "remove":
		if cl.Remove(theKey) != nil {
			res = "err"
		} else {
			res = "ok"
		}
	case "removeall":
		if cl.RemoveAll() != nil {
			res = "err"
		} else {
			res = "ok"
		}
	case "lock", "unlock":
		fn := cl.Lock
		if op == "unlock" {
			fn = cl.Unlock
		}
		if fn(hx.UnHex(p[0])) != nil {
			res = "err"
		} else {
			res = "ok"
		}
	case "list":
		keys, err := cl.List()
		if err != nil {
			res = "err"
		} else {
			var ks []string
			for _, k := range keys {
				ks = append(ks, hx.Hex(k.Blob)+":"+hx.HexS(k.Comment))
			}
			res = "ok [" + strings.Join(ks, "|") + "]"
		}
	default:
		panic("unknown rpc op " + op)
	}
	// follow-up traffic on the same connection (not logged, results ignored): requests of several
	// sizes, after which the arguments the agent retained must still read the same
	ag.quiet = true
	if res != "connerr" && !strings.HasPrefix(res, "connerr") {
		for _, n := range []int{9, 20, 40, 60, 90, 150, 300, 700, 3000, 700, 150, 40, 9} {
			cc.SetDeadline(time.Now().Add(2 * time.Second))
			if _, err := cl.Forward(append([]byte{200}, bytes.Repeat([]byte{0x5A}, n)...)); err != nil {
				break
			}
		}
	}
	cc.Close()
	select {
	case <-done:
	case <-time.After(2 * time.Second):
		return []string{"hang"}
	}
	if served != "" {
		return []string{"crash", hx.HexS(served)}
	}
	var lg []string
	for _, l := range ag.log {
		lg = append(lg, hx.HexS(l))
	}
	return []string{"[" + strings.Join(lg, "|") + "]", res, ag.late()}
}

type rawKey []byte

func (r rawKey) Type() string                        { return "raw" }
func (r rawKey) Marshal() []byte                     { return r }
func (r rawKey) Verify([]byte, *ssh.Signature) error { return nil }

func genRPC(g *hx.Gen, out *hx.Out) {
	n := 0
	emit := func(op string, p ...string) {
		id := fmt.Sprintf("rpc%d", n)
		n++
		args := append([]string{op}, p...)
		out.Case(id, "rpc", args, safe(runRPC, args))
	}
	keys := rpcKeys()
	key := keys[0]
	// add-hardware-certificate in the old wire format, for a key and a certificate of every type
	for i, k := range keys {
		_, pemBytes := fixedCert()
		emit("addhardold", hx.Hex(k), "1", "0", hx.StrList([]string{"9a"}), hx.HexS(""), hx.Hex(k), hx.Hex(pemBytes))
		// … and after a request in the current format on the same connection: nothing of the earlier
		// request (its comment) may reach the served agent with the later one
		emit("addhardseq", hx.Hex(k), hx.HexS([]string{"9a", "yk", "fail:boom", "é", ""}[i%5]), hx.StrList([]string{"9a"}), hx.HexS(""), hx.Hex(k), hx.Hex(pemBytes))
	}
	slotFamilies := []struct {
		tag   string
		slots []string
	}{{"ok", []string{}}, {"ok", []string{"9a"}}, {"ok", []string{"9a", "9c", "9d", "9e", "82"}}, {"ok", []string{"é", "x y"}},
		{"comma", []string{"9a,9c"}}, {"comma", []string{"a", ",", "b"}}, {"empty", []string{""}}, {"empty", []string{"9a", "", "9c"}}, {"empty", []string{"", ""}}}
	errTexts := []string{"", "", "pivtool failed", "é", "SUCCESS"}
	for i := 0; i < *hx.Count; i++ {
		sf := slotFamilies[g.Intn(len(slotFamilies))]
		et := errTexts[g.Intn(len(errTexts))]
		key = keys[g.Intn(len(keys))] // keys of every type, and certificates over them
		_, pemBytes := fixedCert()
		setup := []string{hx.StrList(sf.slots), hx.HexS(et), hx.Hex(key), hx.Hex(pemBytes)}
		switch g.Intn(16) {
		case 0:
			comment := g.Pick([]string{"", "yk", "fail:boom", "fail:", "fail:SUCCESS", "fail:é", "é", "fail:SUCCESS ", "SUCCESS"})
			blob := key
			pk := "1"
			if g.Intn(4) == 0 {
				blob = g.Bytes(1 + g.Intn(30))
				pk = "0"
			}
			emit("addhard", append([]string{hx.Hex(blob), hx.HexS(comment), pk}, setup...)...)
			// the same certificate in the old wire format (code 31 and the bare key blob)
			if pk == "1" || g.Bool() {
				pk2 := "0"
				var msg struct {
					KeyBlob []byte `sshtype:"31"`
					Comment string
				}
				if ssh.Unmarshal(append([]byte{31}, blob...), &msg) == nil {
					if _, err := ssh.ParsePublicKey(msg.KeyBlob); err == nil {
						pk2 = "1"
					}
				}
				emit("addhardold", append([]string{hx.Hex(blob), pk, pk2}, setup...)...)
			}
		case 1, 2:
			emit("listslots", append([]string{sf.tag}, setup...)...)
		case 3:
			emit("readslot", append([]string{hx.HexS(g.Pick([]string{"9a", "9c", "bad", "", "zz", "9a,9c", "é"}))}, setup...)...)
		case 4:
			emit("attestslot", append([]string{hx.HexS(g.Pick([]string{"9a", "9c", "bad", "", "f9"}))}, setup...)...)
		case 5:
			emit("wait", append([]string{strconv.Itoa([]int{0, 11, 13, 35, 39, 40, 238, 255}[g.Intn(8)])}, setup...)...)
		case 6:
			req := append([]byte{[]byte{20, 21, 26, 27, 200, 254, 0, 255, 40}[g.Intn(9)]}, g.Bytes(g.Intn(20))...)
			if g.Intn(3) == 0 {
				// scripted reply bytes: every agent status byte alone and with a body, empty, long
				reply := [][]byte{{5}, {6}, {}, {5, 0, 0, 0, 0}, {12, 0, 0, 0, 0}, {28}, {0}, {255}, {30, 5}, g.Bytes(g.Intn(40))}[g.Intn(10)]
				req = append([]byte{0xFD}, reply...)
			}
			emit("forward", append([]string{hx.Hex(req)}, setup...)...)
		case 7, 8:
			n := []int{0, 1, 32, 1000, 65536}[g.Intn(5)]
			d := g.Bytes(n)
			if g.Intn(6) == 0 && n > 0 {
				d[0] = 0xFE
			}
			emit("sign", append([]string{hx.Hex(d), strconv.Itoa([]int{0, 2, 4}[g.Intn(3)])}, setup...)...)
		case 14, 15:
			// smartcard keys: reader ids whose first letter scripts the agent's reply (success, failure, empty
			// reply, lost connection, success with trailing bytes, anything else), PINs incl. empty and binary,
			// lifetimes of 0, below a second, whole and fractional seconds, the largest 32-bit count; confirm on / off
			id := g.Pick([]string{"S", "Sreader", "F", "Fail reader", "E", "X", "Lreader", "", "other", "é", "S" + strings.Repeat("r", 300)})
			pin := [][]byte{[]byte("123456"), {}, {0}, g.Bytes(8), []byte(strings.Repeat("9", 64))}[g.Intn(5)]
			if g.Bool() {
				lt := []int64{0, 1, 500000000, 1000000000, 1500000000, 60000000000, 3600000000000, 4294967295000000000}[g.Intn(8)]
				emit("scadd", append([]string{hx.HexS(id), hx.Hex(pin), strconv.FormatInt(lt, 10), hx.B01(g.Bool())}, setup...)...)
			} else {
				emit("scremove", append([]string{hx.HexS(id), hx.Hex(pin)}, setup...)...)
			}
		case 9:
			emit("add", append([]string{hx.HexS(g.Pick([]string{"c", "", "fail", "é comment", "日本"})), strconv.Itoa([]int{0, 60, 3600}[g.Intn(3)]), hx.B01(g.Bool())}, setup...)...)
		case 10:
			emit(g.Pick([]string{"remove", "removeall", "list"}), setup...)
		default:
			emit(g.Pick([]string{"lock", "unlock"}), append([]string{hx.HexS(g.Pick([]string{"pw", "", "fail", "é"}))}, setup...)...)
		}
	}
}

// ---------------------------------------------------------------- slots: (*server).ListSlots with a fake PIV tool

var toolDir string

// slots args: tool output hex, exit code, mode (local|remote)
// output: ok [slots] | err
func runSlots(args []string) []string {
	if toolDir == "" {
		d, err := os.MkdirTemp("", "veriftool")
		if err != nil {
			panic(err)
		}
		toolDir = d
		tmpDirs = append(tmpDirs, d)
		os.Setenv("PATH", d+":"+os.Getenv("PATH"))
	}
	outFile := filepath.Join(toolDir, "out.bin")
	os.WriteFile(outFile, hx.UnHex(args[0]), 0o600)
	script := fmt.Sprintf("#!/bin/sh\ncat %s\nexit %s\n", outFile, args[1])
	os.WriteFile(filepath.Join(toolDir, "yubico-piv-tool"), []byte(script), 0o755)
	if _, err := exec.LookPath("yubico-piv-tool"); err != nil {
		panic(err)
	}
	// an address that connection.GetConn can dial: a throw-away unix listener
	sock := filepath.Join(toolDir, "agent.sock")
	os.Remove(sock)
	l, err := net.Listen("unix", sock)
	if err != nil {
		panic(err)
	}
	defer l.Close()
	srv, err := yubiagent.NewServer(sock, args[2] == "remote")
	if err != nil {
		return []string{"err-newserver"}
	}
	defer srv.Close()
	slots, err := srv.ListSlots()
	if err != nil {
		return []string{"err"}
	}
	if slots == nil {
		slots = []string{}
	}
	return []string{"ok", hx.StrList(slots)}
}

// slotop args: read|attest, tool output kind (cert|empty|garbage|two), exit code, mode (local|remote), slot hex, DER hex of the certificate
// output: "ok <DER hex>" | "err", then what the PIV tool was called with ("-" if it was not called)
func runSlotOp(args []string) []string {
	if toolDir == "" {
		d, err := os.MkdirTemp("", "veriftool")
		if err != nil {
			panic(err)
		}
		toolDir = d
		tmpDirs = append(tmpDirs, d)
		os.Setenv("PATH", d+":"+os.Getenv("PATH"))
	}
	_, pemBytes := fixedCert()
	var text []byte
	switch args[1] {
	case "cert":
		text = pemBytes
	case "two":
		text = append(append([]byte{}, pemBytes...), pemBytes...)
	case "garbage":
		text = []byte("-----BEGIN CERTIFICATE-----\nnot base64 at all\n-----END CERTIFICATE-----\n")
	}
	outFile := filepath.Join(toolDir, "out.bin")
	argFile := filepath.Join(toolDir, "args.txt")
	os.Remove(argFile)
	os.WriteFile(outFile, text, 0o600)
	script := fmt.Sprintf("#!/bin/sh\nprintf '%%s\\n' \"$@\" > %s\ncat %s\nexit %s\n", argFile, outFile, args[2])
	os.WriteFile(filepath.Join(toolDir, "yubico-piv-tool"), []byte(script), 0o755)
	sock := filepath.Join(toolDir, "agent.sock")
	os.Remove(sock)
	l, err := net.Listen("unix", sock)
	if err != nil {
		panic(err)
	}
	defer l.Close()
	srv, err := yubiagent.NewServer(sock, args[3] == "remote")
	if err != nil {
		return []string{"err-newserver", "-"}
	}
	defer srv.Close()
	fn := srv.ReadSlot
	if args[0] == "attest" {
		fn = srv.AttestSlot
	}
	c, err := fn(string(hx.UnHex(args[4])))
	res := "err"
	if err == nil && c != nil {
		res = "ok " + hx.Hex(c.Raw)
	} else if err == nil {
		res = "nil-nil"
	}
	seen := "-"
	if b, err := os.ReadFile(argFile); err == nil {
		seen = hx.Hex(b)
	}
	return []string{res, seen}
}

func genSlotOps(g *hx.Gen, out *hx.Out) {
	n := 0
	c, _ := fixedCert()
	for _, kind := range []string{"read", "attest"} {
		for _, mode := range []string{"local", "remote"} {
			for _, text := range []string{"cert", "empty", "garbage"} {
				for _, exit := range []string{"0", "1"} {
					for _, slot := range []string{"9a", "f9", "", "x y"} {
						args := []string{kind, text, exit, mode, hx.HexS(slot), hx.Hex(c.Raw)}
						out.Case(fmt.Sprintf("so%d", n), "slotop", args, safe(runSlotOp, args))
						n++
					}
				}
			}
		}
	}
}

func genSlots(g *hx.Gen, out *hx.Out) {
	genSlotOps(g, out)
	n := 0
	emit := func(text string, exit int, mode string) {
		id := fmt.Sprintf("sl%d", n)
		n++
		args := []string{hx.HexS(text), strconv.Itoa(exit), mode}
		out.Case(id, "slots", args, safe(runSlots, args))
	}
	full := "Version:\t5.2.7\nSerial Number:\t1234567\nCHUID:\t3019d4e739da739ced39ce739d836858210842108421c84210c3eb3410\nCCC:\tNo data available\nSlot 9a:\t\n\tAlgorithm:\tRSA2048\n\tSubject DN:\tCN=a\nSlot 9c:\t\n\tAlgorithm:\tECCP256\nSlot 9d:\t\nSlot 9e:\t\nPIN tries left:\t3\n"
	texts := []string{full, "", "\n", "Slot 9a:\n", "Slot 9a", "Slot 9", "Slot ", "Slot", "Slo", "Slot 9\nSlot 9c:\n", "  Slot 9a:\n", "Slot9a:xx\n", "SlotXYZ\n", "slot 9a:\n",
		"Slot 9a:\r\nSlot 9c:\r\n", "Slot 9\r\n", "Slot 9\r\nSlot 9c:\r\n", "Slot 9a\r", "Slot 9a:\n" + strings.Repeat("x", 70000) + "\nSlot 9c:\nSlot 9e:\n", "Slot 9a:\n\tSubject DN:\t" + strings.Repeat("CN=a,", 14000) + "\nSlot 9c:\n", strings.Repeat("Slot 9a:\n", 3000), "Slot 82:\nSlot f9:\n", "Slot é:\n", "Slot 9a:", "Slots 9a\n", "Slot \t\n", "Slot 9a:\n\nSlot\n\nSlot 9e:\n"}
	for _, t := range texts {
		emit(t, 0, "local")
	}
	emit(full, 1, "local")
	emit("", 2, "local")
	emit(full, 0, "remote")
	emit("", 0, "remote")
	for i := 0; i < *hx.Count/20; i++ {
		var b strings.Builder
		k := g.Intn(6)
		for j := 0; j < k; j++ {
			switch g.Intn(5) {
			case 0:
				b.WriteString("Slot " + g.Pick([]string{"9a", "9c", "9d", "9e", "82", "f9"}) + ":\t\n")
			case 1:
				b.WriteString(g.Pick([]string{"Slot 9", "Slot", "Slot ", "Slo", "Slot 9a"}) + "\n")
			case 2:
				b.WriteString("\tAlgorithm:\t" + g.Name() + "\n")
			case 3:
				b.WriteString(g.Str() + "\n")
			default:
				b.WriteString("Slot " + g.Str())
			}
		}
		emit(b.String(), 0, "local")
	}
}

var rpcKeyBlobs [][]byte

// rpcKeys: public-key blobs of every type the agent protocol carries here — Ed25519 (the fixed
// one first), ECDSA P-256 / P-384, RSA-2048, and certificates over an Ed25519 and an RSA key
func rpcKeys() [][]byte {
	if rpcKeyBlobs != nil {
		return rpcKeyBlobs
	}
	out := [][]byte{fixedKey().Marshal()}
	_, caPriv, _ := ed25519.GenerateKey(rand.Reader)
	ca, _ := ssh.NewSignerFromKey(caPriv)
	add := func(pub interface{}) ssh.PublicKey {
		k, err := ssh.NewPublicKey(pub)
		if err != nil {
			panic(err)
		}
		out = append(out, k.Marshal())
		return k
	}
	p256, _ := ecdsa.GenerateKey(elliptic.P256(), rand.Reader)
	p384, _ := ecdsa.GenerateKey(elliptic.P384(), rand.Reader)
	rk, _ := rsa.GenerateKey(rand.Reader, 2048)
	add(&p256.PublicKey)
	add(&p384.PublicKey)
	rpub := add(&rk.PublicKey)
	for _, k := range []ssh.PublicKey{fixedKey(), rpub} {
		c := &ssh.Certificate{Key: k, Serial: 5, CertType: ssh.UserCert, KeyId: "rpc", ValidPrincipals: []string{"alice", "é"},
			ValidBefore: ssh.CertTimeInfinity, Permissions: ssh.Permissions{CriticalOptions: map[string]string{"force-command": "x"}, Extensions: map[string]string{"permit-pty": ""}}}
		if err := c.SignCert(rand.Reader, ca); err != nil {
			panic(err)
		}
		out = append(out, c.Marshal())
	}
	rpcKeyBlobs = out
	return out
}
