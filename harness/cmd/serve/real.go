package main

// servereal: byte streams against the real agent (yubiagent server over a real shim over a
// harness keyring) — only "does serving survive it" is judged here; the answers are judged with the
// scripted agent in `serve`.

import (
	"bytes"
	"fmt"
	"net"
	"os"
	"path/filepath"
	"sync"
	"time"

	"github.com/theparanoids/ysshra/agent/yubiagent"
	"github.com/theparanoids/ysshra/internal/verifharness/hx"
	sshagent "golang.org/x/crypto/ssh/agent"
)

var (
	realOnce sync.Once
	realSock string
)

// tmpDirs: directories of this process (sockets, the fake PIV tool), removed when it ends
var tmpDirs []string

func realUnderlying() string {
	realOnce.Do(func() {
		d, err := os.MkdirTemp("", "verifserve")
		if err != nil {
			panic(err)
		}
		tmpDirs = append(tmpDirs, d)
		realSock = filepath.Join(d, "a.sock")
		l, err := net.Listen("unix", realSock)
		if err != nil {
			panic(err)
		}
		ring := sshagent.NewKeyring()
		go func() {
			for {
				c, err := l.Accept()
				if err != nil {
					return
				}
				go func() { sshagent.ServeAgent(ring, c); c.Close() }()
			}
		}()
	})
	return realSock
}

func init() { ops["servereal"] = runServeReal }

// servereal args: stream hex. Output: ok | crash <what>
func runServeReal(args []string) []string {
	stream := hx.UnHex(args[0])
	y, err := yubiagent.NewServer(realUnderlying(), true)
	if err != nil {
		panic(err)
	}
	res := make(chan string, 1)
	go func() {
		defer func() {
			if r := recover(); r != nil {
				res <- "crash " + hx.HexS(fmt.Sprint(r))
			}
		}()
		yubiagent.ServeAgent(y, &rw{in: bytes.NewReader(stream)})
		res <- "ok"
	}()
	select {
	case r := <-res:
		go y.Close()
		if r == "ok" {
			return []string{"ok"}
		}
		return []string{"crash", r[6:]}
	case <-time.After(400 * time.Millisecond):
		// blocked in a wait for a code nobody will send: a legitimate state, left behind
		return []string{"ok"}
	}
}

func genServeReal(g *hx.Gen, out *hx.Out) {
	n := 0
	emit := func(stream []byte) {
		id := fmt.Sprintf("sr%d", n)
		n++
		args := []string{hx.Hex(stream)}
		out.Case(id, "servereal", args, safe(runServeReal, args))
	}
	// every message code alone, with one more byte, and as the operand of a wait request
	for c := 0; c < 256; c++ {
		emit(frame([]byte{byte(c)}))
		emit(frame([]byte{byte(c), byte(c)}))
		if c >= 40 { // waits on table codes would block; the others must return at once
			emit(frame([]byte{35, byte(c)}))
		}
	}
	emit(frame([]byte{35}))
	for i := 0; i < *hx.Count/20; i++ {
		var s []byte
		for j := 1 + g.Intn(3); j > 0; j-- {
			b := genBody(g)
			if len(b) > 1 && b[0] == 35 && b[1] < 40 {
				b[1] += 40
			}
			s = append(s, frame(b)...)
		}
		emit(s)
	}
}
