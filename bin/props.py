"""Per-property configuration for bin/check."""

JSON_TB = ["encoding/json's lexer (bytes → tokens, UTF-8 repair, escapes): the harness sends Go's token tree; "
           "json.Unmarshal's struct-decoding rules are modelled in Ysshra.Model.Json and validated only by correspondence"]

PROPS = {
 'C05': dict(
    group='codec', only=['keyid'], ops=['keyid.rt', 'keyid.dec'],
    modules=['Ysshra.Props.C05', 'Ysshra.Bridge.KeyId'],
    theorem_files=['Props/C05.lean', 'Bridge/KeyId.lean'],
    anchors=['keyid/'],
    n=dict(quick=3000, thorough=150000),
    trivial=lambda c: (c['op'] == 'keyid.dec' and c['args'][0] == '!') ,
    rule='keyid.rt: the full grid 16 flag sets x 9 touch policies x 4 usages with random versions/strings/principals; '
         'keyid.dec: valid encodings, single-member deletions / case renames / duplicates / retypes, other JSON values, damaged and random bytes. '
         'A case is non-trivial when its input is valid JSON (decoder reaches the struct rules) or it is an encode case; distinct = distinct argument fields.',
    trusted_base=JSON_TB,
    assumptions=['KeyID strings are valid UTF-8 (the property quantifies over UTF-8 strings)',
                 'a duplicated `prins` member whose later array contains null elements is not modelled (Go reuses the earlier slice elements)'],
 ),
 'C19': dict(
    group='codec', only=['certtype'], ops=['certtype'],
    modules=['Ysshra.Props.C19', 'Ysshra.Bridge.CertType', 'Ysshra.Bridge.KeyId'],
    theorem_files=['Props/C19.lean', 'Bridge/CertType.lean'],
    anchors=['sshutils/cert/', 'keyid/'],
    n=dict(quick=2000, thorough=40000),
    trivial=lambda c: False,
    exhaustive=True,
    rule='exhaustive grid: 16 flag sets x touch in {-1,0,1,2,3,4,2^31} x critical option in {nil map, empty map, empty value, set, other key} '
         '(KeyIDs serialised without the sanity check so inconsistent ones reach GetType), nil certificate, principal lists of length 0..3, '
         'plus near-miss and non-JSON KeyIDs; every case is non-trivial; distinct = distinct argument fields.',
    trusted_base=JSON_TB,
    assumptions=['GetPrincipals: a nil result and an empty result are identified'],
 ),
 'C14': dict(
    group='codec', only=['param', 'msg.dec'], ops=['param.new', 'msg.dec'],
    modules=['Ysshra.Props.C14', 'Ysshra.Props.C15'],
    theorem_files=['Props/C14.lean'],
    anchors=['csr/', 'message/', 'sshutils/version', 'common/'],
    n=dict(quick=1500, thorough=60000),
    trivial=lambda c: (c['model'] or ['?'])[0] == 'err' and c['op'] == 'param.new' and c['args'][0] == '!' and False,
    rule='param.new: original-command texts (JSON objects complete / incomplete / retyped, other JSON values incl. null, legacy k=v texts, '
         'encoder outputs, empty, random bytes) x LOGNAME x SSH_CONNECTION families x argument vectors of 0..8 arguments with embedded spaces; '
         'half of the cases use a fully valid environment so the message decoder decides. Non-trivial = every case (each reaches at least the message decoder); distinct = distinct argument fields.',
    trusted_base=JSON_TB + ['net.ParseIP is an oracle (its verdict on the first field travels on the case line)', 'crypto/rand: the transaction id is checked for shape and distinctness only'],
    assumptions=['message.Unmarshal as repaired by the fix for finding F1'],
 ),
 'C15': dict(
    group='codec', only=['msg'], ops=['msg.enc', 'msg.dec'],
    modules=['Ysshra.Props.C15'],
    theorem_files=['Props/C15.lean'],
    anchors=['message/'],
    n=dict(quick=2500, thorough=100000),
    trivial=lambda c: False,
    rule='msg.enc: attribute sets over all boolean combinations, interface versions {0,5,6,7,8,-1,100}, algorithm numbers, touchless-sudo absent/partial/full, '
         'nested extension maps (integer numbers), strings with spaces, @, =, non-ASCII; each output is decoded again. msg.dec: legacy texts (repeated keys, empty values, '
         '= inside values, stray and Unicode spaces), JSON texts (null, other values, duplicates, retyped members, case-folded names), damaged encoder outputs, random bytes. '
         'Every case is non-trivial; distinct = distinct argument fields.',
    trusted_base=JSON_TB,
    assumptions=['extension-map numbers are compared by kind only (float formatting is Go-to-Go)', 'message.Unmarshal as repaired by the fix for finding F1'],
 ),
}

NOT_APPLICABLE = {}

_NOTE = ('Trusted: Lean 4.33 kernel (axioms propext, Classical.choice, Quot.sound only; audited per theorem on every run), '
         'the go/ast translator /verif/extract, the overlay harness + Lean driver + bin/check; ')

MANIFEST_TEXT = {
 'C05': dict(
    text='Lean theorems for every KeyID value and every JSON token tree: Marshal succeeds iff version 1 and consistent; Unmarshal(Marshal k) = k; '
         'Unmarshal returns only version-1, consistent KeyIDs whose text had all eleven required members. Tables, tags and both sanity checkers are '
         'regenerated from keyid.go each run and proved equal to the specification constants; the hand-written decoder model is tied by differential runs against keyid.Marshal/Unmarshal.',
    design_ref='DESIGN.md §7 C05, §6.1',
    note=_NOTE + "encoding/json's lexer is trusted (token trees come from Go); its struct-decoding rules are modelled and correspondence-tested, not verified.",
    technique='Lean 4 proof (round-trip + decision logic) over regenerated tables, plus model/implementation correspondence'),
 'C19': dict(
    text='Lean theorems: the regenerated GetType cascade equals the decision table of the statement for every certificate (all touch-policy integers), depends only on the five named inputs, '
         'nonce/firefighter precedence, unknown-iff, label and principal-suffix rules; exhaustive correspondence over the finite attribute grid against GetType/Label/GetPrincipals.',
    design_ref='DESIGN.md §7 C19',
    note=_NOTE + 'KeyID decoding as in C05.',
    technique='Lean 4 proof over the translated switch cascade, exhaustive correspondence on the attribute grid'),
 'C14': dict(
    text='Lean theorems for every original-command token tree / byte string, LOGNAME, SSH_CONNECTION and argument vector: NewReqParam never crashes, and a success returns the '
         'server-side login name, the valid first field of the connection string, a policy in {NONS,NSOK} taken from the second-last of 3..6 tokens, the declared major.minor '
         '(0.0 when a legacy message omits it), a 10-hex-digit transaction id, and the client claims only in their own fields. Tied by differential runs against csr.NewReqParam.',
    design_ref='DESIGN.md §7 C14',
    note=_NOTE + 'net.ParseIP and crypto/rand are oracles; JSON lexer as in C05.',
    technique='Lean 4 proof (decision logic / totality) + model/implementation correspondence'),
 'C15': dict(
    text='Lean theorems: Marshal refuses exactly the attribute sets with an empty required field; JSON format: Unmarshal(Marshal a) = populate a for every attribute set with machine integers '
         'and a duplicate-free extension map (all omitempty combinations); a text that decodes as a JSON attribute object is decided by the JSON branch alone; no crash. '
         'The legacy round trip is checked by the specification predicate on the implementation (theorem pending). Differential runs against message.Marshal/Unmarshal.',
    design_ref='DESIGN.md §7 C15',
    note=_NOTE + 'JSON lexer as in C05; float formatting of extension values is not modelled.',
    technique='Lean 4 proof (round-trip) + model/implementation correspondence'),
}
