"""Per-property configuration for bin/check."""

JSON_TB = ["encoding/json's lexer (bytes → tokens, UTF-8 repair, escapes): the harness sends Go's token tree; "
           "json.Unmarshal's struct-decoding rules are modelled in Ysshra.Model.Json and validated only by correspondence"]

PROPS = {
 'C05': dict(
    group='codec', only=['keyid'], ops=['keyid.rt', 'keyid.dec'],
    modules=['Ysshra.Props.C05', 'Ysshra.Bridge.KeyId', 'Ysshra.Bridge.SnapKeyId'],
    theorem_files=['Props/C05.lean', 'Bridge/KeyId.lean', 'Bridge/SnapKeyId.lean'],
    anchors=['keyid/'],
    n=dict(quick=3000, thorough=150000),
    trivial=lambda c: (c['op'] == 'keyid.dec' and c['args'][0] == '!') ,
    rule='keyid.rt: the full grid 16 flag sets x 9 touch policies x 4 usages with random versions/strings/principals; '
         'keyid.dec: valid encodings, single-member deletions / case renames / duplicates / retypes, other JSON values, damaged and random bytes. '
         'A case is non-trivial when its input is valid JSON (decoder reaches the struct rules) or it is an encode case; distinct = distinct argument fields.'
         ' Every member is also duplicated systematically (exact and case-variant name, before and after the original, another value of the same JSON kind); strings include text that looks like escape sequences.'
         ' Touch policies and usages include wrap-around twins (values equal to a meaningful one modulo 2^4, 2^8, 2^16, 2^32).',
    trusted_base=JSON_TB,
    assumptions=['KeyID strings are valid UTF-8 (the property quantifies over UTF-8 strings)',
                 'a duplicated `prins` member whose later array contains null elements is not modelled (Go reuses the earlier slice elements)'],
 ),
 'C19': dict(
    group='codec', only=['certtype'], ops=['certtype'],
    modules=['Ysshra.Props.C19', 'Ysshra.Bridge.CertType', 'Ysshra.Bridge.KeyId', 'Ysshra.Bridge.SnapKeyId'],
    theorem_files=['Props/C19.lean', 'Bridge/CertType.lean', 'Bridge/SnapKeyId.lean'],
    anchors=['sshutils/cert/', 'keyid/'],
    n=dict(quick=2000, thorough=40000),
    trivial=lambda c: False,
    exhaustive=True,
    rule='exhaustive grid: 16 flag sets x touch in {-1,0,1,2,3,4,2^31} x critical option in {nil map, empty map, empty value, set, other key} '
         '(KeyIDs serialised without the sanity check so inconsistent ones reach GetType), nil certificate, principal lists of length 0..3, '
         'plus near-miss and non-JSON KeyIDs; every case is non-trivial; distinct = distinct argument fields.'
         ' Each case classifies twice: in between the harness decodes the KeyID itself and changes every field of the value it got (classification-depends-on-history).'
         ' Touch policies include 17..19, 257..259, 65537, 2^32+1..3, -15..-13.',
    trusted_base=JSON_TB,
    assumptions=['GetPrincipals: a nil result and an empty result are identified'],
 ),
 'C14': dict(
    group='codec', only=['param', 'msg.dec'], ops=['param.new', 'msg.dec'],
    modules=['Ysshra.Props.C14', 'Ysshra.Props.C15', 'Ysshra.Bridge.SnapParam', 'Ysshra.Bridge.SnapMessage', 'Ysshra.Bridge.Message', 'Ysshra.Bridge.Param'],
    theorem_files=['Props/C14.lean', 'Bridge/SnapParam.lean', 'Bridge/SnapMessage.lean', 'Bridge/Param.lean'],
    anchors=['csr/', 'message/', 'sshutils/version', 'common/'],
    n=dict(quick=1500, thorough=60000),
    trivial=lambda c: (c['model'] or ['?'])[0] == 'err' and c['op'] == 'param.new' and c['args'][0] == '!' and False,
    rule='param.new: original-command texts (JSON objects complete / incomplete / retyped, other JSON values incl. null, legacy k=v texts, '
         'encoder outputs, empty, random bytes) x LOGNAME x SSH_CONNECTION families x argument vectors of 0..8 arguments with embedded spaces; '
         'half of the cases use a fully valid environment so the message decoder decides. Non-trivial = every case (each reaches at least the message decoder); distinct = distinct argument fields.',
    trusted_base=JSON_TB + ['net.ParseIP is an oracle (its verdict on the first field travels on the case line)', 'crypto/rand: the transaction id is checked for shape and distinctness only'],
    assumptions=['message.Unmarshal as repaired by the fix for finding F1'],
 ),
 'C15': dict(
    group='codec', only=['msg'], ops=['msg.enc', 'msg.dec'],
    modules=['Ysshra.Props.C15', 'Ysshra.Bridge.SnapMessage', 'Ysshra.Bridge.Message'],
    theorem_files=['Props/C15.lean', 'Bridge/SnapMessage.lean', 'Bridge/Message.lean'],
    anchors=['message/'],
    n=dict(quick=2500, thorough=100000),
    trivial=lambda c: False,
    rule='msg.enc: attribute sets over all boolean combinations, interface versions {0,5,6,7,8,-1,100}, algorithm numbers, touchless-sudo absent/partial/full, '
         'nested extension maps (integer numbers), strings with spaces, @, =, non-ASCII; each output is decoded again. msg.dec: legacy texts (repeated keys, empty values, '
         '= inside values, stray and Unicode spaces), JSON texts (null, other values, duplicates, retyped members, case-folded names), damaged encoder outputs, random bytes. '
         'Every case is non-trivial; distinct = distinct argument fields.'
         ' Cross-format texts: JSON attribute objects, complete or lacking / emptying required members, whose strings contain legacy-format tokens.'
         ' Interface versions, algorithm numbers and touchless-sudo times include wrap-around twins and the 32- / 64-bit limits.',
    trusted_base=JSON_TB,
    assumptions=['extension-map numbers are compared by kind only (float formatting is Go-to-Go)', 'message.Unmarshal as repaired by the fix for finding F1'],
 ),
 'C06': dict(
    group='attest', only=['attest'], ops=['attest'],
    modules=['Ysshra.Props.C06', 'Ysshra.Bridge.Attest', 'Ysshra.Bridge.SnapAttest'],
    theorem_files=['Props/C06.lean', 'Bridge/Attest.lean', 'Bridge/SnapAttest.lean'],
    anchors=['attestation/yubiattest/signature.go', 'attestation/yubiattest/attest.go'],
    n=dict(quick=1200, thorough=12000),
    timeout=dict(quick=600, thorough=3000),
    trivial=lambda c: c['args'][5] == '0' or c['args'][4] in ('ecdsa', 'ed25519'),
    rule='RSA device keys (1024/2048 quick; 1024..4096 thorough) generated per run, plus moduli of tLen-11, tLen-10, tLen+9 .. tLen+12 bytes around the shortest one that holds a full-length message for SHA-256 / 384 / 512; the harness owns the private key and signs arbitrary encoded messages: '
         'canonical (both encodings x 4 hashes x every label), every structural byte position and a sample of padding positions replaced by 00/01/ff/bit-flip, '
         'shifted / truncated padding, wrong-hash and MD5 identifiers, all labels 0..17, bit flips of signature and body, other signature lengths, '
         'non-RSA keys, device certificate issued by root / other CA / self-signed / expired / not yet valid. '
         'Non-trivial = chain verifies and key is RSA (the PKCS#1 comparison is reached); distinct = distinct argument fields.'
         ' One Attestor serves the whole run (as in the RA); device certificates include one that repeats the genuine issuer name and serial under a forged issuer.'
         ' Modulus sizes include ones that are not a multiple of 8 bits (1031; thorough 1025 / 1033 / 2047 / 2049); the genuine signature followed by extra bytes and the genuine value plus the modulus.',
    trusted_base=['crypto/x509 chain building (oracle: the harness runs the same Verify call and sends its verdict)', 'SHA-1/256/384/512 digests of the body are oracles carried on the line',
                  'math/big modular exponentiation is modelled by square-and-multiply on Nat'],
    assumptions=['RSA / SHA hardness is not part of the theorem: it states which encoded messages are accepted'],
 ),
 'C16': dict(
    group='attest', only=['modhex', 'pem', 'certparse'], ops=['modhex', 'pem', 'certparse'],
    modules=['Ysshra.Props.C16', 'Ysshra.Bridge.Attest', 'Ysshra.Bridge.SnapParse'],
    theorem_files=['Props/C16.lean', 'Bridge/SnapParse.lean'],
    anchors=['attestation/yubiattest/modhex.go', 'attestation/yubiattest/attest.go', 'agent/utils/'],
    n=dict(quick=600, thorough=8000),
    timeout=dict(quick=600, thorough=3000),
    compare=lambda c: None if c['op'] == 'certparse' else (c['model'] == c['impl']),
    trivial=lambda c: c['op'] == 'certparse' and c['args'][0] == 'mutated' and 'yubi=err' in (c['impl'] or []),
    rule='modhex: every serial-extension value length 0..8, last-extension-wins lists, missing extension; pem: bundles of 0..5 certificates with leading text, text between blocks, '
         'blocks of other PEM types, unparsable blocks, trailing white space / garbage; certparse: certificates from x509.CreateCertificate over RSA-2048 / P-256 / P-384 / P-521 subject and issuer keys, '
         'SHA-1/256/384/512 signatures, basic constraints, key usage, key ids, alternative names, extended usages, policies and three vendor extensions; each also with the key-algorithm NULL removed, '
         'with trailing data, and with 6 byte-level mutations / truncations; random bytes. Non-trivial = not a rejected mutation; distinct = distinct argument fields.'
         ' A quarter of the generated certificates carry no extensions field.',
    trusted_base=['crypto/x509.ParseCertificate is the reference for the field-agreement clause (differential, not a theorem)', 'encoding/pem block finding and encoding/asn1 are oracles'],
    assumptions=['the DER decoder itself is not modelled in Lean; theorems cover ModHex and PEM bundle ordering'],
 ),
 'C12': dict(
    group='serve', only=['serve'], ops=['serve', 'servereal'],
    klass=lambda c: ('servereal:' + (c['impl'] or ['?'])[0]) if c['op'] == 'servereal' else 'serve:' + (c['model'] or ['?'])[0] + ':frames' + str(min(4, c['args'][1].count('|') + (0 if c['args'][1] == '[]' else 1))),
    modules=['Ysshra.Props.C12', 'Ysshra.Bridge.Wire', 'Ysshra.Bridge.SnapYubi'],
    theorem_files=['Props/C12.lean', 'Bridge/Wire.lean', 'Bridge/SnapYubi.lean'],
    anchors=['agent/yubiagent/'],
    n=dict(quick=3000, thorough=120000),
    trivial=lambda c: c['op'] == 'serve' and c['args'][1] == '[]',
    rule='byte streams: frames of length 0 and 1 for every code 0..255, truncated headers and bodies, declared lengths 1 .. 2^32-1 (incl. 16 MiB and 16 MiB+1), '
         'concatenations of 1..4 grammar-derived frames (both add-hardware-certificate encodings with valid / invalid / trailing data, slot names, wait codes, '
         'list / sign / add / constrained add with truncated constraints / remove / lock / unlock, unknown and raw-forwarded codes, random bodies) with truncated or random tails. '
         'Non-trivial = the stream contains at least one complete frame; distinct = distinct argument fields.'
         ' Declared lengths around the bound: 16 MiB-1 .. 16 MiB+5, +8, +1024, 17 MiB.'
         ' Operation servereal: every message code alone, with one more byte and as wait operand, and random streams, against the real server over a real shim over a keyring (judged for survival only).',
    trusted_base=['ssh.ParsePublicKey verdicts and the reply of x/crypto\'s standard agent server to each single standard request are oracles computed by the harness with the same library calls',
                  'allocation is observed through runtime.MemStats.TotalAlloc around the call'],
    assumptions=['ServeAgent as repaired for findings F2 (length guards) and F3 (recover around the forwarded standard request)'],
 ),
 'C13': dict(
    group='serve', only=['rpc', 'slots'], ops=['rpc', 'slots', 'slotop', 'trunc', 'garb'],
    klass=lambda c: c['op'] + ':' + (c['args'][0] if c['op'] in ('rpc', 'garb') else c['args'][2]) + ':' + ((c['model'] or ['?', '?'])[-1].split(' ')[0].split(':')[0])[:12],
    modules=['Ysshra.Props.C13', 'Ysshra.Bridge.Wire', 'Ysshra.Bridge.SnapYubi', 'Ysshra.Bridge.SnapParse'],
    theorem_files=['Props/C13.lean', 'Bridge/SnapYubi.lean', 'Bridge/SnapParse.lean'],
    anchors=['agent/yubiagent/'],
    n=dict(quick=1500, thorough=40000),
    timeout=dict(quick=900, thorough=3000),
    trivial=lambda c: False,
    rule='rpc: one client operation per case through NewClientFromConn <-> ServeAgent over a Unix socket pair against a recording scripted agent: add-hardware-certificate (valid / unparsable blobs, comments incl. failure texts), '
         'list-slots (well-formed, comma-containing and empty names x error texts), read/attest-slot (certificate, certificate+error, error, unknown), wait codes, raw forward of uninterpreted codes, '
         'sign (0..64 KiB data, all flags, failing), add (comments, lifetime, confirm), remove, remove-all, list, lock/unlock (passphrases, failing), '
         'add / remove smartcard key (reader ids that script the agent\'s reply: success, failure, empty reply, lost connection, success with trailing bytes, other; PINs incl. empty and binary; lifetimes 0, below a second, fractional, 2^32-1 s; confirm). '
         'garb: a peer that answers with a complete frame that is no response of the expected kind (empty, failure byte, lone success byte, overrunning string length, one string of two, near-miss status texts): every client operation must return an error. '
         'slotop: (*server).ReadSlot / AttestSlot with a fake yubico-piv-tool that records its arguments (certificate / empty / unparsable output x exit 0 / 1 x local / remote mode x slot names incl. empty and with a space): refused in remote mode without running the tool, the tool is called with the action and the slot as given, a non-zero exit is an error, the printed certificate is what the caller gets. '
         'slots: (*server).ListSlots with a fake yubico-piv-tool first on PATH printing well-formed, short, truncated, CRLF, empty output or exiting non-zero; remote mode. Every case is non-trivial; distinct = distinct argument fields.'
         ' After the operation, follow-up raw requests of 13 sizes are sent on the same connection and the arguments the served agent retained are re-read (argument-changed-after-delivery). Raw-forward replies are scriptable (request code 0xFD): every status byte alone and with a body, empty, random.'
         ' Keys of every type: Ed25519, ECDSA P-256 / P-384, RSA-2048 and certificates over an Ed25519 and an RSA key.',
    trusted_base=["x/crypto's agent client and server carry the standard operations; ysshra's part is the one-frame forwarder (modelled as identity, checked by correspondence)",
                  'ssh.ParsePublicKey verdicts are oracles on the case line', 'os/exec and the fake PIV tool'],
    assumptions=['well-formedness required by the wire format is explicit in the theorems; the excluded points are the known findings F11a-c'],
 ),
 'C20': dict(
    group='conc', only=['cond'], ops=['cond'], build_flags=['-race'],
    klass=lambda c: 'cond:events' + str(c['args'][0].count(',') + 1),
    modules=['Ysshra.Props.C20', 'Ysshra.Bridge.Wire', 'Ysshra.Bridge.SnapShim', 'Ysshra.Bridge.SnapYubi', 'Ysshra.Props.C20b'],
    theorem_files=['Props/C20.lean', 'Bridge/Wire.lean', 'Bridge/SnapShim.lean', 'Bridge/SnapYubi.lean', 'Props/C20b.lean'],
    anchors=['agent/shimagent/shimserver.go', 'agent/yubiagent/server.go'],
    n=dict(quick=150, thorough=3000),
    timeout=dict(quick=900, thorough=3400),
    trivial=lambda c: False,
    rule='histories of wait-registrations and requests against the real *shimagent.Server behind yubiagent.ServeAgent (one Unix socket-pair connection per client, harness-served underlying keyring agent): '
         'every code 0..255 with one waiter, a non-matching and the matching request; random histories of 3..10 events with 1..8 waiters on equal and different codes (in and outside the table) and requests of matching / non-matching codes. '
         'Registration is observed through the overlay accessor VerifWaiters (sync.Cond notifyList), not slept for. Every case is non-trivial; distinct = distinct event strings.',
    trusted_base=['sync.Cond implements wait/broadcast (runtime)', 'the overlay accessor shimagent.(*Server).VerifWaiters reads sync.Cond internals by reflection',
                  'a release is attributed to the event after which the client returned within 700 ms (+25 ms settle)'],
    assumptions=['Go scheduler / sync.Cond semantics are not modelled (partial): the theorems are about the wait/broadcast discipline'],
 ),
 'C07': dict(
    group='shim', only=['hist', 'vtime'], ops=['hist', 'vtime'],
    klass=lambda c: 'vtime' if c['op'] == 'vtime' else 'hist:noup' + c['args'][0] + ':ops' + str(min(25, 5 * (c['args'][3].count(';') // 5))) + ('+faults' if '!' in c['args'][3] else ''),
    modules=['Ysshra.Props.C07', 'Ysshra.Bridge.SnapShim', 'Ysshra.Bridge.Validation'],
    theorem_files=['Props/C07.lean', 'Bridge/SnapShim.lean', 'Bridge/Validation.lean'],
    anchors=['agent/shimagent/', 'sshutils/cert/validation.go'],
    n=dict(quick=500, thorough=20000),
    timeout=dict(quick=900, thorough=3400),
    trivial=lambda c: c['op'] == 'hist' and c['args'][3].count(';') < 2,
    rule='vtime: ValidateSSHCertTime itself at one second before / at / after each end of the window, for window ends around 0, 2^31, 2^32, 2^63 and 2^64. '
         'histories of 1..25 operations (list, signers, sign, add, add-hardware-certificate, remove, remove-all, lock/unlock with right / wrong / empty passphrases, and add / remove / remove-all done directly on the underlying keyring) against a real shimagent.Server over a harness-served x/crypto keyring, both upstream modes, 0..4 initial identities; keys Ed25519 / ECDSA P-256 / RSA-2048; certificates signed by a harness CA with validity windows past / current / future / forever / zero / start-above-MaxInt64 / end-near-2^64 / lapsing during the history (the harness sleeps across it), KeyIDs valid YSSHCA of several types, unsupported version, inconsistent flags, missing member, no applicable type, free text, empty; faults per operation: failure reply / malformed reply per request kind, oversized frame, connection closed, failing listing during construction. The Unix time read before each operation and what keyid.Unmarshal / cert.Label say about each certificate travel on the line. Non-trivial = history with at least 3 operations; distinct = distinct argument fields.'
         ' The generator is state-aware: set-up prefixes register hardware certificates for keys really held (sometimes with the same certificate upstream), operations mostly name blobs the history touched before, locked phases last several operations, passphrases include ones longer than 64 bytes sharing a long prefix. A disagreement with the state machine is attributed to C07 / C08 / C09 / C10 by what differs at the first differing operation (Drv/Shim.classify).'
         ' Validity windows also next to 2^31, 2^32 and 2^63; KeyID kinds next to the consistency rules (headless / nonce with touch policy 0, -1, 17; touch policy 4, 258); passphrase lengths on and next to powers of two up to 65536; raw-forward requests (code 200, echoed by the test agent) with body sizes on and next to powers of two and replies failure / oversize headers 0x7fffffff, 0x80000000, 0xffffffff, 16 MiB+1 / closed; every operation runs under a 20 s watchdog. Whether a KeyID is a YSSHCA KeyID is decided by the C05 decoder model on its token tree.',
    trusted_base=["x/crypto keyring and agent client are the underlying agent (modelled as Shim.UAgent; the model is compared with the real keyring's content after every operation)", 'keyid.Unmarshal and cert.Label verdicts per certificate are oracles on the line (C05 / C19 decide them)', 'SHA-256 as map key is taken collision-free; ssh marshalling injective', 'wall-clock seconds are read by the harness just before each call (windows keep a margin of >= 2 s from the clock except in the lapse cases, which sleep 5 s)'],
    assumptions=['shim as repaired for F6; time is the integer second the harness observed'],
 ),
 'C08': dict(
    group='shim', only=['hist'], ops=['hist'],
    klass=lambda c: 'hist:noup' + c['args'][0] + ':ops' + str(min(25, 5 * (c['args'][3].count(';') // 5))) + ('+faults' if '!' in c['args'][3] else ''),
    modules=['Ysshra.Props.C08', 'Ysshra.Bridge.SnapShim', 'Ysshra.Bridge.ShimOps'],
    theorem_files=['Props/C08.lean', 'Bridge/SnapShim.lean', 'Bridge/ShimOps.lean'],
    anchors=['agent/shimagent/', 'sshutils/cert/validation.go'],
    n=dict(quick=500, thorough=20000),
    timeout=dict(quick=900, thorough=3400),
    trivial=lambda c: c['args'][3].count(';') < 2,
    rule='histories of 1..25 operations (list, signers, sign, add, add-hardware-certificate, remove, remove-all, lock/unlock with right / wrong / empty passphrases, and add / remove / remove-all done directly on the underlying keyring) against a real shimagent.Server over a harness-served x/crypto keyring, both upstream modes, 0..4 initial identities; keys Ed25519 / ECDSA P-256 / RSA-2048; certificates signed by a harness CA with validity windows past / current / future / forever / zero / start-above-MaxInt64 / end-near-2^64 / lapsing during the history (the harness sleeps across it), KeyIDs valid YSSHCA of several types, unsupported version, inconsistent flags, missing member, no applicable type, free text, empty; faults per operation: failure reply / malformed reply per request kind, oversized frame, connection closed, failing listing during construction. The Unix time read before each operation and what keyid.Unmarshal / cert.Label say about each certificate travel on the line. Non-trivial = history with at least 3 operations; distinct = distinct argument fields.'
         ' The generator is state-aware: set-up prefixes register hardware certificates for keys really held (sometimes with the same certificate upstream), operations mostly name blobs the history touched before, locked phases last several operations, passphrases include ones longer than 64 bytes sharing a long prefix. A disagreement with the state machine is attributed to C07 / C08 / C09 / C10 by what differs at the first differing operation (Drv/Shim.classify).'
         ' Validity windows also next to 2^31, 2^32 and 2^63; KeyID kinds next to the consistency rules (headless / nonce with touch policy 0, -1, 17; touch policy 4, 258); passphrase lengths on and next to powers of two up to 65536; raw-forward requests (code 200, echoed by the test agent) with body sizes on and next to powers of two and replies failure / oversize headers 0x7fffffff, 0x80000000, 0xffffffff, 16 MiB+1 / closed; every operation runs under a 20 s watchdog. Whether a KeyID is a YSSHCA KeyID is decided by the C05 decoder model on its token tree.',
    trusted_base=["x/crypto keyring and agent client are the underlying agent (modelled as Shim.UAgent; the model is compared with the real keyring's content after every operation)", 'keyid.Unmarshal and cert.Label verdicts per certificate are oracles on the line (C05 / C19 decide them)', 'SHA-256 as map key is taken collision-free; ssh marshalling injective', 'wall-clock seconds are read by the harness just before each call (windows keep a margin of >= 2 s from the clock except in the lapse cases, which sleep 5 s)'],
    assumptions=['Forward / Extension while locked are pass-through and not restricted by the statement'],
 ),
 'C09': dict(
    group='shim', only=['hist'], ops=['hist'],
    klass=lambda c: 'hist:noup' + c['args'][0] + ':ops' + str(min(25, 5 * (c['args'][3].count(';') // 5))) + ('+faults' if '!' in c['args'][3] else ''),
    modules=['Ysshra.Props.C09', 'Ysshra.Bridge.SnapShim', 'Ysshra.Bridge.CertType', 'Ysshra.Bridge.KeyId', 'Ysshra.Bridge.SnapKeyId'],
    theorem_files=['Props/C09.lean', 'Bridge/SnapShim.lean', 'Bridge/CertType.lean', 'Bridge/KeyId.lean', 'Bridge/SnapKeyId.lean'],
    anchors=['agent/shimagent/', 'sshutils/cert/validation.go'],
    n=dict(quick=500, thorough=20000),
    timeout=dict(quick=900, thorough=3400),
    trivial=lambda c: c['args'][3].count(';') < 2,
    rule='histories of 1..25 operations (list, signers, sign, add, add-hardware-certificate, remove, remove-all, lock/unlock with right / wrong / empty passphrases, and add / remove / remove-all done directly on the underlying keyring) against a real shimagent.Server over a harness-served x/crypto keyring, both upstream modes, 0..4 initial identities; keys Ed25519 / ECDSA P-256 / RSA-2048; certificates signed by a harness CA with validity windows past / current / future / forever / zero / start-above-MaxInt64 / end-near-2^64 / lapsing during the history (the harness sleeps across it), KeyIDs valid YSSHCA of several types, unsupported version, inconsistent flags, missing member, no applicable type, free text, empty; faults per operation: failure reply / malformed reply per request kind, oversized frame, connection closed, failing listing during construction. The Unix time read before each operation and what keyid.Unmarshal / cert.Label say about each certificate travel on the line. Non-trivial = history with at least 3 operations; distinct = distinct argument fields.'
         ' The generator is state-aware: set-up prefixes register hardware certificates for keys really held (sometimes with the same certificate upstream), operations mostly name blobs the history touched before, locked phases last several operations, passphrases include ones longer than 64 bytes sharing a long prefix. A disagreement with the state machine is attributed to C07 / C08 / C09 / C10 by what differs at the first differing operation (Drv/Shim.classify).'
         ' Validity windows also next to 2^31, 2^32 and 2^63; KeyID kinds next to the consistency rules (headless / nonce with touch policy 0, -1, 17; touch policy 4, 258); passphrase lengths on and next to powers of two up to 65536; raw-forward requests (code 200, echoed by the test agent) with body sizes on and next to powers of two and replies failure / oversize headers 0x7fffffff, 0x80000000, 0xffffffff, 16 MiB+1 / closed; every operation runs under a 20 s watchdog. Whether a KeyID is a YSSHCA KeyID is decided by the C05 decoder model on its token tree.',
    trusted_base=["x/crypto keyring and agent client are the underlying agent (modelled as Shim.UAgent; the model is compared with the real keyring's content after every operation)", 'keyid.Unmarshal and cert.Label verdicts per certificate are oracles on the line (C05 / C19 decide them)', 'SHA-256 as map key is taken collision-free; ssh marshalling injective', 'wall-clock seconds are read by the harness just before each call (windows keep a margin of >= 2 s from the clock except in the lapse cases, which sleep 5 s)'],
    assumptions=['"decodes as a YSSHCA KeyID" is the keyid.Unmarshal verdict (C05)'],
 ),
 'C10': dict(
    group='shim', only=['hist', 'weird', 'salgo', 'fwdmax'], ops=['hist', 'salgo', 'fwdmax'],
    klass=lambda c: c['op'] if c['op'] in ('salgo', 'fwdmax') else 'hist:noup' + c['args'][0] + ':ops' + str(min(25, 5 * (c['args'][3].count(';') // 5))) + ('+faults' if '!' in c['args'][3] else ''),
    modules=['Ysshra.Props.C10', 'Ysshra.Bridge.SnapShim', 'Ysshra.Bridge.CertType', 'Ysshra.Bridge.KeyId', 'Ysshra.Bridge.SnapKeyId', 'Ysshra.Bridge.ShimOps'],
    theorem_files=['Props/C10.lean', 'Bridge/SnapShim.lean', 'Bridge/CertType.lean', 'Bridge/KeyId.lean', 'Bridge/SnapKeyId.lean', 'Bridge/ShimOps.lean'],
    anchors=['agent/shimagent/', 'sshutils/cert/validation.go'],
    n=dict(quick=500, thorough=20000),
    timeout=dict(quick=900, thorough=3400),
    trivial=lambda c: c['op'] == 'hist' and c['args'][3].count(';') < 2,
    rule='fwdmax (both modes): raw requests whose reply is 2^24-1, 2^24 and 2^24+1 bytes long: the first two relayed byte for byte, the third an error or relayed, never altered, no crash, no hang. salgo (both modes): every signer the shim hands out (plain keys RSA / ECDSA / Ed25519, an underlying RSA certificate, hardware certificates over each key) used with Sign and with SignWithAlgorithm for every algorithm name must refuse / produce the same signature format as the underlying agent\'s own signer for that key, and the signature must verify. '
         'histories of 1..25 operations (list, signers, sign, add, add-hardware-certificate, remove, remove-all, lock/unlock with right / wrong / empty passphrases, and add / remove / remove-all done directly on the underlying keyring) against a real shimagent.Server over a harness-served x/crypto keyring, both upstream modes, 0..4 initial identities; keys Ed25519 / ECDSA P-256 / RSA-2048; certificates signed by a harness CA with validity windows past / current / future / forever / zero / start-above-MaxInt64 / end-near-2^64 / lapsing during the history (the harness sleeps across it), KeyIDs valid YSSHCA of several types, unsupported version, inconsistent flags, missing member, no applicable type, free text, empty; faults per operation: failure reply / malformed reply per request kind, oversized frame, connection closed, failing listing during construction. The Unix time read before each operation and what keyid.Unmarshal / cert.Label say about each certificate travel on the line. Non-trivial = history with at least 3 operations; distinct = distinct argument fields.'
         ' The generator is state-aware: set-up prefixes register hardware certificates for keys really held (sometimes with the same certificate upstream), operations mostly name blobs the history touched before, locked phases last several operations, passphrases include ones longer than 64 bytes sharing a long prefix. A disagreement with the state machine is attributed to C07 / C08 / C09 / C10 by what differs at the first differing operation (Drv/Shim.classify).'
         ' Validity windows also next to 2^31, 2^32 and 2^63; KeyID kinds next to the consistency rules (headless / nonce with touch policy 0, -1, 17; touch policy 4, 258); passphrase lengths on and next to powers of two up to 65536; raw-forward requests (code 200, echoed by the test agent) with body sizes on and next to powers of two and replies failure / oversize headers 0x7fffffff, 0x80000000, 0xffffffff, 16 MiB+1 / closed; every operation runs under a 20 s watchdog. Whether a KeyID is a YSSHCA KeyID is decided by the C05 decoder model on its token tree.',
    trusted_base=["x/crypto keyring and agent client are the underlying agent (modelled as Shim.UAgent; the model is compared with the real keyring's content after every operation)", 'keyid.Unmarshal and cert.Label verdicts per certificate are oracles on the line (C05 / C19 decide them)', 'SHA-256 as map key is taken collision-free; ssh marshalling injective', 'wall-clock seconds are read by the harness just before each call (windows keep a margin of >= 2 s from the clock except in the lapse cases, which sleep 5 s)'],
    assumptions=['known finding F10 (dependency panic on an unexpected reply type) is excluded by the fault styles of the theorems'],
 ),
 'C01': dict(
    group='gensign', only=['gs'], ops=['gs'],
    klass=lambda c: 'gs:runs' + str(c['args'][1].count(';') + 1) + ':' + ('ok' if 'res=ok' in ((c['model'] or [''])[0]) else 'noSuccess'),
    modules=['Ysshra.Props.C01', 'Ysshra.Bridge.Gensign', 'Ysshra.Bridge.SnapGensignAux', 'Ysshra.Bridge.SnapTls', 'Ysshra.Bridge.SnapKeyId', 'Ysshra.Props.C02b'],
    theorem_files=['Props/C01.lean', 'Bridge/Gensign.lean', 'Bridge/SnapGensignAux.lean', 'Bridge/SnapTls.lean', 'Bridge/SnapKeyId.lean', 'Props/C02b.lean'],
    anchors=['gensign/', 'agent/ssh/', 'csr/', 'crypki/common.go'],
    n=dict(quick=600, thorough=30000),
    timeout=dict(quick=900, thorough=3400),
    trivial=lambda c: 'gen:' not in ((c['model'] or [''])[0]),
    rule="histories of 1..5 runs of the real gensign.Run against one forwarded agent (x/crypto keyring behind a scripted agent served over a Unix socket pair) with 0..4 pre-existing identities (plain keys, foreign certificates, comments that are near-misses of the handler label); per run: policy NONS/NSOK, hard-key flag, login / user / host / IP / transaction-id strings with JSON metacharacters and non-ASCII, key directory states (.pub vs bare, absent, unparsable, directory, another user's key), agent behaviours (honest with / without the key, other key, other data, replayed signature, garbage, empty, failure), 1..4 handlers (regular + scripted accept / reject / panic in Name / Authenticate / Generate / AddCertsToAgent, 0..2 requests), CA replies (0..4 certificates with 0..4 comments, foreign-key certificate, plain key, error, panic), validity one second .. ten years and the uint32 wrap-around ends, key-identifier maps by name in any case or by number, failure reply or connection loss at agent request index 0..8. Compared: error kind, ordered trace of handler / agent / CA events (lifetimes, comments, which key and certificate), challenge length and freshness across the history, final agent identities, the request the CA received (KeyID token tree). Non-trivial = at least one run got past authentication; distinct = distinct argument fields."
         " Key-file states also: empty, white space only, comment only. Scripted handlers include one whose Name() panics after a successful authentication. CA kinds realdown / realdead put the real crypki.Signer (closed port; live or already cancelled context) behind Run. Verdicts are the clause predicates of Spec/Gensign.lean on the implementation's own trace (tags Cnn.<clause>)."
         ' Key-identifier maps also with numbers written with leading zeros; a key whose CSRs() panics.',
    trusted_base=['signature verification, key generation and crypto/rand are real in the run and oracles in the model (honest-signer law built into `verifies`)', 'x/crypto agent client/server and keyring', 'mapstructure decoding of the handler configuration (the algorithm-name hook is modelled in the driver)'],
    assumptions=['unforgeability and unpredictability of the challenge are assumptions (partial): the model pins which verification gates everything', 'a challenge counts as unpredictable when it carries at least 128 bits from the random source and differs from every earlier one (the statement does not fix its length)'],
 ),
 'C02': dict(
    group='gensign', only=['gs'], ops=['gs'],
    klass=lambda c: 'gs:runs' + str(c['args'][1].count(';') + 1) + ':' + ('ok' if 'res=ok' in ((c['model'] or [''])[0]) else 'noSuccess'),
    modules=['Ysshra.Props.C02', 'Ysshra.Bridge.Gensign', 'Ysshra.Bridge.SnapGensignAux', 'Ysshra.Bridge.KeyId', 'Ysshra.Bridge.SnapKeyId', 'Ysshra.Bridge.SnapTls', 'Ysshra.Props.C02b'],
    theorem_files=['Props/C02.lean', 'Bridge/Gensign.lean', 'Bridge/SnapGensignAux.lean', 'Bridge/KeyId.lean', 'Bridge/SnapKeyId.lean', 'Bridge/SnapTls.lean', 'Props/C02b.lean'],
    anchors=['gensign/', 'agent/ssh/', 'csr/', 'crypki/common.go'],
    n=dict(quick=600, thorough=30000),
    timeout=dict(quick=900, thorough=3400),
    trivial=lambda c: 'gen:' not in ((c['model'] or [''])[0]),
    rule="histories of 1..5 runs of the real gensign.Run against one forwarded agent (x/crypto keyring behind a scripted agent served over a Unix socket pair) with 0..4 pre-existing identities (plain keys, foreign certificates, comments that are near-misses of the handler label); per run: policy NONS/NSOK, hard-key flag, login / user / host / IP / transaction-id strings with JSON metacharacters and non-ASCII, key directory states (.pub vs bare, absent, unparsable, directory, another user's key), agent behaviours (honest with / without the key, other key, other data, replayed signature, garbage, empty, failure), 1..4 handlers (regular + scripted accept / reject / panic in Name / Authenticate / Generate / AddCertsToAgent, 0..2 requests), CA replies (0..4 certificates with 0..4 comments, foreign-key certificate, plain key, error, panic), validity one second .. ten years and the uint32 wrap-around ends, key-identifier maps by name in any case or by number, failure reply or connection loss at agent request index 0..8. Compared: error kind, ordered trace of handler / agent / CA events (lifetimes, comments, which key and certificate), challenge length and freshness across the history, final agent identities, the request the CA received (KeyID token tree). Non-trivial = at least one run got past authentication; distinct = distinct argument fields."
         " Key-file states also: empty, white space only, comment only. Scripted handlers include one whose Name() panics after a successful authentication. CA kinds realdown / realdead put the real crypki.Signer (closed port; live or already cancelled context) behind Run. Verdicts are the clause predicates of Spec/Gensign.lean on the implementation's own trace (tags Cnn.<clause>)."
         ' Key-identifier maps also with numbers written with leading zeros; a key whose CSRs() panics.',
    trusted_base=['signature verification, key generation and crypto/rand are real in the run and oracles in the model (honest-signer law built into `verifies`)', 'x/crypto agent client/server and keyring', 'mapstructure decoding of the handler configuration (the algorithm-name hook is modelled in the driver)'],
    assumptions=['fresh key pairs are distinct random draws (crypto/rand); the KeyID clause uses C05'],
 ),
 'C03': dict(
    group='gensign', only=['gs'], ops=['gs'],
    klass=lambda c: 'gs:runs' + str(c['args'][1].count(';') + 1) + ':' + ('ok' if 'res=ok' in ((c['model'] or [''])[0]) else 'noSuccess'),
    modules=['Ysshra.Props.C03', 'Ysshra.Bridge.Gensign', 'Ysshra.Bridge.SnapGensignAux', 'Ysshra.Bridge.SnapTls', 'Ysshra.Bridge.SnapKeyId', 'Ysshra.Props.C03b'],
    theorem_files=['Props/C03.lean', 'Bridge/Gensign.lean', 'Bridge/SnapGensignAux.lean', 'Bridge/SnapTls.lean', 'Bridge/SnapKeyId.lean', 'Props/C03b.lean'],
    anchors=['gensign/', 'agent/ssh/', 'csr/', 'crypki/common.go'],
    n=dict(quick=600, thorough=30000),
    timeout=dict(quick=900, thorough=3400),
    trivial=lambda c: 'gen:' not in ((c['model'] or [''])[0]),
    rule="histories of 1..5 runs of the real gensign.Run against one forwarded agent (x/crypto keyring behind a scripted agent served over a Unix socket pair) with 0..4 pre-existing identities (plain keys, foreign certificates, comments that are near-misses of the handler label); per run: policy NONS/NSOK, hard-key flag, login / user / host / IP / transaction-id strings with JSON metacharacters and non-ASCII, key directory states (.pub vs bare, absent, unparsable, directory, another user's key), agent behaviours (honest with / without the key, other key, other data, replayed signature, garbage, empty, failure), 1..4 handlers (regular + scripted accept / reject / panic in Name / Authenticate / Generate / AddCertsToAgent, 0..2 requests), CA replies (0..4 certificates with 0..4 comments, foreign-key certificate, plain key, error, panic), validity one second .. ten years and the uint32 wrap-around ends, key-identifier maps by name in any case or by number, failure reply or connection loss at agent request index 0..8. Compared: error kind, ordered trace of handler / agent / CA events (lifetimes, comments, which key and certificate), challenge length and freshness across the history, final agent identities, the request the CA received (KeyID token tree). Non-trivial = at least one run got past authentication; distinct = distinct argument fields."
         " Key-file states also: empty, white space only, comment only. Scripted handlers include one whose Name() panics after a successful authentication. CA kinds realdown / realdead put the real crypki.Signer (closed port; live or already cancelled context) behind Run. Verdicts are the clause predicates of Spec/Gensign.lean on the implementation's own trace (tags Cnn.<clause>)."
         ' Key-identifier maps also with numbers written with leading zeros; a key whose CSRs() panics.',
    trusted_base=['signature verification, key generation and crypto/rand are real in the run and oracles in the model (honest-signer law built into `verifies`)', 'x/crypto agent client/server and keyring', 'mapstructure decoding of the handler configuration (the algorithm-name hook is modelled in the driver)'],
    assumptions=['the requester agent behaves like the x/crypto keyring'],
 ),
 'C04': dict(
    group='gensign', only=['gs'], ops=['gs'],
    klass=lambda c: 'gs:runs' + str(c['args'][1].count(';') + 1) + ':' + ('ok' if 'res=ok' in ((c['model'] or [''])[0]) else 'noSuccess'),
    modules=['Ysshra.Props.C04', 'Ysshra.Bridge.Gensign', 'Ysshra.Bridge.SnapGensignAux', 'Ysshra.Bridge.SnapTls', 'Ysshra.Bridge.SnapKeyId', 'Ysshra.Props.C04b'],
    theorem_files=['Props/C04.lean', 'Bridge/Gensign.lean', 'Bridge/SnapGensignAux.lean', 'Bridge/SnapTls.lean', 'Bridge/SnapKeyId.lean', 'Props/C04b.lean'],
    anchors=['gensign/', 'agent/ssh/', 'csr/', 'crypki/common.go'],
    n=dict(quick=600, thorough=30000),
    timeout=dict(quick=900, thorough=3400),
    trivial=lambda c: 'gen:' not in ((c['model'] or [''])[0]),
    rule="the kind of the returned error is read from Error.Type() and cross-checked against IsErrorOfType for every kind; histories of 1..5 runs of the real gensign.Run against one forwarded agent (x/crypto keyring behind a scripted agent served over a Unix socket pair) with 0..4 pre-existing identities (plain keys, foreign certificates, comments that are near-misses of the handler label); per run: policy NONS/NSOK, hard-key flag, login / user / host / IP / transaction-id strings with JSON metacharacters and non-ASCII, key directory states (.pub vs bare, absent, unparsable, directory, another user's key), agent behaviours (honest with / without the key, other key, other data, replayed signature, garbage, empty, failure), 1..4 handlers (regular + scripted accept / reject / panic in Name / Authenticate / Generate / AddCertsToAgent, 0..2 requests), CA replies (0..4 certificates with 0..4 comments, foreign-key certificate, plain key, error, panic), validity one second .. ten years and the uint32 wrap-around ends, key-identifier maps by name in any case or by number, failure reply or connection loss at agent request index 0..8. Compared: error kind, ordered trace of handler / agent / CA events (lifetimes, comments, which key and certificate), challenge length and freshness across the history, final agent identities, the request the CA received (KeyID token tree). Non-trivial = at least one run got past authentication; distinct = distinct argument fields."
         " Key-file states also: empty, white space only, comment only. Scripted handlers include one whose Name() panics after a successful authentication. CA kinds realdown / realdead put the real crypki.Signer (closed port; live or already cancelled context) behind Run. Verdicts are the clause predicates of Spec/Gensign.lean on the implementation's own trace (tags Cnn.<clause>)."
         ' Key-identifier maps also with numbers written with leading zeros; a key whose CSRs() panics.',
    trusted_base=['signature verification, key generation and crypto/rand are real in the run and oracles in the model (honest-signer law built into `verifies`)', 'x/crypto agent client/server and keyring', 'mapstructure decoding of the handler configuration (the algorithm-name hook is modelled in the driver)'],
    assumptions=['fatal runtime errors that recover cannot catch are out of scope'],
 ),
 'C17': dict(
    group='crypki', only=['sign', 'backoff'], ops=['sign', 'backoff'],
    klass=lambda c: c['op'] + ':' + ((c['model'] or ['?'])[0].split(' ')[0] if c['op'] == 'sign' else 'att' + ('0' if c['args'][4] == '0' else '+')) ,
    compare=lambda c: None if c['op'] == 'backoff' else (c['model'] == c['impl']),
    modules=['Ysshra.Props.C17', 'Ysshra.Props.C17Backoff', 'Ysshra.Bridge.Crypki', 'Ysshra.Bridge.SnapTls'],
    theorem_files=['Props/C17.lean', 'Props/C17Backoff.lean', 'Bridge/Crypki.lean', 'Bridge/SnapTls.lean'],
    anchors=['crypki/', 'tlsutils/', 'internal/backoff/', 'sshutils/key/parse.go'],
    n=dict(quick=120, thorough=3000),
    timeout=dict(quick=900, thorough=3400),
    trivial=lambda c: (c['op'] == 'sign' and c['args'][0] == '-') or (c['op'] == 'backoff' and c['args'][4] == '0'),
    rule='sign: the real crypki.NewSigner + Sign (Retries=1, per-try timeout 1.5 s) against 0..4 real TLS gRPC Signing servers on 127.0.0.1..4 sharing one port; per endpoint an identity (issued by configured CA 1 / CA 2, by another CA, self-signed, expired, not yet valid, valid for another address, TLS-1.1-only, nothing listening), a client-certificate mode (none / request / require-and-verify / require with a foreign client CA) and a behaviour (1..3 certificates with / without / multi-word comments, unparsable lines mixed in, empty or garbage key text, RPC error codes 2/4/7/13/14/16, reply after the deadline); bundles of 1 or 2 CA files. Observed: result, requests seen per endpoint, client certificate seen, request fields unmodified. backoff: base x multiplier x maximum x jitter x attempt (0 .. 2^32-1) grids incl. base 0 and attempts where the power overflows; the Go results of 6 draws must lie in the rational interval of the model. Non-trivial = at least one endpoint configured / attempt > 0; distinct = distinct argument fields.'
         ' Systematic part: every gRPC status code 1..16, empty / unparsable / late replies and every defective TLS identity as a first endpoint followed by a genuine one; client-certificate modes none / request / request-with-foreign-issuer-hint / require / require-other-CA.'
         ' Server protocol ranges: up to TLS 1.0, up to 1.1 (both with the pre-1.2 cipher suites set explicitly, so that a permissive client could connect), exactly 1.2, 1.3 only.',
    trusted_base=["crypto/tls, crypto/x509, gRPC and grpc_retry implement the handshake, chain building and retry policy (the TLS acceptance rule is Go's documented client behaviour, exercised by real handshakes)", 'ssh.ParseAuthorizedKey decides which reply lines are keys', 'IEEE-754 arithmetic of Backoff is only sampled (bound proved over Q)'],
    assumptions=['Sign / Backoff as repaired for F8 / F9a; known finding F9b'],
 ),
 'C18': dict(
    group='crypki', only=['sign'], ops=['sign'],
    klass=lambda c: c['op'] + ':' + ((c['model'] or ['?'])[0].split(' ')[0] if c['op'] == 'sign' else 'att' + ('0' if c['args'][4] == '0' else '+')) ,
    compare=lambda c: c['model'] == c['impl'],
    modules=['Ysshra.Props.C18', 'Ysshra.Bridge.Crypki', 'Ysshra.Bridge.SnapTls'],
    theorem_files=['Props/C18.lean', 'Bridge/Crypki.lean', 'Bridge/SnapTls.lean'],
    anchors=['crypki/', 'tlsutils/', 'internal/backoff/', 'sshutils/key/parse.go'],
    n=dict(quick=120, thorough=3000),
    timeout=dict(quick=900, thorough=3400),
    trivial=lambda c: (c['op'] == 'sign' and c['args'][0] == '-') or (c['op'] == 'backoff' and c['args'][4] == '0'),
    rule='sign: the real crypki.NewSigner + Sign (Retries=1, per-try timeout 1.5 s) against 0..4 real TLS gRPC Signing servers on 127.0.0.1..4 sharing one port; per endpoint an identity (issued by configured CA 1 / CA 2, by another CA, self-signed, expired, not yet valid, valid for another address, TLS-1.1-only, nothing listening), a client-certificate mode (none / request / require-and-verify / require with a foreign client CA) and a behaviour (1..3 certificates with / without / multi-word comments, unparsable lines mixed in, empty or garbage key text, RPC error codes 2/4/7/13/14/16, reply after the deadline); bundles of 1 or 2 CA files. Observed: result, requests seen per endpoint, client certificate seen, request fields unmodified. backoff: base x multiplier x maximum x jitter x attempt (0 .. 2^32-1) grids incl. base 0 and attempts where the power overflows; the Go results of 6 draws must lie in the rational interval of the model. Non-trivial = at least one endpoint configured / attempt > 0; distinct = distinct argument fields.'
         ' Systematic part: every gRPC status code 1..16, empty / unparsable / late replies and every defective TLS identity as a first endpoint followed by a genuine one; client-certificate modes none / request / request-with-foreign-issuer-hint / require / require-other-CA.'
         ' Server protocol ranges: up to TLS 1.0, up to 1.1 (both with the pre-1.2 cipher suites set explicitly, so that a permissive client could connect), exactly 1.2, 1.3 only.',
    trusted_base=["crypto/tls, crypto/x509, gRPC and grpc_retry implement the handshake, chain building and retry policy (the TLS acceptance rule is Go's documented client behaviour, exercised by real handshakes)", 'ssh.ParseAuthorizedKey decides which reply lines are keys', 'IEEE-754 arithmetic of Backoff is only sampled (bound proved over Q)'],
    assumptions=['that crypto/tls implements clientAccepts is assumed (partial)'],
 ),
 'C11': dict(
    group='conc', only=['race'], ops=['race'], build_flags=['-race'],
    klass=lambda c: 'race:goroutines' + c['args'][0],
    modules=['Ysshra.Props.C11', 'Ysshra.Bridge.SnapShim'],
    theorem_files=['Props/C11.lean', 'Bridge/SnapShim.lean'],
    anchors=['agent/shimagent/shimserver.go'],
    n=dict(quick=80, thorough=1500),
    timeout=dict(quick=1500, thorough=3400),
    trivial=lambda c: False,
    rule='stress scenarios against one real shim agent behind yubiagent.ServeAgent in a race-detector-instrumented child process: 2..16 goroutines x 20..50 operations each (list, sign with caller-specific data, add / remove of a caller-owned key, add-hardware-certificate valid / expired, expired certificates injected into the underlying agent so that listings purge, raw forward and extension requests with caller-specific payloads; Signers / Extension / some Forward calls made in-process on the shared agent since the wire protocol does not reach them). '
         'Checked: no data race report, every reply carries the caller\'s own payload / verifies over the caller\'s own data, no operation hangs, final underlying identity set equals the sequential effect. Every scenario is non-trivial; distinct = distinct argument fields.'
         ' Plus two-operation linearizability rounds: 13 pairs of operations x both modes, each pair run concurrently on a fresh shim 60 (thorough: 600) times and compared with both sequential orders of the same implementation.'
         ' Every sequence of four operations (incl. raw forwards of 511 / 512 bytes) on a fresh shim under a per-operation watchdog, both modes.'
         ' In-flight pairs, both modes: each kind of operation (signing with an in-memory hardware certificate of every KeyID kind — free text, every YSSHCA certificate type —, signing with a key, list, signers, add, remove, remove-all, add-hardware-certificate, lock, unlock, extension, raw forward) is held in flight by an underlying agent that takes 120 ms over its request while a second caller sends a raw forward / extension / sign request; both must complete and each must get the reply to its own request (6 rounds per pair). The stress scenarios use the same KeyID kinds and also sign with the hardware certificates they added.',
    trusted_base=['Go race detector and scheduler (schedules are sampled, not enumerated)', 'the regenerated lock table is a syntactic summary of shimserver.go (first statement, defer, transitive field accesses) produced by /verif/extract'],
    assumptions=['Go memory model / scheduler are not modelled (partial): the theorem is about the locking discipline the source exhibits'],
 ),
}

NOT_APPLICABLE = {}

_NOTE = ('Trusted: Lean 4.33 kernel (axioms propext, Classical.choice, Quot.sound only; audited per theorem on every run), '
         'the go/ast translator /verif/extract, the overlay harness + Lean driver + bin/check. Every function of the anchored source files is also regenerated statement by statement and pinned (Bridge/Snap*.lean): '
         'an edit there breaks a proof obligation even when no generated input exposes it (then reported with no-failing-input-found). A failing input is reported only when the executable statement of the property '
         '(Spec/*.lean, clause tags) fails on the implementation\'s own output; ')

MANIFEST_TEXT = {
 'C05': dict(
    text='Lean theorems for every KeyID value and every JSON token tree: Marshal succeeds iff version 1 and consistent; Unmarshal(Marshal k) = k; '
         'Unmarshal returns only version-1, consistent KeyIDs whose text had all eleven required members. Tables, tags and both sanity checkers are '
         'regenerated from keyid.go each run and proved equal to the specification constants; the hand-written decoder model is tied by differential runs against keyid.Marshal/Unmarshal.',
    design_ref='DESIGN.md §7 C05, §6.1',
    note=_NOTE + "encoding/json's lexer is trusted (token trees come from Go); its struct-decoding rules are modelled and correspondence-tested, not verified.",
    technique='Lean 4 proof (round-trip + decision logic) over regenerated tables, plus model/implementation correspondence'),
 'C19': dict(
    text='Lean theorems: the regenerated GetType cascade equals the decision table of the statement for every certificate (all touch-policy integers), depends only on the five named inputs, '
         'nonce/firefighter precedence, unknown-iff, label and principal-suffix rules; exhaustive correspondence over the finite attribute grid against GetType/Label/GetPrincipals.',
    design_ref='DESIGN.md §7 C19',
    note=_NOTE + 'KeyID decoding as in C05.',
    technique='Lean 4 proof over the translated switch cascade, exhaustive correspondence on the attribute grid'),
 'C14': dict(
    text='Lean theorems for every original-command token tree / byte string, LOGNAME, SSH_CONNECTION and argument vector: NewReqParam never crashes, and a success returns the '
         'server-side login name, the valid first field of the connection string, a policy in {NONS,NSOK} taken from the second-last of 3..6 tokens, the declared major.minor '
         '(0.0 when a legacy message omits it), a 10-hex-digit transaction id, and the client claims only in their own fields. parseForceCommand, version.Unmarshal and ValidNamespacePolicy are translated statement by statement on every run and proved equal to the model for all inputs (no index or slice expression panics). Tied also by differential runs against csr.NewReqParam.',
    design_ref='DESIGN.md §7 C14',
    note=_NOTE + 'net.ParseIP and crypto/rand are oracles; JSON lexer as in C05.',
    technique='Lean 4 proof (decision logic / totality) + model/implementation correspondence'),
 'C15': dict(
    text='Lean theorems: Marshal refuses exactly the attribute sets with an empty required field; JSON format: Unmarshal(Marshal a) = populate a for every attribute set with machine integers '
         'and a duplicate-free extension map (all omitempty combinations); a text that decodes as a JSON attribute object is decided by the JSON branch alone; no crash. '
         'legacy format (c15_legacy_roundtrip, c15_legacy_roundtrip_clean): for all values free of white space and @ and machine-integer times, UnmarshalLegacy(MarshalLegacy a) returns version, user, host, hardware-key, touch-to-SSH and touchless-sudo fields, interface version 6 and the raw tokens as extension map. Differential runs against message.Marshal/Unmarshal.',
    design_ref='DESIGN.md §7 C15',
    note=_NOTE + 'JSON lexer as in C05; float formatting of extension values is not modelled.',
    technique='Lean 4 proof (round-trip) + model/implementation correspondence'),
 'C06': dict(
    text='Lean theorems about the regenerated algorithm switch (SHA-1/256/384/512 labels only, MD2/MD5 insecure, everything else unsupported), chain-first and RSA-only decision logic, the two distinct DigestInfo encodings, '
         'and (c06_em_iff) that the transliterated comparison accepts exactly the two full-length encoded messages for every modulus length. Tables and every statement of verifyPKCS1v15 / leftPad / Attest are regenerated and pinned; '
         'the model runs real RSA arithmetic and is compared with Attest on adversarially crafted signatures.',
    design_ref='DESIGN.md §7 C06',
    note=_NOTE + 'crypto/x509 chain verification, SHA digests and big.Int arithmetic are oracles / modelled; cryptographic hardness is out of scope (partial).',
    technique='Lean 4 proof (decision logic, list-slice characterisation) + correspondence with real RSA signatures'),
 'C16': dict(
    text='Lean theorems: ModHex is total, yields 8 characters of the alphabet exactly for 3/4-byte serials, is injective per length, cc padding = leading zero byte; PEM bundles yield all certificates in order, fail on an unparsable block or trailing garbage. '
         'The clause "agrees with crypto/x509 on every field, NULL-less RSA keys accepted, trailing data rejected" is decided by differential execution against the standard library (partial: no Lean DER model).',
    design_ref='DESIGN.md §7 C16',
    note=_NOTE + 'encoding/asn1, encoding/pem, crypto/x509 are the reference, not verified.',
    technique='Lean 4 proof (ModHex, PEM ordering) + differential run against crypto/x509 for the decoding clause'),
 'C12': dict(
    text='Lean theorems for every byte stream and every behaviour of the served agent and libraries (oracles indexed by request number): no request buffer above 16 MiB is allocated, oversize declarations are refused before allocation, '
         'empty frames and code-less wait frames end the connection with an error, every complete accepted request frame gets exactly one response frame in request order (induction over the frame list), a clean end of stream after them is not an error. '
         'Dispatch partition, bound, guards before every req[k], broadcast-before-dispatch and the recovering wrapper are regenerated from server.go / io.go each run; the loop model is compared with ServeAgent on generated streams.',
    design_ref='DESIGN.md §7 C12',
    note=_NOTE + "x/crypto's agent server and ssh.ParsePublicKey are oracles.",
    technique='Lean 4 proof (induction over frames, decision logic) over regenerated dispatch facts + stream-level correspondence'),
 'C13': dict(
    text='Lean theorems composing client encoder, server dispatch and client decoder for add-hardware-certificate (both wire formats), list-slots, read/attest-slot, wait and raw forward: the served agent receives the caller arguments and the caller the agent result, '
         'under the well-formedness the wire format forces (comma-free non-empty slot names, error text other than the in-band markers); companion theorems prove the excluded points really do not round-trip (known findings F11a-c). '
         'Slot-listing parser characterised for every tool output. Standard agent operations and the fake-tool runs are covered by correspondence.',
    design_ref='DESIGN.md §7 C13',
    note=_NOTE + "x/crypto client/server for the standard operations and os/exec are trusted.",
    technique='Lean 4 proof (codec round-trips through the dispatch model) + client/server correspondence'),
 'C20': dict(
    text='Lean theorems over histories of wait registrations and requests: a request with code c releases exactly the clients registered on c, all together, and keeps every other waiter; a waiter stays blocked through any sequence without a c-request and the next c-request frees it (induction over the history); codes outside the table return immediately and wake nobody; '
         'with the regenerated table size 40 and guard `msg < byte(len)` every guarded access is in range for all 256 codes; ServeAgent broadcasts req[0] before dispatch (regenerated); a burst of requests releases exactly the waiters on its in-range codes in whatever order it is processed (c20_burst). The history model is compared with the real server using observed registration, including well-formed lock / unlock requests and bursts sent on separate connections at the same moment.',
    design_ref='DESIGN.md §7 C20',
    note=_NOTE + 'sync.Cond and the Go scheduler are trusted (partial).',
    technique='Lean 4 proof (invariant over event histories) over regenerated table facts + observed-schedule correspondence'),
 'C07': dict(
    text='ValidateSSHCertTime is translated from validation.go on every run and proved equal to the model\'s validity test for all bounds and clock values (validate_bridge). Lean theorems about an arbitrary shim state (hence after every history): a listing returned to the client contains no certificate outside its validity window, in memory or upstream (c07_list_output_valid); without faults the underlying agent is purged too and a signing request naming a purged certificate yields no signature (c07_purged_from_agent, c07_sign_purged_fails); whenever filter succeeds, every certificate in the key list it returns from the underlying agent is inside its validity window (c07_listing_valid: loop invariant over the swap-removing remove closure and the live backing array, original index range, stale tail included; Lemmas/ShimArr), entries stay pairwise different and come from the listing; after a successful underlying listing every in-memory certificate is inside its (MaxInt64-clamped) validity window and, for a non-empty listing, its key is among the listed keys; an empty listing drops nothing; a failing listing touches nothing; unlimited validity never expires. '
         'The whole state machine (swap-remove closure included) is compared with the real Server on generated histories with real certificates and the real clock.',
    design_ref='DESIGN.md §7 C07, Appendix C',
    note=_NOTE + 'x/crypto keyring/agent client and the wall clock are trusted.',
    technique='Lean 4 proof (fold invariants over the filter passes) + history-level correspondence'),
 'C08': dict(
    text='Lean theorems: while locked, listing returns [] and sign / signers / add / remove / remove-all / add-hardware-certificate / lock fail, none changing shim or underlying state, at any time under any faults; wrong passphrase fails and changes nothing; right passphrase restores the pre-lock tables; unlock of an unlocked agent is an error; a refused lock/unlock leaves the flag; '
         'history form by induction: any sequence of client operations between lock p and unlock p leaves the state as it was. History-level correspondence incl. refusing underlying agent.',
    design_ref='DESIGN.md §7 C08',
    note=_NOTE + 'x/crypto keyring lock semantics are modelled in UAgent and compared after every operation.',
    technique='Lean 4 proof (case analysis + induction over locked histories) + history-level correspondence'),
 'C09': dict(
    text='Lean theorems: invariant (by induction over every operation, time and fault set, from construction in either mode): with the mode off the cache is empty, with it on the cache holds only YSSHCA certificates; hence in no-upstream mode no underlying YSSHCA certificate appears in key or signer listings and signing with one is key-not-found unless it is an in-memory certificate, '
         'plain keys and other certificates are all listed, hidden certificates can be removed, and with the mode off every underlying identity is listed. Same history run in both modes by the harness.',
    design_ref='DESIGN.md §7 C09',
    note=_NOTE + 'keyid.Unmarshal verdicts are oracles (C05).',
    technique='Lean 4 proof (reachability invariant) + history-level correspondence'),
 'C10': dict(
    text='Lean theorems: add-hardware-certificate succeeds iff the certified plain key is in a successful underlying listing (again = no-op, plain key refused); signing with a stored certificate uses that key; remove / remove-all make it disappear even if the underlying agent fails; add / remove pass through with identical effect and result; '
         'under every fault set a still-valid, non-orphaned in-memory certificate survives filter; failing construction is an error; raw forward frames are relayed byte-for-byte. History-level correspondence with fault injection at the underlying agent.',
    design_ref='DESIGN.md §7 C10',
    note=_NOTE + 'x/crypto agent client; known finding F10 for its panic on unexpected reply types.',
    technique='Lean 4 proof (decision logic, frame lemmas over the filter passes) + fault-injecting correspondence'),
 'C01': dict(
    text='Lean theorems over every parameter set, key-directory state, agent behaviour, handler list and world: the selection loop issues nothing and keeps all identities; if nobody authenticates nothing is generated / signed / added and the run reports all-authentications-failed; '
         'whenever a request is generated, the CA called or the agent added to, the first handler in order that authenticated was selected, and for the regular handler: policy NONS, no hardware key, a registered key, and a signature by the forwarded agent over the fresh challenge of this call that verifies under it, recorded before anything is issued; challenge = next index of the random source, and over every history of runs (any handler lists, agents, CA behaviour, faults) no two challenges coincide (c01_challenges_distinct). '
         'Every statement of Run / Authenticate / challengePubKey / lookupPubKeyFile is regenerated and pinned; the model is compared with the real Run + regular handler over scripted agents.',
    design_ref='DESIGN.md §7 C01',
    note=_NOTE + 'unforgeability and unpredictability are assumptions built into the `verifies` oracle (partial).',
    technique='Lean 4 proof (invariant over the handler loop, decision logic) + trace-level correspondence'),
 'C02': dict(
    text='Lean theorems: every request the regular handler produces has exactly one principal (the login name), the configured validity, the default extension set, the key slot of the requested algorithm (refused when none), a key drawn fresh for this request (never a registered key, never reused: over every history of runs every challenge and key pair takes its own index of the random source, c02_history_fresh / c02_keys_distinct); '
         'its KeyID encodes and decodes (C05 round trip, all strings) to the stated attributes. KeyID / CSR literals and the default extension set are regenerated and pinned; the request the CA receives is compared field by field.',
    design_ref='DESIGN.md §7 C02',
    note=_NOTE + 'key generation and crypto/rand are oracles (fresh draws are distinct indices).',
    technique='Lean 4 proof (decision logic + C05 round trip) + correspondence on the recorded signing request'),
 'C03': dict(
    text='Lean theorems: lifetime = (v mod 2^32 + 3600) mod 2^32 is finite and >= v for v in 1s..10y (sharp: wraps to 0 at 2^32-3600); the private key and every certificate add carry that lifetime, the same key and the certificate label; '
         'identities without the handler label (near-miss comments included) survive AddCertsToAgent whether it succeeds or fails at any request (induction over refresh and add loops); a run in which nobody authenticates leaves every identity; over every history of runs against one agent an identity of a long-term key without the label is still there at the end (c03_history_foreign_kept). '
         'After a successful run (c03_run_success) every certificate the CA returned is in the agent stored with the new private key under the label and lifetime (c03_success_stores), every labelled identity left is one of this run (c03_one_generation: at most one generation), and a run failing in generation or at the CA keeps every identity (c03_failed_signing_keeps). Also checked on the real agent by the statement clauses of Spec/Gensign.',
    design_ref='DESIGN.md §7 C03',
    note=_NOTE + 'x/crypto keyring semantics for the requester agent.',
    technique='Lean 4 proof (arithmetic, induction over the refresh/add loops) + correspondence on agent contents'),
 'C04': dict(
    text='Lean theorems: for runs of the regular handler the result kind is a function of the first failing step (no authentication → all-auth-failed; generate → CSR / configuration error; CA error → signer error; CA panic → panic; agent failure in AddCertsToAgent → agent error) and success iff every step succeeded; '
         'no certificate is added unless a CA call for the same key succeeded earlier in the trace; for every handler list, success implies that no step after the selection failed (c04_success_every_step); the model has no crash outcome (recover pinned in the regenerated Run). Faults at every agent request index, CA errors / panics and panics in every handler method are injected into the real Run.',
    design_ref='DESIGN.md §7 C04',
    note=_NOTE + 'fatal runtime errors that recover cannot catch are out of scope.',
    technique='Lean 4 proof (case analysis of Run, trace ordering) + fault-injection correspondence'),
 'C17': dict(
    text='Lean theorems for every endpoint list and reply vector: contacted endpoints are a prefix of the configured list; a success is the answer of the last contacted endpoint with all earlier ones failed and none later contacted; all failing → every endpoint tried, error; none configured → error; a success has at least one certificate and one comment per certificate in the CA order; '
         'back-off over Q: 0 <= delay <= max(1+jitter) for every attempt number under the stated configuration constraints (Mathlib tactics). Loop, reply parser and Backoff statements are regenerated and pinned; the real Signer is run against real TLS gRPC servers.',
    design_ref='DESIGN.md §7 C17',
    note=_NOTE + 'gRPC / TLS stack trusted; IEEE-754 and float→int64 conversion only sampled (partial); known finding F9b.',
    technique='Lean 4 proof (induction over the endpoint list; ordered-field inequality) + correspondence with real gRPC/TLS servers'),
 'C18': dict(
    text='Lean theorems: the TLS configuration record regenerated from tlsutils/config.go never disables or replaces verification, trusts exactly the configured files, has effective minimum version >= TLS 1.2 (explicit or Go default) and presents a client certificate; with it the client accepts a server iff it offers TLS >= 1.2, chains to a configured CA and matches the endpoint name; '
         'a signing call succeeds only via an accepted server, and impostors at any position are failed endpoints so a later genuine endpoint still serves (corollaries of C17). Real handshakes against servers of every identity kind.',
    design_ref='DESIGN.md §7 C18',
    note=_NOTE + 'crypto/tls and crypto/x509 path validation are the reference (partial).',
    technique='Lean 4 proof over the regenerated TLS configuration record + real-handshake correspondence'),
 'C11': dict(
    text='Lean theorems: for a reader-writer lock and threads that take their method\'s lock first and release on return, mutual exclusion (an exclusive holder is alone) is an invariant of every scheduling step, hence of every interleaving; under the discipline "writers and connection users hold it exclusively, readers at least shared" no reachable state has two threads inside with a write by one and an access by the other to the same cell (the single upstream connection is a cell). '
         'The discipline is proved (by decide) of the method table regenerated from shimserver.go each run — including Signers and Extension (F7) — and every signer Signers returns is proved to be routed through the shim (c11_signers_routed over the regenerated list of returned values, F12). Supported by race-detector stress runs with own-reply and final-state checks. Progress: in every reachable state with an unfinished operation some thread can step and the remaining work strictly decreases (c11_progress, c11_no_deadlock); the harness enumerates all sequences of four operations under a watchdog.',
    design_ref='DESIGN.md §7 C11',
    note=_NOTE + 'Go scheduler / memory model not modelled (partial).',
    technique='Lean 4 proof (invariant over all interleavings of a lock model) over a regenerated lock table + race-detector schedule sampling'),
}
