"""Per-property configuration for bin/check."""

JSON_TB = ["encoding/json's lexer (bytes → tokens, UTF-8 repair, escapes): the harness sends Go's token tree; "
           "json.Unmarshal's struct-decoding rules are modelled in Ysshra.Model.Json and validated only by correspondence"]

PROPS = {
 'C05': dict(
    group='codec', only=['keyid'], ops=['keyid.rt', 'keyid.dec'],
    modules=['Ysshra.Props.C05', 'Ysshra.Bridge.KeyId'],
    theorem_files=['Props/C05.lean', 'Bridge/KeyId.lean'],
    anchors=['keyid/'],
    n=dict(quick=3000, thorough=150000),
    trivial=lambda c: (c['op'] == 'keyid.dec' and c['args'][0] == '!') ,
    rule='keyid.rt: the full grid 16 flag sets x 9 touch policies x 4 usages with random versions/strings/principals; '
         'keyid.dec: valid encodings, single-member deletions / case renames / duplicates / retypes, other JSON values, damaged and random bytes. '
         'A case is non-trivial when its input is valid JSON (decoder reaches the struct rules) or it is an encode case; distinct = distinct argument fields.',
    trusted_base=JSON_TB,
    assumptions=['KeyID strings are valid UTF-8 (the property quantifies over UTF-8 strings)',
                 'a duplicated `prins` member whose later array contains null elements is not modelled (Go reuses the earlier slice elements)'],
 ),
 'C19': dict(
    group='codec', only=['certtype'], ops=['certtype'],
    modules=['Ysshra.Props.C19', 'Ysshra.Bridge.CertType', 'Ysshra.Bridge.KeyId'],
    theorem_files=['Props/C19.lean', 'Bridge/CertType.lean'],
    anchors=['sshutils/cert/', 'keyid/'],
    n=dict(quick=2000, thorough=40000),
    trivial=lambda c: False,
    exhaustive=True,
    rule='exhaustive grid: 16 flag sets x touch in {-1,0,1,2,3,4,2^31} x critical option in {nil map, empty map, empty value, set, other key} '
         '(KeyIDs serialised without the sanity check so inconsistent ones reach GetType), nil certificate, principal lists of length 0..3, '
         'plus near-miss and non-JSON KeyIDs; every case is non-trivial; distinct = distinct argument fields.',
    trusted_base=JSON_TB,
    assumptions=['GetPrincipals: a nil result and an empty result are identified'],
 ),
}

NOT_APPLICABLE = {}

_NOTE = ('Trusted: Lean 4.33 kernel (axioms propext, Classical.choice, Quot.sound only; audited per theorem on every run), '
         'the go/ast translator /verif/extract, the overlay harness + Lean driver + bin/check; ')

MANIFEST_TEXT = {
 'C05': dict(
    text='Lean theorems for every KeyID value and every JSON token tree: Marshal succeeds iff version 1 and consistent; Unmarshal(Marshal k) = k; '
         'Unmarshal returns only version-1, consistent KeyIDs whose text had all eleven required members. Tables, tags and both sanity checkers are '
         'regenerated from keyid.go each run and proved equal to the specification constants; the hand-written decoder model is tied by differential runs against keyid.Marshal/Unmarshal.',
    design_ref='DESIGN.md §7 C05, §6.1',
    note=_NOTE + "encoding/json's lexer is trusted (token trees come from Go); its struct-decoding rules are modelled and correspondence-tested, not verified.",
    technique='Lean 4 proof (round-trip + decision logic) over regenerated tables, plus model/implementation correspondence'),
 'C19': dict(
    text='Lean theorems: the regenerated GetType cascade equals the decision table of the statement for every certificate (all touch-policy integers), depends only on the five named inputs, '
         'nonce/firefighter precedence, unknown-iff, label and principal-suffix rules; exhaustive correspondence over the finite attribute grid against GetType/Label/GetPrincipals.',
    design_ref='DESIGN.md §7 C19',
    note=_NOTE + 'KeyID decoding as in C05.',
    technique='Lean 4 proof over the translated switch cascade, exhaustive correspondence on the attribute grid'),
}
