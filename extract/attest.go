package main

import (
	"crypto"
	"crypto/x509"
	"fmt"
	"go/ast"
	"go/token"
	"strconv"
	"strings"
)

// standard-library constants the anchored code refers to, evaluated by the
// compiler that builds this translator (same toolchain as the repository)
var stdConsts = map[string]int{
	"x509.UnknownSignatureAlgorithm": int(x509.UnknownSignatureAlgorithm),
	"x509.MD2WithRSA":                int(x509.MD2WithRSA), "x509.MD5WithRSA": int(x509.MD5WithRSA),
	"x509.SHA1WithRSA": int(x509.SHA1WithRSA), "x509.SHA256WithRSA": int(x509.SHA256WithRSA),
	"x509.SHA384WithRSA": int(x509.SHA384WithRSA), "x509.SHA512WithRSA": int(x509.SHA512WithRSA),
	"x509.DSAWithSHA1": int(x509.DSAWithSHA1), "x509.DSAWithSHA256": int(x509.DSAWithSHA256),
	"x509.ECDSAWithSHA1": int(x509.ECDSAWithSHA1), "x509.ECDSAWithSHA256": int(x509.ECDSAWithSHA256),
	"x509.ECDSAWithSHA384": int(x509.ECDSAWithSHA384), "x509.ECDSAWithSHA512": int(x509.ECDSAWithSHA512),
	"x509.SHA256WithRSAPSS": int(x509.SHA256WithRSAPSS), "x509.SHA384WithRSAPSS": int(x509.SHA384WithRSAPSS),
	"x509.SHA512WithRSAPSS": int(x509.SHA512WithRSAPSS), "x509.PureEd25519": int(x509.PureEd25519),
	"crypto.MD4": int(crypto.MD4), "crypto.MD5": int(crypto.MD5), "crypto.SHA1": int(crypto.SHA1), "crypto.SHA224": int(crypto.SHA224),
	"crypto.SHA256": int(crypto.SHA256), "crypto.SHA384": int(crypto.SHA384), "crypto.SHA512": int(crypto.SHA512),
	"crypto.MD5SHA1": int(crypto.MD5SHA1), "crypto.RIPEMD160": int(crypto.RIPEMD160),
}

func stdConst(f *File, e ast.Expr) (int, bool) {
	v, ok := stdConsts[f.src(e)]
	return v, ok
}

func byteElems(f *File, e ast.Expr) ([]byte, bool) {
	cl, ok := e.(*ast.CompositeLit)
	if !ok {
		return nil, false
	}
	var out []byte
	for _, el := range cl.Elts {
		bl, ok := el.(*ast.BasicLit)
		if !ok || bl.Kind != token.INT {
			return nil, false
		}
		v, err := strconv.ParseInt(bl.Value, 0, 16)
		if err != nil || v < 0 || v > 255 {
			return nil, false
		}
		out = append(out, byte(v))
	}
	return out, true
}

func genAttest() (string, string) {
	f := parseFile(*repo, "attestation/yubiattest/signature.go")
	g := parseFile(*repo, "attestation/yubiattest/attest.go")
	h := parseFile(*repo, "attestation/yubiattest/modhex.go")
	var b strings.Builder
	b.WriteString("import Ysshra.Model.Pkcs1\nimport Ysshra.Gen.KeyId\nnamespace Ysshra.Gen.Attest\nopen Ysshra Ysshra.Pkcs1\n\n")

	for _, tbl := range []string{"hashPrefixes1", "hashPrefixes2"} {
		kvs, node := mapLiteral(f, tbl)
		if node != nil {
			b.WriteString(f.prov(tbl, node) + "\n")
		}
		fmt.Fprintf(&b, "/-- (crypto.Hash number, prefix bytes) -/\ndef %s : List (Nat × Bytes) := [\n", tbl)
		var rows []string
		for _, kv := range kvs {
			k, ok1 := stdConst(f, kv[0])
			v, ok2 := byteElems(f, kv[1])
			if !ok1 || !ok2 {
				rows = append(rows, fmt.Sprintf("  Gen.KeyId.untranslatable %q", f.pos(kv[0])))
				continue
			}
			rows = append(rows, fmt.Sprintf("  (%d, %s)", k, leanBytes(v)))
		}
		b.WriteString(strings.Join(rows, ",\n") + "\n]\n\n")
	}

	// the algorithm switch of checkSignature
	if fd := f.funcDecl("checkSignature"); fd != nil {
		var sw *ast.SwitchStmt
		var tsw *ast.TypeSwitchStmt
		ast.Inspect(fd.Body, func(n ast.Node) bool {
			if s, ok := n.(*ast.SwitchStmt); ok && sw == nil && s.Tag != nil {
				sw = s
			}
			if s, ok := n.(*ast.TypeSwitchStmt); ok && tsw == nil {
				tsw = s
			}
			return true
		})
		if sw != nil {
			b.WriteString(f.prov("algoSwitch", sw) + "\n")
			fmt.Fprintf(&b, "/-- `switch %s { … }` of checkSignature -/\ndef algoSwitch (algo : Nat) : AlgoRes :=\n", f.src(sw.Tag))
			def := ".unsupported"
			var lines []string
			for _, c := range sw.Body.List {
				cc := c.(*ast.CaseClause)
				res := ""
				if len(cc.Body) == 1 {
					switch x := cc.Body[0].(type) {
					case *ast.AssignStmt:
						if v, ok := stdConst(f, x.Rhs[0]); ok && f.src(x.Lhs[0]) == "hashType" {
							res = fmt.Sprintf(".hash %d", v)
						}
					case *ast.ReturnStmt:
						s := f.src(x.Results[0])
						if strings.HasPrefix(s, "x509.InsecureAlgorithmError(") {
							res = ".insecure"
						} else if s == "x509.ErrUnsupportedAlgorithm" {
							res = ".unsupported"
						}
					}
				}
				if res == "" {
					res = fmt.Sprintf("Gen.KeyId.untranslatable %q", f.pos(cc))
				}
				if cc.List == nil {
					def = res
					continue
				}
				var conds []string
				for _, e := range cc.List {
					if v, ok := stdConst(f, e); ok {
						conds = append(conds, fmt.Sprintf("algo == %d", v))
					} else {
						conds = append(conds, fmt.Sprintf("Gen.KeyId.untranslatable %q", f.pos(e)))
					}
				}
				lines = append(lines, fmt.Sprintf("  if %s then %s else", strings.Join(conds, " || "), res))
			}
			b.WriteString(strings.Join(lines, "\n") + "\n  " + def + "\n\n")
		}
		if tsw != nil {
			var types []string
			for _, c := range tsw.Body.List {
				cc := c.(*ast.CaseClause)
				for _, e := range cc.List {
					types = append(types, f.src(e))
				}
				if cc.List == nil {
					types = append(types, "default")
				}
			}
			b.WriteString(f.prov("keyTypes", tsw) + "\n")
			fmt.Fprintf(&b, "/-- dynamic types accepted by the type switch on the public key -/\ndef keyTypes : List Str := %s\n\n", leanStrList(types))
		}
		// statements after the type switch (the fall-through return)
		last := fd.Body.List[len(fd.Body.List)-1]
		fmt.Fprintf(&b, "def checkSignatureLast : Str := %s\n\n", leanStr(f.src(last)))
	}

	// Attest: the two steps in order
	if fd := g.method("Attestor", "Attest"); fd != nil {
		var steps []string
		for _, s := range fd.Body.List {
			steps = append(steps, strings.Join(strings.Fields(g.src(s)), " "))
		}
		b.WriteString(g.prov("attestSteps", fd) + "\n")
		fmt.Fprintf(&b, "def attestSteps : List Str := %s\n\n", leanStrList(steps))
	}

	// the guards and constants of verifyPKCS1v15 that the model transliterates
	if fd := f.funcDecl("verifyPKCS1v15"); fd != nil {
		var stmts []string
		for _, s := range fd.Body.List {
			stmts = append(stmts, strings.Join(strings.Fields(f.src(s)), " "))
		}
		b.WriteString(f.prov("verifyStmts", fd) + "\n")
		fmt.Fprintf(&b, "/-- the statements of verifyPKCS1v15, whitespace-normalised -/\ndef verifyStmts : List Str := %s\n\n", leanStrList(stmts))
	}
	if fd := f.funcDecl("leftPad"); fd != nil {
		var stmts []string
		for _, s := range fd.Body.List {
			stmts = append(stmts, strings.Join(strings.Fields(f.src(s)), " "))
		}
		b.WriteString(f.prov("leftPadStmts", fd) + "\n")
		fmt.Fprintf(&b, "def leftPadStmts : List Str := %s\n\n", leanStrList(stmts))
	}

	// modhex.go
	gc := g.consts()
	if c, ok := gc["modHexMap"]; ok && c.IsStr {
		fmt.Fprintf(&b, "def modHexMap : Str := %s\n", leanStr(c.Str))
	}
	if fd := h.funcDecl("ModHex"); fd != nil {
		var oid string
		var lens []string
		var sliceFrom string
		ast.Inspect(fd.Body, func(n ast.Node) bool {
			switch x := n.(type) {
			case *ast.BinaryExpr:
				if x.Op == token.EQL && strings.HasSuffix(h.src(x.X), ".Id.String()") {
					oid, _ = strconv.Unquote(h.src(x.Y))
				}
			case *ast.SliceExpr:
				if strings.HasSuffix(h.src(x.X), ".Value") && x.Low != nil {
					sliceFrom = h.src(x.Low)
				}
			case *ast.SwitchStmt:
				if x.Tag != nil && h.src(x.Tag) == "len(serial)" {
					for _, c := range x.Body.List {
						for _, e := range c.(*ast.CaseClause).List {
							lens = append(lens, h.src(e))
						}
					}
				}
			}
			return true
		})
		b.WriteString(h.prov("ModHex", fd) + "\n")
		fmt.Fprintf(&b, "def serialOID : Str := %s\ndef serialLens : List Nat := [%s]\ndef serialSliceFrom : Nat := %s\n", leanStr(oid), strings.Join(lens, ", "), sliceFrom)
		// length guard before the slice expression? (added by the fix for F5)
		guard := ""
		ast.Inspect(fd.Body, func(n ast.Node) bool {
			if ifs, ok := n.(*ast.IfStmt); ok && strings.Contains(h.src(ifs.Cond), "len(ext.Value)") {
				guard = strings.Join(strings.Fields(h.src(ifs.Cond)), " ")
			}
			return true
		})
		fmt.Fprintf(&b, "def serialLenGuard : Str := %s\n", leanStr(guard))
	}

	b.WriteString("\nend Ysshra.Gen.Attest\n")
	return "Attest", b.String()
}
