package main

// Snapshot emitters: for source files whose behaviour is modelled by hand (and tied by the
// correspondence check), the statements of every function and every package-level declaration are
// regenerated as plain data.  Bridge/Snap*.lean pins them to what the model was written against:
// an edit to any of these functions makes the pinned theorem fail, which the check then reports —
// with a failing input if the harness finds one, and as a broken obligation otherwise.

import (
	"fmt"
	"go/ast"
	"os"
	"path/filepath"
	"strings"
)

type snapGroup struct {
	name  string   // Gen/Snap<name>.lean
	files []string // repo-relative
}

var snapGroups = []snapGroup{
	{"Shim", []string{"agent/shimagent/shimserver.go", "agent/shimagent/filter.go", "agent/shimagent/agent.go", "sshutils/cert/validation.go"}},
	{"Yubi", []string{"agent/yubiagent/server.go", "agent/yubiagent/client.go", "agent/yubiagent/io.go", "agent/yubiagent/message.go", "agent/yubiagent/agent.go", "agent/yubiagent/server_notwin.go"}},
	{"Message", []string{"message/marshal.go", "message/sanity.go", "message/attrs.go"}},
	{"Param", []string{"csr/param.go", "sshutils/version/sshversion.go", "csr/transid/transid.go", "common/nspolicy.go"}},
	{"Parse", []string{"attestation/yubiattest/parse.go", "attestation/yubiattest/modhex.go", "agent/utils/parse.go"}},
	{"Attest", []string{"attestation/yubiattest/attest.go", "attestation/yubiattest/signature.go"}},
	{"Tls", []string{"tlsutils/config.go", "crypki/signer.go", "crypki/conf.go", "internal/backoff/backoff.go", "internal/validate/validate.go"}},
	{"GensignAux", []string{"config/hook.go", "config/gensign.go", "gensign/regular/conf.go", "gensign/regular/key.go", "agent/ssh/agent.go", "agent/ssh/opt.go", "csr/agentkey.go", "gensign/handler.go",
		"gensign/error.go", "gensign/otel.go", "cmd/gensign/main.go", "sshutils/key/algo.go", "sshutils/key/validation.go", "csr/generator.go", "csr/signer.go"}},
	{"KeyId", []string{"keyid/keyid.go"}},
}

func defName(rel string) string {
	r := strings.NewReplacer("/", "_", ".go", "", "-", "_", ".", "_")
	return r.Replace(rel)
}

func snapFile(rel string) (string, bool) {
	full := filepath.Join(*repo, rel)
	if _, err := os.Stat(full); err != nil {
		return fmt.Sprintf("-- %s: not found\ndef %s : List (Str × List Str) := []\n", rel, defName(rel)), false
	}
	f := parseFile(*repo, rel)
	var items []string
	for _, d := range f.AST.Decls {
		switch x := d.(type) {
		case *ast.FuncDecl:
			name := x.Name.Name
			if x.Recv != nil && len(x.Recv.List) > 0 {
				name = "(" + norm(f.src(x.Recv.List[0].Type)) + ")." + name
			}
			sig := norm(f.src(x.Type))
			var st []string
			if x.Body != nil {
				for _, s := range x.Body.List {
					st = append(st, norm(stripComments(f.src(s))))
				}
			}
			items = append(items, "("+leanStr(name+" "+sig)+", "+leanStrList(st)+")")
		case *ast.GenDecl:
			if x.Tok.String() == "import" {
				continue
			}
			var specs []string
			for _, s := range x.Specs {
				specs = append(specs, norm(stripComments(f.src(s))))
			}
			items = append(items, "("+leanStr(x.Tok.String())+", "+leanStrList(specs)+")")
		}
	}
	prov := f.prov(defName(rel), f.AST)
	return fmt.Sprintf("%s\ndef %s : List (Str × List Str) := [\n  %s\n]\n", prov, defName(rel), strings.Join(items, ",\n  ")), true
}

// stripComments removes // and /* */ comments outside string literals (declaration specs may
// carry doc comments in their source range)
func stripComments(s string) string {
	var b strings.Builder
	inStr, inRaw, inChar := false, false, false
	for i := 0; i < len(s); i++ {
		c := s[i]
		switch {
		case inStr:
			b.WriteByte(c)
			if c == '\\' && i+1 < len(s) {
				i++
				b.WriteByte(s[i])
			} else if c == '"' {
				inStr = false
			}
		case inRaw:
			b.WriteByte(c)
			if c == '`' {
				inRaw = false
			}
		case inChar:
			b.WriteByte(c)
			if c == '\\' && i+1 < len(s) {
				i++
				b.WriteByte(s[i])
			} else if c == '\'' {
				inChar = false
			}
		case c == '"':
			inStr = true
			b.WriteByte(c)
		case c == '`':
			inRaw = true
			b.WriteByte(c)
		case c == '\'':
			inChar = true
			b.WriteByte(c)
		case c == '/' && i+1 < len(s) && s[i+1] == '/':
			for i < len(s) && s[i] != '\n' {
				i++
			}
			b.WriteByte('\n')
		case c == '/' && i+1 < len(s) && s[i+1] == '*':
			i += 2
			for i+1 < len(s) && !(s[i] == '*' && s[i+1] == '/') {
				i++
			}
			i++
			b.WriteByte(' ')
		default:
			b.WriteByte(c)
		}
	}
	return b.String()
}

func genSnap(g snapGroup) emitter {
	return func() (string, string) {
		var b strings.Builder
		b.WriteString("import Ysshra.Util\nset_option maxRecDepth 100000\nnamespace Ysshra.Gen.Snap" + g.name + "\nopen Ysshra\n\n")
		for _, rel := range g.files {
			body, _ := snapFile(rel)
			b.WriteString(body + "\n")
		}
		b.WriteString("end Ysshra.Gen.Snap" + g.name + "\n")
		return "Snap" + g.name, b.String()
	}
}
