package main

import (
	"fmt"
	"go/ast"
	"strings"
)

func genCrypki() (string, string) {
	sg := parseFile(*repo, "crypki/signer.go")
	tl := parseFile(*repo, "tlsutils/config.go")
	bo := parseFile(*repo, "internal/backoff/backoff.go")
	ky := parseFile(*repo, "sshutils/key/parse.go")
	var b strings.Builder
	b.WriteString("import Ysshra.Model.Crypki\nimport Ysshra.Gen.KeyId\nnamespace Ysshra.Gen.Crypki\nopen Ysshra\n\n")
	if fd := sg.method("Signer", "Sign"); fd != nil {
		fmt.Fprintf(&b, "%s\ndef signStmts : List Str := %s\n", sg.prov("Sign", fd), leanStrList(stmtList(sg, fd.Body)))
	}
	if fd := sg.method("Signer", "postUserSSHCertificate"); fd != nil {
		fmt.Fprintf(&b, "%s\ndef postStmts : List Str := %s\n", sg.prov("post", fd), leanStrList(stmtList(sg, fd.Body)))
	}
	if fd := ky.funcDecl("GetPublicKeysFromBytes"); fd != nil {
		fmt.Fprintf(&b, "%s\ndef keysFromBytesStmts : List Str := %s\n", ky.prov("GetPublicKeysFromBytes", fd), leanStrList(stmtList(ky, fd.Body)))
	}
	// NewSigner: the dial options and where the TLS config comes from
	if fd := sg.funcDecl("NewSigner"); fd != nil {
		var dial []string
		var tlsCall, credsCall string
		ast.Inspect(fd.Body, func(n ast.Node) bool {
			switch x := n.(type) {
			case *ast.CallExpr:
				fn := sg.src(x.Fun)
				if strings.HasPrefix(fn, "grpc.With") {
					arg := ""
					if len(x.Args) > 0 {
						arg = norm(sg.src(x.Args[0]))
						if len(arg) > 60 {
							arg = arg[:60]
						}
					}
					dial = append(dial, fn+"("+arg)
				}
				if fn == "tlsutils.TLSClientConfiguration" {
					tlsCall = norm(sg.src(x))
				}
				if strings.HasPrefix(fn, "credentials.") || strings.HasPrefix(fn, "insecure.") {
					credsCall = norm(sg.src(x))
				}
			}
			return true
		})
		fmt.Fprintf(&b, "%s\ndef dialOptions : List Str := %s\ndef tlsConfigCall : Str := %s\ndef credentialsCall : Str := %s\n", sg.prov("NewSigner", fd), leanStrList(dial), leanStr(tlsCall), leanStr(credsCall))
		// endpoints are used in configured order
		var epLoop string
		ast.Inspect(fd.Body, func(n ast.Node) bool {
			if rs, ok := n.(*ast.RangeStmt); ok && strings.Contains(sg.src(rs.X), "CrypkiEndpoints") {
				epLoop = norm(sg.src(rs))
			}
			return true
		})
		fmt.Fprintf(&b, "def endpointLoop : Str := %s\n", leanStr(epLoop))
	}
	// TLS configuration literal
	if fd := tl.funcDecl("TLSClientConfiguration"); fd != nil {
		b.WriteString(tl.prov("TLSClientConfiguration", fd) + "\n")
		fmt.Fprintf(&b, "/-- fields assigned in the tls.Config literal: field ↦ source expression -/\ndef tlsConfigLiteral : List (Str × Str) := %s\n", pairsLean(compositeFields(tl, fd, "tls.Config")))
		// how the pool is built
		var pool []string
		ast.Inspect(fd.Body, func(n ast.Node) bool {
			switch x := n.(type) {
			case *ast.AssignStmt:
				if len(x.Lhs) == 1 && tl.src(x.Lhs[0]) == "caCertPool" {
					pool = append(pool, norm(tl.src(x)))
				}
			case *ast.CallExpr:
				if strings.HasPrefix(tl.src(x.Fun), "caCertPool.") {
					pool = append(pool, norm(tl.src(x)))
				}
				if strings.Contains(tl.src(x.Fun), "SystemCertPool") {
					pool = append(pool, "SYSTEM:"+norm(tl.src(x)))
				}
			case *ast.RangeStmt:
				pool = append(pool, "range "+norm(tl.src(x.X)))
			}
			return true
		})
		fmt.Fprintf(&b, "def rootPoolSteps : List Str := %s\n", leanStrList(pool))
		// any later assignment to cfg.<field>
		var later []string
		ast.Inspect(fd.Body, func(n ast.Node) bool {
			if as, ok := n.(*ast.AssignStmt); ok && len(as.Lhs) == 1 && strings.HasPrefix(tl.src(as.Lhs[0]), "cfg.") {
				later = append(later, norm(tl.src(as)))
			}
			return true
		})
		fmt.Fprintf(&b, "def tlsConfigLaterAssignments : List Str := %s\n", leanStrList(later))
		// the semantic record the C18 theorems are about
		fields := map[string]string{}
		for _, kv := range compositeFields(tl, fd, "tls.Config") {
			fields[kv[0]] = kv[1]
		}
		for _, l := range later {
			if i := strings.Index(l, " = "); i > 4 {
				fields[l[4:i]] = l[i+3:]
			}
		}
		minV := "none"
		if v, ok := fields["MinVersion"]; ok {
			m := map[string]string{"tls.VersionSSL30": "0x0300", "tls.VersionTLS10": "0x0301", "tls.VersionTLS11": "0x0302", "tls.VersionTLS12": "0x0303", "tls.VersionTLS13": "0x0304", "0": ""}
			if h, ok := m[v]; ok {
				if h != "" {
					minV = "(some " + h + ")"
				}
			} else {
				minV = fmt.Sprintf("(Gen.KeyId.untranslatable %q)", "MinVersion = "+v)
			}
		}
		insecure := fields["InsecureSkipVerify"] != "" && fields["InsecureSkipVerify"] != "false"
		custom := fields["VerifyPeerCertificate"] != "" || fields["VerifyConnection"] != ""
		rootsOnly := fields["RootCAs"] == "caCertPool" && len(pool) == 3 && pool[0] == "caCertPool := x509.NewCertPool()" &&
			pool[1] == "range caCertPaths" && strings.HasPrefix(pool[2], "caCertPool.AppendCertsFromPEM(")
		clientCert := fields["GetClientCertificate"] != "" || fields["Certificates"] != ""
		fmt.Fprintf(&b, "def tlsCfg : Crypki.TlsCfg := ⟨%s, %v, %v, %v, %v⟩\n", minV, insecure, custom, rootsOnly, clientCert)
	}
	// back-off
	if fd := bo.method("Config", "Backoff"); fd != nil {
		fmt.Fprintf(&b, "%s\ndef backoffStmts : List Str := %s\n", bo.prov("Backoff", fd), leanStrList(stmtList(bo, fd.Body)))
	}
	for _, d := range bo.AST.Decls {
		if gd, ok := d.(*ast.GenDecl); ok {
			for _, s := range gd.Specs {
				if vs, ok := s.(*ast.ValueSpec); ok && len(vs.Names) == 1 && vs.Names[0].Name == "DefaultConfig" && len(vs.Values) == 1 {
					if cl, ok := vs.Values[0].(*ast.CompositeLit); ok {
						var ps [][2]string
						for _, e := range cl.Elts {
							if kv, ok := e.(*ast.KeyValueExpr); ok {
								ps = append(ps, [2]string{bo.src(kv.Key), norm(bo.src(kv.Value))})
							}
						}
						fmt.Fprintf(&b, "def defaultBackoff : List (Str × Str) := %s\n", pairsLean(ps))
					}
				}
			}
		}
	}
	b.WriteString("\nend Ysshra.Gen.Crypki\n")
	return "Crypki", b.String()
}
