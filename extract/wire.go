package main

import (
	"fmt"
	"go/ast"
	"go/token"
	"strings"
)

func arrayFieldLen(f *File, typeName, field string) string {
	for _, d := range f.AST.Decls {
		gd, ok := d.(*ast.GenDecl)
		if !ok || gd.Tok != token.TYPE {
			continue
		}
		for _, s := range gd.Specs {
			ts := s.(*ast.TypeSpec)
			st, ok := ts.Type.(*ast.StructType)
			if !ok || ts.Name.Name != typeName {
				continue
			}
			for _, fl := range st.Fields.List {
				for _, n := range fl.Names {
					if n.Name == field {
						if at, ok := fl.Type.(*ast.ArrayType); ok && at.Len != nil {
							return f.src(at.Len)
						}
					}
				}
			}
		}
	}
	return ""
}

func norm(s string) string { return strings.Join(strings.Fields(s), " ") }

func genWire() (string, string) {
	msg := parseFile(*repo, "agent/yubiagent/message.go")
	io1 := parseFile(*repo, "agent/yubiagent/io.go")
	srv := parseFile(*repo, "agent/yubiagent/server.go")
	cli := parseFile(*repo, "agent/yubiagent/client.go")
	shim := parseFile(*repo, "agent/shimagent/shimserver.go")
	var b strings.Builder
	b.WriteString("import Ysshra.Model.Wire\nimport Ysshra.Gen.KeyId\nnamespace Ysshra.Gen.Wire\nopen Ysshra\n\n")

	mc := msg.consts()
	codeNames := []string{"AgentMessageAddHardCert", "AgentMessageListSlots", "AgentMessageReadSlot", "AgentMessageAttestSlot", "AgentMessageWait",
		"AgentMessageRequestV1Identities", "AgentMessageRequestIdentities", "AgentMessageSignRequest", "AgentMessageAddIdentity",
		"AgentMessageRemoveIdentity", "AgentMessageRemoveAllIdentities", "AgentMessageAddIDConstrained", "AgentMessageLock", "AgentMessageUnlock",
		"AgentMessageAddSmartcardKey", "AgentMessageRemoveSmartcardKey", "AgentMessageAddSmartcardKeyConstrained"}
	for _, n := range codeNames {
		if c, ok := mc[n]; ok {
			fmt.Fprintf(&b, "def %s : Nat := %d\n", n, c.Int)
		} else {
			fmt.Fprintf(&b, "-- constant %s not found\n", n)
		}
	}
	if c, ok := io1.consts()["maxAgentResponseBytes"]; ok {
		fmt.Fprintf(&b, "def maxAgentResponseBytes_yubiagent : Nat := %d\n", c.Int)
	}
	if c, ok := shim.consts()["maxAgentResponseBytes"]; ok {
		fmt.Fprintf(&b, "def maxAgentResponseBytes_shimagent : Nat := %d\n", c.Int)
	}
	// the framed read of both packages, statement by statement
	for _, pf := range []struct {
		f    *File
		name string
	}{{io1, "yubiagent"}, {shim, "shimagent"}} {
		for _, fn := range []string{"read", "write"} {
			if fd := pf.f.funcDecl(fn); fd != nil {
				var st []string
				for _, s := range fd.Body.List {
					st = append(st, norm(pf.f.src(s)))
				}
				fmt.Fprintf(&b, "%s\ndef %sStmts_%s : List Str := %s\n", pf.f.prov(fn+"_"+pf.name, fd), fn, pf.name, leanStrList(st))
			}
		}
	}

	// ServeAgent
	if fd := srv.funcDecl("ServeAgent"); fd != nil {
		b.WriteString("\n" + srv.prov("ServeAgent", fd) + "\n")
		var sw *ast.SwitchStmt
		type grd struct {
			pos    token.Pos
			ensure int
		}
		var grds []grd
		type idx struct {
			pos token.Pos
			k   int
		}
		var idxs []idx
		broadcastPos, switchPos := token.NoPos, token.NoPos
		ast.Inspect(fd.Body, func(n ast.Node) bool {
			switch x := n.(type) {
			case *ast.SwitchStmt:
				if sw == nil && x.Tag != nil && srv.src(x.Tag) == "req[0]" {
					sw = x
					switchPos = x.Pos()
				}
			case *ast.IfStmt:
				c := norm(srv.src(x.Cond))
				returns := false
				if len(x.Body.List) > 0 {
					_, returns = x.Body.List[len(x.Body.List)-1].(*ast.ReturnStmt)
				}
				if returns && c == "len(req) == 0" {
					grds = append(grds, grd{x.End(), 1})
				} else if returns && strings.HasPrefix(c, "len(req) < ") {
					var m int
					if _, err := fmt.Sscanf(c, "len(req) < %d", &m); err == nil {
						grds = append(grds, grd{x.End(), m})
					}
				}
			case *ast.IndexExpr:
				if srv.src(x.X) == "req" {
					var k int
					if _, err := fmt.Sscanf(srv.src(x.Index), "%d", &k); err == nil {
						idxs = append(idxs, idx{x.Pos(), k})
					} else {
						idxs = append(idxs, idx{x.Pos(), 1 << 30})
					}
				}
			case *ast.CallExpr:
				if strings.HasSuffix(srv.src(x.Fun), ".Broadcast") && broadcastPos == token.NoPos {
					broadcastPos = x.Pos()
					fmt.Fprintf(&b, "def broadcastArg : Str := %s\n", leanStr(norm(srv.src(x.Args[0]))))
				}
			}
			return true
		})
		var gi []string
		for _, ix := range idxs {
			ok := false
			for _, g := range grds {
				if g.pos < ix.pos && g.ensure >= ix.k+1 {
					ok = true
				}
			}
			gi = append(gi, fmt.Sprintf("(%d, %v)", ix.k, ok))
		}
		fmt.Fprintf(&b, "/-- every `req[k]` of ServeAgent with: is it preceded by a returning guard that ensures len(req) > k -/\ndef reqIndexGuarded : List (Nat × Bool) := [%s]\n", strings.Join(gi, ", "))
		fmt.Fprintf(&b, "def broadcastBeforeDispatch : Bool := %v\n", broadcastPos != token.NoPos && switchPos != token.NoPos && broadcastPos < switchPos)
		if sw != nil {
			b.WriteString("/-- the dispatch partition: case constants and the agent call of each branch -/\ndef dispatch : List (List Nat × Str) := [\n")
			var rows []string
			for _, c := range sw.Body.List {
				cc := c.(*ast.CaseClause)
				var codes []string
				for _, e := range cc.List {
					if cst, ok := mc[srv.src(e)]; ok {
						codes = append(codes, fmt.Sprint(cst.Int))
					} else {
						codes = append(codes, "999999")
					}
				}
				call := ""
				for _, s := range cc.Body {
					ast.Inspect(s, func(n ast.Node) bool {
						if ce, ok := n.(*ast.CallExpr); ok && call == "" {
							fn := srv.src(ce.Fun)
							if strings.HasPrefix(fn, "agent.") || fn == "sshagent.ServeAgent" || fn == "serveStandardRequest" {
								call = fn
							}
						}
						return true
					})
				}
				rows = append(rows, fmt.Sprintf("  ([%s], %s)", strings.Join(codes, ", "), leanStr(call)))
			}
			b.WriteString(strings.Join(rows, ",\n") + "\n]\n")
		}
		var lits []string
		ast.Inspect(fd.Body, func(n ast.Node) bool {
			if bl, ok := n.(*ast.BasicLit); ok && bl.Kind == token.STRING {
				lits = append(lits, bl.Value)
			}
			return true
		})
		fmt.Fprintf(&b, "def serveStringLits : List Str := %s\n", leanStrList(lits))
	}
	// the standard-request wrapper must recover
	rec := false
	if fd := srv.funcDecl("serveStandardRequest"); fd != nil {
		ast.Inspect(fd.Body, func(n ast.Node) bool {
			if ce, ok := n.(*ast.CallExpr); ok && srv.src(ce.Fun) == "recover" {
				rec = true
			}
			return true
		})
	}
	fmt.Fprintf(&b, "def stdRequestRecovers : Bool := %v\n", rec)

	// ListSlots line rule
	if fd := srv.method("server", "ListSlots"); fd != nil {
		var cond, slice string
		ast.Inspect(fd.Body, func(n ast.Node) bool {
			switch x := n.(type) {
			case *ast.IfStmt:
				if strings.Contains(srv.src(x.Cond), "len(line)") {
					cond = norm(srv.src(x.Cond))
				}
			case *ast.SliceExpr:
				if srv.src(x.X) == "line" && x.Low != nil && srv.src(x.Low) != "" && x.High != nil && srv.src(x.High) != "4" {
					slice = norm(srv.src(x))
				}
			}
			return true
		})
		fmt.Fprintf(&b, "%s\ndef listSlotsCond : Str := %s\ndef listSlotsSlice : Str := %s\n", srv.prov("ListSlots", fd), leanStr(cond), leanStr(slice))
	}
	// remote-mode refusals
	var remote []string
	for _, m := range []string{"ListSlots", "ReadSlot", "AttestSlot"} {
		if fd := srv.method("server", m); fd != nil && len(fd.Body.List) > 0 {
			remote = append(remote, m+": "+norm(srv.src(fd.Body.List[0]))[:30])
		}
	}
	fmt.Fprintf(&b, "def remoteGuards : List Str := %s\n", leanStrList(remote))

	// client: SUCCESS comparisons
	var cl []string
	ast.Inspect(cli.AST, func(n ast.Node) bool {
		if be, ok := n.(*ast.BinaryExpr); ok && strings.Contains(cli.src(be), "SUCCESS") {
			cl = append(cl, norm(cli.src(be)))
		}
		return true
	})
	fmt.Fprintf(&b, "def clientSuccessTests : List Str := %s\n", leanStrList(cl))

	// shimagent: condition-variable table
	fmt.Fprintf(&b, "\ndef condsLen : Nat := %s\n", func() string {
		if l := arrayFieldLen(shim, "Server", "conds"); l != "" {
			return l
		}
		return "0"
	}())
	for _, m := range []string{"Broadcast", "Wait"} {
		if fd := shim.method("Server", m); fd != nil {
			var st []string
			for _, s := range fd.Body.List {
				st = append(st, norm(shim.src(s)))
			}
			fmt.Fprintf(&b, "%s\ndef %sStmts : List Str := %s\n", shim.prov(m, fd), strings.ToLower(m), leanStrList(st))
		}
	}
	b.WriteString("\nend Ysshra.Gen.Wire\n")
	return "Wire", b.String()
}
