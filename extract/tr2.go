package main

import (
	"go/ast"
	"go/token"
	"strings"
)

// valBody translates the statement list of a value-returning function:
//
//	x := e
//	if p == nil { return e }            (p a pointer parameter → match on Option)
//	a, err := CALL ; if err != nil { return e }     (→ match on Except)
//	switch { case c: v = e … }          (→ let v := if-chain)
//	switch tag { case A, B: return e; case C: fallthrough; default: return e }
//	if c { return e }
//	return e
func (t *Tr) valBody(stmts []ast.Stmt) string {
	if len(stmts) == 0 {
		return "(untranslatable \"fell off the end\")"
	}
	s := stmts[0]
	rest := stmts[1:]
	switch x := s.(type) {
	case *ast.ReturnStmt:
		if len(x.Results) == 1 {
			return t.retVal(x.Results[0])
		}
	case *ast.AssignStmt:
		if x.Tok == token.DEFINE && len(x.Lhs) == 1 && len(x.Rhs) == 1 {
			return "let " + t.F.src(x.Lhs[0]) + " := " + t.expr(x.Rhs[0]) + "\n  " + t.valBody(rest)
		}
		if x.Tok == token.DEFINE && len(x.Lhs) == 2 && len(x.Rhs) == 1 && t.F.src(x.Lhs[1]) == "err" && len(rest) > 0 {
			if ifs, ok := rest[0].(*ast.IfStmt); ok && t.F.src(ifs.Cond) == "err != nil" && ifs.Else == nil && len(ifs.Body.List) == 1 {
				if r, ok := ifs.Body.List[0].(*ast.ReturnStmt); ok && len(r.Results) == 1 {
					return "match " + t.expr(x.Rhs[0]) + " with\n  | .error _ => " + t.retVal(r.Results[0]) +
						"\n  | .ok " + t.F.src(x.Lhs[0]) + " =>\n  " + t.valBody(rest[1:])
				}
			}
		}
	case *ast.DeclStmt:
		// `var x T` — zero value; only for result accumulators we know
		return t.bad(s, "var declaration")
	case *ast.IfStmt:
		if x.Init == nil && x.Else == nil && len(x.Body.List) == 1 {
			if r, ok := x.Body.List[0].(*ast.ReturnStmt); ok && len(r.Results) == 1 {
				if b, ok := x.Cond.(*ast.BinaryExpr); ok && b.Op == token.EQL {
					if id, ok := b.X.(*ast.Ident); ok && t.Ptr[id.Name] && t.F.src(b.Y) == "nil" {
						return "match " + id.Name + " with\n  | none => " + t.retVal(r.Results[0]) +
							"\n  | some " + id.Name + " =>\n  " + t.valBody(rest)
					}
				}
				return "if " + t.expr(x.Cond) + " then " + t.retVal(r.Results[0]) + " else\n  " + t.valBody(rest)
			}
		}
	case *ast.SwitchStmt:
		if x.Tag == nil {
			v := firstAssigned(x)
			if v == "" {
				return t.bad(s, "switch without assignment")
			}
			return "let " + v + " := " + t.switchAssign(v, x, v) + "\n  " + t.valBody(rest)
		}
		return t.switchReturn(x, rest)
	}
	return t.bad(s, "statement")
}

func (t *Tr) retVal(e ast.Expr) string {
	if id, ok := e.(*ast.Ident); ok && id.Name == "nil" {
		return t.NilVal
	}
	if t.isErrCtor(e) {
		return t.ErrVal
	}
	return t.expr(e)
}

func firstAssigned(sw *ast.SwitchStmt) string {
	for _, c := range sw.Body.List {
		for _, s := range c.(*ast.CaseClause).Body {
			if a, ok := s.(*ast.AssignStmt); ok && len(a.Lhs) == 1 {
				if id, ok := a.Lhs[0].(*ast.Ident); ok {
					return id.Name
				}
			}
		}
	}
	return ""
}

// switchReturn: `switch tag { case A, B: return e … }` where every case
// returns (or falls through); cases that do not return continue with rest.
func (t *Tr) switchReturn(sw *ast.SwitchStmt, rest []ast.Stmt) string {
	tag := t.expr(sw.Tag)
	type cs struct {
		cond string
		body []ast.Stmt
	}
	var cases []cs
	var def []ast.Stmt
	hasDef := false
	var pending []string
	for _, c := range sw.Body.List {
		cc := c.(*ast.CaseClause)
		if cc.List == nil {
			def = cc.Body
			hasDef = true
			continue
		}
		var conds []string
		for _, e := range cc.List {
			conds = append(conds, "("+tag+" == "+t.expr(e)+")")
		}
		if len(cc.Body) == 1 {
			if b, ok := cc.Body[0].(*ast.BranchStmt); ok && b.Tok == token.FALLTHROUGH {
				pending = append(pending, conds...)
				continue
			}
		}
		conds = append(pending, conds...)
		pending = nil
		cases = append(cases, cs{strings.Join(conds, " || "), cc.Body})
	}
	var out string
	if hasDef {
		out = t.valBody(append(append([]ast.Stmt{}, def...), rest...))
	} else {
		out = t.valBody(rest)
	}
	for i := len(cases) - 1; i >= 0; i-- {
		body := t.valBody(append(append([]ast.Stmt{}, cases[i].body...), rest...))
		out = "if " + cases[i].cond + " then " + body + "\n  else " + out
	}
	return out
}

// mapLoop recognises
//
//	var out []T ; for _, p := range xs { out = append(out, E) } ; return out
//
// and yields `xs.map (fun p => E)`.
func (t *Tr) mapLoop(fd *ast.FuncDecl) string {
	b := fd.Body.List
	if len(b) == 3 {
		if _, ok := b[0].(*ast.DeclStmt); ok {
			if rs, ok := b[1].(*ast.RangeStmt); ok && len(rs.Body.List) == 1 {
				if as, ok := rs.Body.List[0].(*ast.AssignStmt); ok && len(as.Rhs) == 1 {
					if call, ok := as.Rhs[0].(*ast.CallExpr); ok && t.F.src(call.Fun) == "append" && len(call.Args) == 2 {
						if _, ok := b[2].(*ast.ReturnStmt); ok && rs.Value != nil {
							return "(" + t.expr(rs.X) + ").map (fun " + t.F.src(rs.Value) + " => " + t.expr(call.Args[1]) + ")"
						}
					}
				}
			}
		}
	}
	return t.bad(fd, "not a map loop")
}
