package main

// csr/param.go, sshutils/version/sshversion.go, common/nspolicy.go: `parseForceCommand`,
// `version.Unmarshal` and `ValidNamespacePolicy` translated statement by statement into Lean
// definitions over Go's own semantics (int-valued lengths and indices, index and slice
// expressions that can panic, error-returning calls); Bridge/Param.lean proves them equal to the
// hand-written model for all inputs, and in particular that no index or slice expression panics.

import (
	"fmt"
	"go/ast"
	"go/token"
	"strconv"
	"strings"
)

// seqTr translates a straight-line function body into a Lean term of type `Res α`.
type seqTr struct {
	t *Tr
	// functions returning (value, error): Go name ↦ Lean function into Option
	errCalls map[string]string
	// conversions that are the identity on the model's representation
	idConv map[string]bool
	n      int
}

// hoisted: index / slice expressions bound before the statement that uses them
type hoist struct{ v, e string }

func (s *seqTr) fresh() string { s.n++; return fmt.Sprintf("v%d", s.n) }

// ex translates an expression; index and slice expressions are replaced by fresh variables and
// returned as hoists (each is a Lean term of type `Option _`, `none` = the expression panics).
func (s *seqTr) ex(e ast.Expr, hs *[]hoist) string {
	t := s.t
	switch x := e.(type) {
	case *ast.ParenExpr:
		return s.ex(x.X, hs)
	case *ast.BasicLit:
		switch x.Kind {
		case token.INT:
			return "(" + x.Value + " : Int)"
		case token.STRING:
			v, _ := strconv.Unquote(x.Value)
			return leanBytes([]byte(v))
		}
	case *ast.Ident:
		if v, ok := t.name(x.Name); ok {
			return v
		}
		return x.Name
	case *ast.SelectorExpr:
		if v, ok := t.name(t.F.src(x)); ok {
			return v
		}
	case *ast.UnaryExpr:
		if x.Op == token.NOT {
			return "(!" + s.ex(x.X, hs) + ")"
		}
	case *ast.BinaryExpr:
		l, r := s.ex(x.X, hs), s.ex(x.Y, hs)
		switch x.Op {
		case token.LSS, token.GTR, token.LEQ, token.GEQ:
			return "(decide (" + l + " " + x.Op.String() + " " + r + "))"
		case token.ADD, token.SUB:
			return "(" + l + " " + x.Op.String() + " " + r + ")"
		case token.LAND:
			return "(" + l + " && " + r + ")"
		case token.LOR:
			return "(" + l + " || " + r + ")"
		}
	case *ast.IndexExpr:
		v := s.fresh()
		*hs = append(*hs, hoist{v, "(GoSem.index " + s.ex(x.X, hs) + " " + s.ex(x.Index, hs) + ")"})
		return v
	case *ast.SliceExpr:
		if x.Slice3 {
			break
		}
		lo, hi := "none", "none"
		if x.Low != nil {
			lo = "(some " + s.ex(x.Low, hs) + ")"
		}
		if x.High != nil {
			hi = "(some " + s.ex(x.High, hs) + ")"
		}
		v := s.fresh()
		*hs = append(*hs, hoist{v, "(GoSem.slice " + s.ex(x.X, hs) + " " + lo + " " + hi + ")"})
		return v
	case *ast.CallExpr:
		fn := t.F.src(x.Fun)
		if fn == "len" && len(x.Args) == 1 {
			return "(GoSem.len " + s.ex(x.Args[0], hs) + ")"
		}
		if s.idConv[fn] && len(x.Args) == 1 {
			return s.ex(x.Args[0], hs)
		}
		if v, ok := t.name(fn); ok {
			var args []string
			for _, a := range x.Args {
				args = append(args, s.ex(a, hs))
			}
			return "(" + v + " " + strings.Join(args, " ") + ")"
		}
	}
	return t.bad(e, "expression "+t.F.src(e))
}

func wrapHoists(hs []hoist, body string, ind string) string {
	for i := len(hs) - 1; i >= 0; i-- {
		body = fmt.Sprintf("match %s with\n%s| none => .crash\n%s| some %s =>\n%s%s", hs[i].e, ind, ind, hs[i].v, ind+"  ", body)
	}
	return body
}

// isErrReturn: `return …, <error value>` where the last result is not nil
func (s *seqTr) isErrReturn(st ast.Stmt) bool {
	rs, ok := st.(*ast.ReturnStmt)
	if !ok || len(rs.Results) == 0 {
		return false
	}
	last := rs.Results[len(rs.Results)-1]
	if id, ok := last.(*ast.Ident); ok {
		return id.Name == "err"
	}
	return s.t.isErrCtor(last)
}

// stmts translates a statement list ending in a return.
func (s *seqTr) stmts(list []ast.Stmt, ind string) string {
	t := s.t
	if len(list) == 0 {
		return "(untranslatable \"function body falls off the end\")"
	}
	st, rest := list[0], list[1:]
	src := norm(t.F.src(st))
	switch x := st.(type) {
	case *ast.DeclStmt:
		// var X []T
		if gd, ok := x.Decl.(*ast.GenDecl); ok && gd.Tok == token.VAR && len(gd.Specs) == 1 {
			vs := gd.Specs[0].(*ast.ValueSpec)
			if _, isArr := vs.Type.(*ast.ArrayType); isArr && len(vs.Names) == 1 && len(vs.Values) == 0 {
				return fmt.Sprintf("let %s : List Bytes := []\n%s%s", vs.Names[0].Name, ind, s.stmts(rest, ind))
			}
		}
	case *ast.RangeStmt:
		// for _, V := range E { X = append(X, F(V)...) }
		if x.Key != nil && t.F.src(x.Key) == "_" && x.Value != nil && len(x.Body.List) == 1 {
			if as, ok := x.Body.List[0].(*ast.AssignStmt); ok && as.Tok == token.ASSIGN && len(as.Lhs) == 1 && len(as.Rhs) == 1 {
				if call, ok := as.Rhs[0].(*ast.CallExpr); ok && t.F.src(call.Fun) == "append" && len(call.Args) == 2 && call.Ellipsis.IsValid() &&
					t.F.src(call.Args[0]) == t.F.src(as.Lhs[0]) {
					var hs []hoist
					acc, v := t.F.src(as.Lhs[0]), t.F.src(x.Value)
					elem := s.ex(call.Args[1], &hs)
					coll := s.ex(x.X, &hs)
					if len(hs) == 0 {
						return fmt.Sprintf("let %s := (%s).foldl (fun %s %s => %s ++ %s) %s\n%s%s", acc, coll, acc, v, acc, elem, acc, ind, s.stmts(rest, ind))
					}
				}
			}
		}
	case *ast.AssignStmt:
		if x.Tok == token.DEFINE && len(x.Lhs) == 1 && len(x.Rhs) == 1 {
			var hs []hoist
			e := s.ex(x.Rhs[0], &hs)
			body := fmt.Sprintf("let %s := %s\n%s%s", t.F.src(x.Lhs[0]), e, ind, s.stmts(rest, ind))
			return wrapHoists(hs, body, ind)
		}
		// X, err := F(args)  followed by  if err != nil { return …, err }
		if (x.Tok == token.DEFINE || x.Tok == token.ASSIGN) && len(x.Lhs) == 2 && len(x.Rhs) == 1 && t.F.src(x.Lhs[1]) == "err" && len(rest) > 0 {
			if call, ok := x.Rhs[0].(*ast.CallExpr); ok {
				if lf, ok := s.errCalls[t.F.src(call.Fun)]; ok {
					if ifs, ok := rest[0].(*ast.IfStmt); ok && ifs.Init == nil && ifs.Else == nil && norm(t.F.src(ifs.Cond)) == "err != nil" &&
						len(ifs.Body.List) == 1 && s.isErrReturn(ifs.Body.List[0]) {
						var hs []hoist
						var args []string
						for _, a := range call.Args {
							args = append(args, s.ex(a, &hs))
						}
						body := fmt.Sprintf("match %s %s with\n%s| none => .err\n%s| some %s =>\n%s  %s", lf, strings.Join(args, " "), ind, ind,
							t.F.src(x.Lhs[0]), ind, s.stmts(rest[1:], ind+"  "))
						return wrapHoists(hs, body, ind)
					}
				}
			}
		}
	case *ast.IfStmt:
		// if C { return <error> } [else if C2 { return <error> }]…
		if x.Init == nil && len(x.Body.List) == 1 && s.isErrReturn(x.Body.List[0]) {
			var hs []hoist
			c := s.ex(x.Cond, &hs)
			var tail string
			switch el := x.Else.(type) {
			case nil:
				tail = s.stmts(rest, ind)
			case *ast.IfStmt:
				tail = s.stmts(append([]ast.Stmt{el}, rest...), ind)
			default:
				tail = t.bad(x, "else branch "+src)
			}
			return wrapHoists(hs, fmt.Sprintf("if %s then .err else\n%s%s", c, ind, tail), ind)
		}
	case *ast.ReturnStmt:
		if len(rest) == 0 && len(x.Results) >= 2 {
			if id, ok := x.Results[len(x.Results)-1].(*ast.Ident); ok && id.Name == "nil" {
				var hs []hoist
				var vals []string
				for _, r := range x.Results[:len(x.Results)-1] {
					vals = append(vals, s.ex(r, &hs))
				}
				v := vals[0]
				if len(vals) > 1 {
					v = "(" + strings.Join(vals, ", ") + ")"
				}
				return wrapHoists(hs, ".ok "+v, ind)
			}
		}
	}
	return t.bad(st, "statement "+src)
}

func genParam() (string, string) {
	var b strings.Builder
	b.WriteString("import Ysshra.Model.GoSem\nnamespace Ysshra.Gen.Param\nopen Ysshra Ysshra.Message\n\n")
	b.WriteString(untranslatableDecl() + "\n")

	// ---- common/nspolicy.go: the table of valid policies and the membership test
	ns := parseFile(*repo, "common/nspolicy.go")
	consts := ns.consts()
	var keys []string
	okTable := false
	for _, d := range ns.AST.Decls {
		gd, ok := d.(*ast.GenDecl)
		if !ok || gd.Tok != token.VAR {
			continue
		}
		for _, sp := range gd.Specs {
			vs := sp.(*ast.ValueSpec)
			if len(vs.Names) != 1 || vs.Names[0].Name != "namespacePolicies" || len(vs.Values) != 1 {
				continue
			}
			cl, ok := vs.Values[0].(*ast.CompositeLit)
			if !ok {
				continue
			}
			okTable = true
			for _, el := range cl.Elts {
				kv, ok := el.(*ast.KeyValueExpr)
				if !ok {
					okTable = false
					continue
				}
				if id, ok := kv.Key.(*ast.Ident); ok {
					if c, ok := consts[id.Name]; ok && c.IsStr {
						keys = append(keys, leanBytes([]byte(c.Str)))
						continue
					}
				}
				okTable = false
			}
			b.WriteString(ns.prov("namespacePolicies", vs) + "\n")
		}
	}
	if okTable {
		fmt.Fprintf(&b, "def namespacePolicies : List Bytes := [%s]\n\n", strings.Join(keys, ", "))
	} else {
		b.WriteString("def namespacePolicies : List Bytes := untranslatable \"namespacePolicies is not a map literal keyed by string constants\"\n\n")
	}
	valid := "untranslatable \"ValidNamespacePolicy is not a membership test of namespacePolicies\""
	if fd := ns.funcDecl("ValidNamespacePolicy"); fd != nil && len(fd.Body.List) == 2 && fd.Type.Params != nil && len(fd.Type.Params.List) == 1 &&
		len(fd.Type.Params.List[0].Names) == 1 {
		p := fd.Type.Params.List[0].Names[0].Name
		if norm(ns.src(fd.Body.List[0])) == "_, ok := namespacePolicies["+p+"]" && norm(ns.src(fd.Body.List[1])) == "return ok" {
			valid = "namespacePolicies.contains policy"
			b.WriteString(ns.prov("validNamespacePolicy", fd) + "\n")
		}
	}
	fmt.Fprintf(&b, "def validNamespacePolicy (policy : Bytes) : Bool := %s\n\n", valid)

	// ---- csr/param.go: parseForceCommand
	pf := parseFile(*repo, "csr/param.go")
	if fd := pf.funcDecl("parseForceCommand"); fd != nil && fd.Type.Params != nil && len(fd.Type.Params.List) == 1 && len(fd.Type.Params.List[0].Names) == 1 {
		arg := fd.Type.Params.List[0].Names[0].Name
		t := &Tr{F: pf, Names: map[string]string{"strings.Split": "GoSem.split", "common.ValidNamespacePolicy": "validNamespacePolicy"}}
		s := &seqTr{t: t, errCalls: map[string]string{}, idConv: map[string]bool{"common.NamespacePolicy": true}}
		body := s.stmts(fd.Body.List, "  ")
		fmt.Fprintf(&b, "%s\n/-- `parseForceCommand` -/\ndef parseForceCommand (%s : List Bytes) : Res (Bytes × Bytes) :=\n  %s\n\n", pf.prov("parseForceCommand", fd), arg, body)
	} else {
		b.WriteString("def parseForceCommand (osArgs : List Bytes) : Res (Bytes × Bytes) := untranslatable \"parseForceCommand not found\"\n\n")
	}

	// ---- sshutils/version/sshversion.go: Unmarshal
	vf := parseFile(*repo, "sshutils/version/sshversion.go")
	vc := vf.consts()
	re := ""
	for _, d := range vf.AST.Decls {
		gd, ok := d.(*ast.GenDecl)
		if !ok || gd.Tok != token.VAR {
			continue
		}
		for _, sp := range gd.Specs {
			vs := sp.(*ast.ValueSpec)
			if len(vs.Names) == 1 && vs.Names[0].Name == "versionRE" && len(vs.Values) == 1 {
				if call, ok := vs.Values[0].(*ast.CallExpr); ok && vf.src(call.Fun) == "regexp.MustCompile" && len(call.Args) == 1 {
					if lit, ok := call.Args[0].(*ast.BasicLit); ok && lit.Kind == token.STRING {
						re, _ = strconv.Unquote(lit.Value)
						b.WriteString(vf.prov("versionRE", vs) + "\n")
					}
				}
			}
		}
	}
	fmt.Fprintf(&b, "def versionRE : String := %s\n", strconv.Quote(re))
	b.WriteString("def versionREMatch (s : Bytes) : Bool := match GoSem.reMatch versionRE s with\n  | some r => r\n  | none => untranslatable \"regular expression outside the modelled set\"\n\n")
	for _, k := range []string{"base", "bitSize"} {
		if c, ok := vc[k]; ok && !c.IsStr {
			fmt.Fprintf(&b, "def %s : Int := %d\n", k, c.Int)
		} else {
			fmt.Fprintf(&b, "def %s : Int := untranslatable \"constant %s not found\"\n", k, k)
		}
	}
	if fd := vf.funcDecl("Unmarshal"); fd != nil && fd.Type.Params != nil && len(fd.Type.Params.List) == 1 && len(fd.Type.Params.List[0].Names) == 1 {
		arg := fd.Type.Params.List[0].Names[0].Name
		t := &Tr{F: vf, Names: map[string]string{"versionRE.MatchString": "versionREMatch", "strings.Index": "GoSem.indexOf", "New": "GoSem.mkVersion",
			"uint16": "GoSem.toUint16", "base": "base", "bitSize": "bitSize"}}
		s := &seqTr{t: t, errCalls: map[string]string{"strconv.ParseUint": "GoSem.parseUint"}, idConv: map[string]bool{}}
		body := s.stmts(fd.Body.List, "  ")
		fmt.Fprintf(&b, "\n%s\n/-- `version.Unmarshal` -/\ndef versionUnmarshal (%s : Bytes) : Res (Nat × Nat) :=\n  %s\n\n", vf.prov("versionUnmarshal", fd), arg, body)
	} else {
		b.WriteString("def versionUnmarshal (s : Bytes) : Res (Nat × Nat) := untranslatable \"version.Unmarshal not found\"\n\n")
	}
	b.WriteString("end Ysshra.Gen.Param\n")
	return "Param", b.String()
}
