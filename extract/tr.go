// Package main: a deliberately small Go → Lean translator for the
// guard-return decision functions and constant tables of ysshra.
// Only go/ast, go/parser, go/token, go/printer from the standard library.
// Anything outside the supported grammar becomes an `Untranslatable`
// definition carrying the position, so the dependent bridge theorem fails to
// elaborate instead of silently guessing.
package main

import (
	"bytes"
	"crypto/sha256"
	"fmt"
	"go/ast"
	"go/parser"
	"go/printer"
	"go/token"
	"os"
	"path/filepath"
	"sort"
	"strconv"
	"strings"
)

type File struct {
	Path string
	Fset *token.FileSet
	AST  *ast.File
	Src  []byte
}

func parseFile(repo, rel string) *File {
	p := filepath.Join(repo, rel)
	src, err := os.ReadFile(p)
	if err != nil {
		fatal("read %s: %v", p, err)
	}
	fset := token.NewFileSet()
	f, err := parser.ParseFile(fset, p, src, parser.ParseComments)
	if err != nil {
		fatal("parse %s: %v", p, err)
	}
	return &File{Path: rel, Fset: fset, AST: f, Src: src}
}

func fatal(f string, a ...any) {
	fmt.Fprintf(os.Stderr, "extract: "+f+"\n", a...)
	os.Exit(2)
}

func (f *File) funcDecl(name string) *ast.FuncDecl {
	for _, d := range f.AST.Decls {
		if fd, ok := d.(*ast.FuncDecl); ok && fd.Name.Name == name {
			return fd
		}
	}
	return nil
}

// method finds a method by receiver type name and method name.
func (f *File) method(recv, name string) *ast.FuncDecl {
	for _, d := range f.AST.Decls {
		fd, ok := d.(*ast.FuncDecl)
		if !ok || fd.Name.Name != name || fd.Recv == nil || len(fd.Recv.List) == 0 {
			continue
		}
		t := fd.Recv.List[0].Type
		if s, ok := t.(*ast.StarExpr); ok {
			t = s.X
		}
		if id, ok := t.(*ast.Ident); ok && id.Name == recv {
			return fd
		}
	}
	return nil
}

func (f *File) src(n ast.Node) string {
	var b bytes.Buffer
	printer.Fprint(&b, f.Fset, n)
	return b.String()
}

func (f *File) pos(n ast.Node) string {
	p := f.Fset.Position(n.Pos())
	e := f.Fset.Position(n.End())
	return fmt.Sprintf("%s:%d-%d", f.Path, p.Line, e.Line)
}

// Provenance of one generated definition.
type Prov struct {
	Def    string `json:"def"`
	Where  string `json:"where"`
	SHA256 string `json:"sha256"`
}

var provs []Prov

func (f *File) prov(def string, n ast.Node) string {
	s := f.src(n)
	h := sha256.Sum256([]byte(s))
	p := Prov{def, f.pos(n), fmt.Sprintf("%x", h[:8])}
	provs = append(provs, p)
	return fmt.Sprintf("-- from %s sha256:%s", p.Where, p.SHA256)
}

// ---------------------------------------------------------------- constants

type Const struct {
	Name  string
	Int   int64
	Str   string
	IsStr bool
	Type  string // declared type name, if any
}

// consts evaluates the package-level constants of a file (iota, literals,
// simple arithmetic, references to earlier constants).
func (f *File) consts() map[string]Const {
	out := map[string]Const{}
	for _, d := range f.AST.Decls {
		gd, ok := d.(*ast.GenDecl)
		if !ok || gd.Tok != token.CONST {
			continue
		}
		var lastExpr ast.Expr
		var lastType string
		for i, s := range gd.Specs {
			vs := s.(*ast.ValueSpec)
			if len(vs.Values) > 0 {
				lastExpr = vs.Values[0]
				lastType = ""
				if vs.Type != nil {
					lastType = f.src(vs.Type)
				}
			}
			if len(vs.Names) != 1 || lastExpr == nil {
				continue
			}
			name := vs.Names[0].Name
			if name == "_" {
				continue
			}
			c, ok := evalConst(lastExpr, int64(i), out)
			if !ok {
				continue
			}
			c.Name = name
			if c.Type == "" {
				c.Type = lastType
			}
			out[name] = c
		}
	}
	return out
}

func evalConst(e ast.Expr, iota int64, env map[string]Const) (Const, bool) {
	switch x := e.(type) {
	case *ast.BasicLit:
		switch x.Kind {
		case token.INT:
			v, err := strconv.ParseInt(x.Value, 0, 64)
			return Const{Int: v}, err == nil
		case token.STRING:
			s, err := strconv.Unquote(x.Value)
			return Const{Str: s, IsStr: true}, err == nil
		case token.FLOAT:
			fl, err := strconv.ParseFloat(x.Value, 64)
			if err == nil && fl == float64(int64(fl)) {
				return Const{Int: int64(fl)}, true
			}
		}
	case *ast.Ident:
		if x.Name == "iota" {
			return Const{Int: iota}, true
		}
		c, ok := env[x.Name]
		return c, ok
	case *ast.ParenExpr:
		return evalConst(x.X, iota, env)
	case *ast.CallExpr: // conversion T(x)
		if len(x.Args) == 1 {
			c, ok := evalConst(x.Args[0], iota, env)
			if id, isId := x.Fun.(*ast.Ident); ok && isId {
				c.Type = id.Name
			}
			return c, ok
		}
	case *ast.BinaryExpr:
		a, ok1 := evalConst(x.X, iota, env)
		b, ok2 := evalConst(x.Y, iota, env)
		if !ok1 || !ok2 || a.IsStr || b.IsStr {
			return Const{}, false
		}
		switch x.Op {
		case token.ADD:
			return Const{Int: a.Int + b.Int}, true
		case token.SUB:
			return Const{Int: a.Int - b.Int}, true
		case token.MUL:
			return Const{Int: a.Int * b.Int}, true
		case token.SHL:
			return Const{Int: a.Int << uint(b.Int)}, true
		}
	}
	return Const{}, false
}

// ---------------------------------------------------------------- Lean printing helpers

func leanStr(s string) string {
	// c!"…" takes a Lean string literal
	var b strings.Builder
	b.WriteString(`c!"`)
	for _, r := range s {
		switch {
		case r == '"':
			b.WriteString(`\"`)
		case r == '\\':
			b.WriteString(`\\`)
		case r == '\n':
			b.WriteString(`\n`)
		case r == '\t':
			b.WriteString(`\t`)
		case r < 0x20 || r == 0x7f:
			fmt.Fprintf(&b, `\x%02x`, r)
		default:
			b.WriteRune(r)
		}
	}
	b.WriteString(`"`)
	return b.String()
}

func leanStrList(ss []string) string {
	var parts []string
	for _, s := range ss {
		parts = append(parts, leanStr(s))
	}
	return "[" + strings.Join(parts, ", ") + "]"
}

func leanBytes(bs []byte) string {
	var parts []string
	for _, b := range bs {
		parts = append(parts, fmt.Sprintf("0x%02x", b))
	}
	return "([" + strings.Join(parts, ", ") + "] : List UInt8)"
}

func sortedKeys[V any](m map[string]V) []string {
	var ks []string
	for k := range m {
		ks = append(ks, k)
	}
	sort.Strings(ks)
	return ks
}

// ---------------------------------------------------------------- expression / statement translation

// Tr carries the naming environment of one translated function.
type Tr struct {
	F *File
	// qualified or bare Go identifiers ↦ Lean terms (constants, callees)
	Names map[string]string
	// pointer-typed parameters: `x == nil` / `x != nil` become matches / isSome
	Ptr map[string]bool
	// expression returned for "an error value" in error-returning functions
	ErrVal, NilVal string
	Bad            []string // untranslatable constructs met
}

func (t *Tr) bad(n ast.Node, why string) string {
	msg := fmt.Sprintf("%s %s", t.F.pos(n), why)
	t.Bad = append(t.Bad, msg)
	return "(untranslatable " + strconv.Quote(msg) + ")"
}

func (t *Tr) name(s string) (string, bool) {
	v, ok := t.Names[s]
	return v, ok
}

func (t *Tr) expr(e ast.Expr) string {
	switch x := e.(type) {
	case *ast.ParenExpr:
		return t.expr(x.X)
	case *ast.BasicLit:
		switch x.Kind {
		case token.STRING:
			s, _ := strconv.Unquote(x.Value)
			return leanStr(s)
		case token.INT:
			return x.Value
		}
	case *ast.Ident:
		if v, ok := t.name(x.Name); ok {
			return v
		}
		if x.Name == "true" || x.Name == "false" {
			return x.Name
		}
		return x.Name
	case *ast.SelectorExpr:
		q := t.F.src(x)
		if v, ok := t.name(q); ok {
			return v
		}
		return t.expr(x.X) + "." + x.Sel.Name
	case *ast.UnaryExpr:
		if x.Op == token.NOT {
			return "(!" + t.expr(x.X) + ")"
		}
	case *ast.IndexExpr:
		return "(goIndex " + t.expr(x.X) + " " + t.expr(x.Index) + ")"
	case *ast.BinaryExpr:
		if id, ok := x.Y.(*ast.Ident); ok && id.Name == "nil" {
			switch x.Op {
			case token.NEQ:
				return "(goNotNil " + t.expr(x.X) + ")"
			case token.EQL:
				return "(!goNotNil " + t.expr(x.X) + ")"
			}
		}
		op := map[token.Token]string{token.LAND: "&&", token.LOR: "||", token.EQL: "==", token.NEQ: "!=",
			token.ADD: "++", token.LSS: "<", token.LEQ: "<=", token.GTR: ">", token.GEQ: ">="}[x.Op]
		if op != "" {
			l, r := t.expr(x.X), t.expr(x.Y)
			if op == "<" || op == "<=" || op == ">" || op == ">=" {
				return "(decide (" + l + " " + op + " " + r + "))"
			}
			return "(" + l + " " + op + " " + r + ")"
		}
	case *ast.CallExpr:
		fn := t.F.src(x.Fun)
		if v, ok := t.name(fn); ok {
			var args []string
			for _, a := range x.Args {
				args = append(args, t.expr(a))
			}
			return "(" + v + " " + strings.Join(args, " ") + ")"
		}
	}
	return t.bad(e, "expression "+t.F.src(e))
}

// isErrCtor reports whether e constructs a non-nil error.
func (t *Tr) isErrCtor(e ast.Expr) bool {
	c, ok := e.(*ast.CallExpr)
	if !ok {
		return false
	}
	fn := t.F.src(c.Fun)
	return fn == "fmt.Errorf" || fn == "errors.New"
}

// retExpr translates the operand of a `return` in an error-returning function.
func (t *Tr) retErr(e ast.Expr) string {
	if id, ok := e.(*ast.Ident); ok && id.Name == "nil" {
		return t.NilVal
	}
	if t.isErrCtor(e) {
		return t.ErrVal
	}
	if id, ok := e.(*ast.Ident); ok && id.Name == "err" {
		return t.ErrVal
	}
	return t.expr(e)
}

// errBody translates a statement list of a `func(...) error` made of
//
//	if C { return E }      err := f(x); if err != nil { return err }      return E
//
// into a Lean Bool expression (true = nil).
func (t *Tr) errBody(stmts []ast.Stmt) string {
	if len(stmts) == 0 {
		return t.NilVal
	}
	s := stmts[0]
	rest := stmts[1:]
	switch x := s.(type) {
	case *ast.ReturnStmt:
		if len(x.Results) == 1 {
			return t.retErr(x.Results[0])
		}
	case *ast.IfStmt:
		if x.Else == nil && len(x.Body.List) == 1 {
			if r, ok := x.Body.List[0].(*ast.ReturnStmt); ok && len(r.Results) == 1 {
				// `if err := f(x); err != nil { return err }`
				if x.Init != nil {
					if call := t.errAssign(x.Init); call != "" && t.F.src(x.Cond) == "err != nil" {
						return "(if !" + call + " then " + t.ErrVal + " else " + t.errBody(rest) + ")"
					}
					return t.bad(x, "if-init")
				}
				if t.F.src(x.Cond) == "err != nil" {
					return t.bad(x, "dangling err check")
				}
				return "(if " + t.expr(x.Cond) + " then " + t.retErr(r.Results[0]) + " else " + t.errBody(rest) + ")"
			}
		}
	case *ast.AssignStmt:
		// err := f(x) ; if err != nil { return err }
		if call := t.errAssign(x); call != "" && len(rest) > 0 {
			if ifs, ok := rest[0].(*ast.IfStmt); ok && t.F.src(ifs.Cond) == "err != nil" && ifs.Else == nil && ifs.Init == nil {
				return "(if !" + call + " then " + t.ErrVal + " else " + t.errBody(rest[1:]) + ")"
			}
		}
	}
	return t.bad(s, "statement")
}

func (t *Tr) errAssign(s ast.Stmt) string {
	a, ok := s.(*ast.AssignStmt)
	if !ok || len(a.Lhs) != 1 || len(a.Rhs) != 1 {
		return ""
	}
	if id, ok := a.Lhs[0].(*ast.Ident); !ok || id.Name != "err" {
		return ""
	}
	if _, ok := a.Rhs[0].(*ast.CallExpr); !ok {
		return ""
	}
	return t.expr(a.Rhs[0])
}

// assignChain translates a case body consisting of assignments to the single
// variable v and `if c { v = e }` refinements; cur is the value before.
func (t *Tr) assignChain(v string, stmts []ast.Stmt, cur string) string {
	for _, s := range stmts {
		switch x := s.(type) {
		case *ast.AssignStmt:
			if len(x.Lhs) == 1 && len(x.Rhs) == 1 && t.F.src(x.Lhs[0]) == v && x.Tok == token.ASSIGN {
				cur = t.expr(x.Rhs[0])
				continue
			}
		case *ast.IfStmt:
			if x.Init == nil && x.Else == nil {
				inner := t.assignChain(v, x.Body.List, cur)
				cur = "(if " + t.expr(x.Cond) + " then " + inner + " else " + cur + ")"
				continue
			}
		}
		return t.bad(s, "case body")
	}
	return cur
}

// tagless `switch { case c: v = …  }` as an if-chain computing the new value of v.
func (t *Tr) switchAssign(v string, sw *ast.SwitchStmt, cur string) string {
	if sw.Tag != nil || sw.Init != nil {
		return t.bad(sw, "tagged switch")
	}
	type cs struct{ cond, val string }
	var cases []cs
	def := cur
	for _, c := range sw.Body.List {
		cc := c.(*ast.CaseClause)
		if cc.List == nil {
			def = t.assignChain(v, cc.Body, cur)
			continue
		}
		var conds []string
		for _, e := range cc.List {
			conds = append(conds, t.expr(e))
		}
		cases = append(cases, cs{strings.Join(conds, " || "), t.assignChain(v, cc.Body, cur)})
	}
	out := def
	for i := len(cases) - 1; i >= 0; i-- {
		out = "(if " + cases[i].cond + " then " + cases[i].val + "\n    else " + out + ")"
	}
	return out
}
