package main

// message/: the required-field check translated into a Lean predicate, and the interface version
// below which `Marshal` writes the legacy format.

import (
	"fmt"
	"go/ast"
	"go/token"
	"strings"
)

func genMessage() (string, string) {
	san := parseFile(*repo, "message/sanity.go")
	mar := parseFile(*repo, "message/marshal.go")
	var b strings.Builder
	b.WriteString("import Ysshra.Model.Message\nnamespace Ysshra.Gen.Message\nopen Ysshra\n\n")
	b.WriteString(untranslatableDecl() + "\n")
	if fd := san.method("Attributes", "sanityCheck"); fd != nil {
		recv := "a"
		if fd.Recv != nil && len(fd.Recv.List) > 0 && len(fd.Recv.List[0].Names) > 0 {
			recv = fd.Recv.List[0].Names[0].Name
		}
		t := &Tr{F: san, Names: map[string]string{}, ErrVal: "false", NilVal: "true"}
		body := t.errBody(fd.Body.List)
		fmt.Fprintf(&b, "%s\n/-- `(*Attributes).sanityCheck`: `true` = returns nil -/\ndef sanityCheck (%s : Message.AttrsJ) : Bool :=\n  %s\n\n", san.prov("sanityCheck", fd), recv, body)
	} else {
		b.WriteString("def sanityCheck (a : Message.AttrsJ) : Bool := untranslatable \"sanityCheck not found\"\n\n")
	}
	// Marshal: `if a.IfVer < N { return a.MarshalLegacy() }`
	thr := "untranslatable \"no `IfVer < N` test followed by MarshalLegacy in Marshal\""
	if fd := mar.method("Attributes", "Marshal"); fd != nil {
		for _, s := range fd.Body.List {
			ifs, ok := s.(*ast.IfStmt)
			if !ok || len(ifs.Body.List) != 1 {
				continue
			}
			be, ok := ifs.Cond.(*ast.BinaryExpr)
			if !ok || be.Op != token.LSS || !strings.HasSuffix(mar.src(be.X), ".IfVer") {
				continue
			}
			if lit, ok := be.Y.(*ast.BasicLit); ok && lit.Kind == token.INT && strings.Contains(mar.src(ifs.Body.List[0]), "MarshalLegacy()") {
				thr = lit.Value
				b.WriteString(mar.prov("legacyBelow", ifs) + "\n")
			}
		}
	}
	fmt.Fprintf(&b, "/-- interface versions below this one are written in the legacy format -/\ndef legacyBelow : Int := %s\n\nend Ysshra.Gen.Message\n", thr)
	return "Message", b.String()
}
