package main

// agent/shimagent/shimserver.go: the methods of Server whose body is a straight line of guards,
// one call on the underlying agent and assignments to the lock flag / the tables — Lock, Unlock,
// Add, RemoveAll — translated statement by statement into Lean state transformers over the model's
// State; Bridge/ShimOps.lean proves each equal to the corresponding case of Shim.step for all
// states, fault schedules and arguments. (The mutex statements are the subject of Gen/Locks.)

import (
	"fmt"
	"go/ast"
	"go/token"
	"strings"
)

type opTr struct {
	f    *File
	recv string
	bad  []string
	// the Go variable `err`, when it holds the result of the agent call, is the Lean Bool `errNil`
	haveErr bool
}

func (o *opTr) fail(n ast.Node, why string) string {
	msg := fmt.Sprintf("%s %s", o.f.pos(n), why)
	o.bad = append(o.bad, msg)
	return "(untranslatable " + fmt.Sprintf("%q", msg) + ")"
}

var shimFields = map[string]string{"certs": "certs", "upstreamSSHCACertCache": "cache"}

// agent calls: method name ↦ Lean function on UAgent (all return UAgent × Bool, true = nil error)
var agentCalls = map[string]string{"Lock": "UAgent.lock", "Unlock": "UAgent.unlock", "Add": "UAgent.add", "RemoveAll": "UAgent.removeAll"}

func (o *opTr) agentCall(e ast.Expr, args map[string]string) (string, bool) {
	c, ok := e.(*ast.CallExpr)
	if !ok {
		return "", false
	}
	se, ok := c.Fun.(*ast.SelectorExpr)
	if !ok || norm(o.f.src(se.X)) != o.recv+".agent" {
		return "", false
	}
	fn, ok := agentCalls[se.Sel.Name]
	if !ok {
		return "", false
	}
	var as []string
	for _, a := range c.Args {
		id, ok := a.(*ast.Ident)
		if !ok {
			return "", false
		}
		v, ok := args[id.Name]
		if !ok {
			return "", false
		}
		as = append(as, v)
	}
	return fn + " s.u f " + strings.Join(as, " "), true
}

func (o *opTr) isErrValue(e ast.Expr) bool {
	id, ok := e.(*ast.Ident)
	return ok && strings.HasPrefix(id.Name, "err") && id.Name != "err"
}

// stmts translates the statement list into a Lean term of type State × Out; `s` is the current state.
func (o *opTr) stmts(list []ast.Stmt, args map[string]string, ind string) string {
	if len(list) == 0 {
		return "(untranslatable \"method body falls off the end\")"
	}
	st, rest := list[0], list[1:]
	src := norm(o.f.src(st))
	switch x := st.(type) {
	case *ast.IfStmt:
		if x.Init == nil && x.Else == nil && len(x.Body.List) == 1 {
			cond := norm(o.f.src(x.Cond))
			// guards on the lock flag
			if rs, ok := x.Body.List[0].(*ast.ReturnStmt); ok && len(rs.Results) == 1 && o.isErrValue(rs.Results[0]) {
				switch cond {
				case o.recv + ".locked":
					return "if s.locked then (s, .err) else\n" + ind + o.stmts(rest, args, ind)
				case "!" + o.recv + ".locked":
					return "if !s.locked then (s, .err) else\n" + ind + o.stmts(rest, args, ind)
				}
			}
			// if err == nil { s.locked = B }
			if cond == "err == nil" && o.haveErr {
				if as, ok := x.Body.List[0].(*ast.AssignStmt); ok && as.Tok == token.ASSIGN && len(as.Lhs) == 1 && norm(o.f.src(as.Lhs[0])) == o.recv+".locked" {
					v := norm(o.f.src(as.Rhs[0]))
					if v == "true" || v == "false" {
						return "let s := if errNil then { s with locked := " + v + " } else s\n" + ind + o.stmts(rest, args, ind)
					}
				}
			}
			// if err != nil { return err }
			if cond == "err != nil" && o.haveErr && norm(o.f.src(x.Body.List[0])) == "return err" {
				return "if !errNil then (s, .err) else\n" + ind + o.stmts(rest, args, ind)
			}
		}
		// if err := s.agent.M(..); err != nil { return err }
		if x.Init != nil && x.Else == nil && norm(o.f.src(x.Cond)) == "err != nil" && len(x.Body.List) == 1 && norm(o.f.src(x.Body.List[0])) == "return err" {
			if as, ok := x.Init.(*ast.AssignStmt); ok && len(as.Lhs) == 1 && norm(o.f.src(as.Lhs[0])) == "err" && len(as.Rhs) == 1 {
				if call, ok := o.agentCall(as.Rhs[0], args); ok {
					return "match " + call + " with\n" + ind + "| (u', false) => ({ s with u := u' }, .err)\n" + ind + "| (u', true) =>\n" + ind + "  let s := { s with u := u' }\n" + ind + "  " + o.stmts(rest, args, ind+"  ")
				}
			}
		}
	case *ast.AssignStmt:
		if len(x.Lhs) == 1 && len(x.Rhs) == 1 {
			lhs := norm(o.f.src(x.Lhs[0]))
			// err := s.agent.M(args)
			if lhs == "err" {
				if call, ok := o.agentCall(x.Rhs[0], args); ok {
					o.haveErr = true
					return "match " + call + " with\n" + ind + "| (u', errNil) =>\n" + ind + "  let s := { s with u := u' }\n" + ind + "  " + o.stmts(rest, args, ind+"  ")
				}
			}
			// s.locked = true / false
			if lhs == o.recv+".locked" && x.Tok == token.ASSIGN {
				v := norm(o.f.src(x.Rhs[0]))
				if v == "true" || v == "false" {
					return "let s := { s with locked := " + v + " }\n" + ind + o.stmts(rest, args, ind)
				}
			}
			// s.<table> = make(map[…]…)
			if se, ok := x.Lhs[0].(*ast.SelectorExpr); ok && norm(o.f.src(se.X)) == o.recv && x.Tok == token.ASSIGN {
				if fld, ok := shimFields[se.Sel.Name]; ok {
					if call, ok := x.Rhs[0].(*ast.CallExpr); ok && o.f.src(call.Fun) == "make" && len(call.Args) == 1 {
						if _, isMap := call.Args[0].(*ast.MapType); isMap {
							return "let s := { s with " + fld + " := [] }\n" + ind + o.stmts(rest, args, ind)
						}
					}
				}
			}
		}
	case *ast.ReturnStmt:
		if len(rest) == 0 && len(x.Results) == 1 {
			r := x.Results[0]
			if id, ok := r.(*ast.Ident); ok {
				switch {
				case id.Name == "nil":
					return "(s, .ok)"
				case id.Name == "err" && o.haveErr:
					return "(s, if errNil then .ok else .err)"
				case o.isErrValue(r):
					return "(s, .err)"
				}
			}
			if call, ok := o.agentCall(r, args); ok {
				return "match " + call + " with\n" + ind + "| (u', false) => ({ s with u := u' }, .err)\n" + ind + "| (u', true) => ({ s with u := u' }, .ok)"
			}
		}
	}
	return o.fail(st, "statement "+src)
}

func genShimOps() (string, string) {
	f := parseFile(*repo, "agent/shimagent/shimserver.go")
	var b strings.Builder
	b.WriteString("import Ysshra.Model.Shim\nnamespace Ysshra.Gen.ShimOps\nopen Ysshra Ysshra.Shim\n\n")
	b.WriteString(untranslatableDecl() + "\n")
	type m struct{ goName, leanName, argType string }
	for _, mm := range []m{{"Lock", "lock", "Bytes"}, {"Unlock", "unlock", "Bytes"}, {"Add", "add", "Ident"}, {"RemoveAll", "removeAll", ""}} {
		fd := f.method("Server", mm.goName)
		sig := "(s : State) (f : Faults)"
		args := map[string]string{}
		if fd != nil && fd.Type.Params != nil {
			for _, p := range fd.Type.Params.List {
				for _, n := range p.Names {
					args[n.Name] = n.Name
					sig += fmt.Sprintf(" (%s : %s)", n.Name, mm.argType)
				}
			}
		}
		if fd == nil || fd.Recv == nil || len(fd.Recv.List[0].Names) == 0 || len(fd.Body.List) < 2 {
			fmt.Fprintf(&b, "def %s (s : State) (f : Faults) : State × Out := untranslatable \"method %s not found\"\n\n", mm.leanName, mm.goName)
			continue
		}
		recv := fd.Recv.List[0].Names[0].Name
		body := fd.Body.List
		// the mutex prologue (its discipline is checked on Gen/Locks)
		if norm(f.src(body[0])) == recv+".mu.Lock()" && norm(f.src(body[1])) == "defer "+recv+".mu.Unlock()" {
			body = body[2:]
		}
		o := &opTr{f: f, recv: recv}
		term := o.stmts(body, args, "  ")
		fmt.Fprintf(&b, "%s\n/-- `(*Server).%s` -/\ndef %s %s : State × Out :=\n  %s\n\n", f.prov(mm.leanName, fd), mm.goName, mm.leanName, sig, term)
	}
	b.WriteString("end Ysshra.Gen.ShimOps\n")
	return "ShimOps", b.String()
}
