package main

import (
	"fmt"
	"go/ast"
	"go/token"
	"sort"
	"strings"
)

// shared cells of shimagent.Server
var cellOf = map[string]int{"certs": 0, "upstreamSSHCACertCache": 1, "locked": 2, "conn": 3, "agent": 3}

type access struct {
	cell  int
	write bool
}

// directAccesses collects the accesses to s.<field> in a function body and the Server methods it calls.
func directAccesses(f *File, fd *ast.FuncDecl, recv string) (acc map[access]bool, calls []string) {
	acc = map[access]bool{}
	isField := func(e ast.Expr) (int, bool) {
		se, ok := e.(*ast.SelectorExpr)
		if !ok {
			return 0, false
		}
		id, ok := se.X.(*ast.Ident)
		if !ok || id.Name != recv {
			return 0, false
		}
		c, ok := cellOf[se.Sel.Name]
		return c, ok
	}
	written := map[ast.Expr]bool{}
	ast.Inspect(fd.Body, func(n ast.Node) bool {
		switch x := n.(type) {
		case *ast.AssignStmt:
			for _, l := range x.Lhs {
				e := l
				if ix, ok := e.(*ast.IndexExpr); ok {
					e = ix.X
				}
				if c, ok := isField(e); ok {
					acc[access{c, true}] = true
					written[e] = true
				}
			}
		case *ast.CallExpr:
			fn := f.src(x.Fun)
			if fn == "delete" && len(x.Args) > 0 {
				if c, ok := isField(x.Args[0]); ok {
					acc[access{c, true}] = true
					written[x.Args[0]] = true
				}
			}
			// any call on / with the connection or the agent client uses the single connection
			if se, ok := x.Fun.(*ast.SelectorExpr); ok {
				if c, ok := isField(se.X); ok && c == 3 {
					acc[access{3, true}] = true
					written[se.X] = true
				}
				if id, ok := se.X.(*ast.Ident); ok && id.Name == recv {
					if _, isF := cellOf[se.Sel.Name]; !isF && se.Sel.Name != "mu" {
						calls = append(calls, se.Sel.Name)
					}
				}
			}
			for _, a := range x.Args {
				if c, ok := isField(a); ok && c == 3 {
					acc[access{3, true}] = true
					written[a] = true
				}
			}
		}
		return true
	})
	ast.Inspect(fd.Body, func(n ast.Node) bool {
		if e, ok := n.(ast.Expr); ok {
			if c, ok := isField(e); ok && !written[e] {
				acc[access{c, false}] = true
			}
		}
		return true
	})
	return acc, calls
}

func genLocks() (string, string) {
	f := parseFile(*repo, "agent/shimagent/shimserver.go")
	var b strings.Builder
	b.WriteString("import Ysshra.Model.Locks\nimport Ysshra.Gen.KeyId\nnamespace Ysshra.Gen.Locks\nopen Ysshra Ysshra.Locks\n\n")
	type info struct {
		mode     string
		deferred bool
		acc      map[access]bool
		calls    []string
		fd       *ast.FuncDecl
	}
	infos := map[string]*info{}
	var order []string
	for _, d := range f.AST.Decls {
		fd, ok := d.(*ast.FuncDecl)
		if !ok || fd.Recv == nil || len(fd.Recv.List) == 0 || fd.Body == nil {
			continue
		}
		t := fd.Recv.List[0].Type
		if s, ok := t.(*ast.StarExpr); ok {
			t = s.X
		}
		if id, ok := t.(*ast.Ident); !ok || id.Name != "Server" || len(fd.Recv.List[0].Names) == 0 {
			continue
		}
		recv := fd.Recv.List[0].Names[0].Name
		in := &info{mode: "none", fd: fd}
		if len(fd.Body.List) > 0 {
			if es, ok := fd.Body.List[0].(*ast.ExprStmt); ok {
				switch norm(f.src(es.X)) {
				case recv + ".mu.Lock()":
					in.mode = "(some .excl)"
				case recv + ".mu.RLock()":
					in.mode = "(some .shared)"
				}
			}
			if len(fd.Body.List) > 1 {
				if ds, ok := fd.Body.List[1].(*ast.DeferStmt); ok {
					c := norm(f.src(ds.Call))
					in.deferred = c == recv+".mu.Unlock()" || c == recv+".mu.RUnlock()"
				}
			}
		}
		in.acc, in.calls = directAccesses(f, fd, recv)
		infos[fd.Name.Name] = in
		order = append(order, fd.Name.Name)
	}
	// transitive closure over calls to other Server methods (filter, remove, SignWithFlags …)
	for changed := true; changed; {
		changed = false
		for _, n := range order {
			in := infos[n]
			for _, c := range in.calls {
				if o, ok := infos[c]; ok {
					for a := range o.acc {
						if !in.acc[a] {
							in.acc[a] = true
							changed = true
						}
					}
					// a callee that takes the lock itself protects its own accesses; the wrapper inherits its mode
					if in.mode == "none" && o.mode != "none" && len(in.fd.Body.List) == 1 {
						in.mode, in.deferred = o.mode, o.deferred
					}
				}
			}
		}
	}
	b.WriteString(f.prov("methods", f.AST) + "\n")
	b.WriteString("/-- every method of shimagent.Server: lock taken by its first statement, released by `defer`,\n    and the shared cells it reads / writes, transitively (0 certs, 1 cache, 2 locked flag, 3 the single connection) -/\n")
	b.WriteString("def methods : List (Str × Method × Bool) := [\n")
	var rows []string
	for _, n := range order {
		if n == "remove" || n == "filter" || n == "Broadcast" || n == "Wait" {
			continue // unexported helpers run under the caller's lock; Broadcast / Wait use only their own condition variable
		}
		in := infos[n]
		var as []string
		var keys []access
		for a := range in.acc {
			keys = append(keys, a)
		}
		sort.Slice(keys, func(i, j int) bool {
			if keys[i].cell != keys[j].cell {
				return keys[i].cell < keys[j].cell
			}
			return !keys[i].write && keys[j].write
		})
		for _, a := range keys {
			if a.write {
				as = append(as, fmt.Sprintf(".write %d", a.cell))
			} else {
				as = append(as, fmt.Sprintf(".read %d", a.cell))
			}
		}
		rows = append(rows, fmt.Sprintf("  (%s, ⟨%s, [%s]⟩, %v)", leanStr(n), in.mode, strings.Join(as, ", "), in.deferred))
	}
	b.WriteString(strings.Join(rows, ",\n") + "\n]\n")
	// Signers hands objects to its caller that sign later, outside the method and its lock: every
	// value appended to the returned slice, and whether it reaches the underlying agent only through
	// the shim (its agent field is the receiver) or holds the connection / the agent client itself.
	b.WriteString("\n/-- the values `Signers` returns: source text, and whether the signer is routed through the shim\n    (`true`) or uses the agent client / connection directly, outside the shim's lock (`false`) -/\n")
	var srcs []string
	if in, ok := infos["Signers"]; ok {
		fd := in.fd
		recv := fd.Recv.List[0].Names[0].Name
		ret := ""
		if n := len(fd.Body.List); n > 0 {
			if rs, ok := fd.Body.List[n-1].(*ast.ReturnStmt); ok && len(rs.Results) > 0 {
				ret = f.src(rs.Results[0])
			}
		}
		// variables that hold objects obtained from the agent client
		fromClient := map[string]bool{}
		usesConn := func(e ast.Expr) bool {
			found := false
			ast.Inspect(e, func(n ast.Node) bool {
				// a public key read off a client object is plain data
				if c, ok := n.(*ast.CallExpr); ok {
					if se, ok := c.Fun.(*ast.SelectorExpr); ok && se.Sel.Name == "PublicKey" {
						return false
					}
				}
				if se, ok := n.(*ast.SelectorExpr); ok {
					if id, ok := se.X.(*ast.Ident); ok && id.Name == recv && cellOf[se.Sel.Name] == 3 {
						if _, isCell := cellOf[se.Sel.Name]; isCell {
							found = true
						}
					}
				}
				if id, ok := n.(*ast.Ident); ok && fromClient[id.Name] {
					found = true
				}
				return true
			})
			return found
		}
		ast.Inspect(fd.Body, func(n ast.Node) bool {
			switch x := n.(type) {
			case *ast.AssignStmt:
				for i, r := range x.Rhs {
					if usesConn(r) && i < len(x.Lhs) {
						if id, ok := x.Lhs[i].(*ast.Ident); ok && id.Name != "_" && id.Name != "err" {
							fromClient[id.Name] = true
						}
					}
				}
			case *ast.RangeStmt:
				if usesConn(x.X) && x.Value != nil {
					if id, ok := x.Value.(*ast.Ident); ok {
						fromClient[id.Name] = true
					}
				}
			}
			return true
		})
		ast.Inspect(fd.Body, func(n ast.Node) bool {
			call, ok := n.(*ast.CallExpr)
			if !ok || f.src(call.Fun) != "append" || len(call.Args) < 2 || f.src(call.Args[0]) != ret {
				return true
			}
			for _, a := range call.Args[1:] {
				// a composite literal that wraps a client object still signs through its agent field:
				// routed iff nothing in it is the connection / client or an object obtained from it,
				// except as the argument of a method that only reads (PublicKey)
				routed := true
				var litTypes []ast.Expr
				ast.Inspect(a, func(m ast.Node) bool {
					if cl, ok := m.(*ast.CompositeLit); ok && cl.Type != nil {
						litTypes = append(litTypes, cl.Type)
					}
					return true
				})
				ast.Inspect(a, func(m ast.Node) bool {
					for _, lt := range litTypes {
						if m == lt {
							return false
						}
					}
					if c, ok := m.(*ast.CallExpr); ok {
						if se, ok := c.Fun.(*ast.SelectorExpr); ok && se.Sel.Name == "PublicKey" {
							return false
						}
					}
					if e, ok := m.(ast.Expr); ok {
						if se, ok := e.(*ast.SelectorExpr); ok {
							if id, ok := se.X.(*ast.Ident); ok && id.Name == recv {
								if c, isCell := cellOf[se.Sel.Name]; isCell && c == 3 {
									routed = false
								}
							}
						}
						if id, ok := e.(*ast.Ident); ok && fromClient[id.Name] {
							routed = false
						}
					}
					return true
				})
				srcs = append(srcs, fmt.Sprintf("(%s, %v)", leanStr(norm(f.src(a))), routed))
			}
			return true
		})
	}
	b.WriteString("def signerSources : List (Str × Bool) := [" + strings.Join(srcs, ", ") + "]\n")
	_ = token.NoPos
	b.WriteString("\nend Ysshra.Gen.Locks\n")
	return "Locks", b.String()
}
