package main

import (
	"fmt"
	"go/ast"
	"go/token"
	"sort"
	"strconv"
	"strings"
)

func stmtList(f *File, body *ast.BlockStmt) []string {
	var st []string
	for _, s := range body.List {
		st = append(st, norm(f.src(s)))
	}
	return st
}

// compositeFields returns field ↦ expression text of the first composite literal of the given type inside fd.
func compositeFields(f *File, fd *ast.FuncDecl, typ string) [][2]string {
	var out [][2]string
	found := false
	ast.Inspect(fd.Body, func(n ast.Node) bool {
		cl, ok := n.(*ast.CompositeLit)
		if !ok || found || cl.Type == nil || f.src(cl.Type) != typ {
			return true
		}
		found = true
		for _, e := range cl.Elts {
			if kv, ok := e.(*ast.KeyValueExpr); ok {
				out = append(out, [2]string{f.src(kv.Key), norm(f.src(kv.Value))})
			}
		}
		return false
	})
	return out
}

func pairsLean(ps [][2]string) string {
	var parts []string
	for _, p := range ps {
		parts = append(parts, "("+leanStr(p[0])+", "+leanStr(p[1])+")")
	}
	return "[" + strings.Join(parts, ", ") + "]"
}

func genGensign() (string, string) {
	run := parseFile(*repo, "gensign/gensign.go")
	errs := parseFile(*repo, "gensign/error.go")
	reg := parseFile(*repo, "gensign/regular/handler.go")
	key := parseFile(*repo, "agent/ssh/key.go")
	opt := parseFile(*repo, "agent/ssh/opt.go")
	cry := parseFile(*repo, "crypki/common.go")
	var b strings.Builder
	b.WriteString("import Ysshra.Model.Gensign\nimport Ysshra.Gen.KeyId\nnamespace Ysshra.Gen.Gensign\nopen Ysshra\n\n")

	// error kinds
	ec := errs.consts()
	var kinds []string
	for _, n := range []string{"Unknown", "HandlerDisabled", "HandlerAuthN", "InvalidParams", "HandlerGenCSRErr", "HandlerConfErr", "AllAuthFailed", "SignerSignErr", "AgentOpCertErr", "Panic"} {
		if c, ok := ec[n]; ok {
			kinds = append(kinds, fmt.Sprintf("(%s, %d)", leanStr(n), c.Int))
		}
	}
	fmt.Fprintf(&b, "def errorTypes : List (Str × Nat) := [%s]\n", strings.Join(kinds, ", "))

	// Run
	if fd := run.funcDecl("Run"); fd != nil {
		b.WriteString(run.prov("Run", fd) + "\n")
		fmt.Fprintf(&b, "/-- the statements of gensign.Run, whitespace-normalised -/\ndef runStmts : List Str := %s\n", leanStrList(stmtList(run, fd.Body)))
	}
	// regular handler
	rc := reg.consts()
	if c, ok := rc["HandlerName"]; ok {
		fmt.Fprintf(&b, "def HandlerName : Str := %s\n", leanStr(c.Str))
	}
	for _, m := range []string{"Authenticate", "challengePubKey", "generateAgentKey"} {
		if fd := reg.method("Handler", m); fd != nil {
			fmt.Fprintf(&b, "%s\ndef %sStmts : List Str := %s\n", reg.prov(m, fd), m, leanStrList(stmtList(reg, fd.Body)))
		}
	}
	for _, fn := range []string{"lookupPubKeyFile", "getPubKeyBytes", "keyFilter"} {
		if fd := reg.funcDecl(fn); fd != nil {
			fmt.Fprintf(&b, "%s\ndef %sStmts : List Str := %s\n", reg.prov(fn, fd), fn, leanStrList(stmtList(reg, fd.Body)))
		}
	}
	if fd := reg.method("Handler", "Generate"); fd != nil {
		b.WriteString(reg.prov("Generate", fd) + "\n")
		fmt.Fprintf(&b, "/-- the KeyID composite literal of Generate: field ↦ source expression -/\ndef kidLiteral : List (Str × Str) := %s\n", pairsLean(compositeFields(reg, fd, "keyid.KeyID")))
		fmt.Fprintf(&b, "def csrLiteral : List (Str × Str) := %s\n", pairsLean(compositeFields(reg, fd, "proto.SSHCertificateSigningRequest")))
		// the key-identifier lookup and its refusal
		var lookup []string
		ast.Inspect(fd.Body, func(n ast.Node) bool {
			if as, ok := n.(*ast.AssignStmt); ok && len(as.Rhs) == 1 {
				if ix, ok := as.Rhs[0].(*ast.IndexExpr); ok && strings.HasSuffix(reg.src(ix.X), "KeyIdentifiers") {
					lookup = append(lookup, norm(reg.src(as)))
				}
			}
			return true
		})
		fmt.Fprintf(&b, "def keyIdentifierLookup : List Str := %s\n", leanStrList(lookup))
	}
	// agent/ssh
	for _, spec := range []struct{ recv, fn string }{{"", "NewSSHAgentKeyWithOpt"}, {"AgentKey", "AddCertsToAgent"}, {"AgentKey", "refreshKeys"}} {
		var fd *ast.FuncDecl
		if spec.recv == "" {
			fd = key.funcDecl(spec.fn)
		} else {
			fd = key.method(spec.recv, spec.fn)
		}
		if fd != nil {
			fmt.Fprintf(&b, "%s\ndef %sStmts : List Str := %s\n", key.prov(spec.fn, fd), spec.fn, leanStrList(stmtList(key, fd.Body)))
		}
	}
	oc := opt.consts()
	for _, n := range []string{"defaultPrivateKeyLabel", "defaultCertLabel"} {
		if c, ok := oc[n]; ok {
			fmt.Fprintf(&b, "def %s : Str := %s\n", n, leanStr(c.Str))
		}
	}
	// default extensions
	if fd := cry.funcDecl("GetDefaultExtension"); fd != nil {
		var ks []string
		ast.Inspect(fd.Body, func(n ast.Node) bool {
			if as, ok := n.(*ast.AssignStmt); ok && as.Tok == token.ASSIGN && len(as.Lhs) == 1 {
				if ix, ok := as.Lhs[0].(*ast.IndexExpr); ok {
					k, _ := strconv.Unquote(cry.src(ix.Index))
					v, _ := strconv.Unquote(cry.src(as.Rhs[0]))
					ks = append(ks, k+"="+v)
				}
			}
			return true
		})
		sort.Strings(ks)
		fmt.Fprintf(&b, "%s\n/-- `key=value` assignments of GetDefaultExtension, sorted -/\ndef defaultExtension : List Str := %s\n", cry.prov("GetDefaultExtension", fd), leanStrList(ks))
	}
	b.WriteString("\nend Ysshra.Gen.Gensign\n")
	return "Gensign", b.String()
}
