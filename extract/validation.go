package main

// sshutils/cert/validation.go: ValidateSSHCertTime translated statement by statement into a Lean
// definition over (ValidAfter, ValidBefore, now.Unix()); Bridge/Validation.lean proves it equal to
// the model's `validAt` for all 64-bit bounds.

import (
	"fmt"
	"go/ast"
	"go/token"
	"strings"
)

func genValidation() (string, string) {
	f := parseFile(*repo, "sshutils/cert/validation.go")
	var b strings.Builder
	b.WriteString("import Ysshra.Model.Shim\nnamespace Ysshra.Gen.Validation\nopen Ysshra\n\n")
	b.WriteString(untranslatableDecl() + "\n")
	b.WriteString("/-- Go's `int64(x)` of a `uint64` value -/\ndef i64 (n : Nat) : Int := if n % 2 ^ 64 < 2 ^ 63 then (n % 2 ^ 64 : Nat) else ((n % 2 ^ 64 : Nat) : Int) - 2 ^ 64\n")
	b.WriteString("def maxInt64U : Nat := 2 ^ 63 - 1\n\n")
	fd := f.funcDecl("ValidateSSHCertTime")
	if fd == nil {
		b.WriteString("def validate (va0 vb0 : Nat) (nowUnix : Int) : Bool := untranslatable \"ValidateSSHCertTime not found\"\n\nend Ysshra.Gen.Validation\n")
		return "Validation", b.String()
	}
	t := &Tr{F: f, Names: map[string]string{"math.MaxInt64": "maxInt64U", "int64": "i64", "now.Unix": "nowUnix",
		"cert.ValidBefore": "vb0", "cert.ValidAfter": "va0"}}
	var lets []string
	result := ""
	stmts := fd.Body.List
	for i := 0; i < len(stmts); i++ {
		s := stmts[i]
		src := norm(f.src(s))
		switch x := s.(type) {
		case *ast.IfStmt:
			// the nil guard and the clock default are not part of the arithmetic
			if src == "if cert == nil { return false }" || src == "if now.IsZero() { now = time.Now() }" {
				continue
			}
			if x.Else == nil && x.Init == nil && len(x.Body.List) == 1 {
				// clamp: if x > C { x = C }
				if as, ok := x.Body.List[0].(*ast.AssignStmt); ok && as.Tok == token.ASSIGN && len(as.Lhs) == 1 && len(as.Rhs) == 1 {
					if id, ok := as.Lhs[0].(*ast.Ident); ok {
						lets = append(lets, fmt.Sprintf("let %s := if %s then %s else %s", id.Name, t.expr(x.Cond), t.expr(as.Rhs[0]), id.Name))
						continue
					}
				}
				// final test: if COND { return false } … return true
				if rs, ok := x.Body.List[0].(*ast.ReturnStmt); ok && len(rs.Results) == 1 && f.src(rs.Results[0]) == "false" &&
					i+1 < len(stmts) && norm(f.src(stmts[i+1])) == "return true" && i+2 == len(stmts) {
					result = "!(" + t.expr(x.Cond) + ")"
					i++
					continue
				}
			}
			lets = append(lets, "let _ := "+t.bad(s, "statement "+src))
		case *ast.AssignStmt:
			if src == "now := currentTime" {
				continue
			}
			if x.Tok == token.DEFINE && len(x.Lhs) == 1 && len(x.Rhs) == 1 {
				if id, ok := x.Lhs[0].(*ast.Ident); ok {
					lets = append(lets, fmt.Sprintf("let %s := %s", id.Name, t.expr(x.Rhs[0])))
					continue
				}
			}
			lets = append(lets, "let _ := "+t.bad(s, "statement "+src))
		case *ast.ReturnStmt:
			if len(x.Results) == 1 && i+1 == len(stmts) {
				result = t.expr(x.Results[0])
				continue
			}
			lets = append(lets, "let _ := "+t.bad(s, "statement "+src))
		default:
			lets = append(lets, "let _ := "+t.bad(s, "statement "+src))
		}
	}
	if result == "" {
		result = "untranslatable \"no result expression\""
	}
	b.WriteString(f.prov("ValidateSSHCertTime", fd) + "\n")
	b.WriteString("/-- `ValidateSSHCertTime` as a function of the two bounds and `now.Unix()` -/\n")
	b.WriteString("def validate (va0 vb0 : Nat) (nowUnix : Int) : Bool :=\n")
	for _, l := range lets {
		b.WriteString("  " + l + "\n")
	}
	b.WriteString("  " + result + "\n\nend Ysshra.Gen.Validation\n")
	return "Validation", b.String()
}
