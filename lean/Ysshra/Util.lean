/-
Shared utilities for the executable models: byte strings, texts, hex, and the
`c!"…"` macro producing a literal `List Char` (so the kernel never has to
reduce `String.toList`). Core Lean only.
-/
namespace Ysshra

abbrev Bytes := List UInt8
abbrev Str := List Char

open Lean in
/-- `c!"abc"` elaborates to the literal list `['a','b','c']`. -/
macro:max "c!" s:str : term => do
  let cs := s.getString.toList
  let elems := cs.map fun c => (Syntax.mkCharLit c : TSyntax `term)
  `(([$(elems.toArray),*] : List Char))

open Lean in
/-- `b!"abc"` elaborates to the literal list of the UTF-8 bytes `[0x61, 0x62, 0x63]`. -/
macro:max "b!" s:str : term => do
  let bs := s.getString.toUTF8.toList
  let elems := bs.map fun b => (Syntax.mkNumLit (toString b.toNat) : TSyntax `term)
  `(([$(elems.toArray),*] : List UInt8))

def hexDigit (n : Nat) : Char :=
  if n < 10 then Char.ofNat (48 + n) else Char.ofNat (87 + n)

def hexVal (c : Char) : Option Nat :=
  let n := c.toNat
  if 48 ≤ n ∧ n ≤ 57 then some (n - 48)
  else if 97 ≤ n ∧ n ≤ 102 then some (n - 87)
  else if 65 ≤ n ∧ n ≤ 70 then some (n - 55)
  else none

def hexOfBytes (b : Bytes) : String :=
  String.ofList (b.flatMap fun x => [hexDigit (x.toNat / 16), hexDigit (x.toNat % 16)])

def bytesOfHexAux : List Char → Option Bytes
  | [] => some []
  | a :: b :: rest => do
      let x ← hexVal a
      let y ← hexVal b
      let tl ← bytesOfHexAux rest
      pure (UInt8.ofNat (x * 16 + y) :: tl)
  | _ => none

/-- `-` encodes the empty byte string so that no field is ever empty. -/
def bytesOfHex (s : String) : Option Bytes :=
  if s == "-" then some [] else bytesOfHexAux s.toList

def hexOrDash (b : Bytes) : String :=
  if b.isEmpty then "-" else hexOfBytes b

def strOfBytes (b : Bytes) : Option Str :=
  (String.fromUTF8? (ByteArray.mk b.toArray)).map String.toList

def bytesOfStr (s : Str) : Bytes := (String.ofList s).toUTF8.toList

def strOfHex (s : String) : Option Str := (bytesOfHex s) >>= strOfBytes

def hexOfStr (s : Str) : String := hexOrDash (bytesOfStr s)

def natOfString (s : String) : Option Nat := s.toNat?
def intOfString (s : String) : Option Int := s.toInt?

def boolOf01 (s : String) : Option Bool :=
  if s == "1" then some true else if s == "0" then some false else none

def b01 (b : Bool) : String := if b then "1" else "0"

/-- `k=v` lookup among the fields of a protocol line. -/
def field? (fs : List String) (k : String) : Option String :=
  fs.findSome? fun f =>
    match f.splitOn "=" with
    | k' :: v :: [] => if k' == k then some v else none
    | _ => none

end Ysshra
