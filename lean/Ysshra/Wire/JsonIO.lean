import Ysshra.Model.Json
import Ysshra.Model.KeyId
/-
Driver glue (trusted, not part of any theorem): the one-field text form in which the harness
sends JSON token trees and KeyID values, and in which the driver prints them.
  `!` not JSON · `z` null · `t`/`f` · `n<lit>;` number · `N<lit>;` number overflowing float64 ·
  `s<hex>;` string · `[`…`]` · `{` (`s<hex>;` value)* `}`
-/
namespace Ysshra.IO
open Ysshra

def parseNumLit (lit : List Char) (over : Bool) : Option JNum :=
  let (neg, rest) := match lit with
    | '-' :: r => (true, r)
    | r => (false, r)
  let digits := rest.takeWhile Char.isDigit
  let tail := rest.dropWhile Char.isDigit
  if digits.isEmpty then none
  else some ⟨neg, digits.foldl (fun a c => a * 10 + (c.toNat - 48)) 0, tail.isEmpty, over⟩

def takeUntilSemi : List Char → List Char × List Char
  | [] => ([], [])
  | ';' :: r => ([], r)
  | c :: r => let (a, b) := takeUntilSemi r; (c :: a, b)

mutual
def parseJ (fuel : Nat) (cs : List Char) : Option (JVal × List Char) :=
  match fuel with
  | 0 => none
  | fuel + 1 =>
    match cs with
    | 'z' :: r => some (.null, r)
    | 't' :: r => some (.bool true, r)
    | 'f' :: r => some (.bool false, r)
    | 'n' :: r => let (lit, r') := takeUntilSemi r; (parseNumLit lit false).map fun n => (.num n, r')
    | 'N' :: r => let (lit, r') := takeUntilSemi r; (parseNumLit lit true).map fun n => (.num n, r')
    | 's' :: r =>
      let (h, r') := takeUntilSemi r
      (strOfHex (String.ofList h)).map fun s => (.str s, r')
    | '[' :: r => (parseArr fuel r).map fun (xs, r') => (.arr xs, r')
    | '{' :: r => (parseObj fuel r).map fun (ms, r') => (.obj ms, r')
    | _ => none
def parseArr (fuel : Nat) (cs : List Char) : Option (List JVal × List Char) :=
  match fuel with
  | 0 => none
  | fuel + 1 =>
    match cs with
    | ']' :: r => some ([], r)
    | _ => do
      let (v, r) ← parseJ fuel cs
      let (vs, r') ← parseArr fuel r
      pure (v :: vs, r')
def parseObj (fuel : Nat) (cs : List Char) : Option (List (Str × JVal) × List Char) :=
  match fuel with
  | 0 => none
  | fuel + 1 =>
    match cs with
    | '}' :: r => some ([], r)
    | 's' :: r => do
      let (h, r1) := takeUntilSemi r
      let k ← strOfHex (String.ofList h)
      let (v, r2) ← parseJ fuel r1
      let (ms, r3) ← parseObj fuel r2
      pure ((k, v) :: ms, r3)
    | _ => none
end

/-- outer `none` = malformed protocol field; inner `none` = "not JSON" -/
def jvalOfField (s : String) : Option (Option JVal) :=
  if s == "!" then some none
  else match parseJ (s.length + 1) s.toList with
    | some (v, []) => some (some v)
    | _ => none

def showNat (n : Nat) : String := toString n

mutual
def showJ : JVal → String
  | .null => "z"
  | .bool true => "t"
  | .bool false => "f"
  | .num n => (if n.f64over then "N" else "n") ++ (if n.neg then "-" else "") ++ toString n.int ++
      (if n.isInt then "" else ".?") ++ ";"
  | .str s => "s" ++ hexOfStr s ++ ";"
  | .arr xs => "[" ++ showJs xs ++ "]"
  | .obj ms => "{" ++ showMs ms ++ "}"
def showJs : List JVal → String
  | [] => ""
  | x :: r => showJ x ++ showJs r
def showMs : List (Str × JVal) → String
  | [] => ""
  | (k, v) :: r => "s" ++ hexOfStr k ++ ";" ++ showJ v ++ showMs r
end

/-- `kid(prins;transID;reqUser;reqIP;reqHost;ff;hw;hl;nonce;usage;touch;ver)` -/
def showKid (k : KeyID) : String :=
  let prins := match k.Principals with
    | none => "nil"
    | some ps => "[" ++ String.intercalate "|" (ps.map hexOfStr) ++ "]"
  "kid(" ++ String.intercalate ";" [prins, hexOfStr k.TransID, hexOfStr k.ReqUser, hexOfStr k.ReqIP,
    hexOfStr k.ReqHost, b01 k.IsFirefighter, b01 k.IsHWKey, b01 k.IsHeadless, b01 k.IsNonce,
    toString k.Usage, toString k.TouchPolicy, toString k.Version] ++ ")"

def parsePrins (s : String) : Option (Option (List Str)) :=
  if s == "nil" then some none
  else if s == "[]" then some (some [])
  else if s.startsWith "[" && s.endsWith "]" then
    let inner := (s.drop 1).dropEnd 1 |>.toString
    (inner.splitOn "|").mapM strOfHex |>.map some
  else none

def parseKid (s : String) : Option KeyID :=
  if !(s.startsWith "kid(" && s.endsWith ")") then none
  else
    let inner := ((s.drop 4).dropEnd 1).toString
    match inner.splitOn ";" with
    | [p, t, u, ip, h, ff, hw, hl, nc, us, tp, v] => do
      let p ← parsePrins p
      let t ← strOfHex t; let u ← strOfHex u; let ip ← strOfHex ip; let h ← strOfHex h
      let ff ← boolOf01 ff; let hw ← boolOf01 hw; let hl ← boolOf01 hl; let nc ← boolOf01 nc
      let us ← us.toInt?; let tp ← tp.toInt?; let v ← v.toNat?
      pure ⟨p, t, u, ip, h, ff, hw, hl, nc, us, tp, v⟩
    | _ => none

end Ysshra.IO
