import Ysshra.Model.Attest
/-
Executable statement of C06 (written from the property text): which (certificate, signature)
pairs `Attest` may accept.
-/
namespace Ysshra.Spec.C06
open Ysshra Ysshra.Pkcs1 Ysshra.Attest

/-- full-length PKCS#1 v1.5 encoded message: 00 01 FF..FF 00 ‖ DigestInfo prefix ‖ digest -/
def canonEM (k : Nat) (p d : Bytes) : Bytes :=
  [0, 1] ++ List.replicate (k - p.length - d.length - 3) 0xff ++ [0] ++ p ++ d

/-- should this attestation be accepted? -/
def shouldAccept (chainOK : Bool) (algo : Nat) (digest : Nat → Bytes) (sig : Bytes) (key : PubKey) : Bool :=
  chainOK &&
  match algoSpec algo, key with
  | .hash h, .rsa n e =>
    match prefixNull h, prefixNoNull h with
    | some p1, some p2 =>
      let d := digest h
      let k := modLen n
      let m := if n = 0 then 0 else modpow (bytesNat sig) e n
      let em := leftPad (natBytes (m + 1) m) k
      d.length = hashSize h && decide (p1.length + d.length + 11 ≤ k) &&
        (em = canonEM k p1 d || em = canonEM k p2 d)
    | _, _ => false
  | _, _ => false

def check (chainOK : Bool) (algo : Nat) (digest : Nat → Bytes) (sig : Bytes) (key : PubKey) :
    Verdict → Option String
  | .crash => some "crash"
  | .accept => if shouldAccept chainOK algo digest sig key then none else some "accepted-what-the-statement-rejects"
  | .reject => if shouldAccept chainOK algo digest sig key then some "rejected-a-valid-attestation" else none

end Ysshra.Spec.C06
