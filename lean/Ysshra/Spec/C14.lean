import Ysshra.Model.Param
namespace Ysshra.Spec.C14
open Ysshra Message Text

structure Obs where
  policy : Bytes
  handler : Bytes
  clientIP : Bytes
  logName : Bytes
  reqUser : Bytes
  reqHost : Bytes
  /-- "ok" = ten lower-case hex digits not seen before in this run -/
  tid : String
  version : Version

/-- the statement of C14 as a predicate on what the implementation returned -/
def check (utf8 : Str → Bytes) (ipOK : Bool) (e : Env) : Res Obs → Option String
  | .crash => some "crash"
  | .err => none
  | .ok o =>
    let toks := e.argv.flatMap (splitOn 0x20)
    if e.logname.isEmpty || o.logName ≠ e.logname then some "login-name"
    else if o.clientIP ≠ firstField e.sshConnection || !ipOK then some "client-ip"
    else if !(o.policy = NONS || o.policy = NSOK) then some "policy-value"
    -- "taken from the forced command": the value is one of its tokens (where it sits and how many
    -- tokens a command may have is the code's convention, not part of the statement)
    else if !toks.contains o.policy then some "policy-not-from-forced-command"
    else if o.tid ≠ "ok" then some "transaction-id"
    else match unmarshal e.cmdTok e.cmdRaw with
      | .ok d =>
        let a : AttrsB := match d with
          | .json a => toB utf8 a
          | .legacy a => a
        if o.reqUser ≠ a.Username || o.reqHost ≠ a.Hostname then some "client-claims"
        else if a.SSHClientVersion.isEmpty then (if o.version = ⟨0, 0⟩ then none else some "version-default")
        else if versionUnmarshal a.SSHClientVersion = some o.version then none else some "version"
      | _ => some "accepted-undecodable-message"

end Ysshra.Spec.C14
