import Ysshra.Model.Serve
/-
Executable statement of C12 on what the implementation did with one byte stream.
-/
namespace Ysshra.Spec.C12
open Ysshra Ysshra.Wire Ysshra.Serve

structure Obs where
  crashed : Bool
  ending : Ending
  resps : List Bytes
  /-- the harness saw more than 16 MiB (plus slack) allocated while serving this stream -/
  bigAlloc : Bool

/-- split the stream into its leading complete frames; the flag says whether the whole stream
    was consumed exactly -/
def leadingFrames : Nat → Bytes → List Bytes × Bool
  | 0, _ => ([], false)
  | fuel + 1, bs =>
    match readFrame bs with
    | .frame r rest _ => let (fs, c) := leadingFrames fuel rest; (r :: fs, c)
    | .eof => ([], bs.isEmpty)
    | _ => ([], false)

/-- what follows the leading complete frames -/
def restAfter : Nat → Bytes → Bytes
  | 0, bs => bs
  | fuel + 1, bs =>
    match readFrame bs with
    | .frame _ rest _ => restAfter fuel rest
    | _ => bs

/-- would this request, alone, be accepted by its branch (→ exactly one response)? -/
def accepted (env : Env) (i : Nat) (r : Bytes) : Option Bytes :=
  match handle env i r with
  | .reply b => if b.length ≤ maxAgentResponseBytes then some b else none
  | .replyLogged b => if b.length ≤ maxAgentResponseBytes then some b else none
  | .fail => none

/-- the expected responses to the leading run of accepted requests -/
def expectedPrefix (envOf : Nat → Bytes → Env) : Nat → List Bytes → List Bytes × Bool
  | _, [] => ([], true)
  | i, r :: rs =>
    match accepted (envOf i r) i r with
    | some b => let (bs, all) := expectedPrefix envOf (i + 1) rs; (b :: bs, all)
    | none => ([], false)

/-- `envOf i r` is the environment (served agent + library oracles) in force for request `i` -/
def check (envOf : Nat → Bytes → Env) (stream : Bytes) (o : Obs) : Option String :=
  if o.crashed then some "crash"
  else if o.bigAlloc then some "allocation-above-16MiB"
  else
    let (frames, exact) := leadingFrames (stream.length + 1) stream
    let (want, all) := expectedPrefix envOf 0 frames
    -- every complete accepted request is answered exactly once, in order
    if o.resps.take want.length ≠ want then some "responses-to-accepted-requests"
    else if all && o.resps.length ≠ want.length then some "extra-or-missing-response"
    else if all && exact && o.ending ≠ .clean then some "clean-eof-reported-as-error"
    else if !all && o.resps.length > want.length then some "response-after-rejected-request"
    -- a frame declared larger than 16 MiB is neither served nor waited for: the connection ends
    -- with an error
    else if all && (match readFrame (restAfter (stream.length + 1) stream) with | .tooLarge _ => true | _ => false) &&
        o.ending ≠ .error then some "oversize-frame-not-refused"
    else none

end Ysshra.Spec.C12
