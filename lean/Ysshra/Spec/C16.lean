import Ysshra.Model.Attest
namespace Ysshra.Spec.C16
open Ysshra Ysshra.Attest
open Ysshra.Message (Res)

def alphabet : List Char := c!"cbdefghijklnrtuv"

/-- the serial value of the last vendor-serial extension, without its two header bytes -/
def lastSerial (exts : List (Str × Bytes)) : Option Bytes :=
  match (exts.filter (fun p => p.1 = serialOID)).getLast? with
  | none => none
  | some (_, v) => if v.length < 2 then none else some (v.drop 2)

def hexNibbles (b : Bytes) : List Nat := b.flatMap fun x => [x.toNat / 16, x.toNat % 16]

/-- statement: never a crash; 8 ModHex characters encoding a 3- or 4-byte serial; error otherwise -/
def modhex (exts : List (Str × Bytes)) : Res Str → Option String
  | .crash => some "crash"
  | .err =>
    match lastSerial exts with
    | some s => if s.length = 3 ∨ s.length = 4 then some "valid-serial-refused" else none
    | none => none
  | .ok out =>
    match lastSerial exts with
    | none => some "accepted-without-serial"
    | some s =>
      if ¬ (s.length = 3 ∨ s.length = 4) then some "accepted-bad-length"
      else if out.length ≠ 8 then some "not-8-characters"
      else if ¬ out.all (fun c => alphabet.contains c) then some "outside-alphabet"
      else
        let nib := (if s.length = 3 then [0, 0] else []) ++ hexNibbles s
        if out.map (fun c => alphabet.idxOf c) = nib then none else some "wrong-digits"

end Ysshra.Spec.C16
