import Ysshra.Drv.GensignFmt
/-
Observation-level statements of C01–C04.

The correspondence check compares the model's run with the implementation's run event by event;
a difference there breaks the tie but is not by itself a violation of a property.  The predicates
below decide, from what the harness saw the real `gensign.Run` do (its result kind, the ordered
trace of handler calls, agent requests and CA calls, the challenge verdict, the agent's content
afterwards and the request the CA received), whether a clause of C01 / C02 / C03 / C04 fails on
that run.  They are written from the property statements and do not call `Gensign.run`.
Tags are `Cnn.<clause>`; `bin/check Cnn` counts the tags of its own property.
-/
open Ysshra Ysshra.IO Ysshra.Gensign Ysshra.Drv
namespace Ysshra.Spec.Gensign

inductive OEv
  | auth (i : Nat) | gen (i : Nat) | sign (k : String) (ok : Bool)
  | add (k c : String) (lt : Nat) (cm : String) (ok : Bool)
  | list (ok : Bool) | rm (k c : String) (ok : Bool) | ca (k : String) (ok : Bool)
deriving BEq, Repr

structure OIdent where
  key : String
  cert : String
  comment : String
deriving BEq, Repr

structure ORun where
  res : String
  tr : List OEv
  chal : String
  ag : List OIdent
  csrs : List String

/-- what one run was given -/
structure RunIn where
  p : Param
  conf : Conf
  hs : List Handler
  behav : String
  ca : List CAReply

def parseEv (s : String) : Option OEv :=
  match s.splitOn ":" with
  | ["auth", i] => i.toNat?.map .auth
  | ["gen", i] => i.toNat?.map .gen
  | ["sign", k, ok] => (boolOf01 ok).map (.sign k)
  | ["add", k, c, lt, cm, ok] => do pure (.add k c (← lt.toNat?) cm (← boolOf01 ok))
  | ["list", ok] => (boolOf01 ok).map .list
  | ["rm", k, c, ok] => (boolOf01 ok).map (.rm k c)
  | ["ca", k, ok] => (boolOf01 ok).map (.ca k)
  | _ => none

/-- the text after the first `a` up to the next `b` -/
def between (s a b : String) : Option String :=
  match s.splitOn a with
  | _ :: r :: rest => some (((String.intercalate a (r :: rest)).splitOn b).headD "")
  | _ => none

def parseIdent (s : String) : Option OIdent :=
  match s.splitOn ":" with
  | [k, c, cm] => some ⟨k, c, cm⟩
  | _ => none

def parseRun (s : String) : Option ORun := do
  let s := " " ++ s
  let res ← between s " res=" " tr="
  let trS ← between s " tr=" " chal="
  let chal ← between s " chal=" " ag=["
  let agS ← between s " ag=[" "] csr=["
  let csrS ← match s.splitOn "] csr=[" with
    | [_, c] => if c.endsWith "]" then some (c.dropEnd 1).toString else none
    | _ => none
  let tr ← if trS.isEmpty then some [] else (trS.splitOn ">").mapM parseEv
  let ag ← if agS.isEmpty then some [] else (agS.splitOn "|").mapM parseIdent
  let csrs := if csrS.isEmpty then [] else
    match csrS.splitOn "|meta=" with
    | [] => []
    | c :: r => c :: r.map ("meta=" ++ ·)
  pure ⟨res, tr, chal, ag, csrs⟩

def isFreshName (k : String) : Bool := k.startsWith "f"

def OEv.isAdd : OEv → Bool | .add .. => true | _ => false
def OEv.isRegularCA : OEv → Bool | .ca k _ => isFreshName k | _ => false
def OEv.isCA : OEv → Bool | .ca .. => true | _ => false
def OEv.isGen : OEv → Bool | .gen _ => true | _ => false
def OEv.isAuth : OEv → Bool | .auth _ => true | _ => false

/-- the agent-visible activity of the regular handler after authentication -/
def OEv.isProvisioning (e : OEv) : Bool := e.isAdd || e.isRegularCA

/-- the registered key's name in the trace -/
def regName (conf : Conf) : Option String := (registeredKey conf.dir).map (keyName [])

/-- do these events contain a valid proof of possession? (the forwarded agent answered the sign
    request for the registered key, and it answers honestly: it signs the data it was given with
    the key it was asked for) -/
def validProof (i : RunIn) (seg : List OEv) : Bool :=
  i.p.nons && !i.p.hardKey && (i.behav == "honest" || i.behav == "honest+le") &&
  match regName i.conf with
  | some k => seg.contains (.sign k true)
  | none => false

/-- the events of handler `i`'s authentication: from `auth i` to the next `auth` / `gen` -/
def authSegment (tr : List OEv) (i : Nat) : List OEv :=
  ((tr.dropWhile (· != .auth i)).drop 1).takeWhile fun e => !(e.isAuth || e.isGen)

def handlerAuthenticates (i : RunIn) (tr : List OEv) (idx : Nat) : Handler → Bool
  | .regular => validProof i (authSegment tr idx)
  | .scripted .reject => false
  | .scripted .namePanicAfterReject => false
  | .scripted .authPanic => false
  | .scripted _ => true

def panicsInAuth : Handler → Bool
  | .scripted .authPanic => true
  | .scripted .namePanicAfterReject => true
  | _ => false

def auths (tr : List OEv) : List Nat := tr.filterMap fun e => match e with | .auth i => some i | _ => none
def gens (tr : List OEv) : List Nat := tr.filterMap fun e => match e with | .gen i => some i | _ => none

/-! ### C01 -/

def c01 (i : RunIn) (o : ORun) : List String :=
  let tr := o.tr
  let beforeProv := tr.takeWhile (!·.isProvisioning)
  let provisions := tr.any (·.isProvisioning)
  let a := auths tr
  let g := gens tr
  -- (1) nothing reaches the CA or the agent without a valid proof over a fresh challenge
  (if provisions && !validProof i beforeProv then ["C01.provisioning-without-valid-proof"] else []) ++
  (if provisions && o.chal != "fresh" then ["C01.challenge-not-fresh"] else []) ++
  -- (2) handlers are tried in configured order and the first that authenticates generates
  (if a != List.range a.length || a.length > i.hs.length then ["C01.handler-order"] else []) ++
  (match g with
   | [] => []
   | [j] =>
     (if j + 1 != a.length then ["C01.generating-handler-not-last-authenticated"] else []) ++
     (if (List.range j).any fun k => match i.hs[k]? with
          | some h => handlerAuthenticates i tr k h
          | none => true then ["C01.not-first-authenticating-handler"] else []) ++
     (match i.hs[j]? with
      | some h => if !handlerAuthenticates i tr j h then ["C01.generating-handler-not-authenticated"] else []
      | none => ["C01.handler-order"]) ++
     (if (tr.takeWhile (!·.isGen)).any (fun e => e.isProvisioning || e.isCA) then ["C01.signing-before-generate"] else [])
   | _ => ["C01.several-handlers-generate"]) ++
  -- (3) none authenticates: nothing generated, nothing signed, all-authentications-failed
  (if g.isEmpty && tr.any (fun e => e.isProvisioning || e.isCA) then ["C01.signed-without-handler"] else []) ++
  (if g.isEmpty && !((i.hs.take a.length).any panicsInAuth) && o.res != "allAuthFailed" then
     ["C01.all-failed-not-reported"] else []) ++
  (if o.res == "allAuthFailed" && (!g.isEmpty || a.length != i.hs.length) then ["C01.all-failed-misreported"] else [])

/-! ### C02 -/

/-- the request the statement prescribes, rendered as the harness renders what the CA received -/
def expectedCSR (i : RunIn) (slot : Str) (key : String) : String :=
  let kid : KeyID :=
    { Principals := some [i.p.logName], TransID := i.p.transID, ReqUser := i.p.reqUser, ReqIP := i.p.clientIP,
      ReqHost := i.p.reqHost, IsFirefighter := false, IsHWKey := false, IsHeadless := false, IsNonce := false,
      Usage := 0, TouchPolicy := 1, Version := 1 }
  let exts : List Str := [c!"permit-X11-forwarding", c!"permit-agent-forwarding", c!"permit-port-forwarding",
    c!"permit-pty", c!"permit-user-rc"]
  "meta=" ++ hexOfStr slot ++ ",val=" ++ toString i.conf.validity ++ ",prins=" ++ showStrList [i.p.logName] ++
  ",exts=" ++ String.intercalate "+" (exts.map fun e => hexOfStr e ++ "=-") ++
  ",key=" ++ key ++ ",kid=" ++ showJ (KeyID.toJ kid)

def csrKey (c : String) : String := (between c ",key=" ",kid=").getD "?"

/-- `used`: key names that existed before this run (in the agent, or certified earlier) -/
def c02 (i : RunIn) (used : List String) (o : ORun) : List String :=
  let slot := i.conf.keyIds.lookup i.p.caAlgo
  (if slot.isNone && (!o.csrs.isEmpty || o.tr.any (·.isRegularCA)) then ["C02.unconfigured-slot-not-refused"] else []) ++
  (match slot with
   | none => []
   | some s => if o.csrs.all fun c => c == expectedCSR i s (csrKey c) then [] else ["C02.request-fields"]) ++
  (let rec go (seen : List String) : List String → List String
     | [] => []
     | c :: r =>
       let k := csrKey c
       -- generated by the RA in this run: its private key is added in this run, before the CA call
       let addedHere := (o.tr.takeWhile (!·.isCA)).any fun e => match e with
         | .add k' "-" _ _ true => k' == k
         | _ => false
       (if !isFreshName k || seen.contains k then ["C02.key-not-fresh"] else []) ++
       (if !addedHere then ["C02.key-not-generated-for-this-request"] else []) ++ go (k :: seen) r
   go used o.csrs)

/-! ### C03 -/

def labelHex : String := hexOrDash certLabel
def privHex : String := hexOrDash privateKeyLabel

/-- does the comment carry the handler's label? (the refresh filter of the handler) -/
def carriesLabel (commentHex : String) : Bool :=
  match bytesOfHex (if commentHex == "-" then "" else commentHex) with
  | some b => containsSub handlerName b
  | none => false

/-- how many certificates for the request's own key the first CA reply holds -/
def returnedCerts : List CAReply → Option Nat
  | .certs n _ :: _ => some n
  | .plainKey :: _ => some 0
  | .mixed n m :: _ => some (n + m)
  | _ => none

def c03 (i : RunIn) (pre : List OIdent) (o : ORun) : List String :=
  let tr := o.tr
  let regularRan := match gens tr with
    | [j] => i.hs[j]? == some Handler.regular
    | _ => false
  let certAdds := tr.filterMap fun e => match e with
    | .add k c _ cm ok => if c != "-" then some (k, c, cm, ok) else none
    | _ => none
  let privAdds := tr.filterMap fun e => match e with
    | .add k "-" _ _ true => some k
    | _ => none
  let caOK := tr.any fun e => match e with | .ca k true => isFreshName k | _ => false
  -- lifetimes: finite and not shorter than the validity (configured validity one second … ten
  -- years, the range the property quantifies over)
  (if 1 ≤ i.conf.validity && i.conf.validity ≤ 315576000 && tr.any (fun e => match e with | .add _ _ lt _ _ => lt == 0 || lt < i.conf.validity | _ => false) then
     ["C03.lifetime"] else []) ++
  -- after a successful run of the regular handler
  (if o.res == "ok" && regularRan then
     (match privAdds with
      | [k] =>
        (if !o.ag.contains ⟨k, "-", privHex⟩ then ["C03.private-key-missing"] else []) ++
        -- every returned certificate stored with that private key, under the handler's label
        (if certAdds.all fun (k', c, cm, ok) => k' == k && ok && cm == labelHex && o.ag.contains ⟨k, c, labelHex⟩
         then [] else ["C03.certificate-not-stored-with-key"]) ++
        (match returnedCerts i.ca with
         | some n => if certAdds.length != n then ["C03.returned-certificates-not-all-stored"] else []
         | none => []) ++
        -- at most one generation
        (if o.ag.all fun x => x.cert == "-" || !carriesLabel x.comment || certAdds.any (fun (_, c, _, _) => c == x.cert)
         then [] else ["C03.earlier-generation-left"])
      | _ => ["C03.private-key-missing"])
   else []) ++
  -- identities without the handler's label are never removed or altered
  (if pre.all fun x => carriesLabel x.comment || o.ag.contains x then [] else ["C03.foreign-identity-removed"]) ++
  -- a run that fails before or during signing leaves the provisioned certificates in place
  (if o.res != "ok" && !caOK then
     (if pre.all fun x => x.cert == "-" || o.ag.contains x then [] else ["C03.failed-run-removed-certificates"])
   else [])

/-! ### C04 -/

def c04 (i : RunIn) (o : ORun) : List String :=
  let tr := o.tr
  let regularRan := match gens tr with
    | [j] => i.hs[j]? == some Handler.regular
    | _ => false
  let failedAgentOp := tr.any fun e => match e with
    | .add _ _ _ _ false | .list false | .rm _ _ false => true
    | _ => false
  let failedCA := tr.any fun e => match e with | .ca _ false => true | _ => false
  let certAdds := tr.filter fun e => match e with | .add _ c _ _ _ => c != "-" | _ => false
  -- (a scripted handler may return an error of its own making; the built-in steps may not)
  (if o.res == "other" && (regularRan || (gens tr).isEmpty) then ["C04.untyped-error"] else []) ++
  -- success only when every step succeeded
  (if o.res == "ok" && (gens tr).isEmpty then ["C04.success-without-generate"] else []) ++
  (if o.res == "ok" && (failedAgentOp || failedCA) then ["C04.silent-success-after-failed-step"] else []) ++
  (if o.res == "ok" && !tr.any (·.isCA) && regularRan then ["C04.success-without-signing"] else []) ++
  (if o.res == "ok" && regularRan then
     match returnedCerts i.ca with
     | some n => if certAdds.length != n then ["C04.success-without-storing-every-certificate"] else []
     | none => ["C04.success-with-unusable-ca-reply"]
   else []) ++
  -- matching kinds
  (if failedCA && !(o.res == "signerSign" || o.res == "panic") then ["C04.ca-failure-kind"] else []) ++
  (if regularRan && !failedCA && failedAgentOp then
     -- the first failing agent request decides: the private-key add belongs to generation
     match tr.find? (fun e => match e with | .add _ _ _ _ false | .list false | .rm _ _ false => true | _ => false) with
     | some (.add _ "-" _ _ false) => if o.res != "handlerGenCSR" then ["C04.generate-failure-kind"] else []
     | some _ => if o.res != "agentOpCert" then ["C04.agent-failure-kind"] else []
     | none => []
   else []) ++
  -- a signer that panics: the CA reply consumed by the first failing call decides (the calls are
  -- made one after the other, so it is the reply whose index is the number of successful calls)
  (let okCalls := (tr.takeWhile fun e => match e with | .ca _ false => false | _ => true).filter (·.isCA)
   if failedCA && i.ca[okCalls.length]? == some CAReply.panic && o.res != "panic" then ["C04.signer-panic-kind"] else []) ++
  -- panics are reported as panics
  (if (i.hs.take (auths tr).length).any panicsInAuth && (gens tr).isEmpty && o.res != "panic" then ["C04.handler-panic-kind"] else []) ++
  (match gens tr with
   | [j] =>
     (if i.hs[j]? == some (Handler.scripted .genPanic) && o.res != "panic" then ["C04.handler-panic-kind"] else []) ++
     -- a selected handler whose Name() panics: whatever `Run` does with the name, the outcome is a
     -- typed error of the step that failed, or the panic kind — never success
     (match i.hs[j]? with
      | some (.scripted (.genKeyNamePanic _)) =>
        if o.res == "ok" || (!failedCA && o.res != "panic") then ["C04.handler-panic-kind"] else []
      | _ => [])
   | _ => []) ++
  -- no certificate reaches the agent for a request the CA did not sign
  (let rec go (signed : List String) : List OEv → List String
     | [] => []
     | .ca k true :: r => go (k :: signed) r
     | .add k c _ _ _ :: r => (if c != "-" && !signed.contains k then ["C04.unsigned-certificate-added"] else []) ++ go signed r
     | _ :: r => go signed r
   go [] tr)

/-- all clauses of one run; `pre` = agent before the run, `used` = key names seen before -/
def clauses (i : RunIn) (pre : List OIdent) (used : List String) (o : ORun) : List String :=
  c01 i o ++ c02 i used o ++ c03 i pre o ++ c04 i o

end Ysshra.Spec.Gensign
