import Ysshra.Model.KeyId
/-
Executable specification predicates for C05, used by the driver to judge what the
*implementation* returned (failing-input search).  Written from the property statement.
-/
namespace Ysshra.Spec.C05
open Ysshra

/-- outcome of `Marshal` followed by `Unmarshal` of its output, as observed on the implementation -/
inductive RtOut
  | encErr
  | encOk (j : Option JVal) (dec : Option KeyID)

/-- clause names: enc-iff, roundtrip -/
def rt (k : KeyID) : RtOut → Option String
  | .encErr => if k.Version = 1 ∧ k.consistent then some "enc-refused-consistent" else none
  | .encOk _ dec =>
    if ¬ (k.Version = 1 ∧ k.consistent) then some "enc-accepted-inconsistent"
    else match dec with
      | none => some "roundtrip-decode-failed"
      | some k' => if k' = k then none else some "roundtrip-differs"

def topKeys : Option JVal → List Str
  | some (.obj ms) => ms.map (·.1)
  | _ => []

/-- decoding any text: fails, or version supported ∧ all required present ∧ consistent -/
def dec (t : Option JVal) : Option KeyID → Option String
  | none => none
  | some k =>
    if k.Version ≠ 1 then some "dec-unsupported-version"
    else if ¬ k.consistent then some "dec-inconsistent"
    else if ¬ (KeyID.requiredV1.all fun r => (topKeys t).contains r) then some "dec-missing-required"
    else none

end Ysshra.Spec.C05
