import Ysshra.Model.Rpc
/-
Executable statement of C13 for the protocol-extension operations: what a caller must get,
stated directly from what the served agent did (no wire format involved).
-/
namespace Ysshra.Spec.C13
open Ysshra Ysshra.Rpc

/-- ideal result of an operation whose agent-side outcome is `agentErr` (`none` = success) -/
def unitRes (agentErr : Option Bytes) : CallRes Unit := match agentErr with
  | none => .ok ()
  | some e => .err e

/-- list-slots: the same slots, the agent's error as an error -/
def listRes (slots : List Bytes) (agentErr : Option Bytes) : CallRes (List Bytes) × List Bytes :=
  (match agentErr with
   | none => .ok slots
   | some e => .err e, slots)

/-- read/attest-slot: the certificate, or the agent's error -/
def slotRes (pem : Option Bytes) (agentErr : Option Bytes) : CallRes Bytes := match agentErr, pem with
  | some e, _ => .err e
  | none, some p => .ok p
  | none, none => .err []      -- an agent returning neither is outside the statement

end Ysshra.Spec.C13
