import Ysshra.Model.CertType
namespace Ysshra.Spec.C19
open Ysshra

/-- decision table from the statement (same text as `C19.specType`, kept here so the driver does
    not import proofs) -/
def specType (nonce ff hw : Bool) (touch : Int) (crit : Bool) : CType :=
  if nonce then .nonce
  else if ff then
    (if hw then .firefighter else if crit then .touchlessSudoInAgent else .touchlessInAgent)
  else if touch = 2 ∨ touch = 3 then .touchSudo
  else if touch = 1 then (if crit then .touchlessSudo else .touchless)
  else .unknown

def typeName : CType → Option Str
  | .unknown => none | .touchSudo => some c!"TouchSudo" | .touchless => some c!"Touchless"
  | .touchlessSudo => some c!"TouchlessSudo" | .firefighter => some c!"FireFighterSudo"
  | .nonce => some c!"Nonce" | .touchlessInAgent => some c!"TouchlessInAgent"
  | .touchlessSudoInAgent => some c!"TouchlessSudoInAgent"

structure Out where
  type : Nat
  label : Option Str
  prins : List Str
deriving DecidableEq

def expected (cert : Option CertView) (ps : List Str) : Out :=
  match cert with
  | none => ⟨0, none, []⟩
  | some c =>
    match KeyID.unmarshal c.KeyId with
    | .error _ => ⟨0, none, []⟩
    | .ok k =>
      let t := specType k.IsNonce k.IsFirefighter k.IsHWKey k.TouchPolicy (critSet c)
      let lbl := (typeName t).map (· ++ c!"SSH-" ++ k.TransID)
      let prins := match t with
        | .unknown => []
        | .touchSudo => ps.map (· ++ c!":touch")
        | .touchless | .touchlessSudo => ps.map (· ++ c!":notouch")
        | _ => ps
      ⟨t.toNat, lbl, prins⟩

def check (cert : Option CertView) (ps : List Str) (o : Out) : Option String :=
  let e := expected cert ps
  if o.type ≠ e.type then some "type"
  else if o.label ≠ e.label then some "label"
  else if o.prins ≠ e.prins then some "principals"
  else none

end Ysshra.Spec.C19
