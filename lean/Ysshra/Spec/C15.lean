import Ysshra.Model.Message
/-
Executable specification predicates for C14 / C15 (message side), written from the statements.
-/
namespace Ysshra.Spec.C15
open Ysshra Message Text

/-- Unicode white space or '@' anywhere in the bytes? (white space by its UTF-8 encodings) -/
def hasSpaceOrAt (b : Bytes) : Bool :=
  let rec go : Nat → Bytes → Bool
    | 0, _ => false
    | n + 1, s => match s with
      | [] => false
      | c :: r => c = 0x40 || (stripSpacePrefix s).isSome || go n r
  go b.length b

def hasSpace (b : Bytes) : Bool :=
  let rec go : Nat → Bytes → Bool
    | 0, _ => false
    | n + 1, s => match s with
      | [] => false
      | _ :: r => (stripSpacePrefix s).isSome || go n r
  go b.length b

/-- what the harness observed for one encode-then-decode experiment -/
inductive EncOut
  | refused
  | json (decoded : Option AttrsB)        -- decoded = none: decoding the output failed
  | legacy (decoded : Option AttrsB)
  | crash

def tsOrZero (t : Option (TSudo Bytes)) : TSudo Bytes := match t with
  | some t => t
  | none => ⟨false, [], 0⟩

/-- fields compared on the JSON path (extension maps are compared by the correspondence, as
    canonical token trees; here the byte-level fields) -/
def sameCore (a b : AttrsB) : Bool :=
  a.IfVer = b.IfVer && a.Username = b.Username && a.Hostname = b.Hostname &&
  a.SSHClientVersion = b.SSHClientVersion && a.CAPubKeyAlgo = b.CAPubKeyAlgo &&
  a.SignatureAlgo = b.SignatureAlgo && a.HardKey = b.HardKey && a.Touch2SSH = b.Touch2SSH &&
  tsOrZero a.TouchlessSudo = tsOrZero b.TouchlessSudo

def sameLegacy (a b : AttrsB) : Bool :=
  b.IfVer = 6 && a.Username = b.Username && a.Hostname = b.Hostname &&
  a.SSHClientVersion = b.SSHClientVersion && a.HardKey = b.HardKey && a.Touch2SSH = b.Touch2SSH &&
  tsOrZero a.TouchlessSudo = tsOrZero b.TouchlessSudo

def enc (a : AttrsB) : EncOut → Option String
  | .crash => some "crash"
  | .refused =>
    if a.SSHClientVersion.isEmpty || a.Username.isEmpty || a.Hostname.isEmpty then none
    else some "refused-complete-attributes"
  | .json d =>
    if a.SSHClientVersion.isEmpty || a.Username.isEmpty || a.Hostname.isEmpty then some "accepted-missing-required"
    else if a.IfVer < 7 then some "json-format-below-7"
    else match d with
      | none => some "json-roundtrip-decode-failed"
      | some b => if sameCore a b && b.TouchlessSudo.isSome then none else some "json-roundtrip-differs"
  | .legacy d =>
    if a.SSHClientVersion.isEmpty || a.Username.isEmpty || a.Hostname.isEmpty then some "accepted-missing-required"
    else if a.IfVer ≥ 7 then some "legacy-format-at-7"
    else
      let clean := !(hasSpaceOrAt a.Username || hasSpaceOrAt a.Hostname || hasSpace a.SSHClientVersion ||
        hasSpace (tsOrZero a.TouchlessSudo).Hosts)
      if !clean then none
      else match d with
        | none => some "legacy-roundtrip-decode-failed"
        | some b => if sameLegacy a b then none else some "legacy-roundtrip-differs"

/-- decoding: never a crash; input that decodes as a JSON attribute object must be answered by
    the JSON branch: refused iff a required member is empty, otherwise exactly its fields. -/
def dec (utf8 : Str → Bytes) (tok : Option JVal) : Res AttrsB → Option String
  | .crash => some "crash"
  | r =>
    match decodeStruct tok with
    | none => none
    | some a =>
      let complete := !(a.SSHClientVersion.isEmpty || a.Username.isEmpty || a.Hostname.isEmpty)
      match r with
      | .err => if complete then some "json-object-refused" else none
      | .ok b =>
        if !complete then some "json-object-missing-required-accepted"
        else if sameCore (toB utf8 (populate [] a)) b then none else some "json-object-reinterpreted"
      | .crash => some "crash"

end Ysshra.Spec.C15
