import Ysshra.Gen.Crypki
/-
Bridge for crypki/signer.go, tlsutils/config.go, sshutils/key/parse.go and internal/backoff:
the statements of the loops the model transliterates (as repaired for F8 / F9a) and the TLS
configuration record.
-/
set_option maxRecDepth 30000
namespace Ysshra.Bridge.Crypki
open Ysshra

theorem sign_bridge : Gen.Crypki.signStmts =
    [c!"if len(s.endpoints) == 0 { return nil, nil, errors.New(\"no crypki endpoint is configured\") }",
     c!"for _, endpoint := range s.endpoints { certs, comments, err = s.postUserSSHCertificate(ctx, request, endpoint) if err == nil { return } log.Warn().Err(err).Msgf(\"failed to post request to endpoint %q\", endpoint) }",
     c!"return"] := rfl

theorem keysFromBytes_bridge : Gen.Crypki.keysFromBytesStmts =
    [c!"var key ssh.PublicKey", c!"var comment string",
     c!"for len(data) > 0 { key, comment, _, data, err = ssh.ParseAuthorizedKey(data) if key != nil { keys = append(keys, key) comments = append(comments, comment) } }",
     c!"if len(keys) == 0 { return nil, nil, fmt.Errorf(\"keys not found, got err: %v\", err) }",
     c!"return keys, comments, nil"] := rfl

theorem endpoints_in_order : Gen.Crypki.endpointLoop =
    c!"for i, endpoint := range conf.CrypkiEndpoints { endpoints[i] = fmt.Sprintf(\"%s:%d\", endpoint, conf.CrypkiPort) }" := rfl

theorem backoff_bridge : Gen.Crypki.backoffStmts =
    [c!"if attempt == 0 || bc.BaseDelay == 0 { return bc.BaseDelay }",
     c!"backoff, max := float64(bc.BaseDelay), float64(bc.MaxDelay)",
     c!"backoff *= math.Pow(bc.Multiplier, float64(attempt))",
     c!"backoff = math.Min(backoff, max)",
     c!"r := rand.New(rand.NewSource(time.Now().UnixNano()))",
     c!"backoff *= 1 + bc.Jitter*(r.Float64()*2-1)",
     c!"return time.Duration(backoff)"] := rfl

theorem defaultBackoff_bridge : Gen.Crypki.defaultBackoff =
    [(c!"BaseDelay", c!"2.0 * time.Second"), (c!"Multiplier", c!"3.0"), (c!"MaxDelay", c!"15.0 * time.Second"),
     (c!"Jitter", c!"0.2")] := rfl

/-- The RA's TLS client configuration, as regenerated from the literal and the pool construction:
    verification is never switched off or replaced, the trust anchors are a fresh pool filled from
    exactly the configured files (no system pool), the effective minimum protocol version — the
    explicit one, or Go's client default when the field is absent — is at least TLS 1.2, and a
    client certificate is presented. -/
theorem tls_bridge :
    Gen.Crypki.tlsCfg.insecureSkipVerify = false ∧ Gen.Crypki.tlsCfg.customVerifier = false ∧
    Gen.Crypki.tlsCfg.rootsFromConfiguredFilesOnly = true ∧ Gen.Crypki.tlsCfg.clientCertGetter = true ∧
    Crypki.tls12 ≤ Gen.Crypki.tlsCfg.effectiveMin := by decide

/-- the gRPC connection uses exactly these credentials, nothing insecure -/
theorem dial_bridge :
    Gen.Crypki.credentialsCall = c!"credentials.NewTLS(tlsCfg)" ∧
    Gen.Crypki.tlsConfigCall = c!"tlsutils.TLSClientConfiguration(conf.TLSClientCertFile, conf.TLSClientKeyFile, conf.TLSCACertFiles)" ∧
    Gen.Crypki.dialOptions.head? = some c!"grpc.WithTransportCredentials(clientCreds" ∧
    Gen.Crypki.dialOptions.all (fun o => !(c!"grpc.WithInsecure").isPrefixOf o) = true := by decide

end Ysshra.Bridge.Crypki
