import Ysshra.Gen.CertType
import Ysshra.Bridge.KeyId
/-
Bridge for sshutils/cert: the regenerated `GetType`, `GetPrincipals`, label table and suffix
constants equal the model's.
-/
namespace Ysshra.Bridge.CertType
open Ysshra

theorem consts_bridge :
    Gen.CertType.UnknownCertType = CType.unknown.toNat ∧
    Gen.CertType.TouchSudoCert = CType.touchSudo.toNat ∧
    Gen.CertType.TouchlessCert = CType.touchless.toNat ∧
    Gen.CertType.TouchlessSudoCert = CType.touchlessSudo.toNat ∧
    Gen.CertType.FirefighterCert = CType.firefighter.toNat ∧
    Gen.CertType.NonceCert = CType.nonce.toNat ∧
    Gen.CertType.TouchlessInAgentCert = CType.touchlessInAgent.toNat ∧
    Gen.CertType.TouchlessSudoInAgentCert = CType.touchlessSudoInAgent.toNat ∧
    Gen.CertType.CriticalOptionTouchlessSudoHosts = critHosts ∧
    Gen.CertType.TouchlessLabel = touchlessSuffix ∧ Gen.CertType.TouchLabel = touchSuffix := by
  decide

/-- every known type has exactly its label in `TypeLabel`; the unknown type has none -/
theorem label_bridge : ∀ t : CType,
    (Gen.CertType.TypeLabel.lookup t.toNat) = t.label := by
  intro t; cases t <;> decide

theorem labelAppends_bridge : Gen.CertType.labelAppends = [c!"\"SSH-\" + k.TransID"] := by decide

theorem cascade_bridge (k : KeyID) (cert : CertView) :
    (if k.IsNonce then Gen.CertType.NonceCert
     else if (k.IsFirefighter && k.IsHWKey) then Gen.CertType.FirefighterCert
     else if (k.IsFirefighter && (!k.IsHWKey)) then
       (if critSet cert then Gen.CertType.TouchlessSudoInAgentCert else Gen.CertType.TouchlessInAgentCert)
     else if ((k.TouchPolicy == KeyID.CachedTouch) || (k.TouchPolicy == KeyID.AlwaysTouch)) then
       Gen.CertType.TouchSudoCert
     else if (k.TouchPolicy == KeyID.NeverTouch) then
       (if critSet cert then Gen.CertType.TouchlessSudoCert else Gen.CertType.TouchlessCert)
     else Gen.CertType.UnknownCertType) = (cascade k cert).toNat := by
  unfold cascade
  repeat' split
  all_goals rfl

/-- the regenerated `GetType` is the model's `getType`, for every certificate -/
theorem getType_bridge (cert : Option CertView) :
    Gen.CertType.GetType cert = (getType cert).toNat := by
  cases cert with
  | none => rfl
  | some c =>
    unfold Gen.CertType.GetType getType
    simp only []
    cases h : KeyID.unmarshal c.KeyId with
    | error e => rfl
    | ok k =>
      simp only []
      exact cascade_bridge k c

theorem getPrincipals_bridge (ps : List Str) (t : CType) :
    Gen.CertType.GetPrincipals ps t.toNat = getPrincipals ps t := by
  cases t <;> rfl

end Ysshra.Bridge.CertType
