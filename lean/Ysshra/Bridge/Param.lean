import Ysshra.Gen.Param
import Ysshra.Lemmas.Text
/-
Bridge: the statement-by-statement translations of `parseForceCommand`, `version.Unmarshal` and
`ValidNamespacePolicy` (regenerated on every run) equal the hand-written model for all inputs.
In particular no index or slice expression of the source panics (`.crash` is never the result).
-/
namespace Ysshra.Bridge.Param
open Ysshra Ysshra.Text Ysshra.Message

theorem validPolicy_bridge (p : Bytes) : Gen.Param.validNamespacePolicy p = validPolicy p := by
  unfold Gen.Param.validNamespacePolicy Gen.Param.namespacePolicies validPolicy NONS NSOK
  simp only [List.contains_cons, List.contains_nil, Bool.or_false]
  by_cases h1 : p = [78, 79, 78, 83] <;> by_cases h2 : p = [78, 83, 79, 75] <;> simp [h1, h2]

theorem foldl_append_flatMap {α β : Type} (f : α → List β) (xs : List α) (acc : List β) :
    xs.foldl (fun acc a => acc ++ f a) acc = acc ++ xs.flatMap f := by
  induction xs generalizing acc with
  | nil => simp
  | cons x r ih => simp [List.foldl_cons, ih, List.flatMap_cons, List.append_assoc]

theorem index_nat {α : Type} (xs : List α) (n : Nat) : GoSem.index xs (n : Int) = xs[n]? := by
  unfold GoSem.index
  have : ¬ ((n : Int) < 0) := by omega
  simp [this]

/-- `parseForceCommand`, as translated from the source, is the model's function: it never panics
    on an index, and fails or succeeds exactly where the model does. -/
theorem parseForceCommand_bridge (argv : List Bytes) :
    Gen.Param.parseForceCommand argv =
      match parseForceCommand argv with
      | some r => .ok r
      | none => .err := by
  unfold Gen.Param.parseForceCommand parseForceCommand
  simp only [foldl_append_flatMap, List.nil_append, GoSem.split, GoSem.len]
  generalize argv.flatMap (fun a => splitOn 0x20 a) = args
  by_cases h3 : args.length < 3
  · have : ((args.length : Int) < 3) := by omega
    simp [h3, this]
  · have n3 : ¬ ((args.length : Int) < 3) := by omega
    by_cases h6 : args.length > 6
    · have : ((args.length : Int) > 6) := by omega
      simp [h3, n3, h6, this]
    · have n6 : ¬ ((args.length : Int) > 6) := by omega
      have e2 : (args.length : Int) - 2 = ((args.length - 2 : Nat) : Int) := by omega
      have e1 : (args.length : Int) - 1 = ((args.length - 1 : Nat) : Int) := by omega
      simp only [h3, n3, h6, n6, decide_false, if_false, Bool.false_eq_true, e2, e1, index_nat, validPolicy_bridge]
      have l2 : args.length - 2 < args.length := by omega
      have l1 : args.length - 1 < args.length := by omega
      rw [List.getElem?_eq_getElem l2, List.getElem?_eq_getElem l1]
      simp only []
      cases validPolicy args[args.length - 2] <;> simp

theorem versionREMatch_eq (s : Bytes) : Gen.Param.versionREMatch s = GoSem.digitsDotDigits s := by
  unfold Gen.Param.versionREMatch Gen.Param.versionRE GoSem.reMatch
  simp

theorem parseUint_eq (v : Bytes) : GoSem.parseUint v Gen.Param.base Gen.Param.bitSize = Text.parseUint 16 v := by
  unfold GoSem.parseUint Gen.Param.base Gen.Param.bitSize
  simp

theorem slice_to (a b : Bytes) :
    GoSem.slice (a ++ 0x2e :: b) none (some (a.length : Int)) = some a := by
  unfold GoSem.slice
  simp only [Option.getD_none, Option.getD_some]
  have : ¬ ((0 : Int) < 0 ∨ (a.length : Int) < 0 ∨ (a.length : Int) > ((a ++ 0x2e :: b).length : Int)) := by
    simp only [List.length_append, List.length_cons]; omega
  rw [if_neg this]
  simp

theorem slice_from (a b : Bytes) :
    GoSem.slice (a ++ 0x2e :: b) (some ((a.length : Int) + 1)) none = some b := by
  unfold GoSem.slice
  simp only [Option.getD_none, Option.getD_some]
  have : ¬ (((a.length : Int) + 1) < 0 ∨ ((a ++ 0x2e :: b).length : Int) < (a.length : Int) + 1 ∨
      ((a ++ 0x2e :: b).length : Int) > ((a ++ 0x2e :: b).length : Int)) := by
    simp only [List.length_append, List.length_cons]; omega
  rw [if_neg this]
  have e : ((a.length : Int) + 1).toNat = a.length + 1 := by omega
  rw [e, Int.toNat_natCast, List.take_length]
  simp

/-- `version.Unmarshal`, as translated from the source, is the model's function: the two slice
    expressions never panic, and it fails or succeeds exactly where the model does, with the same
    major and minor numbers. -/
theorem versionUnmarshal_bridge (s : Bytes) :
    Gen.Param.versionUnmarshal s =
      match versionUnmarshal s with
      | some v => .ok (v.major, v.minor)
      | none => .err := by
  unfold Gen.Param.versionUnmarshal versionUnmarshal
  rw [versionREMatch_eq]
  unfold GoSem.digitsDotDigits GoSem.indexOf
  cases hc : cutAt 0x2e s with
  | none => simp
  | some ab =>
    obtain ⟨a, b⟩ := ab
    obtain ⟨hs, _⟩ := cutAt_spec 0x2e s a b hc
    simp only []
    by_cases hd : (!a.isEmpty && !b.isEmpty && a.all isDigit && b.all isDigit) = true
    · have hn : (a.isEmpty || b.isEmpty || !a.all isDigit || !b.all isDigit) = false := by
        simp only [Bool.and_eq_true, Bool.not_eq_true'] at hd
        obtain ⟨⟨⟨h1, h2⟩, h3⟩, h4⟩ := hd
        simp [h1, h2, h3, h4]
      rw [hd, hn]
      simp only [Bool.not_true, Bool.false_eq_true, if_false]
      subst hs
      simp only [hc]
      rw [slice_to, slice_from]
      simp only [parseUint_eq]
      cases ha : Text.parseUint 16 a with
      | none => simp
      | some x =>
        cases hb : Text.parseUint 16 b with
        | none => simp
        | some y =>
          have hx := (parseUint_lt 16 a x ha).1
          have hy := (parseUint_lt 16 b y hb).1
          simp only [GoSem.mkVersion, GoSem.toUint16]
          rw [Nat.mod_eq_of_lt (by simpa using hx), Nat.mod_eq_of_lt (by simpa using hy)]
    · have hd' : (!a.isEmpty && !b.isEmpty && a.all isDigit && b.all isDigit) = false := by
        simpa using hd
      have hn : (a.isEmpty || b.isEmpty || !a.all isDigit || !b.all isDigit) = true := by
        cases h1 : a.isEmpty <;> cases h2 : b.isEmpty <;> cases h3 : a.all isDigit <;> cases h4 : b.all isDigit <;>
          simp [h1, h2, h3, h4] at hd' ⊢
      rw [hd', hn]
      simp

end Ysshra.Bridge.Param
