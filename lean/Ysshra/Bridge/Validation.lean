import Ysshra.Gen.Validation
/-
Bridge for sshutils/cert/validation.go: the function regenerated from the source equals the
model's validity test for every pair of 64-bit bounds and every clock value (`now.Unix()` of a
time at or after the epoch; the model's clock is a natural number).
-/
namespace Ysshra.Bridge.Validation
open Ysshra Ysshra.Shim

theorem i64_small (n : Nat) (h : n < 2 ^ 63) : Gen.Validation.i64 n = (n : Int) := by
  unfold Gen.Validation.i64
  have h1 : n % 2 ^ 64 = n := Nat.mod_eq_of_lt (by omega)
  rw [h1]; simp [h]

theorem max_lt : Gen.Validation.maxInt64U < 2 ^ 63 := by unfold Gen.Validation.maxInt64U; omega

theorem max_same : maxInt64 = Gen.Validation.maxInt64U := rfl

/-- the comparison at the end, over naturals -/
theorem final_eq (x y now : Nat) :
    (!(decide ((x : Int) > (now : Int)) || decide ((now : Int) > (y : Int)))) =
    !(decide (x > now) || decide (now > y)) := by
  simp only [gt_iff_lt, Int.ofNat_lt]

/-- `ValidateSSHCertTime` is `validAt`: for all bounds and every clock second. -/
theorem validate_bridge (c : Cert) (now : Nat) :
    Gen.Validation.validate c.validAfter c.validBefore (now : Int) = validAt c now := by
  have hMlt := max_lt
  unfold Gen.Validation.validate validAt
  simp only [max_same]
  by_cases h1 : c.validAfter > Gen.Validation.maxInt64U
  · have e1 : min c.validAfter Gen.Validation.maxInt64U = Gen.Validation.maxInt64U := by rw [Nat.min_def]; split <;> omega
    by_cases h2 : c.validBefore > Gen.Validation.maxInt64U
    · have e2 : min c.validBefore Gen.Validation.maxInt64U = Gen.Validation.maxInt64U := by rw [Nat.min_def]; split <;> omega
      simp only [h1, h2, decide_true, ↓reduceIte, e1, e2]
      rw [i64_small Gen.Validation.maxInt64U hMlt]; exact final_eq Gen.Validation.maxInt64U Gen.Validation.maxInt64U now
    · have e2 : min c.validBefore Gen.Validation.maxInt64U = c.validBefore := by rw [Nat.min_def]; split <;> omega
      simp only [h1, h2, decide_true, decide_false, Bool.false_eq_true, ↓reduceIte, e1, e2]
      rw [i64_small Gen.Validation.maxInt64U hMlt, i64_small c.validBefore (by omega)]; exact final_eq Gen.Validation.maxInt64U c.validBefore now
  · have e1 : min c.validAfter Gen.Validation.maxInt64U = c.validAfter := by rw [Nat.min_def]; split <;> omega
    by_cases h2 : c.validBefore > Gen.Validation.maxInt64U
    · have e2 : min c.validBefore Gen.Validation.maxInt64U = Gen.Validation.maxInt64U := by rw [Nat.min_def]; split <;> omega
      simp only [h1, h2, decide_true, decide_false, Bool.false_eq_true, ↓reduceIte, e1, e2]
      rw [i64_small Gen.Validation.maxInt64U hMlt, i64_small c.validAfter (by omega)]; exact final_eq c.validAfter Gen.Validation.maxInt64U now
    · have e2 : min c.validBefore Gen.Validation.maxInt64U = c.validBefore := by rw [Nat.min_def]; split <;> omega
      simp only [h1, h2, decide_false, Bool.false_eq_true, ↓reduceIte, e1, e2]
      rw [i64_small c.validAfter (by omega), i64_small c.validBefore (by omega)]
      exact final_eq c.validAfter c.validBefore now

end Ysshra.Bridge.Validation
