import Ysshra.Gen.Message
/-
Bridge for message/sanity.go and the format switch of message/marshal.go.
-/
namespace Ysshra.Bridge.Message
open Ysshra Ysshra.Message

/-- the regenerated required-field check is the model's `sane`, for every attribute set -/
theorem sanityCheck_bridge (a : AttrsJ) : Gen.Message.sanityCheck a = sane (·.isEmpty) a := by
  unfold Gen.Message.sanityCheck sane
  obtain ⟨ifv, user, host, ver, ca, sa, hk, t2s, ts, exts⟩ := a
  cases ver <;> cases user <;> cases host <;> rfl

theorem legacyBelow_bridge : Gen.Message.legacyBelow = 7 := rfl

end Ysshra.Bridge.Message
