import Ysshra.Gen.SnapTls
/-
Pinned snapshot of Gen.SnapTls (see extract/snap.go): the regenerated statements of the source files
equal, declaration by declaration, what the hand-written models and harnesses were written against.
-/
set_option maxRecDepth 100000
namespace Ysshra.Bridge.SnapTls
open Ysshra

theorem tlsutils_config_pinned : Gen.SnapTls.tlsutils_config = ([
  (c!"TLSClientConfiguration func(certPath, keyPath string, caCertPaths []string) (*tls.Config, error)", [c!"reloader, err := certreload.NewCertReloader( certreload.CertReloadConfig{ CertKeyGetter: func() ([]byte, []byte, error) { certPEMBlock, err := os.ReadFile(certPath) if err != nil { return nil, nil, err } keyPEMBlock, err := os.ReadFile(keyPath) if err != nil { return nil, nil, err } return certPEMBlock, keyPEMBlock, nil }, PollInterval: 6 * time.Hour, })", c!"if err != nil { return nil, fmt.Errorf(\"unable to get client cert reloader: %s\", err) }", c!"caCertPool := x509.NewCertPool()", c!"for _, caCertFile := range caCertPaths { caCert, err := os.ReadFile(caCertFile) if err != nil { return nil, fmt.Errorf(`failed to read TLS server CA certificate %q, err:%v`, caCertFile, err) } if ok := caCertPool.AppendCertsFromPEM(caCert); !ok { return nil, fmt.Errorf(`failed to parse certificate %q`, caCertFile) } }", c!"cfg := &tls.Config{ MinVersion: tls.VersionTLS12, NextProtos: []string{\"h2\", \"http/1.1\"}, CipherSuites: standardCipherSuites(), SessionTicketsDisabled: true, GetClientCertificate: reloader.GetClientCertificate, RootCAs: caCertPool, }", c!"return cfg, nil"]),
  (c!"standardCipherSuites func() []uint16", [c!"return []uint16{ tls.TLS_AES_128_GCM_SHA256, tls.TLS_AES_256_GCM_SHA384, tls.TLS_CHACHA20_POLY1305_SHA256, tls.TLS_ECDHE_ECDSA_WITH_AES_128_GCM_SHA256, tls.TLS_ECDHE_ECDSA_WITH_AES_256_GCM_SHA384, tls.TLS_ECDHE_ECDSA_WITH_CHACHA20_POLY1305_SHA256, tls.TLS_ECDHE_RSA_WITH_CHACHA20_POLY1305_SHA256, tls.TLS_ECDHE_RSA_WITH_AES_128_GCM_SHA256, tls.TLS_ECDHE_RSA_WITH_AES_256_GCM_SHA384, }"])
] : List (Str × List Str)) := rfl

theorem crypki_signer_pinned : Gen.SnapTls.crypki_signer = ([
  (c!"type", [c!"Signer struct { endpoints []string dialOptions []grpc.DialOption }"]),
  (c!"NewSignerWithGensignConf func(gensignConf config.GensignConfig) (*Signer, error)", [c!"conf, err := decodeSignerConfig(gensignConf.SignerConfig)", c!"if err != nil { return nil, fmt.Errorf(\"failed to decode signer config, err: %v\", err) }", c!"return NewSigner(conf)"]),
  (c!"NewSigner func(conf SignerConfig) (*Signer, error)", [c!"conf.populate()", c!"if err := validate.Validate().Struct(conf); err != nil { return nil, fmt.Errorf(\"failed to validate signer config, err: %v\", err) }", c!"tlsCfg, err := tlsutils.TLSClientConfiguration(conf.TLSClientCertFile, conf.TLSClientKeyFile, conf.TLSCACertFiles)", c!"if err != nil { return nil, fmt.Errorf(\"failed to parse tls config, err :%v\", err) }", c!"clientCreds := credentials.NewTLS(tlsCfg)", c!"endpoints := make([]string, len(conf.CrypkiEndpoints))", c!"for i, endpoint := range conf.CrypkiEndpoints { endpoints[i] = fmt.Sprintf(\"%s:%d\", endpoint, conf.CrypkiPort) }", c!"dialOptions := []grpc.DialOption{ grpc.WithTransportCredentials(clientCreds), grpc.WithUnaryInterceptor(grpc_retry.UnaryClientInterceptor( grpc_retry.WithMax(conf.Retries), grpc_retry.WithPerRetryTimeout(conf.PerTryTimeout), grpc_retry.WithBackoff(backoff.DefaultConfig.Backoff)), ), grpc.WithStatsHandler(otelgrpc.NewClientHandler()), }", c!"signer := &Signer{ endpoints: endpoints, dialOptions: dialOptions, }", c!"return signer, nil"]),
  (c!"(*Signer).Sign func(ctx context.Context, request *pb.SSHCertificateSigningRequest) (certs []ssh.PublicKey, comments []string, err error)", [c!"if len(s.endpoints) == 0 { return nil, nil, errors.New(\"no crypki endpoint is configured\") }", c!"for _, endpoint := range s.endpoints { certs, comments, err = s.postUserSSHCertificate(ctx, request, endpoint) if err == nil { return } log.Warn().Err(err).Msgf(\"failed to post request to endpoint %q\", endpoint) }", c!"return"]),
  (c!"(*Signer).postUserSSHCertificate func(ctx context.Context, csr *pb.SSHCertificateSigningRequest, endpoint string) (certs []ssh.PublicKey, comments []string, err error)", [c!"const apiName = \"postUserSSHCertificate\"", c!"conn, err := EstablishClientConn(endpoint, s.dialOptions...)", c!"if err != nil { return nil, nil, status.Errorf(status.Code(err), \"%s: failed to establish connection, err: %v\", apiName, err) }", c!"defer conn.Close()", c!"client := pb.NewSigningClient(conn)", c!"out, err := client.PostUserSSHCertificate(ctx, csr)", c!"if err != nil { return nil, nil, fmt.Errorf(\"postUserSSHCertificate: failed to sign user cert, err: %v\", err) }", c!"pubKeys, comments, err := key.GetPublicKeysFromBytes([]byte(out.Key))", c!"if err != nil { return pubKeys, nil, fmt.Errorf(\"postUserSSHCertificate: failed to parse user cert, err: %v\", err) }", c!"return pubKeys, comments, nil"]),
  (c!"(*Signer).Endpoints func() (endpoints []string)", [c!"endpoints = make([]string, len(s.endpoints))", c!"copy(endpoints, s.endpoints)", c!"return"]),
  (c!"(*Signer).DialOptions func() (options []grpc.DialOption)", [c!"options = make([]grpc.DialOption, len(s.dialOptions))", c!"copy(options, s.dialOptions)", c!"return"])
] : List (Str × List Str)) := rfl

theorem crypki_conf_pinned : Gen.SnapTls.crypki_conf = ([
  (c!"const", [c!"perTryTimeoutDefault = 5 * time.Second", c!"retriesDefault = 3"]),
  (c!"type", [c!"SignerConfig struct { TLSClientKeyFile string `mapstructure:\"tls_client_key_file\" validate:\"required\"` TLSClientCertFile string `mapstructure:\"tls_client_cert_file\" validate:\"required\"` TLSCACertFiles []string `mapstructure:\"tls_ca_cert_files\" validate:\"required\"` CrypkiEndpoints []string `mapstructure:\"crypki_endpoints\" validate:\"required\"` CrypkiPort uint `mapstructure:\"crypki_port\" validate:\"required\"` Retries uint `mapstructure:\"retries\"` PerTryTimeout time.Duration `mapstructure:\"per_try_timeout\"` }"]),
  (c!"(*SignerConfig).populate func()", [c!"if s.Retries == 0 { s.Retries = retriesDefault }", c!"if s.PerTryTimeout <= 0 { s.PerTryTimeout = perTryTimeoutDefault }"]),
  (c!"decodeSignerConfig func(signerConfig map[string]interface{}) (SignerConfig, error)", [c!"var conf SignerConfig", c!"decoderConf := &mapstructure.DecoderConfig{ DecodeHook: mapstructure.StringToTimeDurationHookFunc(), Metadata: nil, Result: &conf, }", c!"decoder, err := mapstructure.NewDecoder(decoderConf)", c!"if err != nil { return conf, err }", c!"if err := decoder.Decode(signerConfig); err != nil { return conf, err }", c!"return conf, nil"])
] : List (Str × List Str)) := rfl

theorem internal_backoff_backoff_pinned : Gen.SnapTls.internal_backoff_backoff = ([
  (c!"var", [c!"DefaultConfig = Config{ BaseDelay: 2.0 * time.Second, Multiplier: 3.0, MaxDelay: 15.0 * time.Second, Jitter: 0.2, }"]),
  (c!"type", [c!"Config struct { BaseDelay time.Duration Multiplier float64 MaxDelay time.Duration Jitter float64 }"]),
  (c!"(*Config).Backoff func(attempt uint) time.Duration", [c!"if attempt == 0 || bc.BaseDelay == 0 { return bc.BaseDelay }", c!"backoff, max := float64(bc.BaseDelay), float64(bc.MaxDelay)", c!"backoff *= math.Pow(bc.Multiplier, float64(attempt))", c!"backoff = math.Min(backoff, max)", c!"r := rand.New(rand.NewSource(time.Now().UnixNano()))", c!"backoff *= 1 + bc.Jitter*(r.Float64()*2-1)", c!"return time.Duration(backoff)"])
] : List (Str × List Str)) := rfl

theorem internal_validate_validate_pinned : Gen.SnapTls.internal_validate_validate = ([
  (c!"var", [c!"validate *validator.Validate"]),
  (c!"init func()", [c!"validate = validator.New()"]),
  (c!"Validate func() *validator.Validate", [c!"return validate"])
] : List (Str × List Str)) := rfl

end Ysshra.Bridge.SnapTls
