import Ysshra.Gen.Attest
import Ysshra.Model.Attest
/-
Bridge for attestation/yubiattest: regenerated tables, algorithm switch and the pinned statement
lists of the functions the model transliterates.
-/
namespace Ysshra.Bridge.Attest
open Ysshra Ysshra.Pkcs1 Ysshra.Attest

/-- the two digest-identifier tables, restricted to the four supported hashes, are the RFC 8017
    DigestInfo prefixes with and without the NULL parameter -/
theorem prefixes_bridge : ∀ h ∈ [3, 5, 6, 7],
    Gen.Attest.hashPrefixes1.lookup h = prefixNull h ∧ Gen.Attest.hashPrefixes2.lookup h = prefixNoNull h := by
  decide

/-- every table entry's second encoding is no longer than the first (the index arithmetic of
    verifyPKCS1v15 relies on it) -/
theorem prefix2_le_prefix1 : ∀ h ∈ [2, 3, 4, 5, 6, 7, 8, 9],
    ((Gen.Attest.hashPrefixes2.lookup h).map List.length).getD 0 ≤
    ((Gen.Attest.hashPrefixes1.lookup h).map List.length).getD 0 := by decide

theorem algo_bridge (algo : Nat) : Gen.Attest.algoSwitch algo = algoSpec algo := by
  unfold Gen.Attest.algoSwitch algoSpec
  simp only [Bool.or_eq_true, beq_iff_eq, or_assoc]

theorem keyTypes_bridge : Gen.Attest.keyTypes = [c!"*rsa.PublicKey"] := by decide
theorem last_bridge : Gen.Attest.checkSignatureLast = c!"return x509.ErrUnsupportedAlgorithm" := by decide

theorem attestSteps_bridge : Gen.Attest.attestSteps =
    [c!"if _, err := f9Cert.Verify(x509.VerifyOptions{Roots: a.roots}); err != nil { return err }",
     c!"return checkSignature(attestCert.SignatureAlgorithm, attestCert.RawTBSCertificate, attestCert.Signature, f9Cert.PublicKey)"] := by
  decide

/-- `verifyPKCS1v15` is, statement for statement, what `Pkcs1.verifyEM` / `Pkcs1.verify` transliterate -/
theorem verifyStmts_bridge : Gen.Attest.verifyStmts =
    [c!"hashLen, prefix1, prefix2, err := pkcs1v15HashInfo(hash, len(hashed))",
     c!"if err != nil { return err }",
     c!"tLen1 := len(prefix1) + hashLen",
     c!"tLen2 := len(prefix2) + hashLen",
     c!"k := (pub.N.BitLen() + 7) / 8",
     c!"if k < tLen1+11 { return rsa.ErrVerification }",
     c!"c := new(big.Int).SetBytes(sig)",
     c!"m := encrypt(new(big.Int), pub, c)",
     c!"em := leftPad(m.Bytes(), k)",
     c!"ok := subtle.ConstantTimeByteEq(em[0], 0)",
     c!"ok &= subtle.ConstantTimeByteEq(em[1], 1)",
     c!"ok &= subtle.ConstantTimeCompare(em[k-hashLen:k], hashed)",
     c!"prefix1ok := subtle.ConstantTimeCompare(em[k-tLen1:k-hashLen], prefix1)",
     c!"prefix2ok := subtle.ConstantTimeCompare(em[k-tLen2:k-hashLen], prefix2)",
     c!"prefix1ok &= subtle.ConstantTimeByteEq(em[k-tLen1-1], 0)",
     c!"prefix2ok &= subtle.ConstantTimeByteEq(em[k-tLen2-1], 0)",
     c!"ok &= (prefix1ok | prefix2ok)",
     c!"var correctTLen int",
     c!"switch { case prefix1ok == 1: correctTLen = tLen1 case prefix2ok == 1: correctTLen = tLen2 }",
     c!"for i := 2; i < k-correctTLen-1; i++ { ok &= subtle.ConstantTimeByteEq(em[i], 0xff) }",
     c!"if ok != 1 { return rsa.ErrVerification }",
     c!"return nil"] := by decide

theorem leftPad_bridge : Gen.Attest.leftPadStmts =
    [c!"n := len(input)", c!"if n > size { n = size }", c!"out = make([]byte, size)",
     c!"copy(out[len(out)-n:], input)", c!"return"] := by decide

theorem modhex_bridge :
    Gen.Attest.modHexMap = modHexMap ∧ Gen.Attest.serialOID = serialOID ∧
    Gen.Attest.serialLens = [3, 4] ∧ Gen.Attest.serialSliceFrom = 2 ∧
    Gen.Attest.serialLenGuard = c!"len(ext.Value) < 2" := by decide

end Ysshra.Bridge.Attest
