import Ysshra.Gen.Wire
import Ysshra.Model.Serve
import Ysshra.Model.Cond
/-
Bridge for agent/yubiagent (message codes, framing bound, dispatch partition, guards) and for the
condition-variable table of agent/shimagent.
-/
namespace Ysshra.Bridge.Wire
open Ysshra

theorem bound_bridge :
    Gen.Wire.maxAgentResponseBytes_yubiagent = Wire.maxAgentResponseBytes ∧
    Gen.Wire.maxAgentResponseBytes_shimagent = Wire.maxAgentResponseBytes := by decide

/-- the framed reader: header, bound check *before* `make`, body -/
theorem read_bridge : Gen.Wire.readStmts_yubiagent =
    [c!"var length [4]byte",
     c!"if _, err := io.ReadFull(c, length[:]); err != nil { return nil, err }",
     c!"l := binary.BigEndian.Uint32(length[:])",
     c!"if l > maxAgentResponseBytes { return nil, fmt.Errorf(\"data size too large: %d\", l) }",
     c!"data = make([]byte, l)",
     c!"if _, err := io.ReadFull(c, data); err != nil { return nil, err }",
     c!"return data, nil"] ∧ Gen.Wire.readStmts_shimagent = Gen.Wire.readStmts_yubiagent := by decide

theorem write_bridge : Gen.Wire.writeStmts_yubiagent =
    [c!"if len(data) > maxAgentResponseBytes { return fmt.Errorf(\"data size too large: %d\", len(data)) }",
     c!"var length [4]byte",
     c!"binary.BigEndian.PutUint32(length[:], uint32(len(data)))",
     c!"if _, err := c.Write(length[:]); err != nil { return err }",
     c!"if _, err := c.Write(data); err != nil { return err }",
     c!"return nil"] ∧ Gen.Wire.writeStmts_shimagent = Gen.Wire.writeStmts_yubiagent := by decide

/-- the dispatch partition of ServeAgent is the model's: five extension codes, nine standard
    codes handed to the recovering wrapper, everything else forwarded raw -/
theorem dispatch_bridge : Gen.Wire.dispatch =
    [([31], c!"agent.AddHardCert"), ([32], c!"agent.ListSlots"), ([33], c!"agent.ReadSlot"),
     ([34], c!"agent.AttestSlot"), ([35], c!"agent.Wait"),
     (Serve.stdCodes.map UInt8.toNat, c!"serveStandardRequest"), ([], c!"agent.Forward")] := by decide

theorem recover_bridge : Gen.Wire.stdRequestRecovers = true := by decide

/-- every `req[k]` in ServeAgent is dominated by a returning guard `len(req) > k` -/
theorem guards_bridge : Gen.Wire.reqIndexGuarded.all (·.2) = true := by decide

theorem broadcast_bridge :
    Gen.Wire.broadcastBeforeDispatch = true ∧ Gen.Wire.broadcastArg = c!"req[0]" := by decide

theorem success_bridge : Gen.Wire.clientSuccessTests =
    [c!"string(resp) != \"SUCCESS\"", c!"string(resp) != \"SUCCESS\""] := by decide

theorem slots_bridge : Gen.Wire.listSlotsCond = c!"len(line) >= 7 && line[:4] == \"Slot\"" ∧
    Gen.Wire.listSlotsSlice = c!"line[5:7]" := by decide

theorem remote_bridge : Gen.Wire.remoteGuards =
    [c!"ListSlots: if s.remote { return nil, erro", c!"ReadSlot: if s.remote { return nil, erro",
     c!"AttestSlot: if s.remote { return nil, erro"] := by decide

/-- the condition-variable table: 40 entries, both accessors guarded by `msg < byte(len)` -/
theorem conds_bridge :
    Gen.Wire.condsLen = 40 ∧
    Gen.Wire.broadcastStmts =
      [c!"if msg < byte(len(s.conds)) { s.conds[msg].L.Lock() defer s.conds[msg].L.Unlock() s.conds[msg].Broadcast() }",
       c!"return nil"] ∧
    Gen.Wire.waitStmts =
      [c!"if msg < byte(len(s.conds)) { s.conds[msg].L.Lock() defer s.conds[msg].L.Unlock() s.conds[msg].Wait() }",
       c!"return nil"] := by decide

theorem waitCode_bridge : Gen.Wire.AgentMessageWait = Cond.waitCode.toNat := by decide

/-- with the regenerated table size, every code passing the guard indexes inside the table
    (all 256 codes) -/
theorem conds_in_range : ∀ c : UInt8, Cond.inRange Gen.Wire.condsLen c = true → c.toNat < Gen.Wire.condsLen := by
  intro c h
  have h40 : Gen.Wire.condsLen = 40 := conds_bridge.1
  rw [h40] at h ⊢
  simpa [Cond.inRange] using h

end Ysshra.Bridge.Wire
