import Ysshra.Gen.Gensign
/-
Bridge for gensign/, gensign/regular, agent/ssh and crypki/common.go: the statements of the functions
the `Gensign` model transliterates, the literals of `Generate`, labels and the default extension set,
as regenerated from the current source, equal what the model was written against.
-/
set_option maxRecDepth 30000
namespace Ysshra.Bridge.Gensign
open Ysshra

theorem errorTypes_bridge : Gen.Gensign.errorTypes = ([(c!"Unknown", 1), (c!"HandlerDisabled", 2), (c!"HandlerAuthN", 3), (c!"InvalidParams", 4), (c!"HandlerGenCSRErr", 5), (c!"HandlerConfErr", 6), (c!"AllAuthFailed", 7), (c!"SignerSignErr", 8), (c!"AgentOpCertErr", 9), (c!"Panic", 10)] : List (Str × Nat)) := rfl

theorem runStmts_bridge : Gen.Gensign.runStmts = ([c!"defer func() { if r := recover(); r != nil { ExportPanicMetric(ctx, params, fmt.Sprintf(\"%v\", r)) err = NewError(Panic, \"\", fmt.Errorf(`unexpected crash: %q`, string(debug.Stack()))) } }()", c!"start := time.Now()", c!"var handler Handler", c!"for _, h := range handlers { err := h.Authenticate(params) if err == nil { handler = h break } log.Info().Err(err).Str(\"handler\", h.Name()).Msgf(\"authentication failed\") }", c!"if handler == nil { return NewErrWithMsg(AllAuthFailed, \"all authentications failed\") }", c!"csrAgentKeys, err := handler.Generate(params)", c!"if err != nil { return err }", c!"if len(csrAgentKeys) == 0 { return NewErrWithMsg(HandlerGenCSRErr, \"no csr generated\") }", c!"for _, agentKey := range csrAgentKeys { var ( certs []ssh.PublicKey comments []string ) for _, csr := range agentKey.CSRs() { cert, comment, err := signer.Sign(ctx, csr) if err != nil { return NewErr(SignerSignErr, fmt.Errorf(\"failed to sign CSR: %v\", err)) } certs = append(certs, cert...) comments = append(comments, comment...) } err = agentKey.AddCertsToAgent(certs, comments) if err != nil { return NewErr(AgentOpCertErr, fmt.Errorf(\"failed to add certificates into the agent: %v\", err)) } }", c!"log.Info().Stringer(logkey.TimeElapseField, time.Since(start)). Str(logkey.TransIDField, params.TransID). Str(logkey.HandlerField, handler.Name()). Msgf(\"gensign success\")", c!"return nil"] : List Str) := rfl

theorem HandlerName_bridge : Gen.Gensign.HandlerName = (c!"paranoids.regular" : Str) := rfl

theorem AuthenticateStmts_bridge : Gen.Gensign.AuthenticateStmts = ([c!"err := param.Validate()", c!"if err != nil { return gensign.NewError(gensign.InvalidParams, HandlerName, err) }", c!"if param.NamespacePolicy != common.NoNamespace { return gensign.NewErrorWithMsg(gensign.HandlerAuthN, HandlerName, fmt.Sprintf(\"want namespace policy %s, but got %s\", common.NoNamespace, param.NamespacePolicy)) }", c!"if param.Attrs.HardKey { return gensign.NewErrorWithMsg(gensign.HandlerAuthN, HandlerName, \"do not support hard key validation\") }", c!"if err := h.challengePubKey(param); err != nil { return gensign.NewError(gensign.HandlerAuthN, HandlerName, err) }", c!"return nil"] : List Str) := rfl

theorem challengePubKeyStmts_bridge : Gen.Gensign.challengePubKeyStmts = ([c!"pubKeyBytes, err := getPubKeyBytes(h.conf.PubKeyDir, param.LogName)", c!"if err != nil { return fmt.Errorf(\"failed to read pubkey: %v\", err) }", c!"pubKey, _, _, _, err := ssh.ParseAuthorizedKey(pubKeyBytes)", c!"if err != nil { return fmt.Errorf(\"failed to parse pubkey: %v, pubkey: %q\", err, string(pubKeyBytes)) }", c!"data := make([]byte, 64)", c!"if _, err := rand.Read(data); err != nil { return fmt.Errorf(\"cannot generate random challenge: %v\", err) }", c!"sig, err := h.agent.Sign(pubKey, data)", c!"if err != nil { return fmt.Errorf(\"cannot sign the challenge: %v\", err) }", c!"return pubKey.Verify(data, sig)"] : List Str) := rfl

theorem generateAgentKeyStmts_bridge : Gen.Gensign.generateAgentKeyStmts = ([c!"agentKeyOpt := agssh.DefaultKeyOpt", c!"agentKeyOpt.KeyRefreshFilter = keyFilter", c!"agentKeyOpt.PrivateKeyValiditySec = uint32(h.conf.CertValiditySec) + uint32(time.Hour.Seconds())", c!"agentKeyOpt.CertLabel = fmt.Sprintf(\"%s-%s\", HandlerName, \"cert\")", c!"agentKey, err := agssh.NewSSHAgentKeyWithOpt(h.agent, agentKeyOpt)", c!"if err != nil { return nil, err }", c!"return &csrAgentKey{ AgentKey: agentKey, }, nil"] : List Str) := rfl

theorem lookupPubKeyFileStmts_bridge : Gen.Gensign.lookupPubKeyFileStmts = ([c!"pubKeyPath := path.Join(pubKeyDirPath, logName+\".pub\")", c!"if _, err := os.Stat(pubKeyPath); err != nil { pubKeyPath = path.Join(pubKeyDirPath, logName) }", c!"if _, err := os.Stat(pubKeyPath); os.IsNotExist(err) { return \"\", err }", c!"return pubKeyPath, nil"] : List Str) := rfl

theorem getPubKeyBytesStmts_bridge : Gen.Gensign.getPubKeyBytesStmts = ([c!"pubKeyPath, err := lookupPubKeyFile(pubKeyDirPath, logName)", c!"if err != nil { return nil, err }", c!"return os.ReadFile(pubKeyPath)"] : List Str) := rfl

theorem keyFilterStmts_bridge : Gen.Gensign.keyFilterStmts = ([c!"return strings.Contains(key.Comment, HandlerName)"] : List Str) := rfl

theorem kidLiteral_bridge : Gen.Gensign.kidLiteral = ([(c!"Principals", c!"[]string{param.LogName}"), (c!"TransID", c!"param.TransID"), (c!"ReqUser", c!"param.ReqUser"), (c!"ReqIP", c!"param.ClientIP"), (c!"ReqHost", c!"param.ReqHost"), (c!"Version", c!"keyid.DefaultVersion"), (c!"IsFirefighter", c!"false"), (c!"IsHWKey", c!"false"), (c!"IsHeadless", c!"false"), (c!"IsNonce", c!"false"), (c!"Usage", c!"keyid.AllUsage"), (c!"TouchPolicy", c!"keyid.NeverTouch")] : List (Str × Str)) := rfl

theorem csrLiteral_bridge : Gen.Gensign.csrLiteral = ([(c!"KeyMeta", c!"&proto.KeyMeta{Identifier: keyIdentifier}"), (c!"Extensions", c!"crypki.GetDefaultExtension()"), (c!"Validity", c!"h.certValiditySec"), (c!"Principals", c!"kid.Principals"), (c!"PublicKey", c!"string(ssh.MarshalAuthorizedKey(agentKey.PublicKey()))")] : List (Str × Str)) := rfl

theorem keyIdentifierLookup_bridge : Gen.Gensign.keyIdentifierLookup = ([c!"keyIdentifier, ok := h.conf.KeyIdentifiers[param.Attrs.CAPubKeyAlgo]"] : List Str) := rfl

theorem NewSSHAgentKeyWithOptStmts_bridge : Gen.Gensign.NewSSHAgentKeyWithOptStmts = ([c!"priv, pub, err := key.GenerateKeyPair(opt.PublicKeyAlgo)", c!"if err != nil { return nil, fmt.Errorf(\"failed to genreate key pair, err: %v\", err) }", c!"addedKey := ag.AddedKey{ PrivateKey: priv, LifetimeSecs: opt.PrivateKeyValiditySec, Comment: opt.PrivateKeyLabel, }", c!"if err := agent.Add(addedKey); err != nil { return nil, fmt.Errorf(\"failed to insert new private key to agent, err: %v\", err) }", c!"return &AgentKey{ agent: agent, pubKey: pub, addedKey: addedKey, opt: opt, }, nil"] : List Str) := rfl

theorem AddCertsToAgentStmts_bridge : Gen.Gensign.AddCertsToAgentStmts = ([c!"if err := a.refreshKeys(); err != nil { return err }", c!"var err error", c!"addedKey := a.addedKey", c!"for i, cert := range certs { addedKey.Certificate, err = key.CastSSHPublicKeyToCertificate(cert) if addedKey.Certificate == nil || err != nil { continue } addedKey.Comment = a.opt.CertLabel if len(comments) > i && comments[i] != \"\" { a.addedKey.Comment += fmt.Sprintf(\"%s-%s\", a.addedKey.Comment, comments[i]) } if err := a.agent.Add(addedKey); err != nil { return err } }", c!"return nil"] : List Str) := rfl

theorem refreshKeysStmts_bridge : Gen.Gensign.refreshKeysStmts = ([c!"keys, err := a.agent.List()", c!"if err != nil { return err }", c!"for _, k := range keys { if a.opt.KeyRefreshFilter(k) { if err := a.agent.Remove(k); err != nil { return err } } }", c!"return nil"] : List Str) := rfl

theorem defaultPrivateKeyLabel_bridge : Gen.Gensign.defaultPrivateKeyLabel = (c!"private-key" : Str) := rfl

theorem defaultCertLabel_bridge : Gen.Gensign.defaultCertLabel = (c!"certificate" : Str) := rfl

theorem defaultExtension_bridge : Gen.Gensign.defaultExtension = ([c!"permit-X11-forwarding=", c!"permit-agent-forwarding=", c!"permit-port-forwarding=", c!"permit-pty=", c!"permit-user-rc="] : List Str) := rfl

/-- the model's constants are the source's -/
theorem consts_bridge :
    Gen.Gensign.HandlerName.map (fun c => c.toNat.toUInt8) = Gensign.handlerName ∧
    Gen.Gensign.defaultPrivateKeyLabel.map (fun c => c.toNat.toUInt8) = Gensign.privateKeyLabel ∧
    (Gen.Gensign.HandlerName ++ c!"-cert").map (fun c => c.toNat.toUInt8) = Gensign.certLabel ∧
    Gen.Gensign.defaultExtension = Gensign.defaultExtensions.map (· ++ c!"=") := by decide

end Ysshra.Bridge.Gensign
