import Ysshra.Gen.SnapYubi
/-
Pinned snapshot of Gen.SnapYubi (see extract/snap.go): the regenerated statements of the source files
equal, declaration by declaration, what the hand-written models and harnesses were written against.
-/
set_option maxRecDepth 100000
namespace Ysshra.Bridge.SnapYubi
open Ysshra

theorem agent_yubiagent_server_pinned : Gen.SnapYubi.agent_yubiagent_server = ([
  (c!"type", [c!"server struct { shimagent.ShimAgent pivtoolpath string remote bool }"]),
  (c!"NewServer func(address string, remote bool) (YubiAgent, error)", [c!"var srv *server", c!"shimAgent, err := shimagent.New( shimagent.Option{ Address: address, NoUpstream: false, })", c!"if err != nil { return nil, err }", c!"var path string", c!"if !remote { path, err = getPivToolPath() if err != nil { return nil, err } }", c!"srv = &server{ shimAgent, path, remote, }", c!"return srv, nil"]),
  (c!"(*server).ListSlots func() (slots []string, err error)", [c!"if s.remote { return nil, errors.New(\"yubiagent: ListSlots is not supported in remote mode\") }", c!"output, err := exec.Command(s.pivtoolpath, \"-a\", \"status\").Output()", c!"if err != nil { return nil, err }", c!"for _, line := range strings.Split(string(output), \"\\n\") { if len(line) >= 7 && line[:4] == \"Slot\" { slots = append(slots, line[5:7]) } }", c!"return slots, nil"]),
  (c!"(*server).ReadSlot func(slot string) (cert *x509.Certificate, err error)", [c!"if s.remote { return nil, errors.New(\"yubiagent: ReadSlot is not supported in remote mode\") }", c!"output, err := exec.Command(s.pivtoolpath, \"-a\", \"read-certificate\", \"-s\", slot).Output()", c!"if err != nil { return nil, err }", c!"return utils.ParsePEMCertificate(output)"]),
  (c!"(*server).AttestSlot func(slot string) (cert *x509.Certificate, err error)", [c!"if s.remote { return nil, errors.New(\"yubiagent: AttestSlot is not supported in remote mode\") }", c!"output, err := exec.Command(s.pivtoolpath, \"-a\", \"attest\", \"-s\", slot).Output()", c!"if err != nil { return nil, err }", c!"return utils.ParsePEMCertificate(output)"]),
  (c!"(*server).AddSmartcardKey func(readerId string, pin []byte, lifetime time.Duration, confirmBeforeUse bool) error", [c!"return errors.New(\"yubiagent: AddSmartcardKey is not implemented in server\")"]),
  (c!"(*server).RemoveSmartcardKey func(readerId string, pin []byte) error", [c!"return errors.New(\"yubiagent: RemoveSmartcardKey in not implemented in server\")"]),
  (c!"ServeAgent func(agent YubiAgent, c io.ReadWriter) error", [c!"for { req, err := read(c) if err == io.EOF { return nil } if err != nil { return err } if len(req) == 0 { return errors.New(\"yubiagent: empty request\") } if yubiServer, ok := agent.(*server); ok { if shimServer, ok := yubiServer.ShimAgent.(*shimagent.Server); ok { if err := shimServer.Broadcast(req[0]); err != nil { return err } } } switch req[0] { case AgentMessageAddHardCert: var key ssh.PublicKey var comment string if key, err = ssh.ParsePublicKey(req[1:]); err != nil { var msg agentAddHardCertReq if err = ssh.Unmarshal(req, &msg); err != nil { return err } if key, err = ssh.ParsePublicKey(msg.KeyBlob); err != nil { return err } comment = msg.Comment } var writeErr error if err = agent.AddHardCert(key, comment); err != nil { writeErr = write(c, []byte(err.Error())) } else { writeErr = write(c, []byte(\"SUCCESS\")) } if writeErr != nil { log.Warn().Err(writeErr).Msg(\"failed to write response to the connection\") } case AgentMessageListSlots: var msg agentListSlotsResp msg.Slots, err = agent.ListSlots() if err != nil { msg.Err = err.Error() } if err = write(c, ssh.Marshal(&msg)); err != nil { return err } case AgentMessageReadSlot: var msg agentReadSlotResp var cert *x509.Certificate cert, err = agent.ReadSlot(string(req)[1:]) if cert != nil { block := &pem.Block{Type: \"CERTIFICATE\", Bytes: cert.Raw} msg.Cert = pem.EncodeToMemory(block) } if err != nil { msg.Err = err.Error() } if err = write(c, ssh.Marshal(&msg)); err != nil { return err } case AgentMessageAttestSlot: var msg agentAttestSlotResp var cert *x509.Certificate cert, err = agent.AttestSlot(string(req)[1:]) if cert != nil { block := &pem.Block{Type: \"CERTIFICATE\", Bytes: cert.Raw} msg.Cert = pem.EncodeToMemory(block) } if err != nil { msg.Err = err.Error() } if err = write(c, ssh.Marshal(&msg)); err != nil { return err } case AgentMessageWait: if len(req) < 2 { return errors.New(\"yubiagent: malformed wait request\") } var writeErr error if err = agent.Wait(req[1]); err != nil { writeErr = write(c, []byte(err.Error())) } else { writeErr = write(c, []byte(\"SUCCESS\")) } if writeErr != nil { log.Warn().Err(writeErr).Msg(\"failed to write response to the connection\") } case AgentMessageLock, AgentMessageUnlock, AgentMessageSignRequest, AgentMessageAddIdentity, AgentMessageAddIDConstrained, AgentMessageRemoveIdentity, AgentMessageRemoveAllIdentities, AgentMessageRequestV1Identities, AgentMessageRequestIdentities: forwarder := newForwarder(req, c) err = serveStandardRequest(agent, forwarder) if err != nil && err != io.EOF { return err } default: resp, err := agent.Forward(req) if err != nil { return err } if err := write(c, resp); err != nil { return err } } }"]),
  (c!"serveStandardRequest func(agent sshagent.Agent, f forwarder) (err error)", [c!"defer func() { if r := recover(); r != nil { err = fmt.Errorf(\"yubiagent: malformed agent request: %v\", r) } }()", c!"return sshagent.ServeAgent(agent, f)"])
] : List (Str × List Str)) := rfl

theorem agent_yubiagent_client_pinned : Gen.SnapYubi.agent_yubiagent_client = ([
  (c!"type", [c!"client struct { conn net.Conn connLock sync.Mutex agent agent.ExtendedAgent }"]),
  (c!"NewClient func(address string) (YubiAgent, error)", [c!"conn, err := utils.GetConn(address)", c!"if err != nil { return nil, err }", c!"return &client{ conn: conn, connLock: sync.Mutex{}, agent: agent.NewClient(conn), }, nil"]),
  (c!"NewClientFromConn func(c net.Conn) (YubiAgent, error)", [c!"if c == nil { return nil, errors.New(\"cannot create new client from empty net.Conn\") }", c!"return &client{ conn: c, connLock: sync.Mutex{}, agent: agent.NewClient(c), }, nil"]),
  (c!"(*client).call func(req []byte) (resp []byte, err error)", [c!"c.connLock.Lock()", c!"defer c.connLock.Unlock()", c!"if err = write(c.conn, req); err != nil { return nil, err }", c!"return read(c.conn)"]),
  (c!"(*client).Forward func(req []byte) (resp []byte, err error)", [c!"return c.call(req)"]),
  (c!"(*client).AddHardCert func(key ssh.PublicKey, comment string) error", [c!"if key == nil { return errors.New(\"null key provided\") }", c!"var msg = agentAddHardCertReq{ KeyBlob: key.Marshal(), Comment: comment, }", c!"resp, err := c.call(ssh.Marshal(msg))", c!"if err != nil { return err }", c!"if string(resp) != \"SUCCESS\" { return errors.New(string(resp)) }", c!"return nil"]),
  (c!"(*client).ListSlots func() (slots []string, err error)", [c!"resp, err := c.call([]byte{AgentMessageListSlots})", c!"if err != nil { return nil, err }", c!"var msg agentListSlotsResp", c!"if err = ssh.Unmarshal(resp, &msg); err != nil { return nil, err }", c!"if msg.Err != \"\" { err = errors.New(msg.Err) }", c!"return msg.Slots, err"]),
  (c!"(*client).ReadSlot func(slot string) (cert *x509.Certificate, err error)", [c!"req := append([]byte{AgentMessageReadSlot}, []byte(slot)...)", c!"resp, err := c.call(req)", c!"if err != nil { return nil, err }", c!"var msg agentReadSlotResp", c!"if err = ssh.Unmarshal(resp, &msg); err != nil { return nil, err }", c!"if msg.Err != \"\" { return nil, errors.New(msg.Err) }", c!"return utils.ParsePEMCertificate(msg.Cert)"]),
  (c!"(*client).AttestSlot func(slot string) (cert *x509.Certificate, err error)", [c!"req := append([]byte{AgentMessageAttestSlot}, []byte(slot)...)", c!"resp, err := c.call(req)", c!"if err != nil { return nil, err }", c!"var msg agentReadSlotResp", c!"if err = ssh.Unmarshal(resp, &msg); err != nil { return nil, err }", c!"if msg.Err != \"\" { return nil, errors.New(msg.Err) }", c!"return utils.ParsePEMCertificate(msg.Cert)"]),
  (c!"(*client).Wait func(agentMsg byte) error", [c!"req := append([]byte{AgentMessageWait}, agentMsg)", c!"resp, err := c.call(req)", c!"if err != nil { return err }", c!"if string(resp) != \"SUCCESS\" { return errors.New(string(resp)) }", c!"return nil"]),
  (c!"(*client).AddSmartcardKey func(readerID string, pin []byte, lifetime time.Duration, confirmBeforeUse bool) error", [c!"var constraints []byte", c!"if lifetime != 0 { secs := uint32(lifetime.Seconds()) constraints = append(constraints, ssh.Marshal(agentLifetimeConstraint{secs})...) }", c!"if confirmBeforeUse { constraints = append(constraints, agentConstrainConfirm) }", c!"req := ssh.Marshal(agentAddSmartcardKeyReq{ ID: readerID, PIN: pin, Constraints: constraints, })", c!"resp, err := c.call(req)", c!"if err != nil { return err }", c!"if _, err := rand.Read(req); err != nil { return err }", c!"if len(resp) < 1 { return errors.New(\"yubiagent: empty packet\") }", c!"if resp[0] != agentSuccess { return errors.New(\"yubiagent: could not add smartcard \" + readerID + \": agent failure\") }", c!"return nil"]),
  (c!"(*client).RemoveSmartcardKey func(readerID string, pin []byte) error", [c!"req := ssh.Marshal(agentRemoveSmartcardKeyReq{ ID: readerID, PIN: pin, })", c!"resp, err := c.call(req)", c!"if err != nil { return err }", c!"if _, err := rand.Read(req); err != nil { return err }", c!"if len(resp) < 1 { return errors.New(\"yubiagent: empty packet\") }", c!"if resp[0] != agentSuccess { return errors.New(\"yubiagent: could not remove smartcard \" + readerID + \": agent failure\") }", c!"return nil"]),
  (c!"(*client).Close func() error", [c!"return c.conn.Close()"]),
  (c!"(*client).List func() ([]*agent.Key, error)", [c!"c.connLock.Lock()", c!"defer c.connLock.Unlock()", c!"return c.agent.List()"]),
  (c!"(*client).Sign func(key ssh.PublicKey, data []byte) (*ssh.Signature, error)", [c!"c.connLock.Lock()", c!"defer c.connLock.Unlock()", c!"if key == nil { return nil, errors.New(\"null key provided\") }", c!"return c.agent.Sign(key, data)"]),
  (c!"(*client).SignWithFlags func(key ssh.PublicKey, data []byte, flags agent.SignatureFlags) (*ssh.Signature, error)", [c!"c.connLock.Lock()", c!"defer c.connLock.Unlock()", c!"if key == nil { return nil, errors.New(\"null key provided\") }", c!"return c.agent.SignWithFlags(key, data, flags)"]),
  (c!"(*client).Add func(key agent.AddedKey) error", [c!"c.connLock.Lock()", c!"defer c.connLock.Unlock()", c!"return c.agent.Add(key)"]),
  (c!"(*client).Remove func(key ssh.PublicKey) error", [c!"c.connLock.Lock()", c!"defer c.connLock.Unlock()", c!"if key == nil { return errors.New(\"null key provided\") }", c!"return c.agent.Remove(key)"]),
  (c!"(*client).RemoveAll func() error", [c!"c.connLock.Lock()", c!"defer c.connLock.Unlock()", c!"return c.agent.RemoveAll()"]),
  (c!"(*client).Lock func(passphrase []byte) error", [c!"c.connLock.Lock()", c!"defer c.connLock.Unlock()", c!"return c.agent.Lock(passphrase)"]),
  (c!"(*client).Unlock func(passphrase []byte) error", [c!"c.connLock.Lock()", c!"defer c.connLock.Unlock()", c!"return c.agent.Unlock(passphrase)"]),
  (c!"(*client).Signers func() ([]ssh.Signer, error)", [c!"c.connLock.Lock()", c!"defer c.connLock.Unlock()", c!"return c.agent.Signers()"]),
  (c!"(*client).Extension func(extensionType string, contents []byte) ([]byte, error)", [c!"c.connLock.Lock()", c!"defer c.connLock.Unlock()", c!"return c.agent.Extension(extensionType, contents)"])
] : List (Str × List Str)) := rfl

theorem agent_yubiagent_io_pinned : Gen.SnapYubi.agent_yubiagent_io = ([
  (c!"const", [c!"maxAgentResponseBytes = 16 << 20"]),
  (c!"read func(c io.Reader) (data []byte, err error)", [c!"var length [4]byte", c!"if _, err := io.ReadFull(c, length[:]); err != nil { return nil, err }", c!"l := binary.BigEndian.Uint32(length[:])", c!"if l > maxAgentResponseBytes { return nil, fmt.Errorf(\"data size too large: %d\", l) }", c!"data = make([]byte, l)", c!"if _, err := io.ReadFull(c, data); err != nil { return nil, err }", c!"return data, nil"]),
  (c!"write func(c io.Writer, data []byte) (err error)", [c!"if len(data) > maxAgentResponseBytes { return fmt.Errorf(\"data size too large: %d\", len(data)) }", c!"var length [4]byte", c!"binary.BigEndian.PutUint32(length[:], uint32(len(data)))", c!"if _, err := c.Write(length[:]); err != nil { return err }", c!"if _, err := c.Write(data); err != nil { return err }", c!"return nil"])
] : List (Str × List Str)) := rfl

theorem agent_yubiagent_message_pinned : Gen.SnapYubi.agent_yubiagent_message = ([
  (c!"const", [c!"AgentMessageAddHardCert = 31", c!"AgentMessageListSlots = 32", c!"AgentMessageReadSlot = 33", c!"AgentMessageAttestSlot = 34", c!"AgentMessageWait = 35"]),
  (c!"type", [c!"agentAddHardCertReq struct { KeyBlob []byte `sshtype:\"31\"` Comment string }"]),
  (c!"type", [c!"agentListSlotsResp struct { Slots []string Err string }"]),
  (c!"type", [c!"agentReadSlotResp struct { Cert []byte Err string }"]),
  (c!"type", [c!"agentAttestSlotResp struct { Cert []byte Err string }"]),
  (c!"type", [c!"agentLifetimeConstraint struct { LifetimeSecs uint32 `sshtype:\"1\"` }"]),
  (c!"const", [c!"AgentMessageAddSmartcardKey = 20", c!"AgentMessageRemoveSmartcardKey = 21", c!"AgentMessageAddSmartcardKeyConstrained = 26", c!"agentConstrainConfirm = 2", c!"agentFailure = 5", c!"agentSuccess = 6"]),
  (c!"type", [c!"agentAddSmartcardKeyReq struct { ID string `sshtype:\"26\"` PIN []byte Constraints []byte `ssh:\"rest\"` }"]),
  (c!"type", [c!"agentRemoveSmartcardKeyReq struct { ID string `sshtype:\"21\"` PIN []byte }"]),
  (c!"const", [c!"AgentMessageRequestV1Identities = 1", c!"AgentMessageRequestIdentities = 11", c!"AgentMessageSignRequest = 13", c!"AgentMessageAddIdentity = 17", c!"AgentMessageRemoveIdentity = 18", c!"AgentMessageRemoveAllIdentities = 19", c!"AgentMessageAddIDConstrained = 25", c!"AgentMessageLock = 22", c!"AgentMessageUnlock = 23"]),
  (c!"type", [c!"forwarder struct { in io.Reader out io.Writer }"]),
  (c!"newForwarder func(req []byte, resp io.Writer) forwarder", [c!"buffer := new(bytes.Buffer)", c!"if err := write(buffer, req); err != nil { log.Warn().Err(err).Msg(\"failed to create forwarder when writing the buffer to resp\") }", c!"return forwarder{in: buffer, out: resp}"]),
  (c!"(forwarder).Read func(p []byte) (n int, err error)", [c!"return f.in.Read(p)"]),
  (c!"(forwarder).Write func(p []byte) (n int, err error)", [c!"return f.out.Write(p)"])
] : List (Str × List Str)) := rfl

theorem agent_yubiagent_agent_pinned : Gen.SnapYubi.agent_yubiagent_agent = ([
  (c!"type", [c!"YubiAgent interface { shimagent.ShimAgent ListSlots() (slots []string, err error) ReadSlot(slot string) (cert *x509.Certificate, err error) AttestSlot(slot string) (cert *x509.Certificate, err error) AddSmartcardKey(readerId string, pin []byte, lifetime time.Duration, confirmBeforeUse bool) error RemoveSmartcardKey(readerId string, pin []byte) error }"])
] : List (Str × List Str)) := rfl

theorem agent_yubiagent_server_notwin_pinned : Gen.SnapYubi.agent_yubiagent_server_notwin = ([
  (c!"const", [c!"pivTool = \"yubico-piv-tool\""]),
  (c!"getPivToolPath func() (string, error)", [c!"return exec.LookPath(pivTool)"])
] : List (Str × List Str)) := rfl

end Ysshra.Bridge.SnapYubi
