import Ysshra.Gen.SnapKeyId
/-
Pinned snapshot of Gen.SnapKeyId (see extract/snap.go): the regenerated statements of the source files
equal, declaration by declaration, what the hand-written models and harnesses were written against.
-/
set_option maxRecDepth 100000
namespace Ysshra.Bridge.SnapKeyId
open Ysshra

theorem keyid_keyid_pinned : Gen.SnapKeyId.keyid_keyid = ([
  (c!"const", [c!"DefaultVersion = 1", c!"MsgUnsupportedVersion = \"unsupported Key ID version: %d\""]),
  (c!"type", [c!"TouchPolicy int"]),
  (c!"const", [c!"DefaultTouch TouchPolicy = iota", c!"NeverTouch", c!"AlwaysTouch", c!"CachedTouch"]),
  (c!"type", [c!"Usage int"]),
  (c!"const", [c!"AllUsage Usage = iota", c!"SSHOnlyUsage"]),
  (c!"var", [c!"policies = map[TouchPolicy]string{ DefaultTouch: \"default\", NeverTouch: \"never\", AlwaysTouch: \"always\", CachedTouch: \"cached\", }"]),
  (c!"(TouchPolicy).String func() string", [c!"return policies[policy]"]),
  (c!"var", [c!"requiredKeysByVersion = map[uint16][]string{ 1: {\"prins\", \"transID\", \"reqUser\", \"reqIP\", \"reqHost\", \"isFirefighter\", \"isHWKey\", \"isHeadless\", \"isNonce\", \"touchPolicy\", \"ver\"}, }"]),
  (c!"var", [c!"sanityCheckerByVersion = map[uint16]func(*KeyID) error{ 1: func(id *KeyID) error { err := sanityCheckerHeadless(id) if err != nil { return err } return sanityCheckerNonce(id) }, }"]),
  (c!"type", [c!"KeyID struct { Principals []string `json:\"prins\"` TransID string `json:\"transID\"` ReqUser string `json:\"reqUser\"` ReqIP string `json:\"reqIP\"` ReqHost string `json:\"reqHost\"` IsFirefighter bool `json:\"isFirefighter\"` IsHWKey bool `json:\"isHWKey\"` IsHeadless bool `json:\"isHeadless\"` IsNonce bool `json:\"isNonce\"` Usage `json:\"usage\"` TouchPolicy `json:\"touchPolicy\"` Version uint16 `json:\"ver\"` }"]),
  (c!"New func() *KeyID", [c!"return &KeyID{ Version: DefaultVersion, }"]),
  (c!"(*KeyID).Marshal func() (string, error)", [c!"sanityChecker, ok := sanityCheckerByVersion[kid.Version]", c!"if !ok { return \"\", fmt.Errorf(MsgUnsupportedVersion, kid.Version) }", c!"if err := sanityChecker(kid); err != nil { return \"\", err }", c!"kidBytes, err := json.Marshal(kid)", c!"if err != nil { return \"\", fmt.Errorf(\"failed to marshal keyid string: %v\", err) }", c!"return string(kidBytes), nil"]),
  (c!"Unmarshal func(kidStr string) (*KeyID, error)", [c!"kid := &KeyID{}", c!"kidBytes := []byte(kidStr)", c!"err := json.Unmarshal(kidBytes, kid)", c!"if err != nil { return nil, fmt.Errorf(\"fail to unmarshal keyid string: %v\", err) }", c!"requiredKeys, ok := requiredKeysByVersion[kid.Version]", c!"if !ok { return nil, fmt.Errorf(MsgUnsupportedVersion, kid.Version) }", c!"m := make(map[string]interface{})", c!"err = json.Unmarshal(kidBytes, &m)", c!"if err != nil { return nil, fmt.Errorf(\"failed to unmarshal keyid string to map: %v\", err) }", c!"for _, key := range requiredKeys { if _, ok := m[key]; !ok { return nil, fmt.Errorf(\"missing key in keyid string: %s\", key) } }", c!"sanityChecker, ok := sanityCheckerByVersion[kid.Version]", c!"if !ok { return nil, fmt.Errorf(MsgUnsupportedVersion, kid.Version) }", c!"if err := sanityChecker(kid); err != nil { return nil, err }", c!"return kid, nil"]),
  (c!"Clone func(k *KeyID) *KeyID", [c!"kid := *k", c!"kid.Principals = make([]string, len(k.Principals))", c!"copy(kid.Principals, k.Principals)", c!"return &kid"]),
  (c!"(*KeyID).SetHumanUser func()", [c!"kid.IsHeadless = false"]),
  (c!"(*KeyID).GetProperty func(name string) string", [c!"switch name { case \"touchPolicy\": return fmt.Sprintf(\"%d\", kid.TouchPolicy) case \"prins\": return fmt.Sprintf(\"%v\", kid.Principals) case \"headless\": return fmt.Sprintf(\"%v\", kid.IsHeadless) default: return \"\" }"]),
  (c!"sanityCheckerHeadless func(k *KeyID) error", [c!"if !k.IsHeadless { return nil }", c!"if k.IsHWKey { return fmt.Errorf(\"conflict: IsHeadless and IsHWKey are both true\") }", c!"if k.IsFirefighter { return fmt.Errorf(\"conflict: IsHeadless and IsFireFighter are both true\") }", c!"if k.TouchPolicy != NeverTouch { return fmt.Errorf(\"conflict: IsHeadless is true and TouchPolicy is not NeverTouch\") }", c!"return nil"]),
  (c!"sanityCheckerNonce func(k *KeyID) error", [c!"if !k.IsNonce { return nil }", c!"if k.IsFirefighter { return fmt.Errorf(\"conflict: IsNonce and IsFireFighter are both true\") }", c!"if k.IsHeadless { return fmt.Errorf(\"conflict: IsNonce and IsHeadless are both true\") }", c!"if k.TouchPolicy != NeverTouch { return fmt.Errorf(\"conflict: IsNonce is true and TouchPolicy is not NeverTouch\") }", c!"return nil"])
] : List (Str × List Str)) := rfl

end Ysshra.Bridge.SnapKeyId
