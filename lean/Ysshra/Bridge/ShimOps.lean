import Ysshra.Gen.ShimOps
/-
Bridge: `(*Server).Lock`, `Unlock`, `Add` and `RemoveAll`, translated statement by statement from
shimserver.go on every run, are the corresponding cases of the model's `Shim.step` — for every
state, clock, fault schedule and argument.
-/
namespace Ysshra.Bridge.ShimOps
open Ysshra Ysshra.Shim

theorem lock_bridge (s : State) (now : Nat) (f : Faults) (p : Bytes) :
    Gen.ShimOps.lock s f p = step s now f (.lock p) := by
  unfold Gen.ShimOps.lock
  simp only [step]
  split
  · rfl
  · cases h : UAgent.lock s.u f p with
    | mk u' ok => cases ok <;> rfl

theorem unlock_bridge (s : State) (now : Nat) (f : Faults) (p : Bytes) :
    Gen.ShimOps.unlock s f p = step s now f (.unlock p) := by
  unfold Gen.ShimOps.unlock
  simp only [step]
  split
  · rfl
  · cases h : UAgent.unlock s.u f p with
    | mk u' ok => cases ok <;> rfl

theorem add_bridge (s : State) (now : Nat) (f : Faults) (id : Ident) :
    Gen.ShimOps.add s f id = step s now f (.add id) := by
  unfold Gen.ShimOps.add
  simp only [step]
  split
  · rfl
  · cases h : UAgent.add s.u f id with
    | mk u' ok => cases ok <;> rfl

theorem removeAll_bridge (s : State) (now : Nat) (f : Faults) :
    Gen.ShimOps.removeAll s f = step s now f .removeAll := by
  unfold Gen.ShimOps.removeAll
  simp only [step]
  split
  · rfl
  · cases h : UAgent.removeAll s.u f with
    | mk u' ok => cases ok <;> rfl

end Ysshra.Bridge.ShimOps
