import Ysshra.Gen.SnapGensignAux
/-
Pinned snapshot of Gen.SnapGensignAux (see extract/snap.go): the regenerated statements of the source files
equal, declaration by declaration, what the hand-written models and harnesses were written against.
-/
set_option maxRecDepth 100000
namespace Ysshra.Bridge.SnapGensignAux
open Ysshra

theorem config_hook_pinned : Gen.SnapGensignAux.config_hook = ([
  (c!"var", [c!"publicKeyAlgoName = map[string]x509.PublicKeyAlgorithm{ \"default\": x509.UnknownPublicKeyAlgorithm, \"unknown\": x509.UnknownPublicKeyAlgorithm, \"rsa\": x509.RSA, \"dsa\": x509.DSA, \"ecdsa\": x509.ECDSA, \"ed25519\": x509.Ed25519, }"]),
  (c!"StringToX509PublicKeyAlgo func() mapstructure.DecodeHookFunc", [c!"return func( f reflect.Type, t reflect.Type, data interface{}) (interface{}, error) { if f.Kind() != reflect.String { return data, nil } if t != reflect.TypeOf(x509.UnknownPublicKeyAlgorithm) { return data, nil } algo, ok := publicKeyAlgoName[strings.ToLower(data.(string))] if ok { return algo, nil } u, err := strconv.ParseUint(data.(string), 10, 0) if err != nil { return nil, err } return x509.PublicKeyAlgorithm(u), nil }"])
] : List (Str × List Str)) := rfl

theorem config_gensign_pinned : Gen.SnapGensignAux.config_gensign = ([
  (c!"const", [c!"requestTimeoutDefault = 60"]),
  (c!"type", [c!"handlerConfMap map[string]interface{}"]),
  (c!"type", [c!"GensignConfig struct { KeyIDVersion uint16 `json:\"keyid_version\"` SSHCAFailureDir string `json:\"sshca_failure_dir\"` SSHCAFailureRetry int64 `json:\"sshca_failure_retry\"` SSHCAFailureTimeout int64 `json:\"sshca_failure_timeout\"` HandlerConfig map[string]handlerConfMap `json:\"handlers\"` SignerConfig map[string]interface{} `json:\"signer\"` RequestTimeout time.Duration `json:\"request_timeout\"` OTel OTelConfig `json:\"otel\"` }"]),
  (c!"type", [c!"OTelConfig struct { Enabled bool `json:\"enabled\"` OTELCollectorEndpoint string `json:\"otel_collector_endpoint\"` ClientCertPath string `json:\"client_cert_path\"` ClientKeyPath string `json:\"client_key_path\"` CACertPath string `json:\"ca_cert_path\"` }"]),
  (c!"(*GensignConfig).populate func()", [c!"if g.RequestTimeout <= 0 { g.RequestTimeout = requestTimeoutDefault }", c!"g.RequestTimeout = g.RequestTimeout * time.Second"]),
  (c!"NewGensignConfig func(path string) (*GensignConfig, error)", [c!"conf := new(GensignConfig)", c!"data, err := os.ReadFile(path)", c!"if err != nil { return nil, err }", c!"if err := json.Unmarshal(data, conf); err != nil { return nil, err }", c!"conf.populate()", c!"return conf, nil"]),
  (c!"(*GensignConfig).ExtractHandlerConf func(name string, handlerConf interface{}) error", [c!"hConfMap, ok := g.HandlerConfig[name]", c!"if !ok { return fmt.Errorf(\"failed to find config for handler %q\", name) }", c!"config := &mapstructure.DecoderConfig{ DecodeHook: StringToX509PublicKeyAlgo(), Metadata: nil, Result: handlerConf, }", c!"decoder, err := mapstructure.NewDecoder(config)", c!"if err != nil { return fmt.Errorf(\"failed to initialize decoder %v\", err) }", c!"err = decoder.Decode(hConfMap)", c!"if err != nil { return fmt.Errorf(\"failed to decode handler conf for %q, err:%v\", name, err) }", c!"return nil"])
] : List (Str × List Str)) := rfl

theorem gensign_regular_conf_pinned : Gen.SnapGensignAux.gensign_regular_conf = ([
  (c!"const", [c!"defaultCertLabel = \"regular\"", c!"defaultPubKeyDir = \"/etc/ssh/authorized_public_keys\"", c!"defaultCertValiditySec = 12 * 3600"]),
  (c!"type", [c!"conf struct { PubKeyDir string `mapstructure:\"pub_key_dir\"` KeyIdentifiers map[x509.PublicKeyAlgorithm]string `mapstructure:\"key_identifiers\"` CertLabel string `mapstructure:\"key_label\"` CertValiditySec uint64 `mapstructure:\"cert_validity_sec\"` }"]),
  (c!"newDefaultConf func() *conf", [c!"return &conf{ PubKeyDir: defaultPubKeyDir, CertLabel: defaultCertLabel, CertValiditySec: defaultCertValiditySec, }"])
] : List (Str × List Str)) := rfl

theorem gensign_regular_key_pinned : Gen.SnapGensignAux.gensign_regular_key = ([
  (c!"type", [c!"csrAgentKey struct { *ssh.AgentKey csrs []*proto.SSHCertificateSigningRequest }"]),
  (c!"(*csrAgentKey).addCSR func(csr *proto.SSHCertificateSigningRequest)", [c!"c.csrs = append(c.csrs, csr)"]),
  (c!"(*csrAgentKey).CSRs func() []*proto.SSHCertificateSigningRequest", [c!"return c.csrs"])
] : List (Str × List Str)) := rfl

theorem agent_ssh_agent_pinned : Gen.SnapGensignAux.agent_ssh_agent = ([
  (c!"Agent func() (ag.Agent, net.Conn, error)", [c!"conn, err := AgentConn()", c!"if err != nil { return nil, nil, err }", c!"agent := ag.NewClient(conn)", c!"return agent, conn, nil"]),
  (c!"AgentConn func() (net.Conn, error)", [c!"sshAuthSock, err := CheckSSHAuthSock()", c!"if err != nil { return nil, err }", c!"conn, err := connection.GetConn(sshAuthSock)", c!"if err != nil { return nil, err }", c!"return conn, nil"]),
  (c!"AgentBySocket func(socketPath string) (ag.Agent, net.Conn, error)", [c!"conn, err := connection.GetConn(socketPath)", c!"if err != nil { return nil, nil, err }", c!"agent := ag.NewClient(conn)", c!"return agent, conn, nil"]),
  (c!"CheckSSHAuthSock func() (string, error)", [c!"sshAuthSock := os.Getenv(\"SSH_AUTH_SOCK\")", c!"if strings.TrimSpace(sshAuthSock) == \"\" { return \"\", errors.New(\"SSH_AUTH_SOCK is empty\") }", c!"if strings.Contains(sshAuthSock, \"gpg-agent\") { return \"\", errors.New(\"gpg-agent not support\") }", c!"return sshAuthSock, nil"]),
  (c!"ChallengeSSHAgent func(a ag.Agent, key ssh.PublicKey) error", [c!"data := make([]byte, 64)", c!"if _, err := rand.Read(data); err != nil { return fmt.Errorf(\"cannot generate random challenge: %v\", err) }", c!"sig, err := a.Sign(key, data)", c!"if err != nil { return fmt.Errorf(\"cannot sign the challenge: %v\", err) }", c!"return key.Verify(data, sig)"])
] : List (Str × List Str)) := rfl

theorem agent_ssh_opt_pinned : Gen.SnapGensignAux.agent_ssh_opt = ([
  (c!"const", [c!"defaultKeyValiditySec = 12 * 3600", c!"defaultPublicKeyAlgo = key.ECDSAsecp384r1", c!"defaultPrivateKeyLabel = \"private-key\"", c!"defaultCertLabel = \"certificate\""]),
  (c!"type", [c!"keyFilter func(key *agent.Key) bool"]),
  (c!"var", [c!"DefaultKeyOpt = KeyOpt{ KeyRefreshFilter: func(key *agent.Key) bool { return false }, PrivateKeyValiditySec: defaultKeyValiditySec, PublicKeyAlgo: defaultPublicKeyAlgo, PrivateKeyLabel: defaultPrivateKeyLabel, CertLabel: defaultCertLabel, }"]),
  (c!"type", [c!"KeyOpt struct { KeyRefreshFilter keyFilter PrivateKeyValiditySec uint32 PrivateKeyLabel string CertLabel string PublicKeyAlgo key.PublicKeyAlgo }"])
] : List (Str × List Str)) := rfl

theorem csr_agentkey_pinned : Gen.SnapGensignAux.csr_agentkey = ([
  (c!"type", [c!"AgentKey interface { CSRs() []*proto.SSHCertificateSigningRequest AddCertsToAgent(certs []ssh.PublicKey, comments []string) error }"])
] : List (Str × List Str)) := rfl

theorem gensign_handler_pinned : Gen.SnapGensignAux.gensign_handler = ([
  (c!"type", [c!"CreateHandler func(gensignConf *config.GensignConfig, conn net.Conn) (Handler, error)"]),
  (c!"type", [c!"Handler interface { csr.Generator Name() string Authenticate(params *csr.ReqParam) error }"])
] : List (Str × List Str)) := rfl

theorem gensign_error_pinned : Gen.SnapGensignAux.gensign_error = ([
  (c!"type", [c!"Error struct { etype ErrorType err error handlerName string }"]),
  (c!"NewErr func(t ErrorType, err ...error) *Error", [c!"return NewError(t, \"\", err...)"]),
  (c!"NewError func(t ErrorType, handlerName string, err ...error) *Error", [c!"if len(err) == 0 { err = []error{nil} }", c!"return &Error{ etype: t, err: err[0], handlerName: handlerName, }"]),
  (c!"NewErrWithMsg func(t ErrorType, msg string) *Error", [c!"return NewErrorWithMsg(t, \"\", msg)"]),
  (c!"NewErrorWithMsg func(t ErrorType, handlerName string, msg string) *Error", [c!"return &Error{ etype: t, handlerName: handlerName, err: errors.New(msg), }"]),
  (c!"(Error).Error func() string", [c!"var builder strings.Builder", c!"if e.handlerName != \"\" { builder.WriteString(fmt.Sprintf(\"%v \", e.handlerName)) }", c!"builder.WriteString(e.etype.String())", c!"if e.err != nil { builder.WriteString(fmt.Sprintf(\", %v\", e.err.Error())) }", c!"return builder.String()"]),
  (c!"(Error).Type func() ErrorType", [c!"return e.etype"]),
  (c!"type", [c!"ErrorType uint8"]),
  (c!"const", [c!"_ ErrorType = iota", c!"Unknown", c!"HandlerDisabled", c!"HandlerAuthN", c!"InvalidParams", c!"HandlerGenCSRErr", c!"HandlerConfErr", c!"AllAuthFailed", c!"SignerSignErr", c!"AgentOpCertErr", c!"Panic"]),
  (c!"(ErrorType).String func() string", [c!"switch t { case HandlerDisabled: return \"handler is disabled\" case HandlerAuthN: return \"handler authentication error\" case InvalidParams: return \"handler receives invalid parameters\" case HandlerGenCSRErr: return \"handler fails to generate csr\" case HandlerConfErr: return \"handler configuration error\" case AllAuthFailed: return \"all authentications failed\" case SignerSignErr: return \"signer fails to sign certificate\" case AgentOpCertErr: return \"agent fails to operate certificate\" case Panic: return \"panic\" default: return \"unknown error type\" }"]),
  (c!"IsErrorOfType func(err interface{}, typ ErrorType) bool", [c!"e, ok := IsError(err)", c!"if !ok { return false }", c!"return e.Type() == typ"]),
  (c!"IsError func(err interface{}) (*Error, bool)", [c!"if e, ok := err.(*Error); ok { return e, ok }", c!"return nil, false"])
] : List (Str × List Str)) := rfl

theorem gensign_otel_pinned : Gen.SnapGensignAux.gensign_otel = ([
  (c!"const", [c!"scopeName = \"github.com/theparanoids/ysshra/gensign\"", c!"ysshraPanic = \"ysshra.panic\"", c!"ysshraGensign = \"ysshra.gensign.run\""]),
  (c!"var", [c!"meter metric.Meter"]),
  (c!"init func()", [c!"meter = otel.GetMeterProvider().Meter(scopeName)"]),
  (c!"ExportPanicMetric func(ctx context.Context, _ *csr.ReqParam, msg string)", [c!"var err error", c!"panicCounter, err := meter.Int64Counter( ysshraPanic, metric.WithUnit(\"1\"), metric.WithDescription(\"Count the number of HTTP handler panic\"), )", c!"if err != nil { log.Printf(\"Error creating metric for panic: %v\\n\", err) }", c!"panicCounter.Add(ctx, 1, metric.WithAttributes( attribute.String(\"panic.message\", msg), ))"]),
  (c!"ExportGensignRunMetric func(ctx context.Context, runErr error)", [c!"var err error", c!"gensignRunCounter, err := meter.Int64Counter( ysshraGensign, metric.WithUnit(\"1\"), metric.WithDescription(\"Count the number of gensign runs\"), )", c!"if err != nil { log.Printf(\"Error creating metric for gensign run: %v\\n\", err) }", c!"var attributes []attribute.KeyValue", c!"if runErr != nil { gensignErr, ok := IsError(runErr) if ok { attributes = append(attributes, attribute.Int(\"gensign.error.type\", int(gensignErr.Type()))) } else { attributes = append(attributes, attribute.Int(\"gensign.error.type\", int(Unknown))) } }", c!"gensignRunCounter.Add(ctx, 1, metric.WithAttributes(attributes...))"])
] : List (Str × List Str)) := rfl

theorem cmd_gensign_main_pinned : Gen.SnapGensignAux.cmd_gensign_main = ([
  (c!"const", [c!"confPath = \"/opt/ysshra/config.json\"", c!"logFile = \"/var/log/ysshra/gensign.log\""]),
  (c!"var", [c!"handlerCreators = map[string]gensign.CreateHandler{ regular.HandlerName: regular.NewHandler, }"]),
  (c!"main func()", [c!"log.Logger = log.Logger.With().Caller().Str(\"app\", \"gensign\").Logger()", c!"zerolog.MessageFieldName = logkey.MsgField", c!"zerolog.ErrorFieldName = logkey.ErrField", c!"file, err := os.OpenFile(logFile, os.O_RDWR|os.O_CREATE|os.O_APPEND, 0664)", c!"if err != nil { log.Fatal().Err(err).Msg(\"failed to create log file\") }", c!"defer file.Close()", c!"log.Logger = log.Logger.Output(io.MultiWriter(file, os.Stderr))", c!"fileLogger := log.Output(file)", c!"golog.SetOutput(file)", c!"conf, err := config.NewGensignConfig(confPath)", c!"if err != nil { log.Fatal().Err(err).Msg(\"failed to load configuration\") }", c!"reqParam, err := csr.NewReqParam(os.Getenv, func() []string { return os.Args })", c!"if err != nil { log.Fatal().Err(err).Msg(\"failed to create request parameter\") }", c!"log.Logger = log.Logger.With().Str(\"id\", reqParam.TransID).Logger()", c!"conn, err := ssh.AgentConn()", c!"if err != nil { log.Fatal().Err(err).Msg(\"failed to initialize the connection for ssh agent\") }", c!"defer conn.Close()", c!"var handlers []gensign.Handler", c!"for hName := range conf.HandlerConfig { create, ok := handlerCreators[hName] if !ok { log.Warn().Msgf(\"cannot find creator for handler %s\", hName) continue } handler, err := create(conf, conn) if err != nil { log.Warn().Err(err).Msgf(\"cannot create handler %s\", hName) continue } handlers = append(handlers, handler) }", c!"signer, err := crypki.NewSignerWithGensignConf(*conf)", c!"if err != nil { log.Fatal().Err(err).Msg(\"failed to create signer\") }", c!"if conf.OTel.Enabled { otelResource, err := resource.Merge( resource.Default(), resource.NewWithAttributes(semconv.SchemaURL, semconv.ServiceNameKey.String(\"gensign\")), ) if err != nil { fileLogger.Warn().Err(err).Msg(\"failed to create oTel resource\") } otelTLSConf, err := tlsutils.TLSClientConfiguration(conf.OTel.ClientCertPath, conf.OTel.ClientKeyPath, []string{conf.OTel.CACertPath}) if err != nil { fileLogger.Warn().Err(err).Msg(\"failed to create oTel TLS config\") } shutdownProvider := otellib.InitOTelSDK(context.Background(), conf.OTel.OTELCollectorEndpoint, otelTLSConf, otelResource) defer func() { if err := shutdownProvider(context.Background()); err != nil { fileLogger.Warn().Err(err).Msg(\"failed to shut down oTel provider\") } }() }", c!"ctx, cancel := context.WithTimeout(context.Background(), conf.RequestTimeout)", c!"defer cancel()", c!"err = gensign.Run(ctx, reqParam, handlers, signer)", c!"if err != nil { if gensign.IsErrorOfType(err, gensign.Panic) { log.Logger = fileLogger } log.Error().Str(logkey.TransIDField, reqParam.TransID).Err(err).Msg(\"failed to run gensign\") }", c!"gensign.ExportGensignRunMetric(ctx, err)"])
] : List (Str × List Str)) := rfl

theorem sshutils_key_algo_pinned : Gen.SnapGensignAux.sshutils_key_algo = ([
  (c!"type", [c!"PublicKeyAlgo int"]),
  (c!"const", [c!"RSA2048 PublicKeyAlgo = iota", c!"RSA4096", c!"ECDSAsecp256r1", c!"ECDSAsecp384r1", c!"ECDSAsecp521r1", c!"ED25519"]),
  (c!"(PublicKeyAlgo).String func() string", [c!"switch p { case RSA2048: return \"RSA2048\" case RSA4096: return \"RSA4096\" case ECDSAsecp256r1: return \"ECCP256\" case ECDSAsecp384r1: return \"ECCP384\" case ECDSAsecp521r1: return \"ECCP521\" case ED25519: return \"ED25519\" default: return \"\" }"]),
  (c!"var", [c!"SSHKeyAlgoStrMap = map[string]PublicKeyAlgo{ \"RSA2048\": RSA2048, \"RSA4096\": RSA4096, \"ECCP256\": ECDSAsecp256r1, \"ECCP384\": ECDSAsecp384r1, \"ECCP521\": ECDSAsecp521r1, \"ED25519\": ED25519, }"]),
  (c!"GetSSHKeyAlgo func(keyType string) (PublicKeyAlgo, error)", [c!"pkAlgo, ok := SSHKeyAlgoStrMap[keyType]", c!"if !ok { return RSA2048, fmt.Errorf(\"failed to create the key algorithm for key type %q, \"+ \"used %s instead\", keyType, RSA2048.String()) }", c!"return pkAlgo, nil"]),
  (c!"GenerateKeyPair func(pka PublicKeyAlgo) (crypto.PrivateKey, ssh.PublicKey, error)", [c!"return createKeyPair(pka)"]),
  (c!"createKeyPair func(pka PublicKeyAlgo) (crypto.PrivateKey, ssh.PublicKey, error)", [c!"var ( pubkey interface{} priv interface{} err error )", c!"switch pka { case RSA4096: priv, err = rsa.GenerateKey(rand.Reader, 4096) if err != nil { return nil, nil, err } pubkey = priv.(*rsa.PrivateKey).Public() case ECDSAsecp256r1: priv, err = ecdsa.GenerateKey(elliptic.P256(), rand.Reader) if err != nil { return nil, nil, err } pubkey = priv.(*ecdsa.PrivateKey).Public() case ECDSAsecp384r1: priv, err = ecdsa.GenerateKey(elliptic.P384(), rand.Reader) if err != nil { return nil, nil, err } pubkey = priv.(*ecdsa.PrivateKey).Public() case ECDSAsecp521r1: priv, err = ecdsa.GenerateKey(elliptic.P521(), rand.Reader) if err != nil { return nil, nil, err } pubkey = priv.(*ecdsa.PrivateKey).Public() case ED25519: _, privkey, err := ed25519.GenerateKey(rand.Reader) if err != nil { return nil, nil, err } priv = &privkey pubkey = priv.(*ed25519.PrivateKey).Public() case RSA2048: fallthrough default: priv, err = rsa.GenerateKey(rand.Reader, 2048) if err != nil { return nil, nil, err } pubkey = priv.(*rsa.PrivateKey).Public() }", c!"sshpub, err := ssh.NewPublicKey(pubkey)", c!"if err != nil { return nil, nil, err }", c!"return priv, sshpub, nil"])
] : List (Str × List Str)) := rfl

theorem sshutils_key_validation_pinned : Gen.SnapGensignAux.sshutils_key_validation = ([
  (c!"const", [c!"keyFileSizeLimitation = 5 * 1024 * 1024"]),
  (c!"validateKeyFile func(keyPath string) error", [c!"f, err := os.Open(keyPath)", c!"if err != nil { return err }", c!"defer f.Close()", c!"info, err := f.Stat()", c!"if err != nil { return err }", c!"if info.Size() > keyFileSizeLimitation { return fmt.Errorf(\"size of %q excceeds the limiation, got: %v\", keyPath, info.Size()) }", c!"return nil"])
] : List (Str × List Str)) := rfl

theorem csr_generator_pinned : Gen.SnapGensignAux.csr_generator = ([
  (c!"type", [c!"Generator interface { Generate(*ReqParam) ([]AgentKey, error) }"])
] : List (Str × List Str)) := rfl

theorem csr_signer_pinned : Gen.SnapGensignAux.csr_signer = ([
  (c!"type", [c!"Signer interface { Sign(ctx context.Context, request *proto.SSHCertificateSigningRequest) (cert []ssh.PublicKey, comment []string, err error) }"])
] : List (Str × List Str)) := rfl

end Ysshra.Bridge.SnapGensignAux
