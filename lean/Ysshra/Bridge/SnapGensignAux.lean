import Ysshra.Gen.SnapGensignAux
/-
Pinned snapshot of Gen.SnapGensignAux (see extract/snap.go): the regenerated statements of the source files
equal, declaration by declaration, what the hand-written models and harnesses were written against.
-/
set_option maxRecDepth 100000
namespace Ysshra.Bridge.SnapGensignAux
open Ysshra

theorem config_hook_pinned : Gen.SnapGensignAux.config_hook = ([
  (c!"var", [c!"publicKeyAlgoName = map[string]x509.PublicKeyAlgorithm{ \"default\": x509.UnknownPublicKeyAlgorithm, \"unknown\": x509.UnknownPublicKeyAlgorithm, \"rsa\": x509.RSA, \"dsa\": x509.DSA, \"ecdsa\": x509.ECDSA, \"ed25519\": x509.Ed25519, }"]),
  (c!"StringToX509PublicKeyAlgo func() mapstructure.DecodeHookFunc", [c!"return func( f reflect.Type, t reflect.Type, data interface{}) (interface{}, error) { if f.Kind() != reflect.String { return data, nil } if t != reflect.TypeOf(x509.UnknownPublicKeyAlgorithm) { return data, nil } algo, ok := publicKeyAlgoName[strings.ToLower(data.(string))] if ok { return algo, nil } u, err := strconv.ParseUint(data.(string), 10, 0) if err != nil { return nil, err } return x509.PublicKeyAlgorithm(u), nil }"])
] : List (Str × List Str)) := rfl

theorem config_gensign_pinned : Gen.SnapGensignAux.config_gensign = ([
  (c!"const", [c!"requestTimeoutDefault = 60"]),
  (c!"type", [c!"handlerConfMap map[string]interface{}"]),
  (c!"type", [c!"GensignConfig struct { KeyIDVersion uint16 `json:\"keyid_version\"` SSHCAFailureDir string `json:\"sshca_failure_dir\"` SSHCAFailureRetry int64 `json:\"sshca_failure_retry\"` SSHCAFailureTimeout int64 `json:\"sshca_failure_timeout\"` HandlerConfig map[string]handlerConfMap `json:\"handlers\"` SignerConfig map[string]interface{} `json:\"signer\"` RequestTimeout time.Duration `json:\"request_timeout\"` OTel OTelConfig `json:\"otel\"` }"]),
  (c!"type", [c!"OTelConfig struct { Enabled bool `json:\"enabled\"` OTELCollectorEndpoint string `json:\"otel_collector_endpoint\"` ClientCertPath string `json:\"client_cert_path\"` ClientKeyPath string `json:\"client_key_path\"` CACertPath string `json:\"ca_cert_path\"` }"]),
  (c!"(*GensignConfig).populate func()", [c!"if g.RequestTimeout <= 0 { g.RequestTimeout = requestTimeoutDefault }", c!"g.RequestTimeout = g.RequestTimeout * time.Second"]),
  (c!"NewGensignConfig func(path string) (*GensignConfig, error)", [c!"conf := new(GensignConfig)", c!"data, err := os.ReadFile(path)", c!"if err != nil { return nil, err }", c!"if err := json.Unmarshal(data, conf); err != nil { return nil, err }", c!"conf.populate()", c!"return conf, nil"]),
  (c!"(*GensignConfig).ExtractHandlerConf func(name string, handlerConf interface{}) error", [c!"hConfMap, ok := g.HandlerConfig[name]", c!"if !ok { return fmt.Errorf(\"failed to find config for handler %q\", name) }", c!"config := &mapstructure.DecoderConfig{ DecodeHook: StringToX509PublicKeyAlgo(), Metadata: nil, Result: handlerConf, }", c!"decoder, err := mapstructure.NewDecoder(config)", c!"if err != nil { return fmt.Errorf(\"failed to initialize decoder %v\", err) }", c!"err = decoder.Decode(hConfMap)", c!"if err != nil { return fmt.Errorf(\"failed to decode handler conf for %q, err:%v\", name, err) }", c!"return nil"])
] : List (Str × List Str)) := rfl

theorem gensign_regular_conf_pinned : Gen.SnapGensignAux.gensign_regular_conf = ([
  (c!"const", [c!"defaultCertLabel = \"regular\"", c!"defaultPubKeyDir = \"/etc/ssh/authorized_public_keys\"", c!"defaultCertValiditySec = 12 * 3600"]),
  (c!"type", [c!"conf struct { PubKeyDir string `mapstructure:\"pub_key_dir\"` KeyIdentifiers map[x509.PublicKeyAlgorithm]string `mapstructure:\"key_identifiers\"` CertLabel string `mapstructure:\"key_label\"` CertValiditySec uint64 `mapstructure:\"cert_validity_sec\"` }"]),
  (c!"newDefaultConf func() *conf", [c!"return &conf{ PubKeyDir: defaultPubKeyDir, CertLabel: defaultCertLabel, CertValiditySec: defaultCertValiditySec, }"])
] : List (Str × List Str)) := rfl

theorem gensign_regular_key_pinned : Gen.SnapGensignAux.gensign_regular_key = ([
  (c!"type", [c!"csrAgentKey struct { *ssh.AgentKey csrs []*proto.SSHCertificateSigningRequest }"]),
  (c!"(*csrAgentKey).addCSR func(csr *proto.SSHCertificateSigningRequest)", [c!"c.csrs = append(c.csrs, csr)"]),
  (c!"(*csrAgentKey).CSRs func() []*proto.SSHCertificateSigningRequest", [c!"return c.csrs"])
] : List (Str × List Str)) := rfl

theorem agent_ssh_agent_pinned : Gen.SnapGensignAux.agent_ssh_agent = ([
  (c!"Agent func() (ag.Agent, net.Conn, error)", [c!"conn, err := AgentConn()", c!"if err != nil { return nil, nil, err }", c!"agent := ag.NewClient(conn)", c!"return agent, conn, nil"]),
  (c!"AgentConn func() (net.Conn, error)", [c!"sshAuthSock, err := CheckSSHAuthSock()", c!"if err != nil { return nil, err }", c!"conn, err := connection.GetConn(sshAuthSock)", c!"if err != nil { return nil, err }", c!"return conn, nil"]),
  (c!"AgentBySocket func(socketPath string) (ag.Agent, net.Conn, error)", [c!"conn, err := connection.GetConn(socketPath)", c!"if err != nil { return nil, nil, err }", c!"agent := ag.NewClient(conn)", c!"return agent, conn, nil"]),
  (c!"CheckSSHAuthSock func() (string, error)", [c!"sshAuthSock := os.Getenv(\"SSH_AUTH_SOCK\")", c!"if strings.TrimSpace(sshAuthSock) == \"\" { return \"\", errors.New(\"SSH_AUTH_SOCK is empty\") }", c!"if strings.Contains(sshAuthSock, \"gpg-agent\") { return \"\", errors.New(\"gpg-agent not support\") }", c!"return sshAuthSock, nil"]),
  (c!"ChallengeSSHAgent func(a ag.Agent, key ssh.PublicKey) error", [c!"data := make([]byte, 64)", c!"if _, err := rand.Read(data); err != nil { return fmt.Errorf(\"cannot generate random challenge: %v\", err) }", c!"sig, err := a.Sign(key, data)", c!"if err != nil { return fmt.Errorf(\"cannot sign the challenge: %v\", err) }", c!"return key.Verify(data, sig)"])
] : List (Str × List Str)) := rfl

theorem agent_ssh_opt_pinned : Gen.SnapGensignAux.agent_ssh_opt = ([
  (c!"const", [c!"defaultKeyValiditySec = 12 * 3600", c!"defaultPublicKeyAlgo = key.ECDSAsecp384r1", c!"defaultPrivateKeyLabel = \"private-key\"", c!"defaultCertLabel = \"certificate\""]),
  (c!"type", [c!"keyFilter func(key *agent.Key) bool"]),
  (c!"var", [c!"DefaultKeyOpt = KeyOpt{ KeyRefreshFilter: func(key *agent.Key) bool { return false }, PrivateKeyValiditySec: defaultKeyValiditySec, PublicKeyAlgo: defaultPublicKeyAlgo, PrivateKeyLabel: defaultPrivateKeyLabel, CertLabel: defaultCertLabel, }"]),
  (c!"type", [c!"KeyOpt struct { KeyRefreshFilter keyFilter PrivateKeyValiditySec uint32 PrivateKeyLabel string CertLabel string PublicKeyAlgo key.PublicKeyAlgo }"])
] : List (Str × List Str)) := rfl

theorem csr_agentkey_pinned : Gen.SnapGensignAux.csr_agentkey = ([
  (c!"type", [c!"AgentKey interface { CSRs() []*proto.SSHCertificateSigningRequest AddCertsToAgent(certs []ssh.PublicKey, comments []string) error }"])
] : List (Str × List Str)) := rfl

theorem gensign_handler_pinned : Gen.SnapGensignAux.gensign_handler = ([
  (c!"type", [c!"CreateHandler func(gensignConf *config.GensignConfig, conn net.Conn) (Handler, error)"]),
  (c!"type", [c!"Handler interface { csr.Generator Name() string Authenticate(params *csr.ReqParam) error }"])
] : List (Str × List Str)) := rfl

end Ysshra.Bridge.SnapGensignAux
