import Ysshra.Gen.KeyId
import Ysshra.Lemmas.KeyId
/-
Bridge: what the translator regenerated from keyid/keyid.go on this run equals
the constants and decision functions the model and the C05 theorems use.
-/
namespace Ysshra.Bridge.KeyId
open Ysshra

theorem tags_bridge : Gen.KeyId.fields.map (·.2.1) = KeyID.tags := by decide

/-- Go kinds of the twelve fields (the model's `setField` decodes by these). -/
theorem kinds_bridge : Gen.KeyId.fields.map (·.2.2) =
    [c!"[]string", c!"string", c!"string", c!"string", c!"string", c!"bool", c!"bool", c!"bool",
     c!"bool", c!"Usage", c!"TouchPolicy", c!"uint16"] := by decide

theorem names_bridge : Gen.KeyId.fields.map (·.1) =
    [c!"Principals", c!"TransID", c!"ReqUser", c!"ReqIP", c!"ReqHost", c!"IsFirefighter", c!"IsHWKey",
     c!"IsHeadless", c!"IsNonce", c!"Usage", c!"TouchPolicy", c!"Version"] := by decide

theorem required_bridge : Gen.KeyId.requiredKeysByVersion = [(1, KeyID.requiredV1)] := by decide

theorem versions_bridge : Gen.KeyId.sanityCheckerVersions = [1] := by decide

theorem consts_bridge :
    Gen.KeyId.NeverTouch = KeyID.NeverTouch ∧ Gen.KeyId.AlwaysTouch = KeyID.AlwaysTouch ∧
    Gen.KeyId.CachedTouch = KeyID.CachedTouch ∧ Gen.KeyId.DefaultVersion = 1 ∧
    Gen.KeyId.AllUsage = 0 ∧ Gen.KeyId.DefaultTouch = 0 := by decide

/-- the translated version-1 checker is the model's `sane`, hence (Lemmas) the property's
    consistency sentence — for every KeyID, including out-of-range touch policies -/
theorem sane_bridge (k : KeyID) : Gen.KeyId.sanityChecker_1 k = KeyID.sane k := by
  first
  | rfl
  | (unfold Gen.KeyId.sanityChecker_1 Gen.KeyId.sanityCheckerHeadless Gen.KeyId.sanityCheckerNonce
       KeyID.sane KeyID.saneHeadless KeyID.saneNonce
     simp only [Gen.KeyId.NeverTouch, KeyID.NeverTouch]
     cases k.IsHeadless <;> cases k.IsNonce <;> cases k.IsHWKey <;> cases k.IsFirefighter <;>
       by_cases h : k.TouchPolicy = 1 <;> simp [h])

theorem sane_consistent (k : KeyID) : Gen.KeyId.sanityChecker_1 k = true ↔ k.consistent := by
  rw [sane_bridge]; exact KeyID.sane_iff k

/-- `Marshal`: version lookup, consistency check, `json.Marshal`, and the text is returned as it
    came out of the encoder (no step in between) -/
theorem stepsMarshal_bridge : Gen.KeyId.stepsMarshal =
    [c!"sanityCheckerByVersion[kid.Version]", c!"sanityChecker", c!"json.Marshal",
     c!"return string(kidBytes)", c!"string"] := by decide

theorem stepsUnmarshal_bridge : Gen.KeyId.stepsUnmarshal =
    [c!"[]byte", c!"json.Unmarshal", c!"requiredKeysByVersion[kid.Version]", c!"make", c!"json.Unmarshal",
     c!"range requiredKeys", c!"sanityCheckerByVersion[kid.Version]", c!"sanityChecker", c!"return kid"] := by decide

end Ysshra.Bridge.KeyId
