import Ysshra.Gen.SnapParam
/-
Pinned snapshot of Gen.SnapParam (see extract/snap.go): the regenerated statements of the source files
equal, declaration by declaration, what the hand-written models and harnesses were written against.
-/
set_option maxRecDepth 100000
namespace Ysshra.Bridge.SnapParam
open Ysshra

theorem csr_param_pinned : Gen.SnapParam.csr_param = ([
  (c!"type", [c!"ReqParam struct { NamespacePolicy common.NamespacePolicy HandlerName string ClientIP string LogName string ReqUser string ReqHost string TransID string SSHClientVersion version.Version SignatureAlgo x509.SignatureAlgorithm Attrs *message.Attributes }"]),
  (c!"NewReqParam func(envGetter func(string) string, osArgsGetter func() []string) (*ReqParam, error)", [c!"sshOriginalCommand := envGetter(\"SSH_ORIGINAL_COMMAND\")", c!"reqAttrs, err := message.Unmarshal(sshOriginalCommand)", c!"if err != nil { return nil, fmt.Errorf(\"failed to load attributes from SSH_ORIGINAL_COMMAND %q: %v\", sshOriginalCommand, err) }", c!"logName := envGetter(\"LOGNAME\")", c!"if logName == \"\" { return nil, fmt.Errorf(\"failed to load log name from LOGNAME %q\", logName) }", c!"sshConnection := envGetter(\"SSH_CONNECTION\")", c!"clientIP := strings.Split(sshConnection, \" \")[0]", c!"if net.ParseIP(clientIP) == nil { return nil, fmt.Errorf(\"failed to load client IP from SSH_CONNECTION %q\", sshConnection) }", c!"namespacePolicy, handlerName, err := parseForceCommand(osArgsGetter())", c!"if err != nil { return nil, err }", c!"sshClientVersion := version.NewDefaultVersion()", c!"if reqAttrs.SSHClientVersion != \"\" { sshClientVersion, err = version.Unmarshal(reqAttrs.SSHClientVersion) if err != nil { return nil, fmt.Errorf(`failed to unmarshal client version from SSHClientVersion=%q`, reqAttrs.SSHClientVersion) } }", c!"return &ReqParam{ NamespacePolicy: namespacePolicy, HandlerName: handlerName, ClientIP: clientIP, LogName: logName, ReqUser: reqAttrs.Username, ReqHost: reqAttrs.Hostname, TransID: transid.Generate(), SSHClientVersion: sshClientVersion, SignatureAlgo: x509.SignatureAlgorithm(reqAttrs.SignatureAlgo), Attrs: reqAttrs, }, nil"]),
  (c!"parseForceCommand func(osArgs []string) (common.NamespacePolicy, string, error)", [c!"var args []string", c!"for _, osArg := range osArgs { args = append(args, strings.Split(osArg, \" \")...) }", c!"l := len(args)", c!"if l < 3 { return \"\", \"\", fmt.Errorf(\"failed to get namespace policy and handler name from force command: %q\", strings.Join(args, \" \")) } else if l > 6 { return \"\", \"\", fmt.Errorf(\"length of the force command arguments exceeds the limitation: %q\", strings.Join(args, \" \")) }", c!"namespacePolicy := common.NamespacePolicy(args[l-2])", c!"if !common.ValidNamespacePolicy(namespacePolicy) { return \"\", \"\", fmt.Errorf(\"failed to validate namespace policy %q from force command: %q\", namespacePolicy, strings.Join(args, \" \")) }", c!"return namespacePolicy, args[l-1], nil"]),
  (c!"(*ReqParam).Validate func() error", [c!"if p == nil { return errors.New(\"nil request parameter\") }", c!"return nil"])
] : List (Str × List Str)) := rfl

theorem sshutils_version_sshversion_pinned : Gen.SnapParam.sshutils_version_sshversion = ([
  (c!"const", [c!"base = 10", c!"bitSize = 16"]),
  (c!"var", [c!"versionRE = regexp.MustCompile(`^\\d+\\.\\d+$`)"]),
  (c!"type", [c!"Version struct { major, minor uint16 }"]),
  (c!"New func(major, minor uint16) Version", [c!"return Version{ major: major, minor: minor, }"]),
  (c!"NewDefaultVersion func() Version", [c!"return Version{major: 0, minor: 0}"]),
  (c!"(Version).Marshal func() string", [c!"return fmt.Sprintf(\"%d.%d\", v.major, v.minor)"]),
  (c!"Unmarshal func(s string) (Version, error)", [c!"if !versionRE.MatchString(s) { return NewDefaultVersion(), errors.New(`invalid format, expected \"major.minor\", e.g. \"8.0\"`) }", c!"i := strings.Index(s, \".\")", c!"major, err := strconv.ParseUint(s[:i], base, bitSize)", c!"if err != nil { return NewDefaultVersion(), err }", c!"minor, err := strconv.ParseUint(s[i+1:], base, bitSize)", c!"if err != nil { return NewDefaultVersion(), err }", c!"return New(uint16(major), uint16(minor)), nil"]),
  (c!"(Version).LessThan func(other Version) bool", [c!"return v.major < other.major || (v.major == other.major && v.minor < other.minor)"])
] : List (Str × List Str)) := rfl

theorem csr_transid_transid_pinned : Gen.SnapParam.csr_transid_transid = ([
  (c!"Generate func() string", [c!"transID := make([]byte, 5)", c!"_, err := rand.Read(transID)", c!"if err != nil { return \"\" }", c!"return fmt.Sprintf(\"%x\", string(transID))"])
] : List (Str × List Str)) := rfl

theorem common_nspolicy_pinned : Gen.SnapParam.common_nspolicy = ([
  (c!"type", [c!"NamespacePolicy string"]),
  (c!"const", [c!"NoNamespace NamespacePolicy = \"NONS\"", c!"NamespaceOK NamespacePolicy = \"NSOK\""]),
  (c!"var", [c!"namespacePolicies = map[NamespacePolicy]struct{}{ NoNamespace: {}, NamespaceOK: {}, }"]),
  (c!"ValidNamespacePolicy func(policy NamespacePolicy) bool", [c!"_, ok := namespacePolicies[policy]", c!"return ok"])
] : List (Str × List Str)) := rfl

end Ysshra.Bridge.SnapParam
