import Ysshra.Drv.Common
import Ysshra.Model.Gensign
import Ysshra.Wire.JsonIO
open Ysshra Ysshra.IO Ysshra.Gensign
namespace Ysshra.Drv

def kvOf (s : String) : List (String × String) :=
  (s.splitOn ",").filterMap fun (f : String) =>
    match f.splitOn "=" with
    | k :: rest => some (k, String.intercalate "=" rest)
    | [] => none

def getKV (m : List (String × String)) (k : String) : String :=
  ((m.find? (·.1 == k)).map (·.2)).getD ""

def parseLKey (s : String) : Option Key :=
  if s.startsWith "L" then (s.drop 1).toString.toNat?.map Key.registered else none

def parseFile (s : String) : Option FileState :=
  if s == "abs" then some .absent
  else if s == "bad" then some .unparsable
  else if s == "dir" then some .unreadable
  else if s.startsWith "key:" then (parseLKey (s.drop 4).toString).map FileState.key
  else none

/-- config hook: algorithm given by name in any case, or by number -/
def algoOfName (s : String) : Option Int :=
  match s.toLower with
  | "default" => some 0 | "unknown" => some 0 | "rsa" => some 1 | "dsa" => some 2 | "ecdsa" => some 3
  | "ed25519" => some 4
  | _ => s.toNat?.map Int.ofNat

def parseKids (s : String) : Option (List (Int × Str)) :=
  if s == "-" then some []
  else (s.splitOn "+").mapM fun (e : String) =>
    match e.splitOn ":" with
    | [a, v] => do pure (← algoOfName a, ← strOfHex v)
    | _ => none

def parseHandler (s : String) : Option Handler :=
  match s.splitOn ":" with
  | ["reg"] => some .regular
  | ["rej"] => some (.scripted .reject)
  | ["apanic"] => some (.scripted .authPanic)
  | ["npanic"] => some (.scripted .namePanicAfterReject)
  | ["gpanic"] => some (.scripted .genPanic)
  | ["gempty"] => some (.scripted .genEmpty)
  | ["gerr", k] =>
    let kind : Option ErrKind := match k with
      | "invalidParams" => some .invalidParams | "handlerAuthN" => some .handlerAuthN
      | "handlerGenCSR" => some .handlerGenCSR | "handlerConf" => some .handlerConf
      | "allAuthFailed" => some .allAuthFailed | "signerSign" => some .signerSign
      | "agentOpCert" => some .agentOpCert | "panic" => some .panic | "other" => some .other
      | _ => none
    kind.map fun k => .scripted (.genErr k)
  | ["gkey", n, e, p] => do
    let n ← n.toNat?
    pure (.scripted (.genKey n (if e == "-" then none else some .other) (p == "1")))
  | _ => none

def parseCA (s : String) : Option (List CAReply) :=
  if s == "-" then some []
  else (s.splitOn "|").mapM fun (r : String) =>
    match r.splitOn ":" with
    | ["certs", n, m] => do pure (.certs (← n.toNat?) (← m.toNat?))
    | ["foreign"] => some .foreign
    | ["plain"] => some .plainKey
    | ["err"] => some .err
    | ["panic"] => some .panic
    | _ => none

def showErrKind : ErrKind → String
  | .invalidParams => "invalidParams" | .handlerAuthN => "handlerAuthN" | .handlerGenCSR => "handlerGenCSR"
  | .handlerConf => "handlerConf" | .allAuthFailed => "allAuthFailed" | .signerSign => "signerSign"
  | .agentOpCert => "agentOpCert" | .panic => "panic" | .other => "other"

/-- fresh keys are named by creation order -/
def keyName (fresh : List Nat) : Key → String
  | .registered n => if n ≥ 500 then "S" ++ toString n else "L" ++ toString n
  | .fresh n => "f" ++ toString (fresh.idxOf n)

def certName : Option CertV → String
  | none => "-"
  | some c => "c" ++ toString c.id

def showEvent (fresh : List Nat) : Event → String
  | .auth i => "auth:" ++ toString i
  | .generate i => "gen:" ++ toString i
  | .agentSign pk _ ok => "sign:" ++ keyName fresh pk ++ ":" ++ b01 ok
  | .agentAdd k c lt cm ok => "add:" ++ keyName fresh k ++ ":" ++ certName c ++ ":" ++ toString lt ++ ":" ++
      hexOrDash cm ++ ":" ++ b01 ok
  | .agentList ok => "list:" ++ b01 ok
  | .agentRemove k c ok => "rm:" ++ keyName fresh k ++ ":" ++ certName c ++ ":" ++ b01 ok
  | .caSign k ok => "ca:" ++ keyName fresh k ++ ":" ++ b01 ok

def freshOfTrace (acc : List Nat) (tr : Trace) : List Nat :=
  tr.foldl (fun acc e => match e with
    | .agentAdd (.fresh n) _ _ _ _ => if acc.contains n then acc else acc ++ [n]
    | _ => acc) acc

def insertS (x : String) : List String → List String
  | [] => [x]
  | y :: r => if x ≤ y then x :: y :: r else y :: insertS x r

def showAgent (fresh : List Nat) (a : Agent) : String :=
  "[" ++ String.intercalate "|" ((a.idents.map fun i =>
    keyName fresh i.key ++ ":" ++ certName i.cert ++ ":" ++ hexOrDash i.comment).foldl (fun acc x => insertS x acc) []) ++ "]"

def showCSR (fresh : List Nat) (c : CSR) : String :=
  "meta=" ++ hexOfStr c.keyMeta ++ ",val=" ++ toString c.validity ++ ",prins=" ++ showStrList c.principals ++
  ",exts=" ++ String.intercalate "+" (c.extensions.map fun e => hexOfStr e ++ "=-") ++
  ",key=" ++ keyName fresh c.publicKey ++ ",kid=" ++ showJ (KeyID.toJ c.keyId)

structure GsState where
  agent : Agent
  rng : Nat
  lastCert : Nat
  fresh : List Nat
  /-- challenge of the last honest signature per key -/
  lastChal : List (Key × Nat)

def runOne (st : GsState) (r : List (String × String)) : Option (GsState × String) := do
  let get := getKV r
  let ln ← strOfHex (get "ln"); let tid ← strOfHex (get "tid"); let ip ← strOfHex (get "ip")
  let ru ← strOfHex (get "ru"); let rh ← strOfHex (get "rh")
  let algo ← (get "algo").toInt?
  let val ← (get "val").toNat?
  let kids ← parseKids (get "kids")
  let pub ← parseFile (get "pub"); let bare ← parseFile (get "bare")
  let hs ← ((get "hs").splitOn "|").mapM parseHandler
  let ca ← parseCA (get "ca")
  let conf : Conf := ⟨val, kids, ⟨pub, bare⟩⟩
  let p : Param := ⟨get "pol" == "NONS", get "hk" == "1", ln, tid, ip, ru, rh, algo⟩
  let regKey := registeredKey conf.dir
  let behav : SignBehav ← match (get "ag").splitOn ":" with
    | ["honest"] => some .honest
    | ["okey", k] => (parseLKey k).map SignBehav.otherKey
    | ["odata"] => some .otherData
    | ["replay"] =>
      some (match regKey.bind (fun k => (st.lastChal.find? (·.1 = k)).map (·.2)) with
        | some c => .replay c
        | none => .otherData)
    | ["garbage"] => some .garbage
    | ["empty"] => some .empty
    | ["fail"] => some .fail
    | _ => none
  let optNat := fun (s : String) => if s == "-" then none else s.toNat?
  let agent : Agent := { st.agent with behav := behav, ops := 0, failAt := optNat (get "failat"), closeAt := optNat (get "closeat") }
  let w : World := ⟨agent, st.rng, ca, st.lastCert⟩
  let (w', tr, res) := run conf p hs w
  let fresh := freshOfTrace st.fresh tr
  -- remember the challenge of an honest, successful signature (for later replays)
  let lastChal := tr.foldl (fun acc e => match e with
    | .agentSign pk d true => if behav == .honest then (pk, d) :: acc.filter (·.1 ≠ pk) else acc
    | _ => acc) st.lastChal
  let chal := if tr.any (fun e => match e with | .agentSign _ _ _ => true | _ => false) then "fresh" else "none"
  -- the request the CA received (regular handler only)
  let csrs := if tr.any (fun e => match e with | .caSign (.fresh _) _ => true | _ => false) then
      match regularGenerate conf p ⟨agent, 0, [], 0⟩ with
      | (_, _, .ok (_, c)) =>
        let k := (tr.findSome? fun e => match e with | .caSign (.fresh n) _ => some (Key.fresh n) | _ => none).getD (.fresh 0)
        [showCSR fresh { c with publicKey := k }]
      | _ => []
    else []
  let resS := match res with
    | .ok => "ok"
    | .err k => showErrKind k
  let out := "res=" ++ resS ++ " tr=" ++ String.intercalate ">" (tr.map (showEvent fresh)) ++ " chal=" ++ chal ++
    " ag=" ++ showAgent fresh w'.agent ++ " csr=[" ++ String.intercalate "|" csrs ++ "]"
  pure (⟨w'.agent, w'.rng, w'.lastCert, fresh, lastChal⟩, out)

def parseInit (s : String) : Option (List AIdent × List Key × Nat) :=
  if s == "-" then some ([], [], 0)
  else (s.splitOn ",").foldlM (fun (acc : List AIdent × List Key × Nat) (id : String) =>
    let (ids, holds, n) := acc
    -- the keyring replaces an identity with the same public blob
    let put := fun (x : AIdent) (l : List AIdent) =>
      if l.any (fun y => y.key = x.key && y.cert = x.cert) then l.map (fun y => if y.key = x.key && y.cert = x.cert then x else y)
      else l ++ [x]
    match id.splitOn ":" with
    | ["c", k, c] => do
      let k ← parseLKey k; let c ← bytesOfHex c
      pure (put ⟨k, some ⟨n + 1, k⟩, c, 0⟩ ids, if holds.contains k then holds else k :: holds, n + 1)
    | [k, c] => do
      let k ← parseLKey k; let c ← bytesOfHex c
      pure (put ⟨k, none, c, 0⟩ ids, if holds.contains k then holds else k :: holds, n)
    | _ => none) ([], [], 0)

def handleGensign (op : String) (args : List String) (impl : Option (List String)) : Option Reply :=
  match op, args with
  | "gs", [initS, runsS] =>
    match parseInit initS with
    | none => some badProto
    | some (ids, holds, n) =>
      let _ := holds
      let st0 : GsState := ⟨⟨ids, .honest, 0, none, none⟩, 0, n, [], []⟩
      let outs := (runsS.splitOn ";").foldl (fun (acc : Option (GsState × List String)) (r : String) =>
        acc.bind fun (st, outs) => (runOne st (kvOf r)).map fun (st', o) => (st', outs ++ [o])) (some (st0, []))
      match outs with
      | none => some badProto
      | some (_, outs) =>
        let model := [String.intercalate ";" outs]
        some ⟨model, impl.map fun out =>
          if out == model then "ok"
          else if ((out.headD "").splitOn "crash").length > 1 then "bad:crash"
          else "bad:gensign-run"⟩
  | _, _ => none

end Ysshra.Drv
