import Ysshra.Drv.GensignFmt
import Ysshra.Spec.Gensign
open Ysshra Ysshra.IO Ysshra.Gensign
namespace Ysshra.Drv

structure GsState where
  agent : Agent
  rng : Nat
  lastCert : Nat
  fresh : List Nat
  /-- challenge of the last honest signature per key -/
  lastChal : List (Key × Nat)

def runOne (st : GsState) (r : List (String × String)) : Option (GsState × String × Spec.Gensign.RunIn) := do
  let get := getKV r
  let ln ← strOfHex (get "ln"); let tid ← strOfHex (get "tid"); let ip ← strOfHex (get "ip")
  let ru ← strOfHex (get "ru"); let rh ← strOfHex (get "rh")
  let algo ← (get "algo").toInt?
  let val ← (get "val").toNat?
  let kids ← parseKids (get "kids")
  let pub ← parseFile (get "pub"); let bare ← parseFile (get "bare")
  let hs ← ((get "hs").splitOn "|").mapM parseHandler
  let ca ← parseCA (get "ca")
  let conf : Conf := ⟨val, kids, ⟨pub, bare⟩⟩
  let p : Param := ⟨get "pol" == "NONS", get "hk" == "1", ln, tid, ip, ru, rh, algo⟩
  let regKey := registeredKey conf.dir
  let behav : SignBehav ← match (get "ag").splitOn ":" with
    | ["honest"] => some .honest
    -- an honest agent whose listing ends with one more identity under the RA's key comment (the
    -- comment does not carry the handler's label: nothing the RA does may depend on it)
    | ["honest+le"] => some .honest
    | ["okey", k] => (parseLKey k).map SignBehav.otherKey
    | ["odata"] => some .otherData
    | ["replay"] =>
      some (match regKey.bind (fun k => (st.lastChal.find? (·.1 = k)).map (·.2)) with
        | some c => .replay c
        | none => .otherData)
    | ["garbage"] => some .garbage
    | ["empty"] => some .empty
    | ["fail"] => some .fail
    | _ => none
  let optNat := fun (s : String) => if s == "-" then none else s.toNat?
  let agent : Agent := { st.agent with behav := behav, ops := 0, failAt := optNat (get "failat"), closeAt := optNat (get "closeat") }
  let w : World := ⟨agent, st.rng, ca, st.lastCert⟩
  let (w', tr, res) := run conf p hs w
  let fresh := freshOfTrace st.fresh tr
  -- remember the challenge of an honest, successful signature (for later replays)
  let lastChal := tr.foldl (fun acc e => match e with
    | .agentSign pk d true => if behav == .honest then (pk, d) :: acc.filter (·.1 ≠ pk) else acc
    | _ => acc) st.lastChal
  let chal := if tr.any (fun e => match e with | .agentSign _ _ _ => true | _ => false) then "fresh" else "none"
  -- the request the CA received (regular handler only)
  let csrs := if tr.any (fun e => match e with | .caSign (.fresh _) _ => true | _ => false) then
      match regularGenerate conf p ⟨agent, 0, [], 0⟩ with
      | (_, _, .ok (_, c)) =>
        let k := (tr.findSome? fun e => match e with | .caSign (.fresh n) _ => some (Key.fresh n) | _ => none).getD (.fresh 0)
        [showCSR fresh { c with publicKey := k }]
      | _ => []
    else []
  let resS := match res with
    | .ok => "ok"
    | .err k => showErrKind k
  let out := "res=" ++ resS ++ " tr=" ++ String.intercalate ">" (tr.map (showEvent fresh)) ++ " chal=" ++ chal ++
    " ag=" ++ showAgent fresh w'.agent ++ " csr=[" ++ String.intercalate "|" csrs ++ "]"
  pure (⟨w'.agent, w'.rng, w'.lastCert, fresh, lastChal⟩, out, ⟨p, conf, hs, get "ag", ca⟩)

def parseInit (s : String) : Option (List AIdent × List Key × Nat) :=
  if s == "-" then some ([], [], 0)
  else (s.splitOn ",").foldlM (fun (acc : List AIdent × List Key × Nat) (id : String) =>
    let (ids, holds, n) := acc
    -- the keyring replaces an identity with the same public blob
    let put := fun (x : AIdent) (l : List AIdent) =>
      if l.any (fun y => y.key = x.key && y.cert = x.cert) then l.map (fun y => if y.key = x.key && y.cert = x.cert then x else y)
      else l ++ [x]
    match id.splitOn ":" with
    | ["c", k, c] => do
      let k ← parseLKey k; let c ← bytesOfHex c
      pure (put ⟨k, some ⟨n + 1, k⟩, c, 0⟩ ids, if holds.contains k then holds else k :: holds, n + 1)
    | ["cc", k, c] => do
      -- a certificate identity the agent lists twice
      let k ← parseLKey k; let c ← bytesOfHex c
      let x : AIdent := ⟨k, some ⟨n + 1, k⟩, c, 0⟩
      pure (ids ++ [x, x], if holds.contains k then holds else k :: holds, n + 1)
    | [k, c] => do
      let k ← parseLKey k; let c ← bytesOfHex c
      pure (put ⟨k, none, c, 0⟩ ids, if holds.contains k then holds else k :: holds, n)
    | _ => none) ([], [], 0)

def handleGensign (op : String) (args : List String) (impl : Option (List String)) : Option Reply :=
  match op, args with
  | "gs", [initS, runsS] =>
    match parseInit initS with
    | none => some badProto
    | some (ids, holds, n) =>
      let _ := holds
      let st0 : GsState := ⟨⟨ids, .honest, 0, none, none⟩, 0, n, [], []⟩
      let outs := (runsS.splitOn ";").foldl (fun (acc : Option (GsState × List String × List Spec.Gensign.RunIn)) (r : String) =>
        acc.bind fun (st, outs, ins) => (runOne st (kvOf r)).map fun (st', o, i) => (st', outs ++ [o], ins ++ [i])) (some (st0, [], []))
      match outs with
      | none => some badProto
      | some (_, outs, ins) =>
        let model := [String.intercalate ";" outs]
        -- the verdict judges the implementation's own observations, clause by clause
        some ⟨model, impl.map fun out =>
          if ((out.headD "").splitOn "crash").length > 1 then "bad:crash"
          else
            -- runs are separated by ";" (which also occurs inside the KeyID token tree)
            let obs := (match (out.headD "").splitOn ";res=" with
              | [] => []
              | r :: rs => r :: rs.map ("res=" ++ ·)).map Spec.Gensign.parseRun
            if obs.length != ins.length || obs.any (·.isNone) then "bad:protocol"
            else
              let pre0 : List Spec.Gensign.OIdent := ids.map fun x =>
                ⟨keyName [] x.key, certName x.cert, hexOrDash x.comment⟩
              let (_, _, bad) := (ins.zip (obs.filterMap id)).foldl
                (fun (acc : List Spec.Gensign.OIdent × List String × List String) (io : Spec.Gensign.RunIn × Spec.Gensign.ORun) =>
                  let (pre, used, bad) := acc
                  let (i, o) := io
                  let used' := used ++ pre.map (·.key) ++ o.csrs.map Spec.Gensign.csrKey
                  (o.ag, used', bad ++ Spec.Gensign.clauses i pre (used ++ pre.map (·.key)) o))
                (pre0, [], [])
              if bad.isEmpty then "ok" else "bad:" ++ String.intercalate "," bad.eraseDups⟩
  | _, _ => none

end Ysshra.Drv
