import Ysshra.Drv.Common
import Ysshra.Model.CertType
import Ysshra.Spec.C05
import Ysshra.Spec.C19
open Ysshra Ysshra.IO
namespace Ysshra.Drv

/-- Stateless operations. `impl` is the implementation's output fields when present. -/
def handleCodec (op : String) (args : List String) (impl : Option (List String)) : Option Reply :=
  match op, args with
  | "keyid.rt", [kidS] =>
    match parseKid kidS with
    | none => some badProto
    | some k =>
      let model := match KeyID.marshal k with
        | .error _ => ["err"]
        | .ok j =>
          let dec := match KeyID.unmarshal (some j) with
            | .ok k' => showKid k'
            | .error _ => "err"
          ["ok", showJ j, dec]
      let spec := impl.map fun out =>
        match out with
        | ["err"] => verdict (Spec.C05.rt k .encErr)
        | ["ok", _, decS] =>
          let dec := if decS == "err" then none else parseKid decS
          if decS != "err" && dec.isNone then "bad:protocol" else
          verdict (Spec.C05.rt k (.encOk none dec))
        | _ => "bad:protocol"
      some ⟨model, spec⟩
  | "keyid.dec", jS :: _ =>
    match jvalOfField jS with
    | none => some badProto
    | some t =>
      let model := match KeyID.unmarshal t with
        | .ok k => ["ok", showKid k]
        | .error _ => ["err"]
      let spec := impl.map fun out =>
        match out with
        | ["err"] => verdict (Spec.C05.dec t none)
        | ["ok", kS] => match parseKid kS with
          | some k => verdict (Spec.C05.dec t (some k))
          | none => "bad:protocol"
        | _ => "bad:protocol"
      some ⟨model, spec⟩
  | "certtype", jS :: critS :: prinsS :: _ =>
    match (if jS == "nilcert" then some none else (jvalOfField jS).map some), parseCrit critS,
          parseStrList prinsS with
    | some jt, some crit, some ps =>
      let cert : Option CertView := jt.map fun t => ⟨t, crit⟩
      let t := getType cert
      let lbl := match certLabel cert with
        | none => "none"
        | some l => hexOfStr l
      let model := [toString t.toNat, lbl, showStrList (getPrincipals ps t), "again=same"]
      let spec := impl.map fun out =>
        match out with
        | [tS, lS, pS, again] =>
          if again != "again=same" then "bad:classification-depends-on-history" else
          match tS.toNat?, (if lS == "none" then some none else (strOfHex lS).map some),
                parseStrList pS with
          | some tn, some l, some ps' => verdict (Spec.C19.check cert ps ⟨tn, l, ps'⟩)
          | _, _, _ => "bad:protocol"
        | _ => "bad:protocol"
      some ⟨model, spec⟩
    | _, _, _ => some badProto
  | _, _ => none


end Ysshra.Drv
