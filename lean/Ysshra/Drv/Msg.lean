import Ysshra.Drv.Common
import Ysshra.Model.Param
import Ysshra.Spec.C14
import Ysshra.Spec.C15
/-
Driver glue for the `message` / `csr.NewReqParam` operations (trusted, no theorem depends on it).
-/
open Ysshra Ysshra.IO Ysshra.Message Ysshra.Text
namespace Ysshra.Drv

def bytesLt : Bytes → Bytes → Bool
  | [], [] => false
  | [], _ :: _ => true
  | _ :: _, [] => false
  | a :: r, b :: s => a < b || (a = b && bytesLt r s)

def insertSorted {V} (k : Bytes) (v : V) : List (Bytes × V) → List (Bytes × V)
  | [] => [(k, v)]
  | (k', v') :: r => if bytesLt k k' then (k, v) :: (k', v') :: r
                     else if k = k' then (k, v) :: r          -- later wins
                     else (k', v') :: insertSorted k v r

def sortMap {V} (m : List (Bytes × V)) : List (Bytes × V) :=
  m.foldl (fun acc p => insertSorted p.1 p.2 acc) []

mutual
/-- canonical text of a decoded `interface{}` value: objects sorted by key bytes with later
    duplicates winning, numbers masked (`n?;`) -/
partial def canonVal : JVal → String
  | .null => "z"
  | .bool true => "t"
  | .bool false => "f"
  | .num _ => "n?;"
  | .str s => "s" ++ hexOfStr s ++ ";"
  | .arr xs => "[" ++ String.join (xs.map canonVal) ++ "]"
  | .obj ms => canonObj ms
partial def canonObj (ms : List (Str × JVal)) : String :=
  let sorted := sortMap (ms.map fun p => (bytesOfStr p.1, p.2))
  "{" ++ String.join (sorted.map fun p => "s" ++ hexOrDash p.1 ++ ";" ++ canonVal p.2) ++ "}"
end

def canonLegacyExts (m : List (Bytes × Bytes)) : String :=
  "{" ++ String.join ((sortMap m).map fun p => "s" ++ hexOrDash p.1 ++ ";s" ++ hexOrDash p.2 ++ ";") ++ "}"

def showTS (t : Option (TSudo Bytes)) : String := match t with
  | none => "nil"
  | some t => String.intercalate "," [b01 t.IsFirefighter, hexOrDash t.Hosts, toString t.Time]

def showAttrs (a : AttrsB) (exts : String) : String :=
  "at(" ++ String.intercalate "/" [toString a.IfVer, hexOrDash a.Username, hexOrDash a.Hostname,
    hexOrDash a.SSHClientVersion, toString a.CAPubKeyAlgo, toString a.SignatureAlgo, b01 a.HardKey,
    b01 a.Touch2SSH, showTS a.TouchlessSudo, exts] ++ ")"

def showDecoded : Decoded → String
  | .json a => showAttrs (toB bytesOfStr a) (canonObj a.Exts)
  | .legacy a => showAttrs a (canonLegacyExts a.Exts)

def parseTS (s : String) : Option (Option (TSudo Bytes)) :=
  if s == "nil" then some none
  else match s.splitOn "," with
    | [ff, h, t] => do
      let ff ← boolOf01 ff; let h ← bytesOfHex h; let t ← t.toInt?
      pure (some ⟨ff, h, t⟩)
    | _ => none

/-- attributes as bytes; the extension field is returned unparsed -/
def parseAttrs (s : String) : Option (AttrsB × String) :=
  if !(s.startsWith "at(" && s.endsWith ")") then none
  else match ((s.drop 3).dropEnd 1).toString.splitOn "/" with
    | [iv, u, h, v, ca, sa, hk, t2, ts, ex] => do
      let iv ← iv.toInt?; let u ← bytesOfHex u; let h ← bytesOfHex h; let v ← bytesOfHex v
      let ca ← ca.toInt?; let sa ← sa.toInt?; let hk ← boolOf01 hk; let t2 ← boolOf01 t2
      let ts ← parseTS ts
      pure (⟨iv, u, h, v, ca, sa, hk, t2, ts, []⟩, ex)
    | _ => none

/-- JSON-typed attributes from the case line (strings must be UTF-8, extension map a token tree) -/
def parseAttrsJ (s : String) : Option AttrsJ := do
  let (a, ex) ← parseAttrs s
  let u ← strOfBytes a.Username; let h ← strOfBytes a.Hostname; let v ← strOfBytes a.SSHClientVersion
  let ts ← match a.TouchlessSudo with
    | none => some none
    | some t => (strOfBytes t.Hosts).map fun hs => some (⟨t.IsFirefighter, hs, t.Time⟩ : TSudo Str)
  let exts ← match jvalOfField ex with
    | some (some (.obj ms)) => some ms
    | _ => none
  pure ⟨a.IfVer, u, h, v, a.CAPubKeyAlgo, a.SignatureAlgo, a.HardKey, a.Touch2SSH, ts, exts⟩

def parseBytesList (s : String) : Option (List Bytes) :=
  if s == "[]" then some []
  else if s.startsWith "[" && s.endsWith "]" then
    (((s.drop 1).dropEnd 1).toString.splitOn "|").mapM bytesOfHex
  else none

def showParam (p : ReqParam) : String :=
  String.intercalate "/" [hexOrDash p.NamespacePolicy, hexOrDash p.HandlerName, hexOrDash p.ClientIP,
    hexOrDash p.LogName, hexOrDash p.ReqUser, hexOrDash p.ReqHost, "ok",
    toString p.SSHClientVersion.major ++ "." ++ toString p.SSHClientVersion.minor,
    toString p.SignatureAlgo, b01 p.HardKey, toString p.CAPubKeyAlgo]

def parseObs (s : String) : Option Spec.C14.Obs :=
  match s.splitOn "/" with
  | [pol, h, ip, ln, u, ho, tid, ver, _sa, _hk, _ca] => do
    let pol ← bytesOfHex pol; let h ← bytesOfHex h; let ip ← bytesOfHex ip; let ln ← bytesOfHex ln
    let u ← bytesOfHex u; let ho ← bytesOfHex ho
    let v ← match ver.splitOn "." with
      | [a, b] => do pure (⟨← a.toNat?, ← b.toNat?⟩ : Version)
      | _ => none
    pure ⟨pol, h, ip, ln, u, ho, tid, v⟩
  | _ => none

def decodedOfField (s : String) : Option (Option AttrsB) :=
  if s == "err" then some none else (parseAttrs s).map fun p => some p.1

def handleMsg (op : String) (args : List String) (impl : Option (List String)) : Option Reply :=
  match op, args with
  | "msg.dec", tokS :: rawS :: _ =>
    match jvalOfField tokS, bytesOfHex rawS with
    | some tok, some raw =>
      let r := unmarshal tok raw
      let model := match r with
        | .ok d => ["ok", showDecoded d]
        | .err => ["err"]
        | .crash => ["crash"]
      let spec := impl.map fun out =>
        match out with
        | ["err"] => verdict (Spec.C15.dec bytesOfStr tok .err)
        | "crash" :: _ => verdict (Spec.C15.dec bytesOfStr tok .crash)
        | ["ok", aS] => match parseAttrs aS with
          | some (a, _) => verdict (Spec.C15.dec bytesOfStr tok (.ok a))
          | none => "bad:protocol"
        | _ => "bad:protocol"
      some ⟨model, spec⟩
    | _, _ => some badProto
  | "msg.enc", aS :: _ =>
    match parseAttrsJ aS with
    | none => some badProto
    | some a0 =>
      -- Go emits map keys sorted: take the extension map in that order
      let a : AttrsJ := { a0 with Exts := (sortMap (a0.Exts.map fun p => (bytesOfStr p.1, p))).map (·.2) }
      let model := match marshal bytesOfStr a with
        | none => ["refused"]
        | some (.json j) =>
          ["json", showJ j, match unmarshal (some j) [] with | .ok d => showDecoded d | _ => "err"]
        | some (.legacy b) =>
          ["legacy", hexOrDash b, match unmarshal none b with | .ok d => showDecoded d | _ => "err"]
      let ab := toB bytesOfStr a
      let spec := impl.map fun out =>
        match out with
        | ["refused"] => verdict (Spec.C15.enc ab .refused)
        | "crash" :: _ => verdict (Spec.C15.enc ab .crash)
        | ["json", _, dS] => match decodedOfField dS with
          | some d => verdict (Spec.C15.enc ab (.json d))
          | none => "bad:protocol"
        | ["legacy", _, dS] => match decodedOfField dS with
          | some d => verdict (Spec.C15.enc ab (.legacy d))
          | none => "bad:protocol"
        | _ => "bad:protocol"
      some ⟨model, spec⟩
  | "param.new", [tokS, rawS, lnS, connS, argvS, ipokS] =>
    match jvalOfField tokS, bytesOfHex rawS, bytesOfHex lnS, bytesOfHex connS, parseBytesList argvS,
          boolOf01 ipokS with
    | some tok, some raw, some ln, some conn, some argv, some ipok =>
      let e : Env := ⟨tok, raw, ln, conn, argv⟩
      let r := newReqParam bytesOfStr (fun _ => ipok) [0, 0, 0, 0, 0] e
      let model := match r with
        | .ok p => ["ok", showParam p]
        | .err => ["err"]
        | .crash => ["crash"]
      let spec := impl.map fun out =>
        match out with
        | ["err"] => verdict (Spec.C14.check bytesOfStr ipok e .err)
        | "crash" :: _ => verdict (Spec.C14.check bytesOfStr ipok e .crash)
        | ["ok", pS] => match parseObs pS with
          | some o => verdict (Spec.C14.check bytesOfStr ipok e (.ok o))
          | none => "bad:protocol"
        | _ => "bad:protocol"
      some ⟨model, spec⟩
    | _, _, _, _, _, _ => some badProto
  | _, _ => none

end Ysshra.Drv
