import Ysshra.Drv.Common
import Ysshra.Model.Gensign
import Ysshra.Wire.JsonIO
open Ysshra Ysshra.IO Ysshra.Gensign
namespace Ysshra.Drv

def kvOf (s : String) : List (String × String) :=
  (s.splitOn ",").filterMap fun (f : String) =>
    match f.splitOn "=" with
    | k :: rest => some (k, String.intercalate "=" rest)
    | [] => none

def getKV (m : List (String × String)) (k : String) : String :=
  ((m.find? (·.1 == k)).map (·.2)).getD ""

def parseLKey (s : String) : Option Key :=
  if s.startsWith "L" then (s.drop 1).toString.toNat?.map Key.registered
  -- padding identities and the user's own P-384 key: further long-term keys
  else if s.startsWith "P" then (s.drop 1).toString.toNat?.map fun n => Key.registered (1000 + n)
  else if s == "E1" then some (Key.registered 999)
  else none

def parseFile (s : String) : Option FileState :=
  if s == "abs" then some .absent
  else if s == "bad" || s == "empty" || s == "ws" || s == "comment" then some .unparsable
  else if s == "dir" then some .unreadable
  else if s.startsWith "key:" then (parseLKey (s.drop 4).toString).map FileState.key
  else none

/-- config hook: algorithm given by name in any case, or by number -/
def algoOfName (s : String) : Option Int :=
  match s.toLower with
  | "default" => some 0 | "unknown" => some 0 | "rsa" => some 1 | "dsa" => some 2 | "ecdsa" => some 3
  | "ed25519" => some 4
  | _ => s.toNat?.map Int.ofNat

def parseKids (s : String) : Option (List (Int × Str)) :=
  if s == "-" then some []
  else (s.splitOn "+").mapM fun (e : String) =>
    match e.splitOn ":" with
    | [a, v] => do pure (← algoOfName a, ← strOfHex v)
    | _ => none

def parseHandler (s : String) : Option Handler :=
  match s.splitOn ":" with
  | ["reg"] => some .regular
  | ["rej"] => some (.scripted .reject)
  | ["apanic"] => some (.scripted .authPanic)
  | ["npanic"] => some (.scripted .namePanicAfterReject)
  | ["gpanic"] => some (.scripted .genPanic)
  -- a key whose CSRs() panics: the same observable run as a panic in Generate
  | ["gcpanic"] => some (.scripted .genPanic)
  | ["gempty"] => some (.scripted .genEmpty)
  | ["gerr", k] =>
    let kind : Option ErrKind := match k with
      | "invalidParams" => some .invalidParams | "handlerAuthN" => some .handlerAuthN
      | "handlerGenCSR" => some .handlerGenCSR | "handlerConf" => some .handlerConf
      | "allAuthFailed" => some .allAuthFailed | "signerSign" => some .signerSign
      | "agentOpCert" => some .agentOpCert | "panic" => some .panic | "other" => some .other
      | _ => none
    kind.map fun k => .scripted (.genErr k)
  | ["gkeyn", n] => n.toNat?.map fun n => .scripted (.genKeyNamePanic n)
  | ["gkey", n, e, p] => do
    let n ← n.toNat?
    pure (.scripted (.genKey n (if e == "-" then none else some .other) (p == "1")))
  | _ => none

def parseCA (s : String) : Option (List CAReply) :=
  if s == "-" then some []
  else (s.splitOn "|").mapM fun (r : String) =>
    match r.splitOn ":" with
    | ["certs", n, m] => do pure (.certs (← n.toNat?) (← m.toNat?))
    | ["foreign"] => some .foreign
    | ["plain"] => some .plainKey
    | ["mixed", n, m] => do pure (.mixed (← n.toNat?) (← m.toNat?))
    | ["err"] => some .err
    -- the real crypki signer against an unreachable CA / with a finished request context: a failing CA
    | ["realdown"] => some .err
    | ["realdead"] => some .err
    | ["panic"] => some .panic
    | _ => none

def showErrKind : ErrKind → String
  | .invalidParams => "invalidParams" | .handlerAuthN => "handlerAuthN" | .handlerGenCSR => "handlerGenCSR"
  | .handlerConf => "handlerConf" | .allAuthFailed => "allAuthFailed" | .signerSign => "signerSign"
  | .agentOpCert => "agentOpCert" | .panic => "panic" | .other => "other"

/-- fresh keys are named by creation order -/
def keyName (fresh : List Nat) : Key → String
  | .registered n => if n ≥ 1000 then "P" ++ toString (n - 1000) else if n = 999 then "E1"
      else if n ≥ 500 then "S" ++ toString n else "L" ++ toString n
  | .fresh n => "f" ++ toString (fresh.idxOf n)

def certName : Option CertV → String
  | none => "-"
  | some c => "c" ++ toString c.id

def showEvent (fresh : List Nat) : Event → String
  | .auth i => "auth:" ++ toString i
  | .generate i => "gen:" ++ toString i
  | .agentSign pk _ ok => "sign:" ++ keyName fresh pk ++ ":" ++ b01 ok
  | .agentAdd k c lt cm ok => "add:" ++ keyName fresh k ++ ":" ++ certName c ++ ":" ++ toString lt ++ ":" ++
      hexOrDash cm ++ ":" ++ b01 ok
  | .agentList ok => "list:" ++ b01 ok
  | .agentRemove k c ok => "rm:" ++ keyName fresh k ++ ":" ++ certName c ++ ":" ++ b01 ok
  | .caSign k ok => "ca:" ++ keyName fresh k ++ ":" ++ b01 ok

def freshOfTrace (acc : List Nat) (tr : Trace) : List Nat :=
  tr.foldl (fun acc e => match e with
    | .agentAdd (.fresh n) _ _ _ _ => if acc.contains n then acc else acc ++ [n]
    | _ => acc) acc

def insertS (x : String) : List String → List String
  | [] => [x]
  | y :: r => if x ≤ y then x :: y :: r else y :: insertS x r

def showAgent (fresh : List Nat) (a : Agent) : String :=
  "[" ++ String.intercalate "|" ((a.idents.map fun i =>
    keyName fresh i.key ++ ":" ++ certName i.cert ++ ":" ++ hexOrDash i.comment).foldl (fun acc x => insertS x acc) []) ++ "]"

def showCSR (fresh : List Nat) (c : CSR) : String :=
  "meta=" ++ hexOfStr c.keyMeta ++ ",val=" ++ toString c.validity ++ ",prins=" ++ showStrList c.principals ++
  ",exts=" ++ String.intercalate "+" (c.extensions.map fun e => hexOfStr e ++ "=-") ++
  ",key=" ++ keyName fresh c.publicKey ++ ",kid=" ++ showJ (KeyID.toJ c.keyId)

end Ysshra.Drv
