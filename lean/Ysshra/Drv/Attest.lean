import Ysshra.Drv.Common
import Ysshra.Spec.C06
import Ysshra.Spec.C16
import Ysshra.Model.Pem
open Ysshra Ysshra.IO Ysshra.Pkcs1 Ysshra.Attest
open Ysshra.Message (Res)
namespace Ysshra.Drv

def natOfHex (s : String) : Option Nat :=
  s.toList.foldlM (fun a c => (hexVal c).map fun v => a * 16 + v) 0

def parseKey (s : String) : Option PubKey :=
  match s.splitOn ":" with
  | ["rsa", n, e] => do pure (.rsa (← natOfHex n) (← e.toNat?))
  | ["ecdsa"] => some .other
  | ["ed25519"] => some .other
  | _ => none

def parseVerdict : List String → Option Verdict
  | ["accept"] => some .accept
  | ["reject"] => some .reject
  | "crash" :: _ => some .crash
  | _ => none

def showVerdict : Verdict → String
  | .accept => "accept" | .reject => "reject" | .crash => "crash"

def parseExts (s : String) : Option (List (Str × Bytes)) :=
  if s == "none" then some []
  else (s.splitOn ",").mapM fun (kv : String) =>
    match kv.splitOn "=" with
    | [k, v] => do pure (k.toList, ← bytesOfHex v)
    | _ => none

def handleAttest (op : String) (args : List String) (impl : Option (List String)) : Option Reply :=
  match op, args with
  | "attest", [_kind, algoS, _tbs, sigS, keyS, okS, d3, d5, d6, d7] =>
    match algoS.toNat?, bytesOfHex sigS, parseKey keyS, boolOf01 okS, bytesOfHex d3, bytesOfHex d5,
          bytesOfHex d6, bytesOfHex d7 with
    | some algo, some sig, some key, some chainOK, some d3, some d5, some d6, some d7 =>
      let digest : Nat → Bytes := fun h => if h = 3 then d3 else if h = 5 then d5 else if h = 6 then d6
        else if h = 7 then d7 else []
      let model := [showVerdict (attest chainOK algo digest sig key)]
      let spec := impl.map fun out => match parseVerdict out with
        | some v => verdict (Spec.C06.check chainOK algo digest sig key v)
        | none => "bad:protocol"
      some ⟨model, spec⟩
    | _, _, _, _, _, _, _, _ => some badProto
  | "modhex", [extsS] =>
    match parseExts extsS with
    | none => some badProto
    | some exts =>
      let model := match modHex exts with
        | .ok s => ["ok", hexOfStr s]
        | .err => ["err"]
        | .crash => ["crash"]
      let spec := impl.map fun out => match out with
        | ["err"] => verdict (Spec.C16.modhex exts .err)
        | "crash" :: _ => verdict (Spec.C16.modhex exts .crash)
        | ["ok", h] => match strOfHex h with
          | some s => verdict (Spec.C16.modhex exts (.ok s))
          | none => "bad:protocol"
        | _ => "bad:protocol"
      some ⟨model, spec⟩
  | "pem", [structS, _text, serialsS] =>
    -- structure "pre:B;blocks:ok,bad;between:B;trail:none|ws|garbage", serials "[1,2,x]"
    let fs := (structS.splitOn ";").filterMap fun (f : String) =>
      match f.splitOn ":" with
      | [k, v] => some (k, v)
      | _ => none
    let get := fun k => ((fs.find? (·.1 == k)).map (·.2)).getD ""
    let kinds := if get "blocks" == "" then [] else (get "blocks").splitOn ","
    let serials := if serialsS == "[]" then [] else ((serialsS.drop 1).dropEnd 1).toString.splitOn ","
    let blocks : List Pem.Seg := (kinds.zip serials).map fun (k, sn) =>
      if k == "ok" then .block sn.toNat? else .block none
    let between := get "between" == "1"
    let rec weave : List Pem.Seg → List Pem.Seg
      | [] => []
      | [b] => [b]
      | b :: r => if between then b :: .text false :: weave r else b :: weave r
    let segs := (if get "pre" == "1" then [Pem.Seg.text false] else []) ++ weave blocks ++
      (match get "trail" with
       | "ws" => [Pem.Seg.text true]
       | "garbage" => [Pem.Seg.text false]
       | _ => [])
    let expected := match Pem.certificates segs with
      | none => ["err"]
      | some l => ["ok", "[" ++ String.intercalate "," (l.map toString) ++ "]"]
    let spec := impl.map fun out =>
      match out with
      | "crash" :: _ => "bad:crash"
      | o => if o == expected then "ok" else "bad:pem-bundle"
    some ⟨expected, spec⟩
  | "certparse", kind :: _ =>
    -- no Lean model of DER: the expectation per generator kind is the specification
    let spec := impl.map fun out =>
      if out.head? == some "crash" then "bad:crash" else
      let has := fun (f : String) => out.contains f
      match kind with
      | "wellformed" =>
        if !has "yubi=ok" then "bad:wellformed-rejected"
        else if has "std=ok" && !has "diff=-" then "bad:differs-from-crypto-x509"
        else "ok"
      | "nonull" =>
        if !has "yubi=ok" then "bad:null-less-rsa-rejected"
        else if !has "vsorig=-" then "bad:null-less-differs"
        else "ok"
      | "trailing" => if has "yubi=ok" then "bad:trailing-data-accepted" else "ok"
      | _ => "ok"
    some ⟨["n/a"], spec⟩
  | _, _ => none

end Ysshra.Drv
