import Ysshra.Drv.Common
import Ysshra.Spec.C12
import Ysshra.Spec.C13
import Ysshra.Model.Rpc
open Ysshra Ysshra.IO Ysshra.Wire Ysshra.Serve
namespace Ysshra.Drv

def parseBytesList' (s : String) : Option (List Bytes) :=
  if s == "[]" then some []
  else if s.startsWith "[" && s.endsWith "]" then
    (((s.drop 1).dropEnd 1).toString.splitOn "|").mapM bytesOfHex
  else none

structure FrameOracle where
  pk1 : Bool
  pk2 : Bool
  std : Option Bytes

def parseOracles (s : String) : Option (List FrameOracle) :=
  if s == "[]" then some []
  else (((s.drop 1).dropEnd 1).toString.splitOn "|").mapM fun (f : String) =>
    match f.splitOn "," with
    | [a, b, c] => do
      let a ← boolOf01 a; let b ← boolOf01 b
      let std ← if c == "!" || c == "-" then some none else (bytesOfHex c).map some
      pure ⟨a, b, std⟩
    | _ => none

def startsWith (p s : Bytes) : Bool := p.isPrefixOf s

/-- the scripted agent of harness group `serve` (cmd/serve/main.go), as an `Env`.
    `pem` is the PEM text of the fixed slot certificate. -/
def scriptedEnv (orc : List FrameOracle) (slots : List Bytes) (slotErr : Bytes) (pem : Bytes) : Env where
  pkOK := fun _ => false      -- replaced per frame below
  addHardCert := fun _ _ comment =>
    if startsWith b!"fail:" comment then some (comment.drop 5) else none
  listSlots := fun _ => (slots, if slotErr.isEmpty then none else some slotErr)
  readSlot := fun _ slot =>
    if slot = b!"9a" then (some pem, none)
    else if slot = b!"9c" then (some pem, some b!"partial")
    else if slot = b!"bad" then (none, some b!"no cert")
    else (none, some (b!"unknown slot " ++ slot))
  attestSlot := fun _ slot =>
    if slot = b!"9a" then (some pem, none)
    else if slot = b!"9c" then (some pem, some b!"partial")
    else if slot = b!"bad" then (none, some b!"no cert")
    else (none, some (b!"unknown slot " ++ slot))
  wait := fun _ c => if c = 0xEE then some b!"nope" else none
  std := fun i _ => (orc[i]?).bind (·.std)
  forward := fun _ req => match req with
    -- smartcard requests (codes 26, 21): the reader id's first letter scripts the reply —
    -- S success, F failure, E an empty reply, X the agent fails, L success with trailing bytes
    | 26 :: rest | 21 :: rest =>
      match getString rest with
      | some (0x53 :: _, _) => some [6]
      | some (0x46 :: _, _) => some [5]
      | some (0x45 :: _, _) => some []
      | some (0x58 :: _, _) => none
      | some (0x4c :: _, _) => some [6, 1, 2, 3]
      | _ => some (0xAA :: req)
    | 0xFE :: _ => none
    -- code 0xFC: the underlying agent hangs up without answering (`io.EOF` from `Forward`)
    | 0xFC :: _ => none
    -- code 0xFD: the reply is the rest of the request verbatim (any reply bytes can be scripted)
    | 0xFD :: rest => some rest
    | _ => some (0xAA :: req)

/-- `pkOK` depends on which bytes are asked about: `req[1:]` (old format) or the KeyBlob -/
def envAt (base : Env) (orc : List FrameOracle) (i : Nat) (req : Bytes) : Env :=
  { base with pkOK := fun b =>
      match orc[i]? with
      | none => false
      | some o => if b = req.drop 1 then o.pk1 else o.pk2 }

/-- `serve` with the per-frame public-key oracle threaded in -/
def serveScripted (base : Env) (orc : List FrameOracle) : Nat → Nat → Bytes → Outcome
  | 0, _, _ => ⟨[], [], .error⟩
  | fuel + 1, i, bs =>
    match readFrame bs with
    | .frame req rest alloc =>
      -- one step of `Serve.serve` under the environment of this frame
      let env := envAt base orc i req
      match handle env i req with
      | .fail => ⟨[], [alloc], .error⟩
      | .reply body =>
        if body.length > maxAgentResponseBytes then ⟨[], [alloc], .error⟩
        else let o := serveScripted base orc fuel (i + 1) rest; ⟨body :: o.resps, alloc :: o.allocs, o.ending⟩
      | .replyLogged body =>
        let o := serveScripted base orc fuel (i + 1) rest
        if body.length > maxAgentResponseBytes then ⟨o.resps, alloc :: o.allocs, o.ending⟩
        else ⟨body :: o.resps, alloc :: o.allocs, o.ending⟩
    | _ => serve base 1 i bs

def showEnding : Ending → String
  | .clean => "clean" | .error => "error"

def handleServe (op : String) (args : List String) (impl : Option (List String)) : Option Reply :=
  match op, args with
  | "serve", [streamS, orcS, slotsS, slotErrS, pemS] =>
    match bytesOfHex streamS, parseOracles orcS, parseBytesList' slotsS, bytesOfHex slotErrS, bytesOfHex pemS with
    | some stream, some orc, some slots, some slotErr, some pem =>
      let base := scriptedEnv orc slots slotErr pem
      let o := serveScripted base orc (stream.length + 1) 0 stream
      let model := [showEnding o.ending, "[" ++ String.intercalate "|" (o.resps.map hexOrDash) ++ "]",
        if o.allocs.all (· ≤ maxAgentResponseBytes) then "ok" else "big"]
      let spec := impl.map fun out =>
        match out with
        | "crash" :: _ => "bad:crash"
        | [e, rs, al] =>
          match parseBytesList' rs with
          | some resps =>
            verdict (Spec.C12.check (envAt base orc) stream
              ⟨false, if e == "clean" then .clean else .error, resps, al != "ok"⟩)
          | none => "bad:protocol"
        | _ => "bad:protocol"
      some ⟨model, spec⟩
    | _, _, _, _, _ => some badProto
  | "trunc", [_opName, dS, sS] =>
    -- a peer that announces `declared` response bytes, sends fewer and closes: the read of the
    -- frame fails (`Wire.readFrame` on a truncated body), so the caller gets an error — whatever
    -- the operation, never a result made of the bytes that did arrive
    match dS.toNat?, sS.toNat? with
    | some d, some sn =>
      let model := if sn < d then ["error"] else ["result"]
      some ⟨model, impl.map fun out =>
        if out.head? == some "crash" then "bad:crash"
        else if sn < d && out != ["error"] then "bad:truncated-response-accepted" else "ok"⟩
    | _, _ => some badProto
  | "garb", [_opName, _replyS] =>
    -- a peer that answers with a complete frame that is no response of the kind the operation
    -- expects (and, for operations answered by a status, not the success marker): an error —
    -- failures are reported as errors, never as a result
    some ⟨["error"], impl.map fun out =>
      if out.head? == some "crash" then "bad:crash"
      else if out != ["error"] then "bad:malformed-response-accepted" else "ok"⟩
  | "rpc", opName :: rest =>
    -- layout: op, params…, slots, slotErr, keyblob, pem
    if rest.length < 4 then some badProto else
    let params := rest.take (rest.length - 4)
    let setup := rest.drop (rest.length - 4)
    match setup with
    | [slotsS, slotErrS, keyS, pemS] =>
      match parseBytesList' slotsS, bytesOfHex slotErrS, bytesOfHex keyS, bytesOfHex pemS with
      | some slots, some slotErr, some key, some pem =>
        let base := scriptedEnv [] slots slotErr pem
        let logLine := fun (l : String) => hexOrDash l.toUTF8.toList
        let showLog := fun (ls : List String) => "[" ++ String.intercalate "|" (ls.map logLine) ++ "]"
        let showUnit := fun (r : Rpc.CallRes Unit) => match r with
          | .ok _ => "ok" | .err e => "err:" ++ hexOrDash e | .connErr => "connerr"
        -- third field: the arguments the served agent retained still read the same after later
        -- requests on the connection
        let mk := fun (model spec : List String) =>
          some (⟨model ++ ["late=same"], impl.map fun out => if out.head? == some "crash" then "bad:crash"
            else if out == ["hang"] then "bad:hang"
            else if out.take 2 == spec ∧ out.drop 2 != ["late=same"] then "bad:argument-changed-after-delivery"
            else if out == spec ++ ["late=same"] then "ok" else "bad:rpc-" ++ opName⟩ : Reply)
        match opName, params with
        | "addhard", [blobS, commentS, pkS] =>
          match bytesOfHex blobS, bytesOfHex commentS, boolOf01 pkS with
          | some blob, some comment, some pk =>
            let env := { base with pkOK := fun b => if b = blob then pk else false }
            let r := Rpc.addHardCert env 0 blob comment
            let log := if pk then ["addhard " ++ hexOfBytes blob ++ " " ++ hexOfBytes comment] else []
            let ideal := if pk then Spec.C13.unitRes (base.addHardCert 0 blob comment) else .connErr
            mk [showLog log, showUnit r] [showLog log, showUnit ideal]
          | _, _, _ => some badProto
        | "addhardold", [blobS, pk1S, pk2S] =>
          -- the old wire format: code 31 and the bare key blob; the served agent receives the key
          -- with an empty comment, exactly as for the new format with an empty comment
          match bytesOfHex blobS, boolOf01 pk1S, boolOf01 pk2S with
          | some blob, some pk1, some pk2 =>
            let env := { base with pkOK := fun b => if b = blob then pk1 else pk2 }
            let req : Bytes := 31 :: blob
            let call : Option (Bytes × Bytes) :=
              if pk1 then some (blob, []) else
              match decAddHardCert req with
              | some (kb, cm) => if env.pkOK kb then some (kb, cm) else none
              | none => none
            let log := match call with
              | some (kb, cm) => ["addhard " ++ hexOfBytes kb ++ " " ++ hexOfBytes cm]
              | none => []
            let showH := fun (h : Handled) => match h with
              | .reply b | .replyLogged b => "ok " ++ hexOfBytes b
              | .fail => "connerr"
            let ideal : Handled := match call with
              | some (kb, cm) => .replyLogged (textOr (base.addHardCert 0 kb cm) success)
              | none => .fail
            mk [showLog log, showH (handle env 0 req)] [showLog log, showH ideal]
          | _, _, _ => some badProto
        | "addhardseq", [blobS, commentS] =>
          -- the current format with a comment, then the old format for the same key on the same
          -- connection: two calls, the second with an empty comment
          match bytesOfHex blobS, bytesOfHex commentS with
          | some blob, some comment =>
            let env := { base with pkOK := fun b => b = blob }
            let r1 := Rpc.addHardCert env 0 blob comment
            let showH := fun (h : Handled) => match h with
              | .reply b | .replyLogged b => "ok " ++ hexOfBytes b
              | .fail => "connerr"
            let log := ["addhard " ++ hexOfBytes blob ++ " " ++ hexOfBytes comment, "addhard " ++ hexOfBytes blob ++ " "]
            let res := showUnit r1 ++ ";" ++ showH (handle env 1 (31 :: blob))
            let ideal := showUnit (Spec.C13.unitRes (base.addHardCert 0 blob comment)) ++ ";" ++
              showH (.replyLogged (textOr (base.addHardCert 1 blob []) success))
            mk [showLog log, res] [showLog log, ideal]
          | _, _ => some badProto
        | "listslots", [_tag] =>
          let (r, sl) := Rpc.listSlots base 0
          let show' := fun (r : Rpc.CallRes (List Bytes)) (sl : List Bytes) => (match r with
            | .ok _ => "ok" | .err e => "err:" ++ hexOrDash e | .connErr => "connerr") ++ " " ++
            "[" ++ String.intercalate "|" (sl.map hexOrDash) ++ "]"
          let (ir, isl) := Spec.C13.listRes slots (if slotErr.isEmpty then none else some slotErr)
          mk [showLog ["listslots"], show' r sl] [showLog ["listslots"], show' ir isl]
        | "readslot", [slotS] | "attestslot", [slotS] =>
          match bytesOfHex slotS with
          | some slot =>
            let code : UInt8 := if opName == "readslot" then 33 else 34
            let r := Rpc.slotOp base 0 code slot
            let (c, e) := base.readSlot 0 slot
            let showSlot := fun (r : Rpc.CallRes Bytes) => match r with
              | .ok p => if p.isEmpty then "err:" ++ hexOrDash "certificate not found".toUTF8.toList else "ok " ++ hexOrDash p
              | .err e => "err:" ++ hexOrDash e | .connErr => "connerr"
            let log := [opName ++ " " ++ hexOfBytes slot]
            mk [showLog log, showSlot r] [showLog log, showSlot (Spec.C13.slotRes c e)]
          | none => some badProto
        | "wait", [cS] =>
          match cS.toNat? with
          | some c =>
            let r := Rpc.wait base 0 (UInt8.ofNat c)
            mk [showLog ["wait " ++ toString c], showUnit r]
               [showLog ["wait " ++ toString c], showUnit (Spec.C13.unitRes (base.wait 0 (UInt8.ofNat c)))]
          | none => some badProto
        | "scadd", [idS, pinS, ltS, confS] =>
          -- add a smartcard key: reader id, PIN, lifetime (nanoseconds), confirm
          match bytesOfHex idS, bytesOfHex pinS, ltS.toNat?, boolOf01 confS with
          | some id, some pin, some nanos, some conf =>
            let req := Rpc.encAddSmartcard id pin (nanos != 0) (nanos / 1000000000) conf
            let showS := fun (r : Rpc.SmartcardRes) => match r with
              | .ok => "ok" | .failure => "failure" | .empty => "empty" | .connErr => "connerr"
            mk [showLog ["forward " ++ hexOfBytes req], showS (Rpc.addSmartcardKey base 0 id pin (nanos != 0) (nanos / 1000000000) conf)]
               [showLog ["forward " ++ hexOfBytes req], showS (Rpc.smartcardRes (base.forward 0 req))]
          | _, _, _, _ => some badProto
        | "scremove", [idS, pinS] =>
          match bytesOfHex idS, bytesOfHex pinS with
          | some id, some pin =>
            let req := Rpc.encRemoveSmartcard id pin
            let showS := fun (r : Rpc.SmartcardRes) => match r with
              | .ok => "ok" | .failure => "failure" | .empty => "empty" | .connErr => "connerr"
            mk [showLog ["forward " ++ hexOfBytes req], showS (Rpc.removeSmartcardKey base 0 id pin)]
               [showLog ["forward " ++ hexOfBytes req], showS (Rpc.smartcardRes (base.forward 0 req))]
          | _, _ => some badProto
        | "forward", [reqS] =>
          match bytesOfHex reqS with
          | some req =>
            -- raw requests with codes the server does not interpret
            let r := Rpc.forward base 0 req
            let showF := fun (r : Rpc.CallRes Bytes) => match r with
              | .ok b => "ok " ++ hexOrDash b | _ => "connerr"
            let log := ["forward " ++ hexOfBytes req]
            let ideal : Rpc.CallRes Bytes := match base.forward 0 req with
              | some b => .ok b | none => .connErr
            mk [showLog log, showF r] [showLog log, showF ideal]
          | none => some badProto
        -- standard operations: through x/crypto's client and server; ysshra only relays one frame
        | "sign", [dataS, flagsS] =>
          match bytesOfHex dataS, flagsS.toNat? with
          | some data, some fl =>
            let log := ["sign " ++ hexOfBytes key ++ " " ++ hexOfBytes data ++ " " ++ toString fl]
            let res := match data with
              | 0xFE :: _ => "err"
              | _ => "ok " ++ hexOrDash "ssh-ed25519".toUTF8.toList ++ " " ++ hexOrDash (UInt8.ofNat fl :: data)
            mk [showLog log, res] [showLog log, res]
          | _, _ => some badProto
        | "add", [commentS, ltS, confS] =>
          match bytesOfHex commentS, strOfHex commentS with
          | some comment, some cstr =>
            let log := ["add " ++ String.ofList cstr ++ " " ++ ltS ++ " " ++ (if confS == "1" then "true" else "false")]
            let res := if startsWith b!"fail" comment then "err" else "ok"
            mk [showLog log, res] [showLog log, res]
          | _, _ => some badProto
        | "remove", [] => mk [showLog ["remove " ++ hexOfBytes key], "ok"] [showLog ["remove " ++ hexOfBytes key], "ok"]
        | "removeall", [] => mk [showLog ["removeall"], "ok"] [showLog ["removeall"], "ok"]
        | "list", [] =>
          let res := "ok [" ++ hexOrDash key ++ ":" ++ hexOrDash "fixed".toUTF8.toList ++ "]"
          mk [showLog [], res] [showLog [], res]
        | "lock", [pS] | "unlock", [pS] =>
          match bytesOfHex pS with
          | some pw =>
            let log := [opName ++ " " ++ hexOfBytes pw]
            let res := if startsWith b!"fail" pw then "err" else "ok"
            mk [showLog log, res] [showLog log, res]
          | none => some badProto
        | _, _ => some badProto
      | _, _, _, _ => some badProto
    | _ => some badProto
  | "servereal", [_stream] =>
    -- the real agent behind the server: serving survives every stream
    some ⟨["ok"], impl.map fun out => if out == ["ok"] then "ok" else "bad:crash"⟩
  | "slotop", [kind, text, exitS, mode, slotS, derS] =>
    -- `(*server).ReadSlot` / `AttestSlot` with a fake PIV tool: refused on a remote-mode server
    -- without running the tool; otherwise the tool is run with the action and the slot as given,
    -- a non-zero exit is an error, and the certificate it prints is what the caller gets
    match bytesOfHex slotS with
    | some slot =>
      let action := if kind == "read" then "read-certificate" else "attest"
      let seen := hexOrDash (("-a\n" ++ action ++ "\n-s\n").toUTF8.toList ++ slot ++ [0x0a])
      let expected :=
        if mode == "remote" then ["err", "-"]
        else if exitS != "0" then ["err", seen]
        else if text == "cert" then ["ok " ++ derS, seen] else ["err", seen]
      -- the statement does not fix the tool's command line: what is judged is the result, that a
      -- remote-mode server does not run the tool, and that the slot asked for is among the arguments
      some ⟨expected, impl.map fun out => if out.head? == some "crash" then "bad:crash"
        else if out == expected then "ok"
        else if mode == "remote" then "bad:slot-operation-on-remote-server"
        else match out with
          | [res, seenS] =>
            if some res != expected.head? then "bad:slot-operation"
            else match bytesOfHex seenS with
              | some seenB => if (Text.splitOn 0x0a seenB).contains slot then "ok" else "bad:slot-operation-other-slot"
              | none => "bad:slot-operation-other-slot"
          | _ => "bad:protocol"⟩
    | none => some badProto
  | "slots", [textS, exitS, mode] =>
    match bytesOfHex textS with
    | some text =>
      let expected := if mode == "remote" then ["err"] else if exitS != "0" then ["err"]
        else ["ok", "[" ++ String.intercalate "|" ((Rpc.parseSlots text).map hexOrDash) ++ "]"]
      some ⟨expected, impl.map fun out => if out.head? == some "crash" then "bad:crash"
        else if out == expected then "ok" else "bad:slot-listing"⟩
    | none => some badProto
  | _, _ => none

end Ysshra.Drv
