import Ysshra.Drv.Common
import Ysshra.Model.Crypki
open Ysshra Ysshra.IO Ysshra.Crypki
namespace Ysshra.Drv

/-- decimal literal such as `1.5` or `3` as a rational -/
def ratOfDecimal (s : String) : Option Rat :=
  match s.splitOn "." with
  | [a] => a.toInt?.map fun i => (i : Rat)
  | [a, b] => do
    let i ← a.toNat?
    let f ← b.toNat?
    pure ((i : Rat) + (f : Rat) / ((10 ^ b.length : Nat) : Rat))
  | _ => none

/-- `min (base * mult ^ attempt) max`, computed with early saturation -/
def cappedPow (base mult max : Rat) (attempt : Nat) : Rat :=
  if mult ≤ 1 then min (base * mult ^ (if mult = 1 then 0 else attempt)) max
  else
    let rec go (fuel : Nat) (v : Rat) (left : Nat) : Rat :=
      match fuel with
      | 0 => max
      | fuel + 1 => if left = 0 then min v max else if v ≥ max then max else go fuel (v * mult) (left - 1)
    go 100000 base attempt

def endpointAt (nfiles : Nat) (spec : String) (handshakes requests : Nat) : Option (Server × Crypki.Reply × Bool × Bool) :=
  -- (server, reply, a server is listening, it asks for a client certificate)
  match spec.splitOn ":" with
  | [ident, cmode, behav] => do
    let srv : Server ← match ident with
      | "good1" => some ⟨0x0304, true, true, true⟩
      -- genuine at the first handshake, a look-alike from an unknown issuer afterwards
      | "swap" => some ⟨0x0304, decide (handshakes = 0), true, true⟩
      | "good2" => some ⟨0x0304, decide (nfiles ≥ 2), true, true⟩
      -- `lapsing`: chained to a configured CA while the signer was set up, expired at the time of the call
      | "otherca" | "selfsigned" | "expired" | "notyet" | "lapsing" => some ⟨0x0304, false, true, true⟩
      | "wrongname" => some ⟨0x0304, true, false, true⟩
      | "tls11" => some ⟨0x0302, true, true, true⟩
      -- the highest protocol version the server offers: TLS 1.0, exactly 1.2, 1.3 only
      | "tls10" => some ⟨0x0301, true, true, true⟩
      | "tls12" => some ⟨0x0303, true, true, true⟩
      | "tls13" => some ⟨0x0304, true, true, true⟩
      | "down" => some ⟨0, false, false, false⟩
      | _ => none
    let srv := { srv with acceptsClient := srv.acceptsClient && cmode != "requireother" && cmode != "ifgivenother" }
    let f0 := behav.splitOn "."
    -- `flaky.k.<behaviour>`: the first k requests the server receives fail
    let (failing, f) := match f0 with
      | "flaky" :: k :: rest => (decide (requests < (k.toNat?).getD 0), rest)
      | _ => (false, f0)
    let reply0 : Crypki.Reply ← match f with
      | "ok" :: n :: shape :: rest => do
        let n ← n.toNat?
        let junk := rest == ["junk"]
        let lines := (List.range n).flatMap fun i =>
          let comment : Bytes := match shape with
            | "c" => ("comment-" ++ toString i).toUTF8.toList
            | "sp" => ("two words " ++ toString i).toUTF8.toList
            | _ => []
          (if junk && i % 2 == 1 then [none, none, none] else []) ++ [some (100 + i, comment)]
        pure (Crypki.Reply.text lines)
      | ["empty"] => some (.text [])
      | ["garbage"] => some (.text [none, none])
      | "err" :: _ => some .fail
      | ["slow"] => some .fail
      | _ => none
    let reply := if failing then Crypki.Reply.fail else reply0
    pure (srv, reply, ident != "down", cmode == "request" || cmode == "requesthint" || cmode == "require" || cmode == "ifgiven")
  | _ => none

def endpointOf (nfiles : Nat) (spec : String) : Option (Server × Crypki.Reply × Bool × Bool) := endpointAt nfiles spec 0 0

/-- one signing call against endpoints whose state is (handshakes so far, requests received so far):
    result text, calls per endpoint, client certificate seen per endpoint, and the new state -/
def signCall (nfiles : Nat) (specs : List String) (st : List (Nat × Nat)) : Option (String × String × String × List (Nat × Nat)) := do
  let eps ← (specs.zip st).mapM fun (sp, (h, r)) => endpointAt nfiles sp h r
  let cfg : TlsCfg := ⟨some tls12, false, false, true, true⟩
  let idx := List.range eps.length
  let get := fun (i : Nat) => eps[i]?
  let reply : Nat → Crypki.Reply := fun i => match get i with
    | some (srv, r, _, _) => tlsReply cfg srv r
    | none => .fail
  let (res, contacted) := sign reply idx
  let handshakeOK := fun (i : Nat) => match get i with
    | some (srv, _, up, _) => up && clientAccepts cfg srv && srv.acceptsClient
    | none => false
  let up := fun (i : Nat) => match get i with | some (_, _, u, _) => u | none => false
  let calls := idx.map fun i => if contacted.contains i && handshakeOK i then "1" else "0"
  let saw := idx.map fun i => match get i with
    | some (_, _, _, asks) => if contacted.contains i && handshakeOK i && asks then "1" else "0"
    | none => "0"
  let resS := match res with
    | none => "err"
    | some (ks, cs) => "ok [" ++ String.intercalate "." (ks.map toString) ++ "] [" ++
        String.intercalate "." (cs.map hexOrDash) ++ "]"
  let st' := (idx.zip st).map fun (i, (h, r)) =>
    (if contacted.contains i && up i then h + 1 else h, if contacted.contains i && handshakeOK i then r + 1 else r)
  pure (resS, "[" ++ String.intercalate "." calls ++ "]", "[" ++ String.intercalate "." saw ++ "]", st')

def handleCrypki (op : String) (args : List String) (impl : Option (List String)) : Option Drv.Reply :=
  match op, args with
  | "sign", [epsS, nfS, _retries] =>
    match nfS.toNat? with
    | none => some badProto
    | some nfiles =>
      let specs := if epsS == "-" then [] else epsS.splitOn "|"
      match specs.mapM (endpointOf nfiles) with
      | none => some badProto
      | some eps =>
        -- the configuration the theorems are about: verification on, TLS ≥ 1.2, configured roots only
        let cfg : TlsCfg := ⟨some tls12, false, false, true, true⟩
        let idx := List.range eps.length
        let get := fun (i : Nat) => eps[i]?
        let reply : Nat → Crypki.Reply := fun i => match get i with
          | some (srv, r, _, _) => tlsReply cfg srv r
          | none => .fail
        let (res, contacted) := sign reply idx
        let handshakeOK := fun (i : Nat) => match get i with
          | some (srv, _, up, _) => up && clientAccepts cfg srv && srv.acceptsClient
          | none => false
        let calls := idx.map fun i => if contacted.contains i && handshakeOK i then "1" else "0"
        let saw := idx.map fun i => match get i with
          | some (_, _, _, asks) => if contacted.contains i && handshakeOK i && asks then "1" else "0"
          | none => "0"
        let resS := match res with
          | none => "err"
          | some (ks, cs) => "ok [" ++ String.intercalate "." (ks.map toString) ++ "] [" ++
              String.intercalate "." (cs.map hexOrDash) ++ "]"
        let model := [resS, "[" ++ String.intercalate "." calls ++ "]", "[" ++ String.intercalate "." saw ++ "]", "1"]
        some ⟨model, impl.map fun out =>
          if ((out.headD "").splitOn "crash").length > 1 then "bad:crash"
          else if out == model then "ok"
          else if out.head? != model.head? then
            (if (out.headD "").startsWith "ok [] " then "bad:empty-success" else "bad:sign-result")
          else if out[1]? != model[1]? then "bad:endpoints-contacted"
          else if out[2]? != model[2]? then "bad:client-certificate"
          else "bad:request-modified"⟩
  | "sign", [epsS, nfS, _retries, ncS] =>
    -- several signing calls on one signer: every call walks the endpoints from the first one, and
    -- judges each server as it is at that moment
    match nfS.toNat?, ncS.toNat? with
    | some nfiles, some ncalls =>
      let specs := if epsS == "-" then [] else epsS.splitOn "|"
      let rec go : Nat → List (Nat × Nat) → Option (List String × List String × List String)
        | 0, _ => some ([], [], [])
        | n + 1, st => do
          let (r, c, w, st') ← signCall nfiles specs st
          let (rs, cs, ws) ← go n st'
          pure (r :: rs, c :: cs, w :: ws)
      match go ncalls (specs.map fun _ => (0, 0)) with
      | none => some badProto
      | some (rs, cs, ws) =>
        let model := [String.intercalate "/" rs, String.intercalate "/" cs, String.intercalate "/" ws, "1"]
        some ⟨model, impl.map fun out =>
          if ((out.headD "").splitOn "crash").length > 1 then "bad:crash"
          else if out == model then "ok"
          else if out.head? != model.head? then "bad:sign-result"
          else if out[1]? != model[1]? then "bad:endpoints-contacted"
          else if out[2]? != model[2]? then "bad:client-certificate"
          else "bad:request-modified"⟩
    | _, _ => some badProto
  | "backoff", [baseS, multS, maxS, jitS, attS] =>
    match baseS.toInt?, ratOfDecimal multS, maxS.toInt?, ratOfDecimal jitS, attS.toNat? with
    | some base, some mult, some max, some jit, some att =>
      let x : Rat := if att = 0 ∨ base = 0 then (base : Rat) else cappedPow (base : Rat) mult (max : Rat) att
      let lo : Rat := if att = 0 ∨ base = 0 then x else x * (1 - jit)
      let hi : Rat := if att = 0 ∨ base = 0 then x else x * (1 + jit)
      let model := [toString lo.floor, toString hi.ceil]
      some ⟨model, impl.map fun out =>
        match out with
        | [a, b] =>
          match a.toInt?, b.toInt? with
          | some a, some b =>
            -- float rounding slack: 1e-9 relative + 2 ns
            let slack : Rat := hi / 1000000000 + 2
            if a < 0 then "bad:negative-delay"
            else if (b : Rat) > (max : Rat) * (1 + jit) + slack then "bad:above-max-with-jitter"
            else if (a : Rat) < lo - slack ∨ (b : Rat) > hi + slack then "bad:outside-model-interval"
            else "ok"
          | _, _ => "bad:protocol"
        | _ => if ((out.headD "").splitOn "crash").length > 1 then "bad:crash" else "bad:protocol"⟩
    | _, _, _, _, _ => some badProto
  | _, _ => none

end Ysshra.Drv
