import Ysshra.Drv.Common
import Ysshra.Model.Cond
open Ysshra Ysshra.Cond
namespace Ysshra.Drv

/-- one output position: a single event, or a burst `B:c1+c2+…` of requests sent at the same moment
    (processed in the order written; `c20_burst_order` shows the order does not matter) -/
def parseEvents (s : String) : Option (List (List Event)) :=
  (s.splitOn ",").mapM fun (e : String) =>
    match e.splitOn ":" with
    | ["B", cs] => (cs.splitOn "+").mapM fun (c : String) => do
        let c ← c.toNat?
        if c ≥ 256 then none else pure (Event.request (UInt8.ofNat c))
    | [k, c] => do
      let c ← c.toNat?
      if c ≥ 256 then none else
      if k == "r" || k == "R" then pure [Event.request (UInt8.ofNat c)]
      else if k.startsWith "w" then do
        let t ← (k.drop 1).toString.toNat?
        pure [Event.wait t (UInt8.ofNat c)]
      else none
    | _ => none

def insertNat (x : Nat) : List Nat → List Nat
  | [] => [x]
  | y :: r => if x ≤ y then x :: y :: r else y :: insertNat x r

def showRel (l : List Nat) : String :=
  "[" ++ String.intercalate "." ((l.foldl (fun acc x => insertNat x acc) []).map toString) ++ "]"

def handleCond (op : String) (args : List String) (impl : Option (List String)) : Option Reply :=
  match op, args with
  | "cond", [evS] =>
    match parseEvents evS with
    | none => some badProto
    | some evs =>
      let (_, rels) := evs.foldl (fun (acc : Cond.State × List (List Nat)) grp =>
          let (s', r) := Cond.run 40 acc.1 grp
          (s', acc.2 ++ [r.flatten])) ([], [])
      let expected := [String.join (rels.map showRel)]
      some ⟨expected, impl.map fun out =>
        if out.head? == some "crash" then "bad:crash"
        else if out == expected then "ok" else "bad:wait-broadcast"⟩
  | "race", _ =>
    -- schedule exploration of the real server (race detector, own-reply and final-state checks):
    -- the statement allows exactly one outcome
    some ⟨["ok"], impl.map fun out =>
      match out with
      | ["ok"] => "ok"
      | [o] => "bad:" ++ ((o.splitOn ":").headD "unknown")
      | _ => "bad:protocol"⟩
  | _, _ => none

end Ysshra.Drv
