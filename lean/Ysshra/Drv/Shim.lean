import Ysshra.Drv.Common
import Ysshra.Model.Shim
import Ysshra.Model.KeyId
import Ysshra.Wire.JsonIO
open Ysshra Ysshra.IO Ysshra.Shim
namespace Ysshra.Drv

structure CertInfo where
  ys : Bool
  label : Option Bytes
  va : Nat
  vb : Nat

/-- oracle field: `c1=1,<labelhex|->,va,vb;c2=…` -/
def parseCertOracle (s : String) : Option (List (String × CertInfo)) :=
  if s == "-" then some []
  else (s.splitOn ";").mapM fun (e : String) =>
    match e.splitOn "=" with
    | [name, v] =>
      match v.splitOn "," with
      | [ys, lbl, va, vb] => do
        let ys ← boolOf01 ys
        let label ← if lbl == "-" then some none else if lbl == "00" then some (some []) else (bytesOfHex lbl).map some
        pure (name, ⟨ys, label, ← va.toNat?, ← vb.toNat?⟩)
      | [_ysImpl, lbl, va, vb, tokS] => do
        -- "decodes as a YSSHCA KeyID" is decided by the KeyID decoder of the statement (C05)
        let tok := ((tokS.replace "\u0001" ";").replace "\u0002" ",").replace "\u0003" "="
        let ys := match jvalOfField tok with
          | some t => (match KeyID.unmarshal t with | .ok _ => true | .error _ => false)
          | none => false
        let label ← if lbl == "-" then some none else if lbl == "00" then some (some []) else (bytesOfHex lbl).map some
        pure (name, ⟨ys, label, ← va.toNat?, ← vb.toNat?⟩)
      | _ => none
    | _ => none

/-- `k3` or `c7.k1.window.kid.crit` -/
def parseBlob (orc : List (String × CertInfo)) (s : String) : Option Blob :=
  if s.startsWith "k" then (s.drop 1).toString.toNat?.map Blob.key
  else match s.splitOn "." with
    | name :: key :: _ => do
      let id ← (name.drop 1).toString.toNat?
      let k ← (key.drop 1).toString.toNat?
      let info ← (orc.find? (·.1 == name)).map (·.2)
      pure (.cert ⟨id, k, info.va, info.vb, info.ys, info.label⟩)
    | _ => none

def parseIdent (orc : List (String × CertInfo)) (s : String) : Option Ident :=
  match s.splitOn ":" with
  | [b, c] => do pure ⟨← parseBlob orc b, ← bytesOfHex c⟩
  | _ => none

def blobName : Blob → String
  | .key k => "k" ++ toString k
  | .cert c => "c" ++ toString c.id

def insertStr (x : String) : List String → List String
  | [] => [x]
  | y :: r => if x ≤ y then x :: y :: r else y :: insertStr x r

def sortStrs (l : List String) : List String := l.foldl (fun acc x => insertStr x acc) []

def showIdents (l : List Ident) : String :=
  "[" ++ String.intercalate "|" (sortStrs (l.map fun i => blobName i.blob ++ ":" ++ hexOrDash i.comment)) ++ "]"

def showU (u : UAgent) : String := if u.locked then "U?" else "U" ++ showIdents u.idents

def faultsOf (spec : String) : Faults :=
  if spec == "-" then noFaults
  else if spec.startsWith "close" then fun _ => .drop
  else match spec.splitOn ":" with
    | [style, kinds] =>
      let ks := kinds.splitOn "+"
      -- an oversized reply makes the client give up on the connection
      let v : Fault := if style.startsWith "oversize" then .drop else .fail
      fun k =>
        let hit := match k with
          | .list => ks.contains "list"
          | .add => ks.contains "add"
          | .remove => ks.contains "remove"
          | .removeAll => ks.contains "removeall"
          | .sign => ks.contains "sign"
          | .lock => ks.contains "lock"
          | .unlock => ks.contains "unlock"
          | .forward => ks.contains "forward"
        if hit then v else .none
    | _ => noFaults

def showOut : Out → String
  | .ok => "ok"
  | .err => "err"
  | .listing ids => "L" ++ showIdents ids
  | .signers bs => "S[" ++ String.intercalate "|" (sortStrs (bs.map blobName)) ++ "]"
  | .signed (.ok k) => "G:ok:k" ++ toString k
  | .signed .notFound => "G:notfound"
  | .signed .err => "G:err"
  | .forwarded b => "F:" ++ hexOrDash b

/-- the harness key with an RSA key pair -/
def rsaKey (k : Nat) : Bool := k == 3

/-- operations that carry signature flags are run through `stepSignFlags` -/
def flaggedOp (s : String) : Bool := s.startsWith "sign256=" || s.startsWith "sign512="

def parseOp (orc : List (String × CertInfo)) (s : String) : Option (Option Op) :=
  -- `none` inside = sleep (no model step)
  let (op, arg) := match s.splitOn "=" with
    | [o] => (o, "")
    | o :: rest => (o, String.intercalate "=" rest)
    | [] => ("", "")
  match op with
  | "list" => some (some .list)
  | "signers" => some (some .signers)
  | "sign" | "sign256" | "sign512" => (parseBlob orc arg).map fun b => some (.sign b)
  | "add" => (parseIdent orc arg).map fun i => some (.add i)
  | "addhard" =>
    match arg.splitOn "=" with
    | [b, sfx] => do pure (some (.addHardCert (← parseBlob orc b) (← bytesOfHex sfx)))
    | _ => none
  | "remove" => (parseBlob orc arg).map fun b => some (.remove b)
  | "removeall" => some (some .removeAll)
  | "lock" => (bytesOfHex arg).map fun p => some (.lock p)
  | "unlock" => (bytesOfHex arg).map fun p => some (.unlock p)
  | "uadd" => (parseIdent orc arg).map fun i => some (.uAdd i)
  | "uremove" => (parseBlob orc arg).map fun b => some (.uRemove b)
  | "uremoveall" => some (some .uRemoveAll)
  | "forward" => (bytesOfHex arg).map fun b => some (.forward b)
  | "close" => some (some .close)
  | "sleep" => some none
  | _ => none

/-- what the model knew when it executed operation number `i` -/
structure StepCtx where
  op : Option Op
  now : Nat
  before : State

/-- run a whole history; one output token per constructor / operation, with the context of each -/
def runHistCtx (noUp : Bool) (cf : String) (init : List Ident) (ops : List (Option Op × String)) (times : List Nat) :
    List String × List (Option StepCtx) :=
  let u0 : UAgent := ⟨init.foldl (fun acc id =>
      if acc.any (·.blob = id.blob) then acc.map (fun x => if x.blob = id.blob then id else x) else acc ++ [id]) [],
    false, [], false⟩
  match Shim.new noUp u0 (faultsOf cf) with
  | none => (["newerr"], [none])
  | some s0 =>
    let rec go (s : State) : List (Option Op × String) → List Nat → List String × List (Option StepCtx)
      | [], _ => ([], [])
      | (none, _) :: r, now :: ts => let (a, b) := go s r ts; ("slept" :: a, some ⟨none, now, s⟩ :: b)
      | (some op, fs) :: r, now :: ts =>
        -- a fault specification that starts with `flags|` marks a sign request with signature flags
        let (flagged, fs) := if fs.startsWith "flags|" then (true, (fs.drop 6).toString) else (false, fs)
        let (s', o) := match flagged, op with
          | true, .sign b => Shim.stepSignFlags rsaKey s now (faultsOf fs) b
          | _, _ => Shim.step s now (faultsOf fs) op
        let (a, b) := go s' r ts
        ((showOut o ++ "/" ++ showU s'.u) :: a, some ⟨some op, now, s⟩ :: b)
      | _, [] => (["protocol-error"], [none])
    let (a, b) := go s0 ops times
    ("new" :: a, none :: b)

def runHist (noUp : Bool) (cf : String) (init : List Ident) (ops : List (Option Op × String)) (times : List Nat) :
    List String := (runHistCtx noUp cf init ops times).1

/-- the names (`c3`, `k1`) inside the brackets of an output token -/
def namesIn (tok : String) : List String :=
  ((tok.splitOn "[").drop 1).flatMap fun (part : String) =>
    (((part.splitOn "]").headD "").splitOn "|").filterMap fun (item : String) =>
      let n := (item.splitOn ":").headD ""
      if n.isEmpty then none else some n

/-- Which property does a blob's visibility or usability belong to, in the state the model was in?
    outside its validity window or without its key in the underlying agent → C07; a YSSHCA
    certificate held by the underlying agent in no-upstream mode → C09; anything else → C10. -/
def classOfCert (ctx : StepCtx) (c : Cert) : List String :=
  let held := ctx.before.u.idents.any fun i => i.blob = .cert c
  let keyed := ctx.before.u.idents.any fun i => i.blob.pub = c.key
  -- no-upstream mode promises that in-memory hardware certificates stay listed and usable
  let mem : List String := if ctx.before.noUp && hasCert ctx.before c then ["C09"] else []
  mem ++
  if !validAt c ctx.now then ["C07"]
  -- no-upstream mode: which of the underlying agent's certificates are shown is C09's subject,
  -- whether a YSSHCA one is shown or another one is hidden
  else if ctx.before.noUp && held then ["C09"]
  -- mode off: "nothing is hidden" (C09) and "all listed, none lost" (C10) say the same of it
  else if c.ysshca && held then ["C09", "C10"]
  else if !keyed && !ctx.before.u.idents.isEmpty then ["C07"]
  else ["C10"]

def certsOfName (univ : List Cert) (names : List String) : List Cert :=
  names.filterMap fun (n : String) => univ.find? fun c => "c" ++ toString c.id == n

def blobCerts : Blob → List Cert
  | .cert c => [c]
  | .key _ => []

def opCerts : Op → List Cert
  | .sign b | .remove b | .addHardCert b _ | .uRemove b => blobCerts b
  | .add id | .uAdd id => blobCerts id.blob
  | _ => []

/-- The property a disagreement between the real shim and the model at one operation belongs to:
    lock state and lock operations → C08; otherwise by the certificates whose visibility, usability
    or presence in the underlying agent differs, or that the operation names. -/
def classify (univ : List Cert) (ctx : StepCtx) (modelTok implTok : String) : List String :=
  let lockOp := match ctx.op with
    | some (.lock _) | some (.unlock _) => true
    | _ => false
  if ctx.before.locked || lockOp then ["C08"]
  else
    -- result part and underlying-agent part are compared separately
    let parts := fun (t : String) => match t.splitOn "/U" with
      | [r, u] => (namesIn r, namesIn u)
      | _ => (namesIn t, [])
    let (mr, mu) := parts modelTok
    let (ir, iu) := parts implTok
    let sym := fun (a b : List String) => (a.filter (!b.contains ·)) ++ (b.filter (!a.contains ·))
    let diff := sym mr ir ++ sym mu iu
    let target : List Cert := match ctx.op with
      | some (.sign (.cert c)) | some (.remove (.cert c)) | some (.addHardCert (.cert c) _) => [c]
      | _ => []
    let cs := certsOfName univ diff ++ target
    let cls := (cs.flatMap (classOfCert ctx)).eraseDups
    if cls.isEmpty then ["C10"] else cls

def handleShim (op : String) (args : List String) (impl : Option (List String)) : Option Reply :=
  match op, args with
  | "vtime", [vaS, vbS, tS] =>
    -- `ValidateSSHCertTime` at the ends of the window: the statement's "inside its validity window"
    match vaS.toNat?, vbS.toNat?, tS.toNat? with
    | some va, some vb, some t =>
      let expected := [if validAt ⟨0, 0, va, vb, false, none⟩ t then "1" else "0"]
      some ⟨expected, impl.map fun out => if out == expected then "ok" else "bad:C07.validity-window"⟩
    | _, _, _ => some badProto
  | "fwdmax", _ =>
    -- raw requests whose reply is just below / at / just above the 16 MiB framing bound: relayed
    -- byte for byte (above the bound an error is in order too); the statement allows one outcome
    some ⟨["ok"], impl.map fun out =>
      match out with
      | ["ok"] => "ok"
      | [o] => if ((o.splitOn "crash").length > 1) then "bad:crash" else "bad:C10.raw-request-at-size-bound"
      | _ => "bad:protocol"⟩
  | "salgo", _ =>
    -- signers handed out by the real shim, used with every algorithm name, against the underlying
    -- agent's own signers: the statement ("same effect as on the underlying agent") allows one outcome
    some ⟨["ok"], impl.map fun out =>
      match out with
      | ["ok"] => "ok"
      | [o] => if ((o.splitOn "crash").length > 1) then "bad:crash" else "bad:C10.signer-differs-from-underlying"
      | _ => "bad:protocol"⟩
  | "hist", [noupS, cf, initS, opsS, _t0, timesS, orcS] =>
    match boolOf01 noupS, parseCertOracle orcS with
    | some noUp, some orc =>
      let init := if initS == "-" then some [] else (initS.splitOn ",").mapM (parseIdent orc)
      let opsL := (opsS.splitOn ";").filter (· != "")
      let ops := opsL.mapM fun (o : String) =>
        match o.splitOn "!" with
        | [a] => (parseOp orc a).map fun x => (x, if flaggedOp a then "flags|-" else "-")
        | [a, f] => (parseOp orc a).map fun x => (x, if flaggedOp a then "flags|" ++ f else f)
        | _ => none
      let times := if timesS == "-" then some [] else (timesS.splitOn ",").mapM String.toNat?
      match init, ops, times with
      | some init, some ops, some times =>
        let (toks, ctxs) := runHistCtx noUp cf init ops times
        let univ := (init.flatMap fun i => blobCerts i.blob) ++ ops.flatMap fun (o, _) => match o with
          | some op => opCerts op
          | none => []
        let model := [String.intercalate ";" toks]
        some ⟨model, impl.map fun out =>
          if out == model then "ok"
          else if ((out.headD "").splitOn "crash").length > 1 then "bad:crash"
          else
            -- the first operation on which the real shim and the statement's state machine differ
            let itoks := (out.headD "").splitOn ";"
            -- `lk`: a lock or unlock request occurred earlier in the history; what differs afterwards
            -- is also a failure to restore exactly the pre-lock view (C08)
            let rec first (lk : Bool) : List String → List String → List (Option StepCtx) → List String
              | m :: ms, i :: is, c :: cs =>
                let isLock := match c with
                  | some ⟨some (.lock _), _, _⟩ | some ⟨some (.unlock _), _, _⟩ => true
                  | _ => false
                if m == i then first (lk || isLock) ms is cs
                else match c with
                  | some ctx => (classify univ ctx m i ++ (if lk then ["C08"] else [])).eraseDups
                  | none => ["C10"]       -- construction
              | _, _, _ => ["C10"]
            let cls := first false toks itoks ctxs
            "bad:" ++ String.intercalate "," (cls.map (· ++ ".shim-history"))⟩
      | _, _, _ => some badProto
    | _, _ => some badProto
  | _, _ => none

end Ysshra.Drv
