import Ysshra.Wire.JsonIO
/-
Driver glue shared by all operation families (trusted, not part of any theorem).
-/
open Ysshra Ysshra.IO
namespace Ysshra.Drv

def showStrList (l : List Str) : String := "[" ++ String.intercalate "|" (l.map hexOfStr) ++ "]"

def parseStrList (s : String) : Option (List Str) :=
  if s == "[]" then some []
  else if s.startsWith "[" && s.endsWith "]" then
    (((s.drop 1).dropEnd 1).toString.splitOn "|").mapM strOfHex
  else none

/-- `nil` or `map:k=v,k=v` (hex) -/
def parseCrit (s : String) : Option (Option (List (Str × Str))) :=
  if s == "nil" then some none
  else if s == "map:" then some (some [])
  else if s.startsWith "map:" then
    ((s.drop 4).toString.splitOn ",").mapM (fun (kv : String) =>
      match kv.splitOn "=" with
      | [k, v] => do pure ((← strOfHex k), (← strOfHex v))
      | _ => none) |>.map some
  else none

structure Reply where
  model : List String
  spec : Option String := none   -- `none`: no verdict asked / possible; `some "ok"`, `some "bad:…"`

def verdict (o : Option String) : String := match o with
  | none => "ok"
  | some c => "bad:" ++ c

def badProto : Reply := ⟨["protocol-error"], some "bad:protocol"⟩


end Ysshra.Drv
