import Ysshra.Bridge.CertType
import Ysshra.Props.C05
/-
C19 — certificate type, label and principal suffix are a fixed total function of the KeyID.
The theorems are stated about the functions the translator regenerates from type.go /
principal.go (`Gen.CertType.*`), through the bridge.
-/
namespace Ysshra
namespace C19
open KeyID

/-- The property's decision table, written from the statement (not from the code). -/
def specType (nonce ff hw : Bool) (touch : Int) (crit : Bool) : CType :=
  if nonce then .nonce
  else if ff then
    (if hw then .firefighter else if crit then .touchlessSudoInAgent else .touchlessInAgent)
  else if touch = 2 ∨ touch = 3 then .touchSudo
  else if touch = 1 then (if crit then .touchlessSudo else .touchless)
  else .unknown

/-- The regenerated `GetType` is the table, for every certificate: unknown exactly when the KeyID
    does not decode (C05 says what decodes) or no rule applies. -/
theorem c19_type_table (cert : Option CertView) :
    Gen.CertType.GetType cert =
      (match cert with
       | none => CType.unknown
       | some c =>
         match KeyID.unmarshal c.KeyId with
         | .error _ => CType.unknown
         | .ok k => specType k.IsNonce k.IsFirefighter k.IsHWKey k.TouchPolicy (critSet c)).toNat := by
  rw [Bridge.CertType.getType_bridge]
  cases cert with
  | none => rfl
  | some c =>
    simp only [getType]
    cases h : KeyID.unmarshal c.KeyId with
    | error e => rfl
    | ok k =>
      simp only [cascade, specType, CachedTouch, AlwaysTouch, NeverTouch]
      cases k.IsNonce <;> cases k.IsFirefighter <;> cases k.IsHWKey <;> cases critSet c <;> simp <;>
        (by_cases h3 : k.TouchPolicy = 3 <;> by_cases h2 : k.TouchPolicy = 2 <;>
          by_cases h1 : k.TouchPolicy = 1 <;> simp_all)

/-- The type depends only on nonce, firefighter, hardware key, touch policy and the presence of a
    non-empty touchless-sudo-hosts option. -/
theorem c19_depends_only (c1 c2 : CertView) (k1 k2 : KeyID)
    (h1 : KeyID.unmarshal c1.KeyId = .ok k1) (h2 : KeyID.unmarshal c2.KeyId = .ok k2)
    (hn : k1.IsNonce = k2.IsNonce) (hf : k1.IsFirefighter = k2.IsFirefighter)
    (hh : k1.IsHWKey = k2.IsHWKey) (ht : k1.TouchPolicy = k2.TouchPolicy)
    (hc : critSet c1 = critSet c2) :
    Gen.CertType.GetType (some c1) = Gen.CertType.GetType (some c2) := by
  rw [c19_type_table, c19_type_table]; simp only [h1, h2, hn, hf, hh, ht, hc]

/-- nonce takes precedence over everything, firefighter over the touch policy -/
theorem c19_precedence (c : CertView) (k : KeyID) (h : KeyID.unmarshal c.KeyId = .ok k) :
    (k.IsNonce = true → getType (some c) = .nonce) ∧
    (k.IsNonce = false → k.IsFirefighter = true →
      getType (some c) = .firefighter ∨ getType (some c) = .touchlessInAgent ∨
      getType (some c) = .touchlessSudoInAgent) := by
  simp only [getType, h, cascade]
  constructor
  · intro hn; simp [hn]
  · intro hn hf; simp only [hn, hf]; cases k.IsHWKey <;> cases critSet c <;> simp

/-- unknown exactly when the KeyID does not decode or no rule selects a type -/
theorem c19_unknown_iff (c : CertView) :
    getType (some c) = .unknown ↔
      ((∃ e, KeyID.unmarshal c.KeyId = .error e) ∨
       (∃ k, KeyID.unmarshal c.KeyId = .ok k ∧ k.IsNonce = false ∧ k.IsFirefighter = false ∧
          k.TouchPolicy ≠ 1 ∧ k.TouchPolicy ≠ 2 ∧ k.TouchPolicy ≠ 3)) := by
  simp only [getType]
  cases h : KeyID.unmarshal c.KeyId with
  | error e => simp
  | ok k =>
    simp only [cascade, CachedTouch, AlwaysTouch, NeverTouch]
    cases hn : k.IsNonce <;> cases hf : k.IsFirefighter <;> cases hh : k.IsHWKey <;>
      cases hc : critSet c <;>
      by_cases h3 : k.TouchPolicy = 3 <;> by_cases h2 : k.TouchPolicy = 2 <;>
      by_cases h1 : k.TouchPolicy = 1 <;> simp_all

/-- a nil certificate has the unknown type and no label -/
theorem c19_nil : Gen.CertType.GetType none = 0 ∧ certLabel none = none := ⟨rfl, rfl⟩

/-- Only consistent, version-1 KeyIDs reach the cascade (by C05). -/
theorem c19_only_consistent (c : CertView) (h : getType (some c) ≠ .unknown) :
    ∃ k, KeyID.unmarshal c.KeyId = .ok k ∧ k.Version = 1 ∧ k.consistent := by
  simp only [getType] at h
  cases hk : KeyID.unmarshal c.KeyId with
  | error e => simp [hk] at h
  | ok k => exact ⟨k, rfl, (C05.c05_unmarshal_sound _ _ hk).1, (C05.c05_unmarshal_sound _ _ hk).2.1⟩

/-- Label = type name ++ "SSH-" ++ transaction id for a known type; no label for unknown. -/
theorem c19_label (c : CertView) :
    certLabel (some c) =
      match getType (some c), KeyID.unmarshal c.KeyId with
      | .unknown, _ => none
      | t, .ok k => (Gen.CertType.TypeLabel.lookup t.toNat).map (· ++ c!"SSH-" ++ k.TransID)
      | _, .error _ => none := by
  simp only [certLabel, Bridge.CertType.label_bridge]
  cases ht : getType (some c) <;> cases hk : KeyID.unmarshal c.KeyId <;> simp [CType.label]

/-- Principal suffix rules, order and length preserved; nothing for the unknown type. -/
theorem c19_principals (ps : List Str) (t : CType) :
    Gen.CertType.GetPrincipals ps t.toNat =
      match t with
      | .unknown => []
      | .touchSudo => ps.map (· ++ c!":touch")
      | .touchless => ps.map (· ++ c!":notouch")
      | .touchlessSudo => ps.map (· ++ c!":notouch")
      | _ => ps := by
  rw [Bridge.CertType.getPrincipals_bridge]
  cases t <;> rfl

theorem c19_principals_length (ps : List Str) (t : CType) (h : t ≠ .unknown) :
    (Gen.CertType.GetPrincipals ps t.toNat).length = ps.length := by
  rw [c19_principals]; cases t <;> simp_all

/-- Non-vacuity: a concrete never-touch KeyID with the critical option is TouchlessSudo. -/
example :
    let kid : KeyID := ⟨some [c!"alice"], c!"ab12", c!"u", c!"1.2.3.4", c!"h", false, true, false,
      false, 0, 1, 1⟩
    getType (some ⟨some kid.toJ, some [(critHosts, c!"h1")]⟩) = .touchlessSudo := by decide

end C19
end Ysshra
