import Ysshra.Lemmas.KeyId
/-
C05 — KeyID encoding round-trips and refuses inconsistent or incomplete KeyIDs.
Property theorems only; helper lemmas are in `Ysshra.Lemmas.KeyId`.
-/
namespace Ysshra
namespace C05
open KeyID

/-- Encoding succeeds exactly when the version is supported and the attributes are consistent. -/
theorem c05_marshal_ok_iff (k : KeyID) :
    (∃ j, marshal k = .ok j) ↔ (k.Version = 1 ∧ k.consistent) := by
  unfold marshal supported
  by_cases hv : k.Version = 1
  · by_cases hs : sane k = true
    · have := (sane_iff k).1 hs
      simp [hv, hs, this]
    · have hc : ¬ k.consistent := fun h => hs ((sane_iff k).2 h)
      simp [hv, hs, hc]
  · simp [hv]

/-- Decoding the encoded KeyID yields an equal KeyID — for every KeyID value
    (all flags, any touch policy / usage inside Go's `int`, any principal list
    including the nil slice, any strings). -/
theorem c05_roundtrip (k : KeyID) (hwf : k.wf) (j : JVal) (h : marshal k = .ok j) :
    unmarshal (some j) = .ok k := by
  have hiff := (c05_marshal_ok_iff k).1 ⟨j, h⟩
  obtain ⟨hv, hc⟩ := hiff
  have hs : sane k = true := (sane_iff k).2 hc
  unfold marshal at h
  simp [supported, hv, hs] at h
  subst h
  obtain ⟨hu1, hu2, ht1, ht2, hver⟩ := hwf
  have hdec : decodeStruct (some (toJ k)) = some k := by
    unfold decodeStruct toJ
    simp only [decodeMembers, idx0, idx1, idx2, idx3, idx4, idx5, idx6, idx7, idx8, idx9, idx10,
      idx11, setField, decStr, decBool, decInt, decUint]
    rw [asInt_ofInt _ hu1 hu2, asInt_ofInt _ ht1 ht2, asUint_ofNat _ hver]
    cases hp : k.Principals with
    | none => simp [decStrSlice, zero]; cases k; simp_all
    | some ps =>
      have h0 := decStrSlice_map_str ps
      cases hd : decStrSlice [] (.arr (ps.map JVal.str)) with
      | none => simp [hd] at h0
      | some r =>
        obtain ⟨x, bk⟩ := r
        simp [hd] at h0; subst h0
        simp [zero]; cases k; simp_all
  have hkeys : decodeToMapKeys (some (toJ k)) = some tags := by
    unfold decodeToMapKeys toJ
    cases k.Principals <;>
      simp [anyFailsMembers, JVal.anyFails, JNum.ofInt, tags, anyFailsList_map_str]
  unfold unmarshal
  rw [hdec]
  simp only [requiredKeys, hv, ↓reduceIte, hkeys, supported, hs]
  have : ∀ x ∈ requiredV1, x ∈ tags := by decide
  simpa using this

/-- Decoding any text — `t = none` is "not JSON at all" — either fails or returns a KeyID whose
    version is supported, which is consistent, and whose text had every required member. -/
theorem c05_unmarshal_sound (t : Option JVal) (k : KeyID) (h : unmarshal t = .ok k) :
    k.Version = 1 ∧ k.consistent ∧
    ∃ ms, t = some (.obj ms) ∧ ∀ f ∈ requiredV1, f ∈ ms.map (·.1) := by
  unfold unmarshal at h
  split at h
  · cases h
  · rename_i k' hk'
    split at h
    · cases h
    · rename_i req hreq
      split at h
      · cases h
      · rename_i keys hkeys
        split at h
        · cases h
        · rename_i hall
          split at h
          · cases h
          · rename_i hsup
            split at h
            · cases h
            · rename_i hsane
              cases h
              have hv : k.Version = 1 := by simpa [supported] using hsup
              refine ⟨hv, (sane_iff k).1 (by simpa using hsane), ?_⟩
              have hreq' : req = requiredV1 := by
                simp [requiredKeys, hv] at hreq; exact hreq.symm
              subst hreq'
              -- the text is an object: `null` would give version 0
              match t, hk', hkeys with
              | some (.obj ms), _, hkeys =>
                refine ⟨ms, rfl, ?_⟩
                have hkeys' : keys = ms.map (·.1) := by
                  simp only [decodeToMapKeys] at hkeys
                  split at hkeys
                  · cases hkeys
                  · exact (Option.some.inj hkeys).symm
                subst hkeys'
                intro f hf
                have hall' : (requiredV1.all fun r => (ms.map (·.1)).contains r) = true := by
                  simpa using hall
                have := List.all_eq_true.1 hall' f hf
                simpa using this
              | some .null, hk', _ =>
                simp [decodeStruct] at hk'; subst hk'; simp [zero] at hv
              | some (.bool _), hk', _ => simp [decodeStruct] at hk'
              | some (.num _), hk', _ => simp [decodeStruct] at hk'
              | some (.str _), hk', _ => simp [decodeStruct] at hk'
              | some (.arr _), hk', _ => simp [decodeStruct] at hk'
              | none, hk', _ => simp [decodeStruct] at hk'

/-- Neither direction has a crash outcome: both are total functions into `Except`, and the
    decoder never indexes or slices (checked accesses only: the model has no partial operation).
    Stated as: every input yields `ok` or `error`. -/
theorem c05_total (t : Option JVal) :
    (∃ e, unmarshal t = .error e) ∨ (∃ k', unmarshal t = .ok k') := by
  cases h : unmarshal t with
  | error e => exact .inl ⟨e, rfl⟩
  | ok k' => exact .inr ⟨k', rfl⟩

/-- Non-vacuity: a concrete consistent KeyID meets the hypotheses of the round trip. -/
example : ∃ j, marshal ⟨some [c!"alice"], c!"ab12", c!"u", c!"1.2.3.4", c!"h", false, false, false,
    true, 0, 1, 1⟩ = .ok j := ⟨_, rfl⟩
/-- … and an inconsistent one (headless with a hardware key) is refused. -/
example : marshal ⟨none, [], [], [], [], false, true, true, false, 0, 1, 1⟩ = .error .insane := rfl

end C05
end Ysshra
