import Ysshra.Lemmas.Gensign
/-
C01 — certificates are requested only after proof of possession of the registered key.
Partial: "unpredictable challenge" and "a forged / replayed signature does not verify" are
assumptions about crypto/rand and the signature scheme (the honest-signer law is built into
`verifies`); the theorems pin *which* verification gates everything.
-/
namespace Ysshra
namespace C01
open Gensign

/-- the selection loop's part of the trace is a prefix of the run's trace -/
theorem run_trace_prefix (conf : Conf) (p : Param) (hs : List Handler) (w : World) :
    ∃ rest, (run conf p hs w).2.1 = (selectHandler conf p 0 hs w).2.1 ++ rest ∧
      ((∀ j h, (selectHandler conf p 0 hs w).2.2 ≠ .ok (j, h)) → rest = []) := by
  unfold run
  cases hsel : selectHandler conf p 0 hs w with
  | mk w1 r =>
    obtain ⟨tr, res⟩ := r
    cases res with
    | error e => exact ⟨[], by simp, fun _ => rfl⟩
    | ok jh =>
      obtain ⟨j, h⟩ := jh
      simp only []
      cases h with
      | regular =>
        simp only []
        split
        · exact ⟨_, by simp; rfl, fun hne => absurd rfl (hne j .regular)⟩
        · split
          · exact ⟨_, by simp [List.append_assoc]; rfl, fun hne => absurd rfl (hne j .regular)⟩
          · exact ⟨_, by simp [List.append_assoc]; rfl, fun hne => absurd rfl (hne j .regular)⟩
          · split
            · exact ⟨_, by simp [List.append_assoc]; rfl, fun hne => absurd rfl (hne j .regular)⟩
            · exact ⟨_, by simp [List.append_assoc]; rfl, fun hne => absurd rfl (hne j .regular)⟩
      | scripted s =>
        simp only []
        cases s <;> simp only [] <;>
          first
          | exact ⟨_, rfl, fun hne => absurd rfl (hne j _)⟩
          | (split <;> (try split) <;> (try split) <;> exact ⟨_, by simp [List.append_assoc]; rfl, fun hne => absurd rfl (hne j _)⟩)

/-- If no handler authenticates, nothing is generated, nothing is signed, nothing is added to
    the agent, and the run reports that all authentications failed (or a panic, when a handler
    crashed while being asked). -/
theorem c01_none_authenticates (conf : Conf) (p : Param) (hs : List Handler) (w : World)
    (hnone : ∀ j h, (selectHandler conf p 0 hs w).2.2 ≠ .ok (j, h)) :
    (∀ e ∈ (run conf p hs w).2.1, e.issues = false) ∧
    ((run conf p hs w).2.2 = .err .allAuthFailed ∨ (run conf p hs w).2.2 = .err .panic) ∧
    (run conf p hs w).1.agent.idents = w.agent.idents := by
  obtain ⟨rest, htr, hrest⟩ := run_trace_prefix conf p hs w
  have hsel := selectHandler_trace conf p 0 hs w
  refine ⟨?_, ?_, ?_⟩
  · rw [htr, hrest hnone, List.append_nil]; exact hsel.1
  · unfold run
    cases hs' : selectHandler conf p 0 hs w with
    | mk w1 r =>
      obtain ⟨tr, res⟩ := r
      cases res with
      | error e =>
        have := selectHandler_err conf p 0 hs w e (by rw [hs'])
        rcases this with rfl | rfl <;> simp
      | ok jh => exact absurd (by rw [hs']) (hnone jh.1 jh.2)
  · unfold run
    cases hs' : selectHandler conf p 0 hs w with
    | mk w1 r =>
      obtain ⟨tr, res⟩ := r
      rw [hs'] at hsel
      cases res with
      | error e => exact hsel.2.1
      | ok jh => exact absurd (by rw [hs']) (hnone jh.1 jh.2)

/-- The gate: whenever a run generates a request, calls the CA or adds anything to the agent,
    some handler `j` authenticated — the first one in configured order to do so, every earlier one
    having been asked and having refused — and if it is the regular handler then the request asked
    for neither a foreign namespace nor a hardware key, a key `pk` is registered for the login name,
    and the forwarded agent returned a signature over the fresh challenge of this very call that
    verifies under `pk`; that sign request is in the trace before anything is issued. -/
theorem c01_gate (conf : Conf) (p : Param) (hs : List Handler) (w : World)
    (e : Event) (he : e ∈ (run conf p hs w).2.1) (hi : e.issues = true) :
    ∃ j h, (selectHandler conf p 0 hs w).2.2 = .ok (j, h) ∧ hs[j]? = some h ∧
      (h = .regular →
        p.nons = true ∧ p.hardKey = false ∧
        ∃ (pk : Key) (w0 : World) (sig : SigV), registeredKey conf.dir = some pk ∧ w.rng ≤ w0.rng ∧
          (agentSign w0.agent pk w0.rng).2 = some sig ∧ verifies pk w0.rng sig = true ∧
          Event.agentSign pk w0.rng true ∈ (selectHandler conf p 0 hs w).2.1) := by
  by_cases hnone : ∀ j h, (selectHandler conf p 0 hs w).2.2 ≠ .ok (j, h)
  · have := (c01_none_authenticates conf p hs w hnone).1 e he
    rw [this] at hi; cases hi
  · obtain ⟨j, hj⟩ := Classical.not_forall.1 hnone
    obtain ⟨h, hh⟩ := Classical.not_forall.1 hj
    have hsel := Classical.not_not.1 hh
    obtain ⟨_, hget, w0, pre, hauth, _, htr, hrng⟩ := selectHandler_ok conf p 0 hs w j h hsel
    refine ⟨j, h, hsel, by simpa using hget, ?_⟩
    intro hreg; subst hreg
    have hra : (regularAuth conf p w0).2.2 = none := by simpa [authOf] using hauth
    obtain ⟨hn, hh, pk, hpk, sig, hsig, hver⟩ := (regularAuth_ok_iff conf p w0).1 hra
    obtain ⟨pk', hpk', htrace, _⟩ := regularAuth_ok_trace conf p w0 hra
    have : pk' = pk := by rw [hpk] at hpk'; exact (Option.some.inj hpk').symm
    subst this
    refine ⟨hn, hh, pk', w0, sig, hpk, hrng, hsig, hver, ?_⟩
    rw [htr]
    apply List.mem_append_right
    simp only [authOf, htrace]
    simp

/-- Freshness across runs: the challenge of an authentication is the current index of the random
    source, which every authentication advances and nothing ever moves back — so the challenges
    of successive runs are pairwise distinct (as draws; see the header for what that assumes). -/
theorem c01_fresh (conf : Conf) (p : Param) (w : World) (h : (regularAuth conf p w).2.2 = none) :
    ∃ pk, (regularAuth conf p w).2.1 = [.agentSign pk w.rng true] ∧ (regularAuth conf p w).1.rng = w.rng + 1 := by
  obtain ⟨pk, _, h1, h2⟩ := regularAuth_ok_trace conf p w h
  exact ⟨pk, h1, h2⟩

/-- a signature made for an earlier challenge, by another key, or over other data does not pass -/
theorem c01_wrong_signature_rejected (pk k : Key) (d d' : Nat) (h : k ≠ pk ∨ d' ≠ d) :
    verifies pk d (.by k d') = false ∧ verifies pk d .garbage = false ∧ verifies pk d .empty = false := by
  refine ⟨?_, rfl, rfl⟩
  rcases h with h | h <;> simp [verifies, h]

/-- Non-vacuity: the honest agent holding the registered key gets through; the same agent signing
    other data does not. -/
example :
    let conf : Conf := ⟨3600, [(0, c!"id")], ⟨.key (.registered 1), .absent⟩⟩
    let p : Param := ⟨true, false, c!"alice", c!"t", c!"i", c!"u", c!"h", 0⟩
    let ag : Agent := ⟨[⟨.registered 1, none, [], 0⟩], .honest, 0, none, none⟩
    (run conf p [.regular] ⟨ag, 7, [.certs 1 1], 0⟩).2.2 = .ok ∧
    (run conf p [.regular] ⟨{ ag with behav := .otherData }, 7, [.certs 1 1], 0⟩).2.2 = .err .allAuthFailed := by
  decide

end C01
end Ysshra
