import Ysshra.Bridge.Attest
import Ysshra.Spec.C06
import Ysshra.Lemmas.Pkcs1
/-
C06 — attestation accepts only certificates signed by a device key chaining to the roots.
-/
namespace Ysshra
namespace C06
open Pkcs1 Attest

/-- Attestation never succeeds unless the device certificate chains to the root pool. -/
theorem c06_chain_required (algo : Nat) (digest : Nat → Bytes) (sig : Bytes) (key : PubKey) :
    attest false algo digest sig key = .reject := rfl

/-- MD2 / MD5 are rejected as insecure, every label outside the SHA-1/256/384/512 families as
    unsupported — about the switch regenerated from signature.go. -/
theorem c06_algo (algo : Nat) :
    Gen.Attest.algoSwitch algo =
      if algo = 3 ∨ algo = 7 ∨ algo = 9 then .hash 3          -- SHA1WithRSA, DSAWithSHA1, ECDSAWithSHA1
      else if algo = 4 ∨ algo = 8 ∨ algo = 10 then .hash 5    -- SHA256…
      else if algo = 5 ∨ algo = 11 then .hash 6               -- SHA384…
      else if algo = 6 ∨ algo = 12 then .hash 7               -- SHA512…
      else if algo = 1 ∨ algo = 2 then .insecure              -- MD2WithRSA, MD5WithRSA
      else .unsupported := by
  rw [Bridge.Attest.algo_bridge]; rfl

theorem c06_unsupported_rejected (chainOK : Bool) (algo : Nat) (digest : Nat → Bytes) (sig : Bytes)
    (key : PubKey) (h : ∀ x, algoSpec algo ≠ .hash x) : attest chainOK algo digest sig key = .reject := by
  unfold attest checkSignature
  cases chainOK <;> simp
  cases ha : algoSpec algo with
  | hash x => exact absurd ha (h x)
  | insecure => rfl
  | unsupported => rfl

/-- A non-RSA device key is rejected whatever else holds. -/
theorem c06_non_rsa (chainOK : Bool) (algo : Nat) (digest : Nat → Bytes) (sig : Bytes) :
    attest chainOK algo digest sig .other = .reject := by
  unfold attest checkSignature
  cases chainOK <;> simp
  cases algoSpec algo <;> rfl

/-- The two accepted encodings are different messages for each supported hash (so "both are
    accepted" is not vacuous). -/
theorem c06_two_encodings : ∀ h ∈ [3, 5, 6, 7], prefixNull h ≠ prefixNoNull h ∧
    ((prefixNoNull h).map List.length).getD 0 + 2 = ((prefixNull h).map List.length).getD 0 := by decide


/-- The core, for every modulus length `k` at once: a left-padded encoded message of `k` bytes
    passes `verifyPKCS1v15` exactly when it is one of the two full-length PKCS#1 v1.5 encoded
    messages — `00 01 FF…FF 00 ‖ DigestInfo prefix ‖ digest` with the prefix that carries the NULL
    parameter or the one without.  Every other string — any padding byte, the block type, the
    separator, any identifier or digest byte replaced, padding shortened or shifted — is rejected;
    and no index or slice expression goes out of range. -/
theorem c06_em_iff (k : Nat) (p1 p2 d em : Bytes) (hlen : em.length = k)
    (hk : p1.length + d.length + 11 ≤ k) (hp : p2.length ≤ p1.length) :
    (∃ b, verifyEM k p1 p2 d em = some b) ∧
    (verifyEM k p1 p2 d em = some true ↔
      (em = Spec.C06.canonEM k p1 d ∨ em = Spec.C06.canonEM k p2 d)) := by
  obtain ⟨h1, h2⟩ := verifyEM_iff k p1 p2 d em hlen hk hp
  refine ⟨h1, ?_⟩
  rw [h2, passes_iff k p1 d em hlen (by omega), passes_iff k p2 d em hlen (by omega)]

/-- a modulus too short for the encoded message is always a rejection -/
theorem c06_short_modulus (k : Nat) (p1 p2 d em : Bytes) (hk : k < p1.length + d.length + 11) :
    verifyEM k p1 p2 d em = some false := by
  simp [verifyEM, hk]

theorem leftPad_length (input : Bytes) (size : Nat) : (leftPad input size).length = size := by
  simp [leftPad]; omega

/-- For the four supported hashes, with the prefix tables regenerated from signature.go:
    verification of `sig` under the RSA key `(n, e)` succeeds iff `sig^e mod n`, left-padded to the
    modulus length, is a full-length encoded message for the digest, in either DigestInfo encoding;
    it never crashes. -/
theorem c06_verify_iff (n e : Nat) (h : Nat) (hh : h ∈ [3, 5, 6, 7]) (dg sig : Bytes) (p1 p2 : Bytes)
    (hp1 : Gen.Attest.hashPrefixes1.lookup h = some p1) (hp2 : Gen.Attest.hashPrefixes2.lookup h = some p2)
    (hd : dg.length = hashSize h) :
    (∃ b, verify n e p1 p2 dg sig = some b) ∧
    (verify n e p1 p2 dg sig = some true ↔
      (p1.length + dg.length + 11 ≤ modLen n ∧
       let m := if n = 0 then 0 else modpow (bytesNat sig) e n
       let em := leftPad (natBytes (m + 1) m) (modLen n)
       (em = Spec.C06.canonEM (modLen n) p1 dg ∨ em = Spec.C06.canonEM (modLen n) p2 dg))) := by
  have hple : p2.length ≤ p1.length := by
    have hb := Bridge.Attest.prefix2_le_prefix1 h (by
      simp only [List.mem_cons, List.not_mem_nil, or_false] at hh ⊢
      rcases hh with rfl | rfl | rfl | rfl <;> simp)
    rw [hp1, hp2] at hb; simpa using hb
  unfold verify
  by_cases hk : modLen n < p1.length + dg.length + 11
  · simp only [hk, ↓reduceIte]
    refine ⟨⟨_, rfl⟩, ?_⟩
    constructor
    · intro hx; cases hx
    · rintro ⟨hx, _⟩; omega
  · simp only [hk, ↓reduceIte]
    have := c06_em_iff (modLen n) p1 p2 dg
      (leftPad (natBytes ((if n = 0 then 0 else modpow (bytesNat sig) e n) + 1) (if n = 0 then 0 else modpow (bytesNat sig) e n)) (modLen n))
      (leftPad_length _ _) (by omega) hple
    refine ⟨this.1, ?_⟩
    rw [this.2]
    constructor
    · intro hx; exact ⟨by omega, hx⟩
    · rintro ⟨_, hx⟩; exact hx

/-- Attestation as a whole: accepted iff the device certificate chains to the roots, the label
    names a supported hash, the device key is RSA, and the signature value raised to the public
    exponent is a full-length encoded message for that hash's digest of the to-be-signed bytes. -/
theorem c06_attest_iff (chainOK : Bool) (algo : Nat) (digest : Nat → Bytes) (sig : Bytes) (key : PubKey) :
    attest chainOK algo digest sig key = .accept ↔
      (chainOK = true ∧ ∃ h n e p1 p2, algoSpec algo = .hash h ∧ key = .rsa n e ∧
        prefixNull h = some p1 ∧ prefixNoNull h = some p2 ∧ (digest h).length = hashSize h ∧
        verify n e p1 p2 (digest h) sig = some true) := by
  unfold attest checkSignature
  cases chainOK with
  | false => simp
  | true =>
    simp only [Bool.not_true, Bool.false_eq_true, ↓reduceIte, true_and]
    cases ha : algoSpec algo with
    | insecure => simp
    | unsupported => simp
    | hash h =>
      cases key with
      | other => simp
      | rsa n e =>
        simp only [AlgoRes.hash.injEq, PubKey.rsa.injEq, exists_and_left, exists_eq_left']
        cases hp1 : prefixNull h with
        | none => simp
        | some p1 =>
          cases hp2 : prefixNoNull h with
          | none => simp
          | some p2 =>
            simp only [Option.some.injEq, exists_eq_left']
            by_cases hd : (digest h).length = hashSize h
            · simp only [hd, ne_eq, not_true_eq_false, ↓reduceIte, true_and]
              cases hv : verify n e p1 p2 (digest h) sig with
              | none => simp [hv]
              | some b =>
                cases b
                · simp [hv]
                · simp only [true_iff]; exact ⟨n, e, ⟨rfl, rfl⟩, hv⟩
            · simp [hd]

end C06
end Ysshra
