import Ysshra.Bridge.Attest
import Ysshra.Spec.C06
/-
C06 — attestation accepts only certificates signed by a device key chaining to the roots.
-/
namespace Ysshra
namespace C06
open Pkcs1 Attest

/-- Attestation never succeeds unless the device certificate chains to the root pool. -/
theorem c06_chain_required (algo : Nat) (digest : Nat → Bytes) (sig : Bytes) (key : PubKey) :
    attest false algo digest sig key = .reject := rfl

/-- MD2 / MD5 are rejected as insecure, every label outside the SHA-1/256/384/512 families as
    unsupported — about the switch regenerated from signature.go. -/
theorem c06_algo (algo : Nat) :
    Gen.Attest.algoSwitch algo =
      if algo = 3 ∨ algo = 7 ∨ algo = 9 then .hash 3          -- SHA1WithRSA, DSAWithSHA1, ECDSAWithSHA1
      else if algo = 4 ∨ algo = 8 ∨ algo = 10 then .hash 5    -- SHA256…
      else if algo = 5 ∨ algo = 11 then .hash 6               -- SHA384…
      else if algo = 6 ∨ algo = 12 then .hash 7               -- SHA512…
      else if algo = 1 ∨ algo = 2 then .insecure              -- MD2WithRSA, MD5WithRSA
      else .unsupported := by
  rw [Bridge.Attest.algo_bridge]; rfl

theorem c06_unsupported_rejected (chainOK : Bool) (algo : Nat) (digest : Nat → Bytes) (sig : Bytes)
    (key : PubKey) (h : ∀ x, algoSpec algo ≠ .hash x) : attest chainOK algo digest sig key = .reject := by
  unfold attest checkSignature
  cases chainOK <;> simp
  cases ha : algoSpec algo with
  | hash x => exact absurd ha (h x)
  | insecure => rfl
  | unsupported => rfl

/-- A non-RSA device key is rejected whatever else holds. -/
theorem c06_non_rsa (chainOK : Bool) (algo : Nat) (digest : Nat → Bytes) (sig : Bytes) :
    attest chainOK algo digest sig .other = .reject := by
  unfold attest checkSignature
  cases chainOK <;> simp
  cases algoSpec algo <;> rfl

/-- The two accepted encodings are different messages for each supported hash (so "both are
    accepted" is not vacuous). -/
theorem c06_two_encodings : ∀ h ∈ [3, 5, 6, 7], prefixNull h ≠ prefixNoNull h ∧
    ((prefixNoNull h).map List.length).getD 0 + 2 = ((prefixNull h).map List.length).getD 0 := by decide

end C06
end Ysshra
