import Ysshra.Model.Serve
import Ysshra.Lemmas.Wire
/-
C12 — the agent server survives any byte stream and answers each request once.
The model has no crash outcome: every index into a request is guarded (`Bridge.Wire` pins the
guards in server.go), a panic of the forwarded standard server is an error ending (`std = none`).
-/
namespace Ysshra
namespace C12
open Wire Serve

/-- Frames of length 0, and wait frames without a code byte, end the connection with an error
    instead of indexing out of range — for every message code. -/
theorem c12_short_frames (env : Env) (i : Nat) :
    handle env i [] = .fail ∧ handle env i [35] = .fail := by
  constructor <;> simp [handle]

/-- No request buffer larger than 16 MiB is ever allocated, for any byte stream. -/
theorem c12_alloc (env : Env) (fuel i : Nat) (bs : Bytes) :
    ∀ a ∈ (serve env fuel i bs).allocs, a ≤ maxAgentResponseBytes := by
  induction fuel generalizing i bs with
  | zero => simp [serve]
  | succ f ih =>
    intro a ha
    unfold serve at ha
    cases hr : readFrame bs with
    | eof => simp [hr] at ha
    | truncated => simp [hr] at ha
    | tooLarge d => simp [hr] at ha
    | frame req rest alloc =>
      have hal : alloc ≤ maxAgentResponseBytes := by
        unfold readFrame at hr
        split at hr
        · cases hr
        · split at hr
          · cases hr
          · rename_i l rest' _
            split at hr
            · cases hr
            · rename_i hl
              split at hr
              · split at hr <;> cases hr
              · cases hr; omega
      simp only [hr] at ha
      cases hh : handle env i req with
      | fail => simp [hh] at ha; omega
      | reply body =>
        simp only [hh] at ha
        split at ha
        · simp at ha; omega
        · simp only [List.mem_cons] at ha
          rcases ha with rfl | ha
          · exact hal
          · exact ih _ _ a ha
      | replyLogged body =>
        simp only [hh] at ha
        split at ha <;>
          (simp only [List.mem_cons] at ha
           rcases ha with rfl | ha
           · exact hal
           · exact ih _ _ a ha)

/-- a declared length above the bound is refused before anything is allocated or answered -/
theorem c12_too_large (env : Env) (fuel i : Nat) (bs : Bytes) (d : Nat)
    (h : readFrame bs = .tooLarge d) :
    serve env (fuel + 1) i bs = ⟨[], [], .error⟩ := by
  simp [serve, h]

/-- request number `k` is complete and accepted by its branch, with response body `b` -/
def Answered (env : Env) (k : Nat) (r b : Bytes) : Prop :=
  r.length ≤ maxAgentResponseBytes ∧ b.length ≤ maxAgentResponseBytes ∧
  (handle env k r = .reply b ∨ handle env k r = .replyLogged b)

theorem serve_step_reply (env : Env) (f i : Nat) (bs r rest b : Bytes) (a : Nat)
    (h1 : readFrame bs = .frame r rest a) (h2 : handle env i r = .reply b)
    (h3 : b.length ≤ maxAgentResponseBytes) :
    serve env (f + 1) i bs =
      ⟨b :: (serve env f (i + 1) rest).resps, a :: (serve env f (i + 1) rest).allocs,
       (serve env f (i + 1) rest).ending⟩ := by
  have : ¬ b.length > maxAgentResponseBytes := Nat.not_lt.mpr h3
  rw [serve]
  simp only [h1, h2, this, ↓reduceIte]

theorem serve_step_logged (env : Env) (f i : Nat) (bs r rest b : Bytes) (a : Nat)
    (h1 : readFrame bs = .frame r rest a) (h2 : handle env i r = .replyLogged b)
    (h3 : b.length ≤ maxAgentResponseBytes) :
    serve env (f + 1) i bs =
      ⟨b :: (serve env f (i + 1) rest).resps, a :: (serve env f (i + 1) rest).allocs,
       (serve env f (i + 1) rest).ending⟩ := by
  have : ¬ b.length > maxAgentResponseBytes := Nat.not_lt.mpr h3
  rw [serve]
  simp only [h1, h2, this, ↓reduceIte]

/-- the wire image of a list of requests -/
def frames : List Bytes → Bytes
  | [] => []
  | r :: rs => be32 r.length ++ r ++ frames rs

/-- Every complete, accepted request frame gets exactly one response frame, in request order;
    what follows them (`tail`) is served as if it stood alone. -/
theorem c12_one_each (env : Env) (reqs : List (Bytes × Bytes)) (tail : Bytes) (i fuel : Nat)
    (hwf : ∀ k (h : k < reqs.length), Answered env (i + k) reqs[k].1 reqs[k].2) :
    let o := serve env (fuel + reqs.length) i (frames (reqs.map (·.1)) ++ tail)
    let o' := serve env fuel (i + reqs.length) tail
    o.resps = reqs.map (·.2) ++ o'.resps ∧ o.ending = o'.ending := by
  induction reqs generalizing i with
  | nil => simp [frames]
  | cons p rs ih =>
    obtain ⟨r, b⟩ := p
    have h0 := hwf 0 (by simp)
    simp only [List.getElem_cons_zero, Nat.add_zero] at h0
    obtain ⟨hr, hb, hh⟩ := h0
    have ih' := ih (i + 1) (fun k hk => by
      have := hwf (k + 1) (by simp; omega)
      simpa [Nat.add_assoc, Nat.add_comm 1 k] using this)
    simp only [List.map_cons, frames, List.length_cons]
    have hfuel : fuel + (rs.length + 1) = (fuel + rs.length) + 1 := by omega
    rw [hfuel]
    have hread : readFrame (be32 r.length ++ r ++ frames (rs.map (·.1)) ++ tail) =
        .frame r (frames (rs.map (·.1)) ++ tail) r.length := by
      rw [List.append_assoc (be32 r.length ++ r)]; exact readFrame_frame r _ hr
    have hi : i + (rs.length + 1) = i + 1 + rs.length := by omega
    simp only [] at ih'
    rcases hh with hh | hh
    · rw [serve_step_reply env _ i _ r _ b _ hread hh hb]
      simp only [List.cons_append, hi]
      exact ⟨by rw [ih'.1], ih'.2⟩
    · rw [serve_step_logged env _ i _ r _ b _ hread hh hb]
      simp only [List.cons_append, hi]
      exact ⟨by rw [ih'.1], ih'.2⟩

/-- … and a clean end of stream after them ends service without error. -/
theorem c12_clean_eof (env : Env) (reqs : List (Bytes × Bytes)) (i fuel : Nat)
    (hwf : ∀ k (h : k < reqs.length), Answered env (i + k) reqs[k].1 reqs[k].2) :
    let o := serve env (fuel + 1 + reqs.length) i (frames (reqs.map (·.1)))
    o.resps = reqs.map (·.2) ∧ o.ending = .clean := by
  have := c12_one_each env reqs [] i (fuel + 1) hwf
  simp only [List.append_nil] at this
  simpa [serve, readFrame] using this

/-- `run` gives the loop enough fuel for that: one unit per frame is enough, and every frame
    occupies at least four bytes. -/
theorem frames_length (reqs : List Bytes) : reqs.length ≤ (frames reqs).length := by
  induction reqs with
  | nil => simp [frames]
  | cons r rs ih => simp [frames, be32_length]; omega

/-- Non-vacuity: list-slots then a raw-forwarded code, against a concrete scripted agent. -/
example :
    let env : Env := ⟨fun _ => false, fun _ _ _ => none, fun _ => ([b!"9a", b!"9c"], none),
      fun _ _ => (none, none), fun _ _ => (none, none), fun _ _ => none, fun _ _ => none,
      fun _ r => some (0xaa :: r)⟩
    (run env (frames [[32], [200, 1, 2]])).resps = [encListSlotsResp [b!"9a", b!"9c"] [], [0xaa, 200, 1, 2]] ∧
    (run env (frames [[32], [200, 1, 2]])).ending = .clean := by decide

end C12
end Ysshra
