import Ysshra.Model.Crypki
/-
C17 — CA endpoints are tried in order until one signs; exhaustion is an error.
Partial: the back-off bound is proved over ℚ; IEEE-754 rounding, Inf/NaN and the float→int64
conversion of the Go code are only sampled by the correspondence run.
-/
namespace Ysshra
namespace C17
open Crypki

variable {E : Type}

/-- The contacted endpoints are a prefix of the configured list, in order. -/
theorem c17_order (reply : E → Reply) (eps : List E) :
    ∃ rest, eps = (signLoop reply eps).2 ++ rest := by
  induction eps with
  | nil => exact ⟨[], rfl⟩
  | cons e r ih =>
    unfold signLoop
    split
    · exact ⟨r, rfl⟩
    · obtain ⟨rest, h⟩ := ih
      exact ⟨rest, by simp only [List.cons_append]; rw [← h]⟩

/-- A success is the answer of the last contacted endpoint, every endpoint before it failed, and
    no later endpoint was contacted. -/
theorem c17_first_success (reply : E → Reply) (eps : List E) (x : List Nat × List Bytes)
    (h : (signLoop reply eps).1 = some x) :
    ∃ pre e, (signLoop reply eps).2 = pre ++ [e] ∧ post (reply e) = some x ∧
      ∀ e' ∈ pre, post (reply e') = none := by
  induction eps with
  | nil => simp [signLoop] at h
  | cons e r ih =>
    unfold signLoop at h ⊢
    cases hp : post (reply e) with
    | some y =>
      simp only [hp] at h ⊢
      exact ⟨[], e, rfl, by rw [hp]; exact congrArg some (Option.some.inj h), by simp⟩
    | none =>
      simp only [hp] at h ⊢
      obtain ⟨pre, e', h1, h2, h3⟩ := ih h
      refine ⟨e :: pre, e', by simp [h1], h2, ?_⟩
      intro e'' he''
      simp only [List.mem_cons] at he''
      rcases he'' with rfl | he''
      · exact hp
      · exact h3 e'' he''

/-- If every endpoint fails, all of them were tried, in order, and the call is an error. -/
theorem c17_exhausted (reply : E → Reply) (eps : List E) (h : (signLoop reply eps).1 = none) :
    (signLoop reply eps).2 = eps ∧ ∀ e ∈ eps, post (reply e) = none := by
  induction eps with
  | nil => simp [signLoop]
  | cons e r ih =>
    unfold signLoop at h ⊢
    cases hp : post (reply e) with
    | some y => simp [hp] at h
    | none =>
      simp only [hp] at h ⊢
      obtain ⟨h1, h2⟩ := ih h
      exact ⟨by rw [h1], by
        intro e' he'
        simp only [List.mem_cons] at he'
        rcases he' with rfl | he'
        · exact hp
        · exact h2 e' he'⟩

/-- No endpoint configured is an error — never an empty success. -/
theorem c17_none_configured (reply : E → Reply) : (sign reply ([] : List E)).1 = none := rfl

/-- A success always carries at least one certificate, with exactly one comment per certificate,
    in the CA's order. -/
theorem c17_never_empty (reply : E → Reply) (eps : List E) (ks : List Nat) (cs : List Bytes)
    (h : (sign reply eps).1 = some (ks, cs)) : ks ≠ [] ∧ ks.length = cs.length := by
  have hloop : (signLoop reply eps).1 = some (ks, cs) := by
    unfold sign at h; split at h
    · simp at h
    · exact h
  obtain ⟨_, e, _, hpost, _⟩ := c17_first_success reply eps (ks, cs) hloop
  unfold post at hpost
  split at hpost
  · rename_i ls
    unfold keysFromLines at hpost
    simp only [] at hpost
    split at hpost
    · simp at hpost
    · rename_i hne
      simp only [Option.some.injEq, Prod.mk.injEq] at hpost
      obtain ⟨rfl, rfl⟩ := hpost
      refine ⟨?_, by simp⟩
      intro hnil
      simp only [List.map_eq_nil_iff] at hnil
      simp [hnil] at hne
  · simp at hpost

/-- keys and comments of a parsed reply are the parsable lines in order -/
theorem c17_keys_in_order (ls : List Line) (ks : List Nat) (cs : List Bytes)
    (h : keysFromLines ls = some (ks, cs)) : ks.zip cs = ls.filterMap id := by
  unfold keysFromLines at h
  simp only [] at h
  split at h
  · simp at h
  · simp only [Option.some.injEq, Prod.mk.injEq] at h
    obtain ⟨rfl, rfl⟩ := h
    induction ls.filterMap id with
    | nil => rfl
    | cons x r ih => simp [ih]

end C17
end Ysshra
