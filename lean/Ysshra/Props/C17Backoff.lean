import Ysshra.Model.Crypki
import Mathlib.Tactic.Linarith
import Mathlib.Tactic.Positivity
import Mathlib.Algebra.Order.Field.Basic
/-
C17, back-off clause: for every attempt number the delay lies within zero and the configured
maximum enlarged by the jitter factor — over ℚ, for every configuration whose base delay does
not exceed its maximum, multiplier at least 1 and jitter in [0, 1].  (Proof file: Mathlib tactics;
the model itself is core-only.)
-/
namespace Ysshra
namespace C17
open Crypki

theorem c17_backoff_bounds (c : BackoffCfg) (attempt : Nat) (r : Rat)
    (hb0 : 0 ≤ c.base) (hbm : c.base ≤ c.max) (hm : 1 ≤ c.mult) (hj0 : 0 ≤ c.jitter) (hj1 : c.jitter ≤ 1)
    (hr0 : 0 ≤ r) (hr1 : r < 1) :
    0 ≤ backoff c attempt r ∧ backoff c attempt r ≤ c.max * (1 + c.jitter) := by
  unfold backoff
  split
  · constructor
    · exact hb0
    · nlinarith
  · have hpow : 0 ≤ c.base * c.mult ^ attempt := by positivity
    have hmax : 0 ≤ c.max := le_trans hb0 hbm
    have hx0 : 0 ≤ min (c.base * c.mult ^ attempt) c.max := le_min hpow hmax
    have hx1 : min (c.base * c.mult ^ attempt) c.max ≤ c.max := min_le_right _ _
    have hf0 : 0 ≤ 1 + c.jitter * (r * 2 - 1) := by nlinarith
    have hf1 : 1 + c.jitter * (r * 2 - 1) ≤ 1 + c.jitter := by nlinarith
    constructor
    · exact mul_nonneg hx0 hf0
    · calc min (c.base * c.mult ^ attempt) c.max * (1 + c.jitter * (r * 2 - 1))
          ≤ c.max * (1 + c.jitter * (r * 2 - 1)) := mul_le_mul_of_nonneg_right hx1 hf0
        _ ≤ c.max * (1 + c.jitter) := mul_le_mul_of_nonneg_left hf1 hmax

/-- Non-vacuity: the default configuration (2 s, ×3, 15 s, 0.2) meets the hypotheses. -/
example : let c : BackoffCfg := ⟨2, 3, 15, 1/5⟩
    0 ≤ c.base ∧ c.base ≤ c.max ∧ 1 ≤ c.mult ∧ 0 ≤ c.jitter ∧ c.jitter ≤ 1 := by
  norm_num

end C17
end Ysshra
