import Ysshra.Lemmas.Gensign
import Ysshra.Props.C05
/-
C02 — signing requests carry server-side identity and policy, never client claims.
-/
namespace Ysshra
namespace C02
open Gensign

/-- Every request the regular handler produces: exactly one principal — the server-side login
    name; exactly the configured validity; the fixed default extension set; the key slot configured
    for the requested CA key algorithm; the key pair drawn for this request. -/
theorem c02_csr (conf : Conf) (p : Param) (w : World) (k : Key) (csr : CSR)
    (h : (regularGenerate conf p w).2.2 = .ok (k, csr)) :
    csr.principals = [p.logName] ∧ csr.validity = conf.validity ∧ csr.extensions = defaultExtensions ∧
    conf.keyIds.lookup p.caAlgo = some csr.keyMeta ∧ csr.publicKey = k ∧ k = .fresh w.rng ∧
    csr.keyId = regularKeyID p := by
  unfold regularGenerate at h
  simp only [] at h
  split at h
  · cases h
  · split at h
    · cases h
    · rename_i ident hid
      simp only [Except.ok.injEq, Prod.mk.injEq] at h
      obtain ⟨rfl, rfl⟩ := h
      exact ⟨rfl, rfl, rfl, hid, rfl, rfl, rfl⟩

/-- … and it is refused, as a configuration error, when no slot is configured for the algorithm. -/
theorem c02_no_slot (conf : Conf) (p : Param) (w : World) (h : conf.keyIds.lookup p.caAlgo = none) :
    (regularGenerate conf p w).2.2 = .error .handlerConf ∨ (regularGenerate conf p w).2.2 = .error .handlerGenCSR := by
  unfold regularGenerate
  simp only []
  split
  · right; rfl
  · left; simp [h]

/-- The certified key is a fresh draw: never a registered (long-term) key, and the random source
    moves on, so no two requests — in this run or any later one — certify the same key. -/
theorem c02_key_fresh (conf : Conf) (p : Param) (w : World) (k : Key) (csr : CSR)
    (h : (regularGenerate conf p w).2.2 = .ok (k, csr)) :
    (∀ n, csr.publicKey ≠ .registered n) ∧ (regularGenerate conf p w).1.rng = w.rng + 1 := by
  obtain ⟨_, _, _, _, hk, hf, _⟩ := c02_csr conf p w k csr h
  constructor
  · intro n; rw [hk, hf]; simp
  · unfold regularGenerate; simp only []; split <;> (try split) <;> rfl

/-- The KeyID: well-formed — it encodes — and decodes to that same single principal, this
    request's transaction id, the connection's source IP, the client-declared user and host
    verbatim, version 1, not firefighter / hardware / headless / nonce, all usages, never-touch;
    for every string (JSON metacharacters and non-ASCII included: C05's round trip is unconditional). -/
theorem c02_keyid (p : Param) :
    ∃ j, KeyID.marshal (regularKeyID p) = .ok j ∧
      KeyID.unmarshal (some j) = .ok
        ⟨some [p.logName], p.transID, p.reqUser, p.clientIP, p.reqHost, false, false, false, false, 0,
         KeyID.NeverTouch, 1⟩ := by
  have hm : ∃ j, KeyID.marshal (regularKeyID p) = .ok j := by
    apply (C05.c05_marshal_ok_iff _).2
    exact ⟨rfl, by simp [KeyID.consistent, regularKeyID]⟩
  obtain ⟨j, hj⟩ := hm
  refine ⟨j, hj, ?_⟩
  have := C05.c05_roundtrip (regularKeyID p) (by simp [KeyID.wf, regularKeyID]) j hj
  simpa [regularKeyID, KeyID.NeverTouch] using this

end C02
end Ysshra
