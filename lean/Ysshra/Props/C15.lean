import Ysshra.Lemmas.Message
import Ysshra.Lemmas.Text
import Ysshra.Lemmas.Legacy
import Ysshra.Spec.C15
/-
C15 — client request messages round-trip through both wire formats.
-/
namespace Ysshra
namespace C15
open Message Text

/-- The encoder refuses attribute sets missing a required field. -/
theorem c15_marshal_refuses (utf8 : Str → Bytes) (a : AttrsJ)
    (h : a.SSHClientVersion = [] ∨ a.Username = [] ∨ a.Hostname = []) : marshal utf8 a = none := by
  unfold marshal sane
  rcases h with h | h | h <;> simp [h] <;> (repeat' split) <;> simp_all

/-- … and accepts every other one, choosing the format by the interface version. -/
theorem c15_marshal_accepts (utf8 : Str → Bytes) (a : AttrsJ)
    (h1 : a.SSHClientVersion ≠ []) (h2 : a.Username ≠ []) (h3 : a.Hostname ≠ []) :
    marshal utf8 a =
      if a.IfVer < 7 then some (.legacy (marshalLegacy (toB utf8 a))) else some (.json (toJ a)) := by
  have : sane List.isEmpty a = true := by
    unfold sane; cases hx : a.SSHClientVersion <;> cases hy : a.Username <;> cases hz : a.Hostname <;> simp_all
  simp [marshal, this]

/-- well-formedness that Go's types give: machine integers, a map has distinct keys, and the
    extension values were produced by decoding JSON (no float overflow) -/
structure WF (a : AttrsJ) : Prop where
  ifver : inI64 a.IfVer
  ca : inI64 a.CAPubKeyAlgo
  sa : inI64 a.SignatureAlgo
  time : ∀ t, a.TouchlessSudo = some t → inI64 t.Time
  extsNodup : keysNodup a.Exts
  extsFinite : anyFailsMembers a.Exts = false

/-- JSON format: decoding the encoded attributes gives them back, all fields including the
    extension map (token trees), with the absent touchless-sudo block populated. -/
theorem c15_json_roundtrip (a : AttrsJ) (wf : WF a) (hs : sane List.isEmpty a = true) (raw : Bytes) :
    unmarshal (some (toJ a)) raw = .ok (.json (populate [] a)) := by
  obtain ⟨ifver, user, host, ver, ca, sa, hk, t2s, ts, exts⟩ := a
  have hdec : decodeStruct (some (toJ ⟨ifver, user, host, ver, ca, sa, hk, t2s, ts, exts⟩)) =
      some ⟨ifver, user, host, ver, ca, sa, hk, t2s, ts, exts⟩ := by
    simp only [decodeStruct, toJ, decodeMembersA_append]
    have p1 : decodeMembersA zeroJ
        [(c!"ifVer", JVal.num (.ofInt ifver)), (c!"username", .str user), (c!"hostname", .str host),
         (c!"sshClientVersion", .str ver)] = some ⟨ifver, user, host, ver, 0, 0, false, false, none, []⟩ := by
      simp [decodeMembersA, ia0, ia1, ia2, ia3, setFieldA, decStr, decInt_ofInt _ _ wf.ifver, zeroJ]
    have p2 : decodeMembersA ⟨ifver, user, host, ver, 0, 0, false, false, none, []⟩
        (if ca ≠ 0 then [(c!"caPubKeyAlgo", JVal.num (.ofInt ca))] else []) =
        some ⟨ifver, user, host, ver, ca, 0, false, false, none, []⟩ := by
      by_cases h : ca = 0
      · simp [h, decodeMembersA]
      · simp [h, decodeMembersA, ia4, setFieldA, decInt_ofInt _ _ wf.ca]
    have p3 : decodeMembersA ⟨ifver, user, host, ver, ca, 0, false, false, none, []⟩
        (if sa ≠ 0 then [(c!"signatureAlgo", JVal.num (.ofInt sa))] else []) =
        some ⟨ifver, user, host, ver, ca, sa, false, false, none, []⟩ := by
      by_cases h : sa = 0
      · simp [h, decodeMembersA]
      · simp [h, decodeMembersA, ia5, setFieldA, decInt_ofInt _ _ wf.sa]
    have p4 : decodeMembersA ⟨ifver, user, host, ver, ca, sa, false, false, none, []⟩
        [(c!"hardKey", JVal.bool hk)] = some ⟨ifver, user, host, ver, ca, sa, hk, false, none, []⟩ := by
      simp [decodeMembersA, ia6, setFieldA, decBool]
    have p5 : decodeMembersA ⟨ifver, user, host, ver, ca, sa, hk, false, none, []⟩
        (if t2s = true then [(c!"touch2SSH", JVal.bool true)] else []) =
        some ⟨ifver, user, host, ver, ca, sa, hk, t2s, none, []⟩ := by
      cases t2s <;> simp [decodeMembersA, ia7, setFieldA, decBool]
    have p6 : decodeMembersA ⟨ifver, user, host, ver, ca, sa, hk, t2s, none, []⟩
        (tsMembers ts) = some ⟨ifver, user, host, ver, ca, sa, hk, t2s, ts, []⟩ := by
      cases ts with
      | none => simp [decodeMembersA, tsMembers]
      | some t =>
        simp [decodeMembersA, tsMembers, ia8, setFieldA, decTSudo_tsToJ t (wf.time t rfl)]
    have p7 : decodeMembersA ⟨ifver, user, host, ver, ca, sa, hk, t2s, ts, []⟩
        (if exts.isEmpty = true then [] else [(c!"exts", JVal.obj exts)]) =
        some ⟨ifver, user, host, ver, ca, sa, hk, t2s, ts, exts⟩ := by
      cases exts with
      | nil => simp [decodeMembersA]
      | cons e r =>
        simp [decodeMembersA, ia9, setFieldA, decExts_obj (e :: r) wf.extsNodup wf.extsFinite]
    rw [p1]; simp only [Option.bind_some]
    rw [p2]; simp only [Option.bind_some]
    rw [p3]; simp only [Option.bind_some]
    rw [p4]; simp only [Option.bind_some]
    rw [p5]; simp only [Option.bind_some]
    rw [p6]; simp only [Option.bind_some]
    rw [p7]
  simp only [unmarshal, hdec, hs, ↓reduceIte]

/-- Input that decodes as a JSON attribute object is never reinterpreted as legacy text: the
    result is decided by the JSON branch alone, whatever the raw bytes are, and it fails exactly
    when a required member is empty (the encoder's own check). -/
theorem c15_no_reinterpretation (tok : Option JVal) (raw : Bytes) (a : AttrsJ)
    (h : decodeStruct tok = some a) :
    unmarshal tok raw =
      if a.SSHClientVersion = [] ∨ a.Username = [] ∨ a.Hostname = [] then .err
      else .ok (.json (populate [] a)) := by
  simp only [unmarshal, h, sane]
  obtain ⟨ifver, user, host, ver, ca, sa, hk, t2s, ts, exts⟩ := a
  cases ver <;> cases user <;> cases host <;> simp

/-- The decoder never crashes (with the repaired call for finding F1). -/
theorem c15_total (tok : Option JVal) (raw : Bytes) : unmarshal tok raw ≠ .crash := by
  unfold unmarshal
  split
  · split <;> simp
  · have hu : unmarshalLegacy raw ≠ .crash := by
      unfold unmarshalLegacy; simp only []
      split <;> (try split) <;> simp
    split <;> simp_all

/-- the touchless-sudo value the legacy decoder always fills in -/
def tsOrZero (t : Option (TSudo Bytes)) : TSudo Bytes := match t with
  | some t => t
  | none => ⟨false, [], 0⟩

/-- **Legacy format round trip.**  For every attribute set whose client version, user, host and
    touchless-sudo hosts hold no space byte and do not end in white space (implied by "free of
    white space"), whose user and host hold no `@`, and whose touchless-sudo time is a machine
    integer: decoding what `MarshalLegacy` wrote gives back the client version, user, host,
    hardware-key, touch-to-SSH and touchless-sudo fields, reports interface version 6, leaves the
    fields the format does not carry at zero, and mirrors the raw tokens into the extension map. -/
theorem c15_legacy_roundtrip (a : AttrsB)
    (hv : NoSp a.SSHClientVersion) (hu : NoSp a.Username) (hh : NoSp a.Hostname)
    (hua : 0x40 ∉ a.Username) (hha : 0x40 ∉ a.Hostname)
    (hts : ∀ t, a.TouchlessSudo = some t → NoSp t.Hosts ∧ (-(2 ^ 63 : Int) ≤ t.Time ∧ t.Time < 2 ^ 63)) :
    unmarshalLegacy (marshalLegacy a) =
      .ok ⟨6, a.Username, a.Hostname, a.SSHClientVersion, 0, 0, a.HardKey, a.Touch2SSH,
           some (tsOrZero a.TouchlessSudo), (legacyTokens a).map parseToken⟩ := by
  have hwf := wf_tokens a hv hu hh (fun t ht => (hts t ht).1)
  have hne : legacyTokens a ≠ [] := by unfold legacyTokens; simp
  have hm : parseAttrsLegacy (marshalLegacy a) = legacyPairs a := by
    unfold marshalLegacy
    rw [parseAttrsLegacy_join _ hne hwf, foldl_parse_eq _ (by rw [legacyTokens_pairs]; exact legacyPairs_nodup a),
      legacyTokens_pairs]
  have hsplit : splitOn 0x40 (a.Username ++ 0x40 :: a.Hostname) = [a.Username, a.Hostname] := by
    rw [splitOn_field 0x40 _ _ hua, splitOn_single 0x40 _ hha]
  unfold unmarshalLegacy
  simp only [hm, legacyTokens_pairs]
  -- the look-ups, case by case over the optional tokens
  obtain ⟨ifv, user, host, ver, ca, sa, hk, t2s, ts, exts⟩ := a
  simp only [] at hsplit hts ⊢
  have h6 : parseIntLoose b!"6" = 6 := by decide
  have htrue : parseBoolLoose b!"true" = true := by decide
  cases hk <;> cases t2s <;> cases ts with
  | none =>
    simp [legacyPairs, lookupB, List.find?, hsplit, tsOrZero, h6, htrue,
      kIFVer, kReq, kHardKey, kTouch2SSH, kIsFirefighter, kHosts, kTime, kVersion]
  | some t =>
    obtain ⟨ff, hosts, time⟩ := t
    have htime := (hts ⟨ff, hosts, time⟩ rfl).2
    have hrt := parseIntLoose_intDec time htime
    cases ff <;> by_cases hho : hosts.isEmpty <;> by_cases hti : time = 0 <;>
      simp [legacyPairs, lookupB, List.find?, hsplit, tsOrZero, h6, htrue,
        kIFVer, kReq, kHardKey, kTouch2SSH, kIsFirefighter, kHosts, kTime, kVersion, hho, hti, hrt] <;>
      simp_all

/-! "free of white space and `@`", as the executable statement (`Spec.C15`) spells it, implies the
hypotheses of `c15_legacy_roundtrip` -/

theorem hasSpace_go_false (n : Nat) (s : Bytes) (h : Spec.C15.hasSpace.go n s = false) (hn : s.length ≤ n) :
    ∀ t s', s = t ++ s' → s' ≠ [] → stripSpacePrefix s' = none := by
  induction n generalizing s with
  | zero =>
    intro t s' hs hne
    have : s = [] := List.length_eq_zero_iff.mp (by omega)
    subst this
    have := List.append_eq_nil_iff.mp hs.symm
    exact absurd this.2 hne
  | succ m ih =>
    intro t s' hs hne
    cases s with
    | nil => have := List.append_eq_nil_iff.mp hs.symm; exact absurd this.2 hne
    | cons c r =>
      unfold Spec.C15.hasSpace.go at h
      simp only [Bool.or_eq_false_iff] at h
      cases t with
      | nil =>
        simp only [List.nil_append] at hs; subst hs
        cases hp : stripSpacePrefix (c :: r) with
        | none => rfl
        | some x => rw [hp] at h; simp at h
      | cons d t' =>
        simp only [List.cons_append, List.cons.injEq] at hs
        exact ih r h.2 (by simp at hn; omega) t' s' hs.2 hne

theorem noSp_of_hasSpace (v : Bytes) (h : Spec.C15.hasSpace v = false) : NoSp v := by
  have hall := hasSpace_go_false v.length v h (Nat.le_refl _)
  constructor
  · intro hm
    obtain ⟨t, r, hv⟩ := List.append_of_mem hm
    have := hall t (0x20 :: r) hv (by simp)
    rw [stripSpacePrefix_none_iff] at this
    exact this [0x20] (by decide) ⟨r, rfl⟩
  · intro p hp hsuf
    obtain ⟨t, ht⟩ := hsuf
    have := hall t p ht.symm (spaceSeqs_ne_nil p hp)
    rw [stripSpacePrefix_none_iff] at this
    exact this p hp (List.prefix_refl p)

theorem hasSpaceOrAt_go_false (n : Nat) (s : Bytes) (h : Spec.C15.hasSpaceOrAt.go n s = false) (hn : s.length ≤ n) :
    Spec.C15.hasSpace.go n s = false ∧ 0x40 ∉ s := by
  induction n generalizing s with
  | zero =>
    have : s = [] := List.length_eq_zero_iff.mp (by omega)
    subst this; simp [Spec.C15.hasSpace.go]
  | succ m ih =>
    cases s with
    | nil => simp [Spec.C15.hasSpace.go]
    | cons c r =>
      unfold Spec.C15.hasSpaceOrAt.go at h
      simp only [Bool.or_eq_false_iff, decide_eq_false_iff_not] at h
      obtain ⟨⟨h1, h2⟩, h3⟩ := h
      obtain ⟨i1, i2⟩ := ih r h3 (by simp at hn; omega)
      refine ⟨?_, ?_⟩
      · unfold Spec.C15.hasSpace.go; simp [h2, i1]
      · simp only [List.mem_cons, not_or]; exact ⟨fun e => h1 e.symm, i2⟩

/-- The statement's form: for all values free of white space (user and host also free of `@`). -/
theorem c15_legacy_roundtrip_clean (a : AttrsB)
    (hv : Spec.C15.hasSpace a.SSHClientVersion = false)
    (hu : Spec.C15.hasSpaceOrAt a.Username = false) (hh : Spec.C15.hasSpaceOrAt a.Hostname = false)
    (hts : ∀ t, a.TouchlessSudo = some t →
      Spec.C15.hasSpace t.Hosts = false ∧ (-(2 ^ 63 : Int) ≤ t.Time ∧ t.Time < 2 ^ 63)) :
    unmarshalLegacy (marshalLegacy a) =
      .ok ⟨6, a.Username, a.Hostname, a.SSHClientVersion, 0, 0, a.HardKey, a.Touch2SSH,
           some (tsOrZero a.TouchlessSudo), (legacyTokens a).map parseToken⟩ := by
  obtain ⟨u1, u2⟩ := hasSpaceOrAt_go_false _ _ hu (Nat.le_refl _)
  obtain ⟨h1, h2⟩ := hasSpaceOrAt_go_false _ _ hh (Nat.le_refl _)
  exact c15_legacy_roundtrip a (noSp_of_hasSpace _ hv) (noSp_of_hasSpace _ u1) (noSp_of_hasSpace _ h1) u2 h2
    (fun t ht => ⟨noSp_of_hasSpace _ (hts t ht).1, (hts t ht).2⟩)

/-- Non-vacuity: a concrete attribute set meets the hypotheses and round-trips. -/
example :
    let a : AttrsB := ⟨3, b!"alice", b!"host-1.example.com", b!"8.1", 0, 0, true, false,
      some ⟨true, b!"h1,h2", -30⟩, []⟩
    Spec.C15.hasSpace a.SSHClientVersion = false ∧ Spec.C15.hasSpaceOrAt a.Username = false ∧
    (unmarshalLegacy (marshalLegacy a)) =
      .ok ⟨6, b!"alice", b!"host-1.example.com", b!"8.1", 0, 0, true, false, some ⟨true, b!"h1,h2", -30⟩,
        (legacyTokens a).map parseToken⟩ := by decide

end C15
end Ysshra
