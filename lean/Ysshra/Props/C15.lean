import Ysshra.Lemmas.Message
import Ysshra.Lemmas.Text
/-
C15 — client request messages round-trip through both wire formats.
-/
namespace Ysshra
namespace C15
open Message Text

/-- The encoder refuses attribute sets missing a required field. -/
theorem c15_marshal_refuses (utf8 : Str → Bytes) (a : AttrsJ)
    (h : a.SSHClientVersion = [] ∨ a.Username = [] ∨ a.Hostname = []) : marshal utf8 a = none := by
  unfold marshal sane
  rcases h with h | h | h <;> simp [h] <;> (repeat' split) <;> simp_all

/-- … and accepts every other one, choosing the format by the interface version. -/
theorem c15_marshal_accepts (utf8 : Str → Bytes) (a : AttrsJ)
    (h1 : a.SSHClientVersion ≠ []) (h2 : a.Username ≠ []) (h3 : a.Hostname ≠ []) :
    marshal utf8 a =
      if a.IfVer < 7 then some (.legacy (marshalLegacy (toB utf8 a))) else some (.json (toJ a)) := by
  have : sane List.isEmpty a = true := by
    unfold sane; cases hx : a.SSHClientVersion <;> cases hy : a.Username <;> cases hz : a.Hostname <;> simp_all
  simp [marshal, this]

/-- well-formedness that Go's types give: machine integers, a map has distinct keys, and the
    extension values were produced by decoding JSON (no float overflow) -/
structure WF (a : AttrsJ) : Prop where
  ifver : inI64 a.IfVer
  ca : inI64 a.CAPubKeyAlgo
  sa : inI64 a.SignatureAlgo
  time : ∀ t, a.TouchlessSudo = some t → inI64 t.Time
  extsNodup : keysNodup a.Exts
  extsFinite : anyFailsMembers a.Exts = false

/-- JSON format: decoding the encoded attributes gives them back, all fields including the
    extension map (token trees), with the absent touchless-sudo block populated. -/
theorem c15_json_roundtrip (a : AttrsJ) (wf : WF a) (hs : sane List.isEmpty a = true) (raw : Bytes) :
    unmarshal (some (toJ a)) raw = .ok (.json (populate [] a)) := by
  obtain ⟨ifver, user, host, ver, ca, sa, hk, t2s, ts, exts⟩ := a
  have hdec : decodeStruct (some (toJ ⟨ifver, user, host, ver, ca, sa, hk, t2s, ts, exts⟩)) =
      some ⟨ifver, user, host, ver, ca, sa, hk, t2s, ts, exts⟩ := by
    simp only [decodeStruct, toJ, decodeMembersA_append]
    have p1 : decodeMembersA zeroJ
        [(c!"ifVer", JVal.num (.ofInt ifver)), (c!"username", .str user), (c!"hostname", .str host),
         (c!"sshClientVersion", .str ver)] = some ⟨ifver, user, host, ver, 0, 0, false, false, none, []⟩ := by
      simp [decodeMembersA, ia0, ia1, ia2, ia3, setFieldA, decStr, decInt_ofInt _ _ wf.ifver, zeroJ]
    have p2 : decodeMembersA ⟨ifver, user, host, ver, 0, 0, false, false, none, []⟩
        (if ca ≠ 0 then [(c!"caPubKeyAlgo", JVal.num (.ofInt ca))] else []) =
        some ⟨ifver, user, host, ver, ca, 0, false, false, none, []⟩ := by
      by_cases h : ca = 0
      · simp [h, decodeMembersA]
      · simp [h, decodeMembersA, ia4, setFieldA, decInt_ofInt _ _ wf.ca]
    have p3 : decodeMembersA ⟨ifver, user, host, ver, ca, 0, false, false, none, []⟩
        (if sa ≠ 0 then [(c!"signatureAlgo", JVal.num (.ofInt sa))] else []) =
        some ⟨ifver, user, host, ver, ca, sa, false, false, none, []⟩ := by
      by_cases h : sa = 0
      · simp [h, decodeMembersA]
      · simp [h, decodeMembersA, ia5, setFieldA, decInt_ofInt _ _ wf.sa]
    have p4 : decodeMembersA ⟨ifver, user, host, ver, ca, sa, false, false, none, []⟩
        [(c!"hardKey", JVal.bool hk)] = some ⟨ifver, user, host, ver, ca, sa, hk, false, none, []⟩ := by
      simp [decodeMembersA, ia6, setFieldA, decBool]
    have p5 : decodeMembersA ⟨ifver, user, host, ver, ca, sa, hk, false, none, []⟩
        (if t2s = true then [(c!"touch2SSH", JVal.bool true)] else []) =
        some ⟨ifver, user, host, ver, ca, sa, hk, t2s, none, []⟩ := by
      cases t2s <;> simp [decodeMembersA, ia7, setFieldA, decBool]
    have p6 : decodeMembersA ⟨ifver, user, host, ver, ca, sa, hk, t2s, none, []⟩
        (tsMembers ts) = some ⟨ifver, user, host, ver, ca, sa, hk, t2s, ts, []⟩ := by
      cases ts with
      | none => simp [decodeMembersA, tsMembers]
      | some t =>
        simp [decodeMembersA, tsMembers, ia8, setFieldA, decTSudo_tsToJ t (wf.time t rfl)]
    have p7 : decodeMembersA ⟨ifver, user, host, ver, ca, sa, hk, t2s, ts, []⟩
        (if exts.isEmpty = true then [] else [(c!"exts", JVal.obj exts)]) =
        some ⟨ifver, user, host, ver, ca, sa, hk, t2s, ts, exts⟩ := by
      cases exts with
      | nil => simp [decodeMembersA]
      | cons e r =>
        simp [decodeMembersA, ia9, setFieldA, decExts_obj (e :: r) wf.extsNodup wf.extsFinite]
    rw [p1]; simp only [Option.bind_some]
    rw [p2]; simp only [Option.bind_some]
    rw [p3]; simp only [Option.bind_some]
    rw [p4]; simp only [Option.bind_some]
    rw [p5]; simp only [Option.bind_some]
    rw [p6]; simp only [Option.bind_some]
    rw [p7]
  simp only [unmarshal, hdec, hs, ↓reduceIte]

/-- Input that decodes as a JSON attribute object is never reinterpreted as legacy text: the
    result is decided by the JSON branch alone, whatever the raw bytes are, and it fails exactly
    when a required member is empty (the encoder's own check). -/
theorem c15_no_reinterpretation (tok : Option JVal) (raw : Bytes) (a : AttrsJ)
    (h : decodeStruct tok = some a) :
    unmarshal tok raw =
      if a.SSHClientVersion = [] ∨ a.Username = [] ∨ a.Hostname = [] then .err
      else .ok (.json (populate [] a)) := by
  simp only [unmarshal, h, sane]
  obtain ⟨ifver, user, host, ver, ca, sa, hk, t2s, ts, exts⟩ := a
  cases ver <;> cases user <;> cases host <;> simp

/-- The decoder never crashes (with the repaired call for finding F1). -/
theorem c15_total (tok : Option JVal) (raw : Bytes) : unmarshal tok raw ≠ .crash := by
  unfold unmarshal
  split
  · split <;> simp
  · have hu : unmarshalLegacy raw ≠ .crash := by
      unfold unmarshalLegacy; simp only []
      split <;> (try split) <;> simp
    split <;> simp_all

end C15
end Ysshra
