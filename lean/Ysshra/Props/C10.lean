import Ysshra.Lemmas.Shim
import Ysshra.Lemmas.Wire
/-
C10 — hardware certificates are bound to a held key; everything else passes through intact.
-/
namespace Ysshra
namespace C10
open Shim

/-- A certificate is accepted as an in-memory hardware certificate exactly when the underlying
    agent's listing (which must succeed) contains the plain key it certifies; adding it again is a
    no-op; a plain key is refused. -/
theorem c10_addhard_iff (s : State) (now : Nat) (f : Faults) (c : Cert) (sfx : Bytes)
    (hl : s.locked = false) (hm : hasCert s c = false) :
    ((step s now f (.addHardCert (.cert c) sfx)).2 = .ok ↔
      ∃ keys, (s.u.list f).2 = some keys ∧ keys.any (·.blob = .key c.key) = true) ∧
    ((step s now f (.addHardCert (.cert c) sfx)).2 = .ok →
      hasCert (step s now f (.addHardCert (.cert c) sfx)).1 c = true) := by
  simp only [step, hl, Bool.false_eq_true, ↓reduceIte, hm]
  cases hlist : s.u.list f with
  | mk u' r =>
    cases r with
    | none =>
      simp only []
      refine ⟨⟨fun h => (by cases h), ?_⟩, fun h => (by cases h)⟩
      rintro ⟨keys', h1, _⟩; cases h1
    | some keys =>
      simp only []
      by_cases hk : keys.any (·.blob = .key c.key) = true
      · simp only [hk, ↓reduceIte]
        refine ⟨⟨fun _ => ⟨keys, rfl, hk⟩, fun _ => trivial⟩, fun _ => ?_⟩
        simp [hasCert]
      · simp only [hk, Bool.false_eq_true, ↓reduceIte]
        refine ⟨⟨fun h => (by cases h), ?_⟩, fun h => (by cases h)⟩
        rintro ⟨keys', h1, h2⟩
        simp only [Option.some.injEq] at h1; subst h1; exact absurd h2 hk

theorem c10_addhard_again (s : State) (now : Nat) (f : Faults) (c : Cert) (sfx : Bytes)
    (hl : s.locked = false) (hm : hasCert s c = true) :
    step s now f (.addHardCert (.cert c) sfx) = (s, .ok) := by
  simp [step, hl, hm]

theorem c10_addhard_plain_key (s : State) (now : Nat) (f : Faults) (k : Nat) (sfx : Bytes) :
    (step s now f (.addHardCert (.key k) sfx)).2 = .err := by
  simp only [step]; split <;> rfl

/-- Signing with an in-memory hardware certificate asks the underlying agent for the plain key the
    certificate certifies, so a signature that comes back verifies under the certificate's key. -/
theorem c10_sign_hard (s : State) (now : Nat) (f : Faults) (c : Cert) (k : Nat)
    (hl : s.locked = false) (keys : List Ident) (hf : (filter s now f).2 = some keys)
    (hm : hasCert (filter s now f).1 c = true)
    (h : (step s now f (.sign (.cert c))).2 = .signed (.ok k)) : k = c.key := by
  simp only [step, hl, Bool.false_eq_true, ↓reduceIte] at h
  cases hfl : filter s now f with
  | mk s' r =>
    rw [hfl] at hf hm h
    simp only [] at hf hm h
    subst hf
    simp only [hm, ↓reduceIte, signOut] at h
    unfold UAgent.sign at h
    dsimp only at h
    split at h
    · rename_i u1 k' heq
      -- the request that went out named the plain key `c.key`
      repeat' split at heq
      all_goals simp_all [Blob.pub]
    · simp at h

/-- Removing an in-memory certificate makes it disappear even when the underlying agent fails
    (it never held it); remove-all empties the table whatever the underlying agent answers. -/
theorem c10_remove_mem (s : State) (now : Nat) (f : Faults) (c : Cert)
    (hl : s.locked = false) (hm : hasCert s c = true) :
    (step s now f (.remove (.cert c))).2 = .ok ∧
    hasCert (step s now f (.remove (.cert c))).1 c = false := by
  have hok := removeCore_inMem_ok s f c hm
  have hrm := removeCore_removes s f c hok
  simp only [step, hl, Bool.false_eq_true, ↓reduceIte]
  cases hr : removeCore s f (.cert c) with
  | mk s' ok =>
    rw [hr] at hok hrm; simp only at hok hrm; subst hok
    refine ⟨rfl, ?_⟩
    simp only [hasCert, List.any_eq_false]
    intro mc hmc; simpa using hrm mc hmc

theorem c10_remove_all (s : State) (now : Nat) (f : Faults) (hl : s.locked = false) :
    (step s now f .removeAll).1.certs = [] ∧ (step s now f .removeAll).1.cache = [] := by
  simp only [step, hl, Bool.false_eq_true, ↓reduceIte]; split <;> exact ⟨rfl, rfl⟩

/-- Add and remove of identities of the underlying agent have exactly the effect (and result) they
    have on the underlying agent. -/
theorem c10_passthrough_add (s : State) (now : Nat) (f : Faults) (id : Ident) (hl : s.locked = false) :
    (step s now f (.add id)).1.u = (s.u.add f id).1 ∧
    ((step s now f (.add id)).2 = .ok ↔ (s.u.add f id).2 = true) ∧
    (step s now f (.add id)).1.certs = s.certs := by
  simp only [step, hl, Bool.false_eq_true, ↓reduceIte]
  cases h : s.u.add f id with
  | mk u' ok => cases ok <;> simp

theorem c10_passthrough_remove (s : State) (now : Nat) (f : Faults) (b : Blob) (hl : s.locked = false)
    (hnm : ∀ c, b = .cert c → hasCert s c = false) :
    (step s now f (.remove b)).1.u = (s.u.remove f b).1 ∧
    ((step s now f (.remove b)).2 = .ok ↔ (s.u.remove f b).2 = true) := by
  simp only [step, hl, Bool.false_eq_true, ↓reduceIte]
  cases b with
  | key k =>
    unfold removeCore
    simp only []
    cases h : s.u.remove f (.key k) with
    | mk u' ok => cases ok <;> simp [dropCache_u]
  | cert c =>
    have hin := hnm c rfl
    unfold removeCore
    simp only [hin]
    have : ({ s with certs := s.certs.filter (·.cert ≠ c) } : State).u = s.u := rfl
    rw [this]
    cases h : s.u.remove f (.cert c) with
    | mk u' ok => cases ok <;> simp [dropCache_u]

/-- Under every fault set, a still-valid in-memory certificate whose key the underlying agent
    lists (or whose listing is empty / fails) survives listing, signer listing and signing. -/
theorem c10_faults_keep_valid (s : State) (now : Nat) (f : Faults) (mc : MemCert) (hm : mc ∈ s.certs)
    (hv : validAt mc.cert now = true)
    (hkey : ∀ keys, (s.u.list f).2 = some keys → keys = [] ∨ mc.cert.key ∈ keys.map (·.blob.pub)) :
    mc ∈ (filter s now f).1.certs := filter_keeps s now f mc hm hv hkey

/-- Construction: a failing listing in no-upstream mode is an error, not a crash; with the mode
    off the underlying agent is not consulted at all. -/
theorem c10_new (u : UAgent) (f : Faults) :
    ((u.list f).2 = none → Shim.new true u f = none) ∧ (Shim.new false u f).isSome = true := by
  constructor
  · intro h
    unfold Shim.new
    cases hl : u.list f with
    | mk u1 r => rw [hl] at h; simp only at h; subst h; simp
  · simp [Shim.new]

/-- Raw requests are relayed byte-for-byte: what goes to the underlying agent is exactly the frame
    of the request, and what comes back is exactly the body of the next frame on the connection. -/
theorem c10_forward (req reply rest : Bytes) (h1 : req.length ≤ Wire.maxAgentResponseBytes)
    (h2 : reply.length ≤ Wire.maxAgentResponseBytes) :
    Wire.frame req = some (Wire.be32 req.length ++ req) ∧
    Wire.readFrame (Wire.be32 reply.length ++ reply ++ rest) = .frame reply rest reply.length := by
  refine ⟨?_, Wire.readFrame_frame reply rest h2⟩
  unfold Wire.frame
  have : ¬ req.length > Wire.maxAgentResponseBytes := Nat.not_lt.mpr h1
  simp [this]

/-- A raw request never touches the shim's own state — certificate tables, cache, lock flag, mode —
    whatever the underlying agent does with it, locked or not; only the connection may be lost. -/
theorem c10_forward_state (s : State) (now : Nat) (f : Faults) (req : Bytes) :
    let s' := (step s now f (.forward req)).1
    s'.certs = s.certs ∧ s'.cache = s.cache ∧ s'.locked = s.locked ∧ s'.noUp = s.noUp ∧
    s'.u.idents = s.u.idents ∧ s'.u.locked = s.u.locked := by
  simp only [step]
  split
  · exact ⟨rfl, rfl, rfl, rfl, rfl, rfl⟩
  · split <;> exact ⟨rfl, rfl, rfl, rfl, rfl, rfl⟩

/-- … and when the underlying agent answers, the caller gets that answer as it is. -/
theorem c10_forward_reply (s : State) (now : Nat) (req : Bytes) (hopen : s.u.closed = false) :
    (step s now noFaults (.forward req)).2 = .forwarded (0xAA :: req) := by
  simp [step, hopen, noFaults]

/-- A sign request with signature flags does to the state exactly what the plain request does, and
    it succeeds only when the plain request does, with the same key: a failure of the underlying
    agent is never turned into a success by asking again in another form. -/
theorem c10_sign_flags (rsaKey : Nat → Bool) (s : State) (now : Nat) (f : Faults) (b : Blob) :
    (stepSignFlags rsaKey s now f b).1 = (step s now f (.sign b)).1 ∧
    ∀ k, (stepSignFlags rsaKey s now f b).2 = .signed (.ok k) →
      (step s now f (.sign b)).2 = .signed (.ok k) ∧ rsaKey k = true := by
  unfold stepSignFlags
  split
  · rename_i s' k heq
    rw [heq]
    refine ⟨rfl, ?_⟩
    intro k'
    by_cases hr : rsaKey k = true
    · simp only [hr, if_true]
      intro h
      simp only [Out.signed.injEq, SignRes.ok.injEq] at h
      subst h
      exact ⟨rfl, hr⟩
    · simp only [hr]
      intro h
      simp at h
  · rename_i r hne
    refine ⟨rfl, ?_⟩
    intro k h
    exact absurd h (by
      intro h'
      exact hne _ k (by rw [← h']))

end C10
end Ysshra
