import Ysshra.Lemmas.Shim
/-
C09 — no-upstream mode hides the underlying agent's YSSHCA certificates, nothing else.
"Decodes as a YSSHCA KeyID" is `Cert.ysshca`, i.e. `keyid.Unmarshal` succeeds (C05 says when).
-/
namespace Ysshra
namespace C09
open Shim

/-- the cache is empty with the mode off and only ever holds YSSHCA certificates -/
structure Inv (s : State) : Prop where
  off : s.noUp = false → s.cache = []
  ys : ∀ c ∈ s.cache, c.ysshca = true

theorem Inv.of_shrinks {s s' : State} (h : Shrinks s s') (hi : Inv s) : Inv s' := by
  constructor
  · intro hn
    have := hi.off (by rw [← h.noUp]; exact hn)
    cases hc : s'.cache with
    | nil => rfl
    | cons c r => have := h.cache c (by simp [hc]); simp_all
  · intro c hc; exact hi.ys c (h.cache c hc)

theorem Inv.of_eq_tables {s s' : State} (hn : s'.noUp = s.noUp) (hc : s'.cache = s.cache) (hi : Inv s) : Inv s' :=
  ⟨fun h => by rw [hc]; exact hi.off (by rw [← hn]; exact h), fun c h => hi.ys c (by rw [← hc]; exact h)⟩

/-- what the visible part of a listing does to the state: the cache grows by YSSHCA certificates,
    and only in no-upstream mode -/
theorem listVisible_spec (s : State) (keys : List Ident) :
    (listVisible s keys).1.noUp = s.noUp ∧ (listVisible s keys).1.certs = s.certs ∧
    (listVisible s keys).1.locked = s.locked ∧ (listVisible s keys).1.u = s.u ∧
    (s.noUp = false → (listVisible s keys).1.cache = s.cache) ∧
    (∀ c ∈ (listVisible s keys).1.cache, c ∈ s.cache ∨ c.ysshca = true) := by
  induction keys generalizing s with
  | nil => exact ⟨rfl, rfl, rfl, rfl, fun _ => rfl, fun c h => .inl h⟩
  | cons id r ih =>
    unfold listVisible
    cases hb : id.blob with
    | key k =>
      simp only []
      exact ih s
    | cert c =>
      simp only []
      split
      · exact ih s
      · split
        · rename_i hys
          obtain ⟨h1, h2, h3, h4, h5, h6⟩ := ih { s with cache := s.cache ++ [c] }
          simp only [Bool.and_eq_true] at hys
          refine ⟨h1, h2, h3, h4, ?_, ?_⟩
          · intro hn; simp [hn] at hys
          · intro x hx
            rcases h6 x hx with h | h
            · simp only [List.mem_append, List.mem_singleton] at h
              rcases h with h | h
              · exact .inl h
              · exact .inr (h ▸ hys.2)
            · exact .inr h
        · exact ih s

theorem listVisible_inv (s : State) (keys : List Ident) (hi : Inv s) : Inv (listVisible s keys).1 := by
  obtain ⟨h1, _, _, _, h5, h6⟩ := listVisible_spec s keys
  constructor
  · intro hn; rw [h1] at hn; rw [h5 hn]; exact hi.off hn
  · intro c hc; rcases h6 c hc with h | h
    · exact hi.ys c h
    · exact h

/-- In no-upstream mode, no certificate listed from the underlying agent decodes as a YSSHCA
    KeyID — whether it was cached at start-up or shows up later. -/
theorem c09_list_hidden (s : State) (keys : List Ident) (hn : s.noUp = true) :
    ∀ id ∈ (listVisible s keys).2, ∀ c, id.blob = .cert c → c.ysshca = false := by
  induction keys generalizing s with
  | nil => simp [listVisible]
  | cons id r ih =>
    unfold listVisible
    cases hb : id.blob with
    | key k =>
      simp only []
      intro x hx c hc
      simp only [List.mem_cons] at hx
      rcases hx with rfl | hx
      · rw [hb] at hc; cases hc
      · exact ih s hn x hx c hc
    | cert c0 =>
      simp only []
      split
      · exact ih s hn
      · split
        · exact ih _ (by simpa using hn)
        · rename_i hnot
          intro x hx c hc
          simp only [List.mem_cons] at hx
          rcases hx with rfl | hx
          · simp only [Blob.cert.injEq] at hc; subst hc
            simp only [hn, Bool.true_and, Bool.not_eq_true] at hnot; exact hnot
          · exact ih s hn x hx c hc

/-- Plain keys and certificates with other KeyIDs held by the underlying agent are all listed
    (certificates relabelled, blobs unchanged), in every mode, as long as the cache holds only
    YSSHCA certificates. -/
theorem c09_rest_visible (s : State) (keys : List Ident) (hys : ∀ c ∈ s.cache, c.ysshca = true)
    (id : Ident) (hid : id ∈ keys)
    (hvis : ∀ c, id.blob = .cert c → c.ysshca = false) :
    ∃ id' ∈ (listVisible s keys).2, id'.blob = id.blob := by
  induction keys generalizing s with
  | nil => cases hid
  | cons x r ih =>
    unfold listVisible
    simp only [List.mem_cons] at hid
    cases hb : x.blob with
    | key k =>
      simp only []
      rcases hid with rfl | hid
      · exact ⟨id, by simp, rfl⟩
      · obtain ⟨id', h1, h2⟩ := ih s hys hid; exact ⟨id', by simp [h1], h2⟩
    | cert c0 =>
      simp only []
      rcases hid with rfl | hid
      · have hc0 : c0.ysshca = false := hvis c0 hb
        have hnc : s.cache.contains c0 = false := by
          cases hx : s.cache.contains c0
          · rfl
          · have := hys c0 (by simpa using hx); simp_all
        simp only [hnc, Bool.false_eq_true, ↓reduceIte, hc0, Bool.and_false]
        exact ⟨⟨.cert c0, listComment c0 id.comment⟩, by simp, hb.symm⟩
      · split
        · exact ih s hys hid
        · split
          · rename_i h
            apply ih _ _ hid
            intro c hc
            simp only [List.mem_append, List.mem_singleton] at hc
            rcases hc with hc | hc
            · exact hys c hc
            · simp only [Bool.and_eq_true] at h; exact hc ▸ h.2
          · obtain ⟨id', h1, h2⟩ := ih s hys hid; exact ⟨id', by simp [h1], h2⟩

/-- With the mode off nothing is hidden: every underlying identity is listed. -/
theorem c09_mode_off (s : State) (keys : List Ident) (hn : s.noUp = false) (hc : s.cache = []) :
    (listVisible s keys).2.map (·.blob) = keys.map (·.blob) := by
  induction keys with
  | nil => simp [listVisible]
  | cons x r ih =>
    unfold listVisible
    cases hb : x.blob with
    | key k => simp [hb, ih]
    | cert c0 => simp [hc, hn, ih, hb]

/-- A signing request naming a hidden certificate is refused as key-not-found — unless the same
    certificate is an in-memory hardware certificate. -/
theorem c09_sign_hidden (s : State) (now : Nat) (f : Faults) (c : Cert)
    (hl : s.locked = false) (hn : s.noUp = true) (hy : c.ysshca = true)
    (hf : ∃ keys, (filter s now f).2 = some keys) (hm : hasCert (filter s now f).1 c = false) :
    (step s now f (.sign (.cert c))).2 = .signed .notFound := by
  obtain ⟨keys, hk⟩ := hf
  have hn' : (filter s now f).1.noUp = true := by rw [(filter_shrinks s now f).noUp]; exact hn
  simp only [step, hl, Bool.false_eq_true, ↓reduceIte]
  cases hfl : filter s now f with
  | mk s' r =>
    rw [hfl] at hk hm hn'
    simp only [] at hk hm hn'
    subst hk
    simp [hm, hy, hn']

/-- Hidden certificates can still be removed: `remove` reaches the underlying agent and drops
    the cache entry. -/
theorem c09_remove_hidden (s : State) (f : Faults) (c : Cert)
    (hok : (s.u.remove f (.cert c)).2 = true) (hm : hasCert s c = false) (hn : s.noUp = true) :
    (removeCore s f (.cert c)).2 = true ∧ c ∉ (removeCore s f (.cert c)).1.cache ∧
    (removeCore s f (.cert c)).1.u = (s.u.remove f (.cert c)).1 := by
  have hfilt : s.certs.filter (fun x => decide (x.cert ≠ c)) = s.certs := by
    apply List.filter_eq_self.2
    intro mc hmc
    simp only [hasCert, List.any_eq_false] at hm
    have := hm mc hmc
    simpa using this
  unfold removeCore
  simp only [hm, hfilt]
  cases hr : s.u.remove f (.cert c) with
  | mk u' ok =>
    rw [hr] at hok; simp only at hok; subst hok
    have hs : ({ s with certs := s.certs } : State) = s := rfl
    simp only [dropCache, hn, ↓reduceIte]
    refine ⟨trivial, ?_, trivial⟩
    simp

/-- The invariant holds at construction in both modes … -/
theorem c09_inv_new (noUp : Bool) (u : UAgent) (f : Faults) (s : State) (h : Shim.new noUp u f = some s) : Inv s := by
  unfold Shim.new at h
  cases noUp with
  | false => simp at h; subst h; exact ⟨fun _ => rfl, by simp⟩
  | true =>
    simp only [Bool.not_true, Bool.false_eq_true, ↓reduceIte] at h
    cases hl : u.list f with
    | mk u1 r =>
      rw [hl] at h
      cases r with
      | none => simp at h
      | some ids =>
        simp only [Option.some.injEq] at h; subst h
        refine ⟨by simp, ?_⟩
        intro c hc
        simp only [List.mem_filterMap] at hc
        obtain ⟨id, _, hid⟩ := hc
        cases hb : id.blob with
        | key k => simp [hb] at hid
        | cert c0 =>
          simp only [hb] at hid
          split at hid
          · rename_i hy; simp only [Option.some.injEq] at hid; subst hid; exact hy
          · cases hid


theorem signersVisible_spec (s : State) (ids : List Ident) :
    (signersVisible s ids).1.noUp = s.noUp ∧
    (s.noUp = false → (signersVisible s ids).1.cache = s.cache) ∧
    (∀ c ∈ (signersVisible s ids).1.cache, c ∈ s.cache ∨ c.ysshca = true) := by
  induction ids generalizing s with
  | nil => exact ⟨rfl, fun _ => rfl, fun c h => .inl h⟩
  | cons id r ih =>
    unfold signersVisible
    split
    · exact ih s
    · rename_i hnu
      cases hb : id.blob with
      | key k => simp only []; exact ih s
      | cert c =>
        simp only []
        split
        · exact ih s
        · split
          · rename_i hys
            obtain ⟨h1, h2, h3⟩ := ih { s with cache := s.cache ++ [c] }
            refine ⟨h1, ?_, ?_⟩
            · intro hn; simp [hn] at hnu
            · intro x hx
              rcases h3 x hx with h | h
              · simp only [List.mem_append, List.mem_singleton] at h
                rcases h with h | h
                · exact .inl h
                · exact .inr (h ▸ hys)
              · exact .inr h
          · exact ih s

theorem signersVisible_inv (s : State) (ids : List Ident) (hi : Inv s) : Inv (signersVisible s ids).1 := by
  obtain ⟨h1, h5, h6⟩ := signersVisible_spec s ids
  constructor
  · intro hn; rw [h1] at hn; rw [h5 hn]; exact hi.off hn
  · intro c hc; rcases h6 c hc with h | h
    · exact hi.ys c h
    · exact h

/-- The signer listing applies the same rule: in no-upstream mode no signer from the underlying
    agent is a YSSHCA certificate. -/
theorem c09_signers_hidden (s : State) (ids : List Ident) (hn : s.noUp = true) :
    ∀ b ∈ (signersVisible s ids).2, ∀ c, b = .cert c → c.ysshca = false := by
  induction ids generalizing s with
  | nil => simp [signersVisible]
  | cons id r ih =>
    unfold signersVisible
    simp only [hn, Bool.not_true, Bool.false_eq_true, ↓reduceIte]
    cases hb : id.blob with
    | key k =>
      simp only []
      intro b hbm c hc
      simp only [List.mem_cons] at hbm
      rcases hbm with rfl | hbm
      · cases hc
      · exact ih s hn b hbm c hc
    | cert c0 =>
      simp only []
      split
      · exact ih s hn
      · split
        · exact ih _ (by simpa using hn)
        · rename_i hnot
          intro b hbm c hc
          simp only [List.mem_cons] at hbm
          rcases hbm with rfl | hbm
          · simp only [Blob.cert.injEq] at hc; subst hc; simpa using hnot
          · exact ih s hn b hbm c hc

/-- … and every operation preserves it, at any time and under any faults: the cache stays empty
    with the mode off and holds only YSSHCA certificates with the mode on. -/
theorem c09_inv_step (s : State) (now : Nat) (f : Faults) (op : Op) (hi : Inv s) : Inv (step s now f op).1 := by
  have hfil0 := Inv.of_shrinks (filter_shrinks s now f) hi
  -- helper: any state with the same mode and cache as one satisfying the invariant
  have same : ∀ (a b : State), b.noUp = a.noUp → b.cache = a.cache → Inv a → Inv b :=
    fun a b h1 h2 h3 => Inv.of_eq_tables h1 h2 h3
  cases op with
  | list =>
    simp only [step]
    split
    · exact hi
    · cases hf : filter s now f with
      | mk s' r =>
        have hfil : Inv s' := by rw [hf] at hfil0; exact hfil0
        cases r with
        | none => exact hfil
        | some keys => exact listVisible_inv s' keys hfil
  | signers =>
    simp only [step]
    split
    · exact hi
    · cases hf : filter s now f with
      | mk s' r =>
        have hfil : Inv s' := by rw [hf] at hfil0; exact hfil0
        cases r with
        | none => exact hfil
        | some keys =>
          dsimp only
          cases hl : s'.u.list f with
          | mk u' r2 =>
            cases r2 with
            | none => exact same s' _ rfl rfl hfil
            | some ids => exact signersVisible_inv _ ids (same s' _ rfl rfl hfil)
  | sign b =>
    simp only [step]
    split
    · exact hi
    · cases hf : filter s now f with
      | mk s' r =>
        have hfil : Inv s' := by rw [hf] at hfil0; exact hfil0
        have hso : ∀ b', Inv (signOut s' f b').1 := by
          intro b'; unfold signOut; split <;> exact same s' _ rfl rfl hfil
        cases r with
        | none => exact hfil
        | some keys =>
          dsimp only
          cases b with
          | key k => exact hso _
          | cert c =>
            dsimp only
            split
            · exact hso _
            · split
              · exact hfil
              · exact hso _
  | add id =>
    simp only [step]
    split
    · exact hi
    · split <;> exact same s _ rfl rfl hi
  | addHardCert b sfx =>
    simp only [step]
    split
    · exact hi
    · cases b with
      | key k => exact hi
      | cert c =>
        dsimp only
        split
        · exact hi
        · split
          · exact same s _ rfl rfl hi
          · split <;> exact same s _ rfl rfl hi
  | remove b =>
    simp only [step]
    split
    · exact hi
    · have := Inv.of_shrinks (removeCore_shrinks s f b) hi
      split <;> (rename_i h; rw [h] at this; exact this)
  | removeAll =>
    simp only [step]
    split
    · exact hi
    · split <;> exact ⟨fun _ => rfl, by simp⟩
  | lock p =>
    simp only [step]
    split
    · exact hi
    · split <;> exact same s _ rfl rfl hi
  | unlock p =>
    simp only [step]
    split
    · exact hi
    · split <;> exact same s _ rfl rfl hi
  | uAdd id => simp only [step]; split <;> first | exact hi | exact same s _ rfl rfl hi
  | uRemove b => simp only [step]; split <;> first | exact hi | exact same s _ rfl rfl hi
  | uRemoveAll => simp only [step]; split <;> first | exact hi | exact same s _ rfl rfl hi
  | forward req =>
    simp only [step]
    split
    · exact hi
    · split <;> first | exact hi | exact same s _ rfl rfl hi
  | close =>
    simp only [step]
    split
    · exact hi
    · split
      · exact hi
      · exact same s _ rfl rfl hi

/-- a history: operations with their times and fault sets -/
def runHist (s : State) : List (Op × Nat × Faults) → State
  | [] => s
  | (op, now, f) :: r => runHist (step s now f op).1 r

theorem runHist_inv (s : State) (hi : Inv s) (hist : List (Op × Nat × Faults)) : Inv (runHist s hist) := by
  induction hist generalizing s with
  | nil => exact hi
  | cons x r ih =>
    obtain ⟨op, now, f⟩ := x
    exact ih _ (c09_inv_step s now f op hi)

/-- In every reachable state — any mode, any initial underlying agent, any history with any
    times and faults — the cache is empty when the mode is off (so nothing is hidden), and holds
    only certificates that decode as YSSHCA KeyIDs when it is on (so nothing else is hidden). -/
theorem c09_reachable (noUp : Bool) (u : UAgent) (f0 : Faults) (s0 : State)
    (h : Shim.new noUp u f0 = some s0) (hist : List (Op × Nat × Faults)) : Inv (runHist s0 hist) :=
  runHist_inv s0 (c09_inv_new noUp u f0 s0 h) hist

def exCert : Cert := ⟨1, 1, 0, 2 ^ 64 - 1, true, some [0x54]⟩
def exU : UAgent := ⟨[⟨.key 1, []⟩, ⟨.cert exCert, []⟩], false, [], false⟩

/-- Non-vacuity: a YSSHCA certificate in the underlying agent is hidden in no-upstream mode and
    listed with the mode off. -/
example : (Shim.new true exU noFaults).map (fun s => (step s 1000 noFaults .list).2) =
    some (.listing [⟨.key 1, []⟩]) := by decide
example : (Shim.new false exU noFaults).map (fun s => (step s 1000 noFaults .list).2) =
    some (.listing [⟨.key 1, []⟩, ⟨.cert exCert, [0x54]⟩]) := by decide

end C09
end Ysshra
