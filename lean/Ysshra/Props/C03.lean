import Ysshra.Lemmas.Gensign
import Ysshra.Lemmas.Gensign2
/-
C03 — provisioned credentials are usable, key-bound, ephemeral and non-destructive.
-/
namespace Ysshra
namespace C03
open Gensign

/-- The agent lifetime `uint32(validity) + uint32(3600)`: for every validity from one second to
    ten years it is finite (non-zero) and not shorter than the certificate validity. -/
theorem c03_lifetime (v : Nat) (h1 : 1 ≤ v) (h2 : v ≤ 315576000) :
    lifetimeOf v = v + 3600 ∧ lifetimeOf v ≠ 0 ∧ v ≤ lifetimeOf v := by
  unfold lifetimeOf; omega

/-- the bound is about the range the statement names: at 2^32 − 3600 the sum wraps to 0, which an
    agent reads as "no lifetime" (outside one second … ten years; recorded as a remark) -/
example : lifetimeOf (2 ^ 32 - 3600) = 0 := by decide

/-- The private key is inserted with that lifetime … -/
theorem c03_private_key_add (conf : Conf) (p : Param) (w : World) :
    ∀ e ∈ (regularGenerate conf p w).2.1,
      ∃ ok, e = .agentAdd (.fresh w.rng) none (lifetimeOf conf.validity) privateKeyLabel ok := by
  unfold regularGenerate
  simp only []
  split
  · intro e he; simp at he; exact ⟨false, he⟩
  · split <;> (intro e he; simp at he; exact ⟨true, he⟩)

/-- … and every certificate is stored together with the same private key, under the handler's
    certificate label, with the same finite lifetime; everything else `AddCertsToAgent` sends is a
    listing or a removal. -/
theorem c03_cert_adds (conf : Conf) (k : Key) (certs : List (Option CertV)) (w : World) :
    ∀ e ∈ (addCerts conf k certs w).2.1,
      (∃ ok, e = .agentList ok) ∨ (∃ k' c ok, e = .agentRemove k' c ok) ∨
      (∃ c ok, e = .agentAdd k (some c) (lifetimeOf conf.validity) certLabel ok) := by
  unfold addCerts
  cases hl : agentList w.agent with
  | mk a r =>
    cases r with
    | none => intro e he; simp at he; exact .inl ⟨false, he⟩
    | some ids =>
      simp only []
      have h1 := removes_events a [.agentList true] ids
        (fun e => (∃ ok, e = .agentList ok) ∨ (∃ k' c ok, e = .agentRemove k' c ok) ∨
          (∃ c ok, e = .agentAdd k (some c) (lifetimeOf conf.validity) certLabel ok))
        (by intro e he; simp at he; exact .inl ⟨true, he⟩)
        (fun k' c ok => .inr (.inl ⟨k', c, ok, rfl⟩))
      cases hr : addCerts.removes a [.agentList true] ids with
      | mk a1 r1 =>
        obtain ⟨tr1, ok1⟩ := r1
        rw [hr] at h1
        cases ok1
        · exact h1
        · simp only []
          have h2 := adds_events k (lifetimeOf conf.validity) a1 tr1 certs _ h1
            (fun c ok => .inr (.inr ⟨c, ok, rfl⟩))
          cases ha : addCerts.adds k (lifetimeOf conf.validity) a1 tr1 certs with
          | mk a2 r2 => obtain ⟨tr2, ok2⟩ := r2; rw [ha] at h2; exact h2

/-- no two identities of an agent share their public blob (x/crypto's keyring replaces on add) -/
def uniqueBlobs (ids : List AIdent) : Prop :=
  ∀ x ∈ ids, ∀ y ∈ ids, x.key = y.key → x.cert = y.cert → x = y

/-- Identities that do not carry the handler's label — plain keys, foreign certificates, comments
    that are near-misses of the label — are never removed or altered by `AddCertsToAgent`, whether
    it succeeds or fails at any request. -/
theorem c03_foreign_untouched (conf : Conf) (k : Key) (certs : List (Option CertV)) (w : World) (x : AIdent)
    (hx : x ∈ w.agent.idents) (hf : containsSub handlerName x.comment = false) (hk : x.key ≠ k)
    (hu : uniqueBlobs w.agent.idents) :
    x ∈ (addCerts conf k certs w).1.agent.idents := by
  unfold addCerts
  cases hl : agentList w.agent with
  | mk a r =>
    have ha : a.idents = w.agent.idents := by
      unfold agentList at hl; simp only [] at hl
      split at hl <;> (simp only [Prod.mk.injEq] at hl; rw [← hl.1]; rfl)
    cases r with
    | none => simpa [ha] using hx
    | some ids =>
      have hids : ids = w.agent.idents := by
        unfold agentList at hl; simp only [] at hl
        split at hl
        · simp at hl
        · simp only [Prod.mk.injEq, Option.some.injEq] at hl; rw [← hl.2]; rfl
      simp only []
      have h1 : x ∈ (addCerts.removes a [.agentList true] ids).1.idents := by
        apply removes_keeps_foreign a _ ids x (by rw [ha]; exact hx) hf
        intro y hy hc hsame
        have := hu x hx y (by rw [← hids]; exact hy) hsame.1 hsame.2
        rw [this] at hf; rw [hf] at hc; cases hc
      cases hr : addCerts.removes a [.agentList true] ids with
      | mk a1 r1 =>
        obtain ⟨tr1, ok1⟩ := r1
        rw [hr] at h1
        cases ok1
        · exact h1
        · simp only []
          have h2 := adds_keeps k (lifetimeOf conf.validity) a1 tr1 certs x h1 hk
          cases hadd : addCerts.adds k (lifetimeOf conf.validity) a1 tr1 certs with
          | mk a2 r2 => obtain ⟨tr2, ok2⟩ := r2; rw [hadd] at h2; exact h2

/-- what a successful `AddCertsToAgent` went through: the listing, a successful refresh over it,
    successful adds -/
theorem addCerts_ok_shape (conf : Conf) (k : Key) (certs : List (Option CertV)) (w : World)
    (h : (addCerts conf k certs w).2.2 = true) :
    ∃ a a1 tr1, (addCerts.removes a [.agentList true] a.idents) = (a1, tr1, true) ∧
      (addCerts.adds k (lifetimeOf conf.validity) a1 tr1 certs).2.2 = true ∧
      (addCerts conf k certs w).1.agent = (addCerts.adds k (lifetimeOf conf.validity) a1 tr1 certs).1 := by
  unfold addCerts at h ⊢
  cases hl : agentList w.agent with
  | mk a r =>
    cases r with
    | none => rw [hl] at h; simp at h
    | some ids =>
      have hids : ids = a.idents := by
        unfold agentList at hl; simp only [] at hl
        split at hl
        · simp at hl
        · simp only [Prod.mk.injEq, Option.some.injEq] at hl; rw [← hl.2, ← hl.1]
      subst hids
      rw [hl] at h
      simp only [] at h ⊢
      cases hr : addCerts.removes a [.agentList true] a.idents with
      | mk a1 r1 =>
        obtain ⟨tr1, ok1⟩ := r1
        rw [hr] at h
        cases ok1 with
        | false => simp at h
        | true =>
          simp only [] at h ⊢
          refine ⟨a, a1, tr1, hr, ?_, ?_⟩
          · cases hadd : addCerts.adds k (lifetimeOf conf.validity) a1 tr1 certs with
            | mk a2 r2 => obtain ⟨tr2, ok2⟩ := r2; rw [hadd] at h; exact h
          · cases hadd : addCerts.adds k (lifetimeOf conf.validity) a1 tr1 certs with
            | mk a2 r2 => obtain ⟨tr2, ok2⟩ := r2; rfl

/-- **After a successful run** the agent holds every certificate the CA returned for the new key,
    each stored together with that private key (`key = k`), under the certificate label, with the
    finite lifetime. -/
theorem c03_success_stores (conf : Conf) (k : Key) (certs : List (Option CertV)) (w : World)
    (h : (addCerts conf k certs w).2.2 = true) :
    ∀ c, some c ∈ certs →
      certRec k (lifetimeOf conf.validity) c ∈ (addCerts conf k certs w).1.agent.idents := by
  obtain ⟨a, a1, tr1, _, hadd, hfin⟩ := addCerts_ok_shape conf k certs w h
  intro c hc
  rw [hfin]
  exact adds_ok_present k _ a1 tr1 certs hadd c hc

/-- **At most one generation**: after a successful run every identity that carries the handler's
    label is a certificate of this run (those of earlier runs are gone). -/
theorem c03_one_generation (conf : Conf) (k : Key) (certs : List (Option CertV)) (w : World)
    (h : (addCerts conf k certs w).2.2 = true) :
    ∀ y ∈ (addCerts conf k certs w).1.agent.idents, containsSub handlerName y.comment = true →
      ∃ c, some c ∈ certs ∧ y = certRec k (lifetimeOf conf.validity) c := by
  obtain ⟨a, a1, tr1, hrem, _, hfin⟩ := addCerts_ok_shape conf k certs w h
  intro y hy hlab
  rw [hfin] at hy
  rcases adds_new k _ a1 tr1 certs y hy with hold | hnew
  · -- it was there after the refresh: but the refresh left nothing labelled
    have hnl := removes_ok_no_label a [.agentList true] (by rw [hrem])
    rw [hrem] at hnl
    have := hnl y hold
    rw [this] at hlab; cases hlab
  · exact hnew

/-- A run of the regular handler that **fails before or during signing** — request generation
    fails, or the CA fails or panics — removes nothing: every identity the agent held is still
    there (only the new private key may have been added). -/
theorem c03_failed_signing_keeps (conf : Conf) (p : Param) (w : World) (x : AIdent)
    (hx : x ∈ w.agent.idents)
    (hfresh : ∀ n, w.rng ≤ n → x.key ≠ .fresh n)
    (hfail : (run conf p [.regular] w).2.2 ≠ .ok) (hnot : (run conf p [.regular] w).2.2 ≠ .err .agentOpCert) :
    x ∈ (run conf p [.regular] w).1.agent.idents := by
  revert hfail hnot
  unfold run selectHandler authOf
  have hra := regularAuth_trace conf p w
  cases hauth : regularAuth conf p w with
  | mk w1 r =>
    obtain ⟨tr, res⟩ := r
    rw [hauth] at hra
    have hx1 : x ∈ w1.agent.idents := by rw [hra.2.1]; exact hx
    cases res with
    | some e =>
      have : e = .handlerAuthN := regularAuth_err_kind conf p w e (by rw [hauth])
      subst this
      intro _ _
      simpa [selectHandler] using hx1
    | none =>
      simp only []
      -- generation adds the fresh private key and nothing else
      have hgen : x ∈ (regularGenerate conf p w1).1.agent.idents := by
        unfold regularGenerate
        simp only []
        have hk : ¬ (x.key = Key.fresh w1.rng ∧ x.cert = none) := fun e => hfresh w1.rng hra.2.2.2.2 e.1
        have hkeep := agentAdd_keeps w1.agent ⟨.fresh w1.rng, none, privateKeyLabel, lifetimeOf conf.validity⟩ x hx1 hk
        cases hadd : agentAdd w1.agent ⟨.fresh w1.rng, none, privateKeyLabel, lifetimeOf conf.validity⟩ with
        | mk a ok =>
          rw [hadd] at hkeep
          cases ok
          · exact hkeep
          · simp only []; split <;> exact hkeep
      cases hg : regularGenerate conf p w1 with
      | mk w2 r2 =>
        obtain ⟨tr2, res2⟩ := r2
        rw [hg] at hgen
        cases res2 with
        | error e => intro _ _; exact hgen
        | ok kc =>
          obtain ⟨k, csr⟩ := kc
          simp only []
          -- the CA calls do not touch the agent
          have hsa : ∀ (n : Nat) (w' : World), (signAll k n w').1.agent = w'.agent := by
            intro n
            induction n with
            | zero => intro w'; rfl
            | succ m ih =>
              intro w'
              unfold signAll
              have hca : (caSign k w').1.agent = w'.agent := by
                unfold caSign; split
                · rfl
                · split <;> rfl
              cases hc : caSign k w' with
              | mk wa ra =>
                obtain ⟨tra, resa⟩ := ra
                rw [hc] at hca
                cases resa with
                | error e => exact hca
                | ok c1 =>
                  simp only []
                  have := ih wa
                  cases hs : signAll k m wa with
                  | mk wb rb =>
                    obtain ⟨trb, resb⟩ := rb
                    rw [hs] at this
                    cases resb <;> (simp only []; rw [this, hca])
          cases hsg : signAll k 1 w2 with
          | mk w3 r3 =>
            obtain ⟨tr3, res3⟩ := r3
            have hag := hsa 1 w2
            rw [hsg] at hag
            cases res3 with
            | error e => cases e <;> (intro _ _; simp only []; rw [hag]; exact hgen)
            | ok certs =>
              simp only []
              cases hac : addCerts conf k certs w3 with
              | mk w4 r4 =>
                obtain ⟨tr4, ok4⟩ := r4
                cases ok4 <;> (intro hfail hnot; simp at hfail hnot)

/-- A successful run of the regular handler *is* a successful `AddCertsToAgent` for the key the
    run generated and the certificates the CA returned for it — so `c03_success_stores` and
    `c03_one_generation` describe the agent after the run. -/
theorem c03_run_success (conf : Conf) (p : Param) (w : World) (h : (run conf p [.regular] w).2.2 = .ok) :
    ∃ w1 w2 w3 k csr certs,
      (regularGenerate conf p w1).2.2 = .ok (k, csr) ∧ (regularGenerate conf p w1).1 = w2 ∧
      (signAll k 1 w2).2.2 = .ok certs ∧ (signAll k 1 w2).1 = w3 ∧
      (addCerts conf k certs w3).2.2 = true ∧
      (run conf p [.regular] w).1 = (addCerts conf k certs w3).1 := by
  revert h
  unfold run selectHandler authOf
  cases hauth : regularAuth conf p w with
  | mk w1 r =>
    obtain ⟨tr, res⟩ := r
    cases res with
    | some e =>
      have : e = .handlerAuthN := regularAuth_err_kind conf p w e (by rw [hauth])
      subst this
      intro h; simp [selectHandler] at h
    | none =>
      simp only []
      cases hg : regularGenerate conf p w1 with
      | mk w2 r2 =>
        obtain ⟨tr2, res2⟩ := r2
        cases res2 with
        | error e => intro h; simp at h
        | ok kc =>
          obtain ⟨k, csr⟩ := kc
          simp only []
          cases hsg : signAll k 1 w2 with
          | mk w3 r3 =>
            obtain ⟨tr3, res3⟩ := r3
            cases res3 with
            | error e => cases e <;> (intro h; simp at h)
            | ok certs =>
              simp only []
              cases hac : addCerts conf k certs w3 with
              | mk w4 r4 =>
                obtain ⟨tr4, ok4⟩ := r4
                cases ok4 with
                | false => intro h; simp at h
                | true =>
                  intro _
                  refine ⟨w1, w2, w3, k, csr, certs, by rw [hg], by rw [hg], by rw [hsg], by rw [hsg], by rw [hac], ?_⟩
                  rw [hac]

/-- A run that fails before certificates are added — nobody authenticates — leaves every identity
    in place (in particular all certificates provisioned by earlier runs). -/
theorem c03_failed_auth_keeps (conf : Conf) (p : Param) (hs : List Handler) (w : World)
    (hnone : ∀ j h, (selectHandler conf p 0 hs w).2.2 ≠ .ok (j, h)) :
    (run conf p hs w).1.agent.idents = w.agent.idents := by
  unfold run
  have hsel := selectHandler_trace conf p 0 hs w
  cases hs' : selectHandler conf p 0 hs w with
  | mk w1 r =>
    obtain ⟨tr, res⟩ := r
    rw [hs'] at hsel
    cases res with
    | error e => exact hsel.2.1
    | ok jh => exact absurd (by rw [hs']) (hnone jh.1 jh.2)

/-- Non-vacuity: two successful runs in a row — the second removes the first generation, keeps
    the user's key and a near-miss comment. -/
example :
    let conf : Conf := ⟨3600, [(0, c!"id")], ⟨.key (.registered 1), .absent⟩⟩
    let p : Param := ⟨true, false, c!"alice", c!"t", c!"i", c!"u", c!"h", 0⟩
    let ag : Agent := ⟨[⟨.registered 1, none, [], 0⟩, ⟨.registered 2, none, b!"Paranoids.Regular-cert", 0⟩], .honest, 0, none, none⟩
    let r1 := run conf p [.regular] ⟨ag, 0, [.certs 2 2], 0⟩
    let r2 := run conf p [.regular] ⟨{ r1.1.agent with ops := 0 }, r1.1.rng, [.certs 1 1], r1.1.lastCert⟩
    r2.2.2 = .ok ∧
    (r2.1.agent.idents.filter fun x => containsSub handlerName x.comment) =
      [⟨.fresh 3, some ⟨3, .fresh 3⟩, certLabel, 7200⟩] ∧
    r2.1.agent.idents.contains ⟨.registered 2, none, b!"Paranoids.Regular-cert", 0⟩ = true := by decide

end C03
end Ysshra
