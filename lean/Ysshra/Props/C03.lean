import Ysshra.Lemmas.Gensign
/-
C03 — provisioned credentials are usable, key-bound, ephemeral and non-destructive.
-/
namespace Ysshra
namespace C03
open Gensign

/-- The agent lifetime `uint32(validity) + uint32(3600)`: for every validity from one second to
    ten years it is finite (non-zero) and not shorter than the certificate validity. -/
theorem c03_lifetime (v : Nat) (h1 : 1 ≤ v) (h2 : v ≤ 315576000) :
    lifetimeOf v = v + 3600 ∧ lifetimeOf v ≠ 0 ∧ v ≤ lifetimeOf v := by
  unfold lifetimeOf; omega

/-- the bound is about the range the statement names: at 2^32 − 3600 the sum wraps to 0, which an
    agent reads as "no lifetime" (outside one second … ten years; recorded as a remark) -/
example : lifetimeOf (2 ^ 32 - 3600) = 0 := by decide

/-- The private key is inserted with that lifetime … -/
theorem c03_private_key_add (conf : Conf) (p : Param) (w : World) :
    ∀ e ∈ (regularGenerate conf p w).2.1,
      ∃ ok, e = .agentAdd (.fresh w.rng) none (lifetimeOf conf.validity) privateKeyLabel ok := by
  unfold regularGenerate
  simp only []
  split
  · intro e he; simp at he; exact ⟨false, he⟩
  · split <;> (intro e he; simp at he; exact ⟨true, he⟩)

/-- … and every certificate is stored together with the same private key, under the handler's
    certificate label, with the same finite lifetime; everything else `AddCertsToAgent` sends is a
    listing or a removal. -/
theorem c03_cert_adds (conf : Conf) (k : Key) (certs : List (Option CertV)) (w : World) :
    ∀ e ∈ (addCerts conf k certs w).2.1,
      (∃ ok, e = .agentList ok) ∨ (∃ k' c ok, e = .agentRemove k' c ok) ∨
      (∃ c ok, e = .agentAdd k (some c) (lifetimeOf conf.validity) certLabel ok) := by
  unfold addCerts
  cases hl : agentList w.agent with
  | mk a r =>
    cases r with
    | none => intro e he; simp at he; exact .inl ⟨false, he⟩
    | some ids =>
      simp only []
      have h1 := removes_events a [.agentList true] ids
        (fun e => (∃ ok, e = .agentList ok) ∨ (∃ k' c ok, e = .agentRemove k' c ok) ∨
          (∃ c ok, e = .agentAdd k (some c) (lifetimeOf conf.validity) certLabel ok))
        (by intro e he; simp at he; exact .inl ⟨true, he⟩)
        (fun k' c ok => .inr (.inl ⟨k', c, ok, rfl⟩))
      cases hr : addCerts.removes a [.agentList true] ids with
      | mk a1 r1 =>
        obtain ⟨tr1, ok1⟩ := r1
        rw [hr] at h1
        cases ok1
        · exact h1
        · simp only []
          have h2 := adds_events k (lifetimeOf conf.validity) a1 tr1 certs _ h1
            (fun c ok => .inr (.inr ⟨c, ok, rfl⟩))
          cases ha : addCerts.adds k (lifetimeOf conf.validity) a1 tr1 certs with
          | mk a2 r2 => obtain ⟨tr2, ok2⟩ := r2; rw [ha] at h2; exact h2

/-- no two identities of an agent share their public blob (x/crypto's keyring replaces on add) -/
def uniqueBlobs (ids : List AIdent) : Prop :=
  ∀ x ∈ ids, ∀ y ∈ ids, x.key = y.key → x.cert = y.cert → x = y

/-- Identities that do not carry the handler's label — plain keys, foreign certificates, comments
    that are near-misses of the label — are never removed or altered by `AddCertsToAgent`, whether
    it succeeds or fails at any request. -/
theorem c03_foreign_untouched (conf : Conf) (k : Key) (certs : List (Option CertV)) (w : World) (x : AIdent)
    (hx : x ∈ w.agent.idents) (hf : containsSub handlerName x.comment = false) (hk : x.key ≠ k)
    (hu : uniqueBlobs w.agent.idents) :
    x ∈ (addCerts conf k certs w).1.agent.idents := by
  unfold addCerts
  cases hl : agentList w.agent with
  | mk a r =>
    have ha : a.idents = w.agent.idents := by
      unfold agentList at hl; simp only [] at hl
      split at hl <;> (simp only [Prod.mk.injEq] at hl; rw [← hl.1]; rfl)
    cases r with
    | none => simpa [ha] using hx
    | some ids =>
      have hids : ids = w.agent.idents := by
        unfold agentList at hl; simp only [] at hl
        split at hl
        · simp at hl
        · simp only [Prod.mk.injEq, Option.some.injEq] at hl; rw [← hl.2]; rfl
      simp only []
      have h1 : x ∈ (addCerts.removes a [.agentList true] ids).1.idents := by
        apply removes_keeps_foreign a _ ids x (by rw [ha]; exact hx) hf
        intro y hy hc hsame
        have := hu x hx y (by rw [← hids]; exact hy) hsame.1 hsame.2
        rw [this] at hf; rw [hf] at hc; cases hc
      cases hr : addCerts.removes a [.agentList true] ids with
      | mk a1 r1 =>
        obtain ⟨tr1, ok1⟩ := r1
        rw [hr] at h1
        cases ok1
        · exact h1
        · simp only []
          have h2 := adds_keeps k (lifetimeOf conf.validity) a1 tr1 certs x h1 hk
          cases hadd : addCerts.adds k (lifetimeOf conf.validity) a1 tr1 certs with
          | mk a2 r2 => obtain ⟨tr2, ok2⟩ := r2; rw [hadd] at h2; exact h2

/-- A run that fails before certificates are added — nobody authenticates — leaves every identity
    in place (in particular all certificates provisioned by earlier runs). -/
theorem c03_failed_auth_keeps (conf : Conf) (p : Param) (hs : List Handler) (w : World)
    (hnone : ∀ j h, (selectHandler conf p 0 hs w).2.2 ≠ .ok (j, h)) :
    (run conf p hs w).1.agent.idents = w.agent.idents := by
  unfold run
  have hsel := selectHandler_trace conf p 0 hs w
  cases hs' : selectHandler conf p 0 hs w with
  | mk w1 r =>
    obtain ⟨tr, res⟩ := r
    rw [hs'] at hsel
    cases res with
    | error e => exact hsel.2.1
    | ok jh => exact absurd (by rw [hs']) (hnone jh.1 jh.2)

/-- Non-vacuity: two successful runs in a row — the second removes the first generation, keeps
    the user's key and a near-miss comment. -/
example :
    let conf : Conf := ⟨3600, [(0, c!"id")], ⟨.key (.registered 1), .absent⟩⟩
    let p : Param := ⟨true, false, c!"alice", c!"t", c!"i", c!"u", c!"h", 0⟩
    let ag : Agent := ⟨[⟨.registered 1, none, [], 0⟩, ⟨.registered 2, none, b!"Paranoids.Regular-cert", 0⟩], .honest, 0, none, none⟩
    let r1 := run conf p [.regular] ⟨ag, 0, [.certs 2 2], 0⟩
    let r2 := run conf p [.regular] ⟨{ r1.1.agent with ops := 0 }, r1.1.rng, [.certs 1 1], r1.1.lastCert⟩
    r2.2.2 = .ok ∧
    (r2.1.agent.idents.filter fun x => containsSub handlerName x.comment) =
      [⟨.fresh 3, some ⟨3, .fresh 3⟩, certLabel, 7200⟩] ∧
    r2.1.agent.idents.contains ⟨.registered 2, none, b!"Paranoids.Regular-cert", 0⟩ = true := by decide

end C03
end Ysshra
