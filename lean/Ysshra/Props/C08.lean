import Ysshra.Lemmas.Shim
/-
C08 — a locked shim agent discloses and changes nothing; only the passphrase unlocks.
-/
namespace Ysshra
namespace C08
open Shim

/-- the operations the statement lists as refused while locked: signing, listing signers, adding,
    removing, removing all, adding hardware certificates, locking again and closing -/
def refusedWhenLocked : Op → Bool
  | .signers | .sign _ | .add _ | .addHardCert _ _ | .remove _ | .removeAll | .lock _ | .close => true
  | _ => false

/-- While locked: listing returns the empty list, every other listed operation fails, and none
    of them changes the shim or the underlying agent — at any time, under any faults. -/
theorem c08_locked_ops (s : State) (now : Nat) (f : Faults) (op : Op) (hl : s.locked = true) :
    (op = .list → step s now f op = (s, .listing [])) ∧
    (refusedWhenLocked op = true →
      (step s now f op).1 = s ∧
      ((step s now f op).2 = .err ∨ (step s now f op).2 = .signed .err)) := by
  constructor
  · intro h; subst h; simp [step, hl]
  · intro h
    cases op <;> simp [refusedWhenLocked] at h <;> simp [step, hl]

/-- Closing: refused while locked (the connection to the underlying agent stays open, nothing
    changes); on an unlocked shim with an open connection it succeeds and closes the connection. -/
theorem c08_close (s : State) (now : Nat) (f : Faults) :
    (s.locked = true → step s now f .close = (s, .err)) ∧
    (s.locked = false → s.u.closed = false →
      (step s now f .close).2 = .ok ∧ (step s now f .close).1.u.closed = true ∧
      (step s now f .close).1.locked = false ∧ (step s now f .close).1.certs = s.certs ∧
      (step s now f .close).1.u.idents = s.u.idents) := by
  constructor
  · intro hl; simp [step, hl]
  · intro hl hc; simp [step, hl, hc]

/-- Unlocking with a wrong passphrase fails and leaves everything as it was. -/
theorem c08_unlock_wrong (s : State) (now : Nat) (p : Bytes) (hl : s.locked = true)
    (hu : s.u.locked = true) (hc : s.u.closed = false) (hp : p ≠ s.u.pass) :
    step s now noFaults (.unlock p) = (s, .err) := by
  obtain ⟨certs, cache, locked, noUp, u⟩ := s
  simp only at hl hu hc hp; subst hl
  simp [step, UAgent.unlock, UAgent.gate, noFaults, hc, hu, hp]

/-- Unlocking with the right passphrase succeeds and restores exactly the pre-lock view:
    certificate table, cache and underlying identities are untouched. -/
theorem c08_unlock_right (s : State) (now : Nat) (hl : s.locked = true) (hu : s.u.locked = true)
    (hc : s.u.closed = false) :
    step s now noFaults (.unlock s.u.pass) =
      ({ s with locked := false, u := { s.u with locked := false, pass := [] } }, .ok) := by
  simp [step, hl, UAgent.unlock, UAgent.gate, noFaults, hc, hu]

/-- Unlocking an unlocked agent is an error. -/
theorem c08_unlock_unlocked (s : State) (now : Nat) (f : Faults) (p : Bytes) (hl : s.locked = false) :
    step s now f (.unlock p) = (s, .err) := by
  simp [step, hl]

/-- A lock or unlock that the underlying agent refuses (or that does not reach it) leaves the
    shim's lock state unchanged. -/
theorem c08_refused (s : State) (now : Nat) (f : Faults) (p : Bytes) :
    ((step s now f (.lock p)).2 = .err → (step s now f (.lock p)).1.locked = s.locked) ∧
    ((step s now f (.unlock p)).2 = .err → (step s now f (.unlock p)).1.locked = s.locked) := by
  constructor
  · intro h
    simp only [step] at h ⊢
    split at h
    · simp_all
    · split at h <;> simp_all
  · intro h
    simp only [step] at h ⊢
    split at h
    · simp_all
    · split at h <;> simp_all

/-- a lock succeeds only if the underlying agent accepted it, and then both are locked with the
    given passphrase -/
theorem c08_lock_ok (s : State) (now : Nat) (f : Faults) (p : Bytes)
    (h : (step s now f (.lock p)).2 = .ok) :
    s.locked = false ∧ (step s now f (.lock p)).1.locked = true ∧
    (step s now f (.lock p)).1.u.locked = true ∧ (step s now f (.lock p)).1.u.pass = p ∧
    (step s now f (.lock p)).1.certs = s.certs ∧ (step s now f (.lock p)).1.cache = s.cache ∧
    (step s now f (.lock p)).1.u.idents = s.u.idents := by
  have hl : s.locked = false := by
    cases hx : s.locked
    · rfl
    · simp [step, hx] at h
  simp only [step, hl, Bool.false_eq_true, ↓reduceIte] at h ⊢
  cases hr : s.u.lock f p with
  | mk u' ok =>
    cases ok
    · simp [hr] at h
    · simp only [hr]
      unfold UAgent.lock UAgent.gate at hr
      refine ⟨trivial, trivial, ?_⟩
      by_cases hcl : s.u.closed = true
      · simp [hcl] at hr
      · simp only [hcl, Bool.false_eq_true, ↓reduceIte] at hr
        cases hf : f .lock <;> simp [hf] at hr
        by_cases hul : s.u.locked = true
        · simp [hul] at hr
        · simp only [hul, Bool.false_eq_true, ↓reduceIte] at hr
          have := (Prod.mk.inj hr).1
          subst this; simp

/-- operations of clients of the shim (not somebody else talking to the underlying agent) -/
def clientOp : Op → Bool
  | .uAdd _ | .uRemove _ | .uRemoveAll => false
  | _ => true

def runOps (s : State) (now : Nat) : List Op → State
  | [] => s
  | op :: r => runOps (step s now noFaults op).1 now r

/-- History form: between a successful lock with passphrase `p` and the unlock with `p`, any
    sequence of client operations that does not itself unlock with `p` leaves the identities and
    certificate tables exactly as they were; unlocking with `p` then restores the pre-lock view. -/
theorem c08_locked_history (s : State) (now : Nat) (p : Bytes) (ops : List Op)
    (hl : s.locked = true) (hu : s.u.locked = true) (hc : s.u.closed = false) (hp : s.u.pass = p)
    (hops : ∀ op ∈ ops, clientOp op = true ∧ op ≠ .unlock p) :
    runOps s now ops = s := by
  induction ops with
  | nil => rfl
  | cons op r ih =>
    have hop := hops op (List.mem_cons_self ..)
    have hstep : (step s now noFaults op).1 = s := by
      cases op with
      | list => simp [step, hl]
      | unlock q =>
        have hq : q ≠ s.u.pass := by
          intro h; apply hop.2; rw [h, hp]
        rw [c08_unlock_wrong s now q hl hu hc hq]
      | uAdd _ => simp [clientOp] at hop
      | uRemove _ => simp [clientOp] at hop
      | uRemoveAll => simp [clientOp] at hop
      | forward req => simp [step, hc, noFaults]   -- relayed, nothing in the shim changes
      | _ => simp [step, hl]
    simp only [runOps, hstep]
    exact ih (fun o ho => hops o (List.mem_cons_of_mem _ ho))

theorem c08_unlock_restores (s : State) (now : Nat) (p : Bytes) (ops : List Op)
    (hl : s.locked = true) (hu : s.u.locked = true) (hc : s.u.closed = false) (hp : s.u.pass = p)
    (hops : ∀ op ∈ ops, clientOp op = true ∧ op ≠ .unlock p) :
    let s' := (step (runOps s now ops) now noFaults (.unlock p)).1
    s'.locked = false ∧ s'.certs = s.certs ∧ s'.cache = s.cache ∧ s'.u.idents = s.u.idents ∧
    s'.u.locked = false := by
  rw [c08_locked_history s now p ops hl hu hc hp hops, ← hp, c08_unlock_right s now hl hu hc]
  simp

/-- Non-vacuity: a locked agent holding a hardware certificate and an underlying key. -/
example :
    let c : Cert := ⟨1, 1, 0, 2 ^ 64 - 1, true, some [0x54]⟩
    let s : State := ⟨[⟨c, [0x54]⟩], [], true, false, ⟨[⟨.key 1, []⟩], true, [0x70], false⟩⟩
    (step s 1000 noFaults (.sign (.cert c))).2 = .signed .err ∧
    (step s 1000 noFaults (.unlock [0x70])).2 = .ok := by decide

end C08
end Ysshra
