import Ysshra.Gen.Locks
/-
C11 — concurrent shim-agent clients cannot corrupt it or get each other's replies.
Partial: the theorems are about the locking discipline regenerated from the source (which lock
each exported method takes first, that `defer` releases it, which shared cells it touches
transitively); Go's scheduler and memory model are not modelled — race-detector runs support it.
-/
namespace Ysshra
namespace C11
open Locks

theorem set_getElem? (s : Sys) (i j : Nat) (t : Thread) :
    (s.set i t)[j]? = if i = j ∧ i < s.length then some t else s[j]? := by
  by_cases h : i = j
  · subst h
    by_cases hl : i < s.length
    · simp [hl]
    · simp [hl, List.getElem?_eq_none (Nat.le_of_not_lt hl)]
  · simp [h, List.getElem?_set_ne h]

/-- Mutual exclusion is an invariant of every scheduling step … -/
theorem excl_step (s : Sys) (i : Nat) (h : Excl s) : Excl (stepThread s i) := by
  unfold stepThread
  cases hi : s[i]? with
  | none => exact h
  | some t =>
    have hil : i < s.length := by
      cases hlt : decide (i < s.length) with
      | true => simpa using hlt
      | false => simp at hlt; rw [List.getElem?_eq_none hlt] at hi; cases hi
    simp only []
    cases hp : t.phase with
    | finished => exact h
    | waiting =>
      simp only []
      by_cases hc : canEnter s t.method = true
      · simp only [hc, ↓reduceIte]
        intro a b ta tb ha hb hab hex
        rw [set_getElem?] at ha hb
        by_cases hai : i = a
        · -- the entering thread is the exclusive holder: nobody held anything
          subst hai
          simp only [true_and, hil, ↓reduceIte, Option.some.injEq] at ha
          have hbi : ¬ (i = b ∧ i < s.length) := fun hx => hab hx.1
          simp only [hbi, ↓reduceIte] at hb
          subst ha
          have hm : t.method.mode = some .excl := by
            simp only [Thread.holdsExcl, Bool.and_eq_true, beq_iff_eq] at hex; exact hex.2
          simp only [canEnter, hm, List.all_eq_true] at hc
          have := hc tb (List.mem_of_getElem? hb)
          simpa using this
        · have hai' : ¬ (i = a ∧ i < s.length) := fun hx => hai hx.1
          simp only [hai', ↓reduceIte] at ha
          by_cases hbi : i = b
          · -- somebody else holds exclusively: the entering thread could not have entered with a lock
            subst hbi
            simp only [true_and, hil, ↓reduceIte, Option.some.injEq] at hb
            subst hb
            have hta : ta ∈ s := List.mem_of_getElem? ha
            cases hm : t.method.mode with
            | none => simp [Thread.holdsAny, Thread.holdsExcl, Thread.holdsShared, hm]
            | some md =>
              cases md with
              | excl =>
                simp only [canEnter, hm, List.all_eq_true] at hc
                have := hc ta hta
                simp only [Thread.holdsAny, Bool.not_eq_true', Bool.or_eq_false_iff] at this
                rw [this.1] at hex; cases hex
              | shared =>
                simp only [canEnter, hm, List.all_eq_true] at hc
                have := hc ta hta
                simp only [Bool.not_eq_true'] at this
                rw [this] at hex; cases hex
          · have hbi' : ¬ (i = b ∧ i < s.length) := fun hx => hbi hx.1
            simp only [hbi', ↓reduceIte] at hb
            exact h a b ta tb ha hb hab hex
      · simp only [hc, Bool.false_eq_true, ↓reduceIte]; exact h
    | running k =>
      simp only []
      -- inside the body the lock state of the thread does not grow
      have key : ∀ (t' : Thread), t'.method = t.method →
          (t'.holdsExcl = true → t.holdsExcl = true) → (t'.holdsAny = true → t.holdsAny = true) →
          Excl (s.set i t') := by
        intro t' _ hE hA a b ta tb ha hb hab hex
        rw [set_getElem?] at ha hb
        by_cases hai : i = a
        · subst hai
          simp only [true_and, hil, ↓reduceIte, Option.some.injEq] at ha
          have hbi : ¬ (i = b ∧ i < s.length) := fun hx => hab hx.1
          simp only [hbi, ↓reduceIte] at hb
          subst ha
          exact h i b t tb hi hb hab (hE hex)
        · have hai' : ¬ (i = a ∧ i < s.length) := fun hx => hai hx.1
          simp only [hai', ↓reduceIte] at ha
          by_cases hbi : i = b
          · subst hbi
            simp only [true_and, hil, ↓reduceIte, Option.some.injEq] at hb
            subst hb
            have := h a i ta t ha hi hab hex
            cases hx : t'.holdsAny with
            | false => rfl
            | true => rw [hA hx] at this; cases this
          · have hbi' : ¬ (i = b ∧ i < s.length) := fun hx => hbi hx.1
            simp only [hbi', ↓reduceIte] at hb
            exact h a b ta tb ha hb hab hex
      have hin : t.inside = true := by simp [Thread.inside, hp]
      split
      · apply key { t with phase := .running (k + 1) } rfl
        · intro hx; simp only [Thread.holdsExcl, Thread.inside, hp] at hx ⊢; simpa using hx
        · intro hx
          simp only [Thread.holdsAny, Thread.holdsExcl, Thread.holdsShared, Thread.inside, hp] at hx ⊢
          simpa using hx
      · apply key { t with phase := .finished } rfl
        · intro hx; simp [Thread.holdsExcl, Thread.inside] at hx
        · intro hx; simp [Thread.holdsAny, Thread.holdsExcl, Thread.holdsShared, Thread.inside] at hx

/-- … hence of every schedule, from a state in which nobody is inside. -/
theorem excl_run (s : Sys) (sched : List Nat) (h : Excl s) : Excl (run s sched) := by
  induction sched generalizing s with
  | nil => exact h
  | cons i r ih => exact ih _ (excl_step s i h)

theorem excl_init (s : Sys) (h : ∀ t ∈ s, t.phase = .waiting) : Excl s := by
  intro i j ti tj hi _ _ hex
  have := h ti (List.mem_of_getElem? hi)
  simp [Thread.holdsExcl, Thread.inside, this] at hex

/-- No conflicting accesses, for every interleaving: if all methods follow the discipline, then
    in every reachable state two different threads that are both inside their bodies never have a
    write by one and any access by the other to the same cell (the connection to the underlying
    agent is cell 3: request/reply pairs on it cannot interleave). -/
theorem c11_no_conflict (s0 : Sys) (sched : List Nat) (h0 : ∀ t ∈ s0, t.phase = .waiting)
    (hd : ∀ t ∈ run s0 sched, disciplined t.method = true)
    (i j : Nat) (ti tj : Thread) (hi : (run s0 sched)[i]? = some ti) (hj : (run s0 sched)[j]? = some tj)
    (hij : i ≠ j) (hini : ti.inside = true) (hinj : tj.inside = true)
    (a b : Access) (ha : a ∈ ti.method.accesses) (hb : b ∈ tj.method.accesses)
    (hw : a.isWrite = true) : False := by
  have hex := excl_run s0 sched (excl_init s0 h0)
  have hdi := hd ti (List.mem_of_getElem? hi)
  have hdj := hd tj (List.mem_of_getElem? hj)
  simp only [disciplined, Bool.and_eq_true, decide_eq_true_eq] at hdi hdj
  have hmi : ti.method.mode = some .excl := by
    have := hdi.1 (List.any_eq_true.2 ⟨a, ha, hw⟩); simpa using this
  have hmj : tj.method.mode.isSome = true := by
    apply hdj.2
    cases hacc : tj.method.accesses with
    | nil => rw [hacc] at hb; cases hb
    | cons x r => rfl
  have hE : ti.holdsExcl = true := by simp [Thread.holdsExcl, hini, hmi]
  have := hex i j ti tj hi hj hij hE
  cases hm : tj.method.mode with
  | none => rw [hm] at hmj; cases hmj
  | some md =>
    cases md <;> simp [Thread.holdsAny, Thread.holdsExcl, Thread.holdsShared, hinj, hm] at this

/-- The discipline, on the method table regenerated from shimserver.go: every exported method
    that writes a shared table, the lock flag or uses the single connection takes the exclusive
    lock first and releases it by `defer`; in particular `Signers` and `Extension` (finding F7). -/
theorem c11_discipline :
    Gen.Locks.methods.all (fun m => disciplined m.2.1 && (m.2.1.mode.isSome → m.2.2)) = true := by decide

/-- the methods of the table are the thirteen operations clients can issue -/
theorem c11_methods : Gen.Locks.methods.map (·.1) =
    [c!"Close", c!"List", c!"Forward", c!"AddHardCert", c!"Sign", c!"SignWithFlags", c!"Add", c!"Remove",
     c!"RemoveAll", c!"Lock", c!"Unlock", c!"Signers", c!"Extension"] := by decide

/-- Non-vacuity: two writers and a reader under some schedule; both writers never run together. -/
example :
    let w : Method := ⟨some .excl, [.write 0, .write 3]⟩
    let r : Method := ⟨some .shared, [.read 0]⟩
    let s := run [⟨w, .waiting⟩, ⟨r, .waiting⟩, ⟨w, .waiting⟩] [2, 0, 1, 2, 2, 2, 0, 1]
    (s.map (·.phase)) = [.running 0, .waiting, .finished] := by decide

end C11
end Ysshra
