import Ysshra.Gen.Locks
/-
C11 — concurrent shim-agent clients cannot corrupt it or get each other's replies.
Partial: the theorems are about the locking discipline regenerated from the source (which lock
each exported method takes first, that `defer` releases it, which shared cells it touches
transitively); Go's scheduler and memory model are not modelled — race-detector runs support it.
-/
namespace Ysshra
namespace C11
open Locks

theorem set_getElem? (s : Sys) (i j : Nat) (t : Thread) :
    (s.set i t)[j]? = if i = j ∧ i < s.length then some t else s[j]? := by
  by_cases h : i = j
  · subst h
    by_cases hl : i < s.length
    · simp [hl]
    · simp [hl, List.getElem?_eq_none (Nat.le_of_not_lt hl)]
  · simp [h, List.getElem?_set_ne h]

/-- Mutual exclusion is an invariant of every scheduling step … -/
theorem excl_step (s : Sys) (i : Nat) (h : Excl s) : Excl (stepThread s i) := by
  unfold stepThread
  cases hi : s[i]? with
  | none => exact h
  | some t =>
    have hil : i < s.length := by
      cases hlt : decide (i < s.length) with
      | true => simpa using hlt
      | false => simp at hlt; rw [List.getElem?_eq_none hlt] at hi; cases hi
    simp only []
    cases hp : t.phase with
    | finished => exact h
    | waiting =>
      simp only []
      by_cases hc : canEnter s t.method = true
      · simp only [hc, ↓reduceIte]
        intro a b ta tb ha hb hab hex
        rw [set_getElem?] at ha hb
        by_cases hai : i = a
        · -- the entering thread is the exclusive holder: nobody held anything
          subst hai
          simp only [true_and, hil, ↓reduceIte, Option.some.injEq] at ha
          have hbi : ¬ (i = b ∧ i < s.length) := fun hx => hab hx.1
          simp only [hbi, ↓reduceIte] at hb
          subst ha
          have hm : t.method.mode = some .excl := by
            simp only [Thread.holdsExcl, Bool.and_eq_true, beq_iff_eq] at hex; exact hex.2
          simp only [canEnter, hm, List.all_eq_true] at hc
          have := hc tb (List.mem_of_getElem? hb)
          simpa using this
        · have hai' : ¬ (i = a ∧ i < s.length) := fun hx => hai hx.1
          simp only [hai', ↓reduceIte] at ha
          by_cases hbi : i = b
          · -- somebody else holds exclusively: the entering thread could not have entered with a lock
            subst hbi
            simp only [true_and, hil, ↓reduceIte, Option.some.injEq] at hb
            subst hb
            have hta : ta ∈ s := List.mem_of_getElem? ha
            cases hm : t.method.mode with
            | none => simp [Thread.holdsAny, Thread.holdsExcl, Thread.holdsShared, hm]
            | some md =>
              cases md with
              | excl =>
                simp only [canEnter, hm, List.all_eq_true] at hc
                have := hc ta hta
                simp only [Thread.holdsAny, Bool.not_eq_true', Bool.or_eq_false_iff] at this
                rw [this.1] at hex; cases hex
              | shared =>
                simp only [canEnter, hm, List.all_eq_true] at hc
                have := hc ta hta
                simp only [Bool.not_eq_true'] at this
                rw [this] at hex; cases hex
          · have hbi' : ¬ (i = b ∧ i < s.length) := fun hx => hbi hx.1
            simp only [hbi', ↓reduceIte] at hb
            exact h a b ta tb ha hb hab hex
      · simp only [hc, Bool.false_eq_true, ↓reduceIte]; exact h
    | running k =>
      simp only []
      -- inside the body the lock state of the thread does not grow
      have key : ∀ (t' : Thread), t'.method = t.method →
          (t'.holdsExcl = true → t.holdsExcl = true) → (t'.holdsAny = true → t.holdsAny = true) →
          Excl (s.set i t') := by
        intro t' _ hE hA a b ta tb ha hb hab hex
        rw [set_getElem?] at ha hb
        by_cases hai : i = a
        · subst hai
          simp only [true_and, hil, ↓reduceIte, Option.some.injEq] at ha
          have hbi : ¬ (i = b ∧ i < s.length) := fun hx => hab hx.1
          simp only [hbi, ↓reduceIte] at hb
          subst ha
          exact h i b t tb hi hb hab (hE hex)
        · have hai' : ¬ (i = a ∧ i < s.length) := fun hx => hai hx.1
          simp only [hai', ↓reduceIte] at ha
          by_cases hbi : i = b
          · subst hbi
            simp only [true_and, hil, ↓reduceIte, Option.some.injEq] at hb
            subst hb
            have := h a i ta t ha hi hab hex
            cases hx : t'.holdsAny with
            | false => rfl
            | true => rw [hA hx] at this; cases this
          · have hbi' : ¬ (i = b ∧ i < s.length) := fun hx => hbi hx.1
            simp only [hbi', ↓reduceIte] at hb
            exact h a b ta tb ha hb hab hex
      have hin : t.inside = true := by simp [Thread.inside, hp]
      split
      · apply key { t with phase := .running (k + 1) } rfl
        · intro hx; simp only [Thread.holdsExcl, Thread.inside, hp] at hx ⊢; simpa using hx
        · intro hx
          simp only [Thread.holdsAny, Thread.holdsExcl, Thread.holdsShared, Thread.inside, hp] at hx ⊢
          simpa using hx
      · apply key { t with phase := .finished } rfl
        · intro hx; simp [Thread.holdsExcl, Thread.inside] at hx
        · intro hx; simp [Thread.holdsAny, Thread.holdsExcl, Thread.holdsShared, Thread.inside] at hx

/-- … hence of every schedule, from a state in which nobody is inside. -/
theorem excl_run (s : Sys) (sched : List Nat) (h : Excl s) : Excl (run s sched) := by
  induction sched generalizing s with
  | nil => exact h
  | cons i r ih => exact ih _ (excl_step s i h)

theorem excl_init (s : Sys) (h : ∀ t ∈ s, t.phase = .waiting) : Excl s := by
  intro i j ti tj hi _ _ hex
  have := h ti (List.mem_of_getElem? hi)
  simp [Thread.holdsExcl, Thread.inside, this] at hex

/-- No conflicting accesses, for every interleaving: if all methods follow the discipline, then
    in every reachable state two different threads that are both inside their bodies never have a
    write by one and any access by the other to the same cell (the connection to the underlying
    agent is cell 3: request/reply pairs on it cannot interleave). -/
theorem c11_no_conflict (s0 : Sys) (sched : List Nat) (h0 : ∀ t ∈ s0, t.phase = .waiting)
    (hd : ∀ t ∈ run s0 sched, disciplined t.method = true)
    (i j : Nat) (ti tj : Thread) (hi : (run s0 sched)[i]? = some ti) (hj : (run s0 sched)[j]? = some tj)
    (hij : i ≠ j) (hini : ti.inside = true) (hinj : tj.inside = true)
    (a b : Access) (ha : a ∈ ti.method.accesses) (hb : b ∈ tj.method.accesses)
    (hw : a.isWrite = true) : False := by
  have hex := excl_run s0 sched (excl_init s0 h0)
  have hdi := hd ti (List.mem_of_getElem? hi)
  have hdj := hd tj (List.mem_of_getElem? hj)
  simp only [disciplined, Bool.and_eq_true, decide_eq_true_eq] at hdi hdj
  have hmi : ti.method.mode = some .excl := by
    have := hdi.1 (List.any_eq_true.2 ⟨a, ha, hw⟩); simpa using this
  have hmj : tj.method.mode.isSome = true := by
    apply hdj.2
    cases hacc : tj.method.accesses with
    | nil => rw [hacc] at hb; cases hb
    | cons x r => rfl
  have hE : ti.holdsExcl = true := by simp [Thread.holdsExcl, hini, hmi]
  have := hex i j ti tj hi hj hij hE
  cases hm : tj.method.mode with
  | none => rw [hm] at hmj; cases hmj
  | some md =>
    cases md <;> simp [Thread.holdsAny, Thread.holdsExcl, Thread.holdsShared, hinj, hm] at this

/-- The discipline, on the method table regenerated from shimserver.go: every exported method
    that writes a shared table, the lock flag or uses the single connection takes the exclusive
    lock first and releases it by `defer`; in particular `Signers` and `Extension` (finding F7). -/
theorem c11_discipline :
    Gen.Locks.methods.all (fun m => disciplined m.2.1 && (m.2.1.mode.isSome → m.2.2)) = true := by decide

/-- the methods of the table are the thirteen operations clients can issue -/
theorem c11_methods : Gen.Locks.methods.map (·.1) =
    [c!"Close", c!"List", c!"Forward", c!"AddHardCert", c!"Sign", c!"SignWithFlags", c!"Add", c!"Remove",
     c!"RemoveAll", c!"Lock", c!"Unlock", c!"Signers", c!"Extension"] := by decide

/-- `Signers` hands its caller objects that sign later, outside the method and its lock. Every one
    of them (regenerated from the `append`s to the returned slice) reaches the underlying agent only
    through the shim — its agent field is the `Server` itself — so that signing with it is the
    method `Sign` / `SignWithFlags` of the table above and takes the exclusive lock; none holds the
    agent client or the connection (finding F12: the client's own signers were passed on). -/
theorem c11_signers_routed :
    Gen.Locks.signerSources ≠ [] ∧ Gen.Locks.signerSources.all (·.2) = true := by decide

/-! ### every operation completes (in the lock model: no operation can be blocked for ever) -/

/-- scheduling steps a thread still needs -/
def threadWork (t : Thread) : Nat := match t.phase with
  | .waiting => t.method.accesses.length + 2
  | .running k => t.method.accesses.length + 1 - k
  | .finished => 0

def work (s : Sys) : Nat := (s.map threadWork).sum

theorem sum_set_lt (l : List Nat) (i : Nat) (a b : Nat) (hi : l[i]? = some a) (hb : b < a) :
    (l.set i b).sum < l.sum := by
  induction l generalizing i with
  | nil => simp at hi
  | cons x r ih =>
    cases i with
    | zero => simp at hi; subst hi; simp; omega
    | succ n =>
      simp only [List.getElem?_cons_succ] at hi
      have := ih n hi
      simp only [List.set_cons_succ, List.sum_cons]; omega

theorem work_set_lt (s : Sys) (i : Nat) (t t' : Thread) (hi : s[i]? = some t) (hw : threadWork t' < threadWork t) :
    work (s.set i t') < work s := by
  unfold work
  rw [List.map_set]
  exact sum_set_lt _ i (threadWork t) (threadWork t') (by simp [hi]) hw

/-- **Progress.**  In every state in which some operation has not finished, some thread can take a
    step that brings the system strictly closer to completion: no reachable state is a deadlock,
    and a fair schedule finishes every operation within `work s` steps.  (The model releases the
    lock when the body ends — `c11_discipline` checks in the regenerated method table that every
    method that takes the lock releases it by `defer`.) -/
theorem c11_progress (s : Sys) (h : ∃ t ∈ s, t.phase ≠ .finished)
    (hbound : ∀ t ∈ s, ∀ k, t.phase = .running k → k ≤ t.method.accesses.length) :
    ∃ i, work (stepThread s i) < work s := by
  by_cases hrun : ∃ (j : Nat) (t : Thread), s[j]? = some t ∧ t.inside = true
  · -- somebody is inside its body: it can always go on
    obtain ⟨j, t, hj, hin⟩ := hrun
    refine ⟨j, ?_⟩
    unfold stepThread
    rw [hj]
    simp only []
    cases hp : t.phase with
    | waiting => simp [Thread.inside, hp] at hin
    | finished => simp [Thread.inside, hp] at hin
    | running k =>
      simp only []
      have hk := hbound t (List.mem_of_getElem? hj) k hp
      split
      · apply work_set_lt s j t _ hj
        simp only [threadWork, hp]; omega
      · apply work_set_lt s j t _ hj
        simp only [threadWork, hp]; omega
  · -- nobody is inside: nobody holds the lock, so any waiting thread may enter
    obtain ⟨t, ht, hnf⟩ := h
    obtain ⟨j, hj⟩ := List.mem_iff_getElem?.mp ht
    have hnone : ∀ u ∈ s, u.inside = false := by
      intro u hu
      obtain ⟨m, hm⟩ := List.mem_iff_getElem?.mp hu
      cases hi : u.inside with
      | false => rfl
      | true => exact absurd ⟨m, u, hm, hi⟩ hrun
    have hwait : t.phase = .waiting := by
      cases hp : t.phase with
      | waiting => rfl
      | finished => exact absurd hp hnf
      | running k => have := hnone t ht; simp [Thread.inside, hp] at this
    have hcan : canEnter s t.method = true := by
      unfold canEnter
      cases t.method.mode with
      | none => rfl
      | some m =>
        cases m <;> simp only [List.all_eq_true] <;> intro u hu <;>
          simp [Thread.holdsAny, Thread.holdsExcl, Thread.holdsShared, hnone u hu]
    refine ⟨j, ?_⟩
    unfold stepThread
    rw [hj]
    simp only [hwait, hcan, ↓reduceIte]
    apply work_set_lt s j t _ hj
    simp only [threadWork, hwait]; omega

/-- the side condition of `c11_progress` holds in every reachable state -/
def Bounded (s : Sys) : Prop := ∀ t ∈ s, ∀ k, t.phase = .running k → k ≤ t.method.accesses.length

theorem bounded_step (s : Sys) (i : Nat) (h : Bounded s) : Bounded (stepThread s i) := by
  unfold stepThread
  cases hi : s[i]? with
  | none => exact h
  | some t =>
    simp only []
    have hset : ∀ t', (∀ k, t'.phase = .running k → k ≤ t'.method.accesses.length) → Bounded (s.set i t') := by
      intro t' ht' u hu k hk
      rcases List.mem_or_eq_of_mem_set hu with hu | rfl
      · exact h u hu k hk
      · exact ht' k hk
    cases hp : t.phase with
    | waiting =>
      simp only []
      split
      · exact hset _ (by intro k hk; simp at hk; omega)
      · exact h
    | finished => exact h
    | running k0 =>
      simp only []
      split
      · rename_i hlt
        exact hset _ (by intro k hk; simp only [Phase.running.injEq] at hk; subst hk; exact hlt)
      · exact hset _ (by intro k hk; simp at hk)

theorem bounded_run (s : Sys) (sched : List Nat) (h : Bounded s) : Bounded (run s sched) := by
  induction sched generalizing s with
  | nil => exact h
  | cons i r ih => exact ih _ (bounded_step s i h)

/-- … so: from a state in which no operation has started, after any schedule, if something is
    unfinished then some thread can make progress. -/
theorem c11_no_deadlock (s0 : Sys) (sched : List Nat) (h0 : ∀ t ∈ s0, t.phase = .waiting)
    (h : ∃ t ∈ run s0 sched, t.phase ≠ .finished) :
    ∃ i, work (stepThread (run s0 sched) i) < work (run s0 sched) :=
  c11_progress _ h (bounded_run s0 sched (fun t ht k hk => by rw [h0 t ht] at hk; cases hk))

/-- Non-vacuity: two writers and a reader under some schedule; both writers never run together. -/
example :
    let w : Method := ⟨some .excl, [.write 0, .write 3]⟩
    let r : Method := ⟨some .shared, [.read 0]⟩
    let s := run [⟨w, .waiting⟩, ⟨r, .waiting⟩, ⟨w, .waiting⟩] [2, 0, 1, 2, 2, 2, 0, 1]
    (s.map (·.phase)) = [.running 0, .waiting, .finished] := by decide

end C11
end Ysshra
