import Ysshra.Props.C03
import Ysshra.Props.C02
/-
C03, for every history of runs on one agent: an identity that does not carry the handler's label
and belongs to a long-term key — the user's own key, a foreign certificate, a near-miss comment —
is still in the agent after any number of runs, whatever the handler lists, the agent's answers,
the CA's replies and the faults were.
-/
namespace Ysshra
namespace C03
open Gensign

theorem unique_of_subset (l l' : List AIdent) (hs : ∀ y ∈ l', y ∈ l) (hu : uniqueBlobs l) : uniqueBlobs l' :=
  fun x hx y hy h1 h2 => hu x (hs x hx) y (hs y hy) h1 h2

theorem put_unique (a : Agent) (id : AIdent) (hu : uniqueBlobs a.idents) :
    uniqueBlobs (agentAdd.put id a).idents := by
  unfold agentAdd.put
  split
  · -- replaced in place
    intro x hx y hy h1 h2
    simp only [List.mem_map] at hx hy
    obtain ⟨x0, hx0, rfl⟩ := hx
    obtain ⟨y0, hy0, rfl⟩ := hy
    by_cases cx : (decide (x0.key = id.key) && decide (x0.cert = id.cert)) = true
    · by_cases cy : (decide (y0.key = id.key) && decide (y0.cert = id.cert)) = true
      · simp [cx, cy]
      · simp only [cx, cy, if_true] at h1 h2 ⊢
        simp only [Bool.and_eq_true, decide_eq_true_eq] at cy
        exact absurd ⟨h1.symm, h2.symm⟩ cy
    · by_cases cy : (decide (y0.key = id.key) && decide (y0.cert = id.cert)) = true
      · simp only [cx, cy, if_true] at h1 h2 ⊢
        simp only [Bool.and_eq_true, decide_eq_true_eq] at cx
        exact absurd ⟨h1, h2⟩ cx
      · simp only [cx, cy] at h1 h2 ⊢
        exact hu x0 hx0 y0 hy0 h1 h2
  · rename_i hany
    have hno : ∀ z ∈ a.idents, ¬ (z.key = id.key ∧ z.cert = id.cert) := by
      intro z hz hc
      apply hany
      simp only [List.any_eq_true, Bool.and_eq_true, decide_eq_true_eq]
      exact ⟨z, hz, hc⟩
    intro x hx y hy h1 h2
    simp only [List.mem_append, List.mem_singleton] at hx hy
    rcases hx with hx | rfl <;> rcases hy with hy | rfl
    · exact hu x hx y hy h1 h2
    · exact absurd ⟨h1, h2⟩ (hno x hx)
    · exact absurd ⟨h1.symm, h2.symm⟩ (hno y hy)
    · rfl

theorem agentAdd_unique (a : Agent) (id : AIdent) (hu : uniqueBlobs a.idents) :
    uniqueBlobs (agentAdd a id).1.idents := by
  have hp : uniqueBlobs (agentAdd.put id a.tick.1).idents := put_unique a.tick.1 id (by rw [tick_idents]; exact hu)
  unfold agentAdd
  simp only []
  split
  · exact hu
  · split
    · split
      · exact hu
      · exact hp
    · exact hp

theorem adds_unique (k : Key) (lt : Nat) (a : Agent) (tr : Trace) (cs : List (Option CertV))
    (hu : uniqueBlobs a.idents) : uniqueBlobs (addCerts.adds k lt a tr cs).1.idents := by
  induction cs generalizing a tr with
  | nil => exact hu
  | cons c r ih =>
    unfold addCerts.adds
    cases c with
    | none => exact ih a tr hu
    | some c =>
      simp only []
      split
      · exact hu
      · have h := agentAdd_unique a ⟨k, some c, certLabel, lt⟩ hu
        cases hr : agentAdd a ⟨k, some c, certLabel, lt⟩ with
        | mk a' ok =>
          rw [hr] at h
          cases ok
          · exact h
          · exact ih a' _ h

theorem agentList_idents (a : Agent) : (agentList a).1.idents = a.idents := by
  unfold agentList; simp only []; split <;> rfl

theorem addCerts_unique (conf : Conf) (k : Key) (certs : List (Option CertV)) (w : World)
    (hu : uniqueBlobs w.agent.idents) : uniqueBlobs (addCerts conf k certs w).1.agent.idents := by
  unfold addCerts
  have hl := agentList_idents w.agent
  cases hle : agentList w.agent with
  | mk a r =>
    rw [hle] at hl
    simp only [] at hl
    cases r with
    | none => simp only []; rw [hl]; exact hu
    | some ids =>
      simp only []
      have hr := removes_sub a [.agentList true] ids
      have hua : uniqueBlobs a.idents := by rw [hl]; exact hu
      cases hre : addCerts.removes a [.agentList true] ids with
      | mk a1 r1 =>
        obtain ⟨tr1, ok1⟩ := r1
        rw [hre] at hr
        have hu1 : uniqueBlobs a1.idents := unique_of_subset a.idents a1.idents hr hua
        cases ok1 with
        | false => exact hu1
        | true => exact adds_unique k _ a1 tr1 certs hu1

theorem signAll_agent (k : Key) (n : Nat) (w : World) : (signAll k n w).1.agent = w.agent := by
  have hca : ∀ w' : World, (caSign k w').1.agent = w'.agent := by
    intro w'
    unfold caSign
    split
    · rfl
    · split <;> rfl
  induction n generalizing w with
  | zero => rfl
  | succ m ih =>
    unfold signAll
    have hc := hca w
    cases hcs : caSign k w with
    | mk w1 r =>
      obtain ⟨tr, res⟩ := r
      rw [hcs] at hc
      cases res with
      | error e => exact hc
      | ok cs =>
        simp only []
        have := ih w1
        cases hs : signAll k m w1 with
        | mk w2 r2 =>
          obtain ⟨tr2, res2⟩ := r2
          rw [hs] at this
          cases res2 <;> (simp only []; exact this.trans hc)

/-- an identity of a long-term key whose comment does not carry the handler's label -/
def Foreign (x : AIdent) : Prop :=
  containsSub handlerName x.comment = false ∧ ∃ n, x.key = .registered n

theorem regularGenerate_keeps (conf : Conf) (p : Param) (w : World) (x : AIdent)
    (hx : x ∈ w.agent.idents) (hf : Foreign x) (hu : uniqueBlobs w.agent.idents) :
    x ∈ (regularGenerate conf p w).1.agent.idents ∧ uniqueBlobs (regularGenerate conf p w).1.agent.idents := by
  obtain ⟨_, n, hn⟩ := hf
  have hk := agentAdd_keeps w.agent ⟨.fresh w.rng, none, privateKeyLabel, lifetimeOf conf.validity⟩ x hx
    (by intro h; rw [hn] at h; cases h.1)
  have hq := agentAdd_unique w.agent ⟨.fresh w.rng, none, privateKeyLabel, lifetimeOf conf.validity⟩ hu
  unfold regularGenerate
  simp only []
  cases ha : agentAdd w.agent ⟨.fresh w.rng, none, privateKeyLabel, lifetimeOf conf.validity⟩ with
  | mk a ok =>
    rw [ha] at hk hq
    cases ok with
    | false => exact ⟨hk, hq⟩
    | true =>
      simp only []
      split <;> exact ⟨hk, hq⟩

/-- One run, any handler list: a foreign identity stays, and the agent's identities stay unique. -/
theorem run_keeps_foreign (conf : Conf) (p : Param) (hs : List Handler) (w : World) (x : AIdent)
    (hx : x ∈ w.agent.idents) (hf : Foreign x) (hu : uniqueBlobs w.agent.idents) :
    x ∈ (run conf p hs w).1.agent.idents ∧ uniqueBlobs (run conf p hs w).1.agent.idents := by
  have hsel := (selectHandler_trace conf p 0 hs w).2.1
  unfold run
  cases hs0 : selectHandler conf p 0 hs w with
  | mk w1 r =>
    obtain ⟨tr, res⟩ := r
    rw [hs0] at hsel
    simp only [] at hsel
    have hx1 : x ∈ w1.agent.idents := by rw [hsel]; exact hx
    have hu1 : uniqueBlobs w1.agent.idents := by rw [hsel]; exact hu
    cases res with
    | error e => exact ⟨hx1, hu1⟩
    | ok jh =>
      obtain ⟨i, hd⟩ := jh
      simp only []
      cases hd with
      | regular =>
        simp only []
        have hg := regularGenerate_keeps conf p w1 x hx1 hf hu1
        cases hge : regularGenerate conf p w1 with
        | mk w2 r2 =>
          obtain ⟨tr2, res2⟩ := r2
          rw [hge] at hg
          simp only [] at hg
          cases res2 with
          | error e => exact hg
          | ok kc =>
            obtain ⟨k, csr⟩ := kc
            simp only []
            have hkf : k = .fresh w1.rng := by
              exact (C02.c02_csr conf p w1 k csr (by rw [hge])).2.2.2.2.2.1
            have hsa := signAll_agent k 1 w2
            cases hsge : signAll k 1 w2 with
            | mk w3 r3 =>
              obtain ⟨tr3, res3⟩ := r3
              rw [hsge] at hsa
              simp only [] at hsa
              have hx3 : x ∈ w3.agent.idents := by rw [hsa]; exact hg.1
              have hu3 : uniqueBlobs w3.agent.idents := by rw [hsa]; exact hg.2
              cases res3 with
              | error e => cases e <;> exact ⟨hx3, hu3⟩
              | ok certs =>
                simp only []
                obtain ⟨hlab, n, hn⟩ := hf
                have hne : x.key ≠ k := by rw [hn, hkf]; intro h; cases h
                have h4 := c03_foreign_untouched conf k certs w3 x hx3 hlab hne hu3
                have u4 := addCerts_unique conf k certs w3 hu3
                cases hace : addCerts conf k certs w3 with
                | mk w4 r4 =>
                  obtain ⟨tr4, ok4⟩ := r4
                  rw [hace] at h4 u4
                  cases ok4 <;> exact ⟨h4, u4⟩
      | scripted s =>
        simp only []
        have hsig : ∀ n, x ∈ (signAll (.registered (500 + i)) n w1).1.agent.idents ∧
            uniqueBlobs (signAll (.registered (500 + i)) n w1).1.agent.idents := by
          intro n; rw [signAll_agent]; exact ⟨hx1, hu1⟩
        cases s with
        | genKey n addErr addPanic =>
          simp only []
          have := hsig n
          cases hsge : signAll (.registered (500 + i)) n w1 with
          | mk w3 r3 =>
            obtain ⟨tr3, res3⟩ := r3
            rw [hsge] at this
            cases res3 with
            | error e => cases e <;> exact this
            | ok certs =>
              simp only []
              cases addPanic with
              | true => exact this
              | false => cases addErr <;> exact this
        | genKeyNamePanic n =>
          simp only []
          have := hsig n
          cases hsge : signAll (.registered (500 + i)) n w1 with
          | mk w3 r3 =>
            obtain ⟨tr3, res3⟩ := r3
            rw [hsge] at this
            cases res3 with
            | error e => cases e <;> exact this
            | ok certs => exact this
        | _ => exact ⟨hx1, hu1⟩

/-- one request against the user's agent: configuration, parameters, handlers, how the agent
    behaves and where it fails during this run, and the CA's replies -/
structure Visit where
  conf : Conf
  p : Param
  hs : List Handler
  behav : SignBehav
  failAt : Option Nat
  closeAt : Option Nat
  ca : List CAReply

/-- the world a visit starts from: the agent's identities and the random source carry over from
    the previous run; behaviour, fault points and CA replies are the visit's own -/
def Visit.start (v : Visit) (w : World) : World :=
  { w with agent := ⟨w.agent.idents, v.behav, 0, v.failAt, v.closeAt⟩, ca := v.ca }

/-- a history of visits on one agent -/
def visits : World → List Visit → World
  | w, [] => w
  | w, v :: rest => visits (run v.conf v.p v.hs (v.start w)).1 rest

/-- **Foreign identities survive every history.** After any number of runs against the same agent
    — any handler lists, any behaviour of the agent, a failure or a closed connection at any
    request, any CA replies, successes and failures mixed — an identity of a long-term key that
    does not carry the handler's label is still there, unaltered. -/
theorem c03_history_foreign_kept (w : World) (l : List Visit) (x : AIdent)
    (hx : x ∈ w.agent.idents) (hf : Foreign x) (hu : uniqueBlobs w.agent.idents) :
    x ∈ (visits w l).agent.idents := by
  induction l generalizing w with
  | nil => exact hx
  | cons v rest ih =>
    simp only [visits]
    have h := run_keeps_foreign v.conf v.p v.hs (v.start w) x hx hf hu
    exact ih _ h.1 h.2

/-- Non-vacuity: the user's own key (registered 1, comment "user key") and a near-miss comment
    survive a successful run followed by a run whose signing fails. -/
example :
    let conf : Conf := ⟨3600, [(0, c!"id")], ⟨.key (.registered 1), .absent⟩⟩
    let p : Param := ⟨true, false, c!"alice", c!"t", c!"i", c!"u", c!"h", 0⟩
    let mine : AIdent := ⟨.registered 1, none, b!"user key", 0⟩
    let near : AIdent := ⟨.registered 2, none, b!"paranoids.regula", 0⟩
    let w : World := ⟨⟨[mine, near], .honest, 0, none, none⟩, 7, [], 0⟩
    let l : List Visit := [⟨conf, p, [.regular], .honest, none, none, [.certs 2 2]⟩, ⟨conf, p, [.regular], .honest, none, none, [.err]⟩]
    mine ∈ (visits w l).agent.idents ∧ near ∈ (visits w l).agent.idents ∧ (visits w l).agent.idents.length = 6 := by
  decide

end C03
end Ysshra
