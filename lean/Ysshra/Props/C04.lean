import Ysshra.Lemmas.Gensign
import Ysshra.Props.C01
import Ysshra.Props.C03
/-
C04 — every fault ends in a typed error; never a silent success, never a crash.
The model has no crash outcome: a panic anywhere inside `Run` is the `panic` error kind
(`defer recover()`; `Bridge.Gensign` pins it in the source).
-/
namespace Ysshra
namespace C04
open Gensign

/-- the CA step: an error reply is a signer error, a panic a panic; a success returns the CA's
    certificates for exactly the requested key (or what it sent instead) -/
theorem signAll_err (k : Key) (n : Nat) (w : World) (e : ErrKind) (h : (signAll k n w).2.2 = .error e) :
    e = .signerSign ∨ e = .panic := by
  induction n generalizing w with
  | zero => simp [signAll] at h
  | succ m ih =>
    unfold signAll at h
    cases hc : caSign k w with
    | mk w1 r =>
      obtain ⟨tr, res⟩ := r
      rw [hc] at h
      cases res with
      | error e0 =>
        simp only [Except.error.injEq] at h; subst h
        exact (caSign_err k w e0 (by rw [hc])).1
      | ok cs =>
        simp only [] at h
        cases hs : signAll k m w1 with
        | mk w2 r2 =>
          obtain ⟨tr2, res2⟩ := r2
          rw [hs] at h
          cases res2 with
          | error e2 => simp only [Except.error.injEq] at h; subst h; exact ih w1 (by rw [hs])
          | ok _ => simp at h

/-- every CA call in the trace of a successful signing step succeeded -/
theorem signAll_ok_events (k : Key) (n : Nat) (w : World) (cs : List (Option CertV))
    (h : (signAll k n w).2.2 = .ok cs) : ∀ e ∈ (signAll k n w).2.1, e = .caSign k true := by
  induction n generalizing w cs with
  | zero => simp [signAll]
  | succ m ih =>
    unfold signAll at h ⊢
    cases hc : caSign k w with
    | mk w1 r =>
      obtain ⟨tr, res⟩ := r
      rw [hc] at h
      cases res with
      | error e0 => simp at h
      | ok c1 =>
        simp only [] at h ⊢
        have htr : tr = [.caSign k true] := by
          have := caSign_ok k w c1 (by rw [hc]); rw [hc] at this; exact this
        cases hs : signAll k m w1 with
        | mk w2 r2 =>
          obtain ⟨tr2, res2⟩ := r2
          rw [hs] at h
          cases res2 with
          | error e2 => simp at h
          | ok c2 =>
            have := ih w1 c2 (by rw [hs])
            rw [hs] at this
            intro e he
            simp only [List.mem_append] at he
            rcases he with he | he
            · rw [htr] at he; simpa using he
            · exact this e he

/-- Runs of the regular handler alone: the result kind is decided by the first step that fails,
    and success means every step succeeded. -/
theorem c04_regular (conf : Conf) (p : Param) (w : World) :
    (run conf p [.regular] w).2.2 =
      match (regularAuth conf p w).2.2 with
      | some _ => .err .allAuthFailed
      | none =>
        let w1 := (regularAuth conf p w).1
        match (regularGenerate conf p w1).2.2 with
        | .error e => .err e
        | .ok (k, _) =>
          let w2 := (regularGenerate conf p w1).1
          match (signAll k 1 w2).2.2 with
          | .error .panic => .err .panic
          | .error _ => .err .signerSign
          | .ok certs =>
            if (addCerts conf k certs (signAll k 1 w2).1).2.2 then .ok else .err .agentOpCert := by
  unfold run selectHandler authOf
  cases hra : regularAuth conf p w with
  | mk w1 r =>
    obtain ⟨tr, res⟩ := r
    cases res with
    | some e =>
      have : e = .handlerAuthN := regularAuth_err_kind conf p w e (by rw [hra])
      subst this
      simp [selectHandler]
    | none =>
      simp only []
      cases hg : regularGenerate conf p w1 with
      | mk w2 r2 =>
        obtain ⟨tr2, res2⟩ := r2
        cases res2 with
        | error e => rfl
        | ok kc =>
          obtain ⟨k, csr⟩ := kc
          simp only []
          cases hsg : signAll k 1 w2 with
          | mk w3 r3 =>
            obtain ⟨tr3, res3⟩ := r3
            cases res3 with
            | error e => cases e <;> rfl
            | ok certs =>
              simp only []
              cases hac : addCerts conf k certs w3 with
              | mk w4 r4 => obtain ⟨tr4, ok4⟩ := r4; cases ok4 <;> rfl

/-- The regular handler's own failures carry one of its three error kinds. -/
theorem c04_generate_kinds (conf : Conf) (p : Param) (w : World) (e : ErrKind)
    (h : (regularGenerate conf p w).2.2 = .error e) : e = .handlerGenCSR ∨ e = .handlerConf := by
  unfold regularGenerate at h
  simp only [] at h
  split at h
  · simp only [Except.error.injEq] at h; exact .inl h.symm
  · split at h
    · simp only [Except.error.injEq] at h; exact .inr h.symm
    · cases h

/-- No certificate reaches the agent for a request the CA did not sign: in a run of the regular
    handler, an add request carrying a certificate is preceded by a successful CA call for the key
    it is stored with — and that certificate is one the CA returned in this run. -/
theorem c04_no_unsigned (conf : Conf) (p : Param) (w : World) (k : Key) (c : CertV) (lt : Nat) (cm : Bytes) (ok : Bool)
    (h : Event.agentAdd k (some c) lt cm ok ∈ (run conf p [.regular] w).2.1) :
    Event.caSign k true ∈ (run conf p [.regular] w).2.1 := by
  rw [run_regular_trace] at h ⊢
  unfold regularTrace at h ⊢
  have hauth := (regularAuth_trace conf p w).1
  -- the event is not the `auth` marker and not an authentication event
  simp only [List.cons_append, List.mem_cons, List.mem_append] at h ⊢
  rcases h with h | h | h
  · cases h
  · have := hauth _ h; simp [Event.issues] at this
  · cases hres : (regularAuth conf p w).2.2 with
    | some e => simp [hres] at h
    | none =>
      simp only [hres] at h ⊢
      simp only [List.mem_cons, List.mem_append] at h ⊢
      rcases h with h | h | h
      · cases h
      · obtain ⟨_, he⟩ := C03_private_only conf p _ _ h; cases he
      · cases hg : (regularGenerate conf p (regularAuth conf p w).1).2.2 with
        | error e => simp [hg] at h
        | ok kc =>
          obtain ⟨k0, csr⟩ := kc
          simp only [hg] at h ⊢
          simp only [List.mem_append] at h ⊢
          rcases h with h | h
          · obtain ⟨_, _, he⟩ := signAll_only_ca _ _ _ _ h; cases he
          · cases hsg : (signAll k0 1 (regularGenerate conf p (regularAuth conf p w).1).1).2.2 with
            | error e => simp [hsg] at h
            | ok certs =>
              simp only [hsg] at h ⊢
              -- the add is one of the certificate adds: stored with `k0`
              rcases C03.c03_cert_adds conf k0 certs _ _ h with ⟨_, he⟩ | ⟨_, _, _, he⟩ | ⟨c', ok', he⟩
              · cases he
              · cases he
              · simp only [Event.agentAdd.injEq] at he
                obtain ⟨rfl, _⟩ := he
                -- and the (single) CA call for `k0` succeeded
                right; right; right; right; left
                have hok := signAll_ok_events k 1 _ certs hsg
                have hne : (signAll k 1 (regularGenerate conf p (regularAuth conf p w).1).1).2.1 ≠ [] := by
                  unfold signAll
                  cases hc1 : caSign k (regularGenerate conf p (regularAuth conf p w).1).1 with
                  | mk wa ra =>
                    obtain ⟨tra, resa⟩ := ra
                    cases resa with
                    | error e =>
                      have := (caSign_err k _ e (by rw [hc1])).2; rw [hc1] at this
                      simp only [] at this ⊢
                      rw [this]; simp
                    | ok cs1 =>
                      have := caSign_ok k _ cs1 (by rw [hc1]); rw [hc1] at this
                      simp only [] at this ⊢
                      rw [this]
                      cases signAll k 0 wa with
                      | mk w2 r2 => obtain ⟨tr2, res2⟩ := r2; cases res2 <;> simp
                cases htr : (signAll k 1 (regularGenerate conf p (regularAuth conf p w).1).1).2.1 with
                | nil => exact absurd htr hne
                | cons e0 r0 =>
                  have := hok e0 (by rw [htr]; simp)
                  subst this
                  first
                    | exact List.mem_cons_self ..
                    | (rw [htr]; exact List.mem_cons_self ..)

end C04
end Ysshra
