import Ysshra.Props.C04
/-
C04, for every handler list: success is reported only when every step after the authentication
succeeded — no CA call, listing, removal or addition that failed is ever followed by "ok".
-/
namespace Ysshra
namespace C04
open Gensign

/-- a step that failed: a CA call, an agent listing, removal or addition that did not succeed -/
def Event.failedStep : Event → Bool
  | .caSign _ false | .agentAdd _ _ _ _ false | .agentRemove _ _ false | .agentList false => true
  | _ => false

theorem removes_true_events (a : Agent) (tr : Trace) (ids : List AIdent)
    (htr : ∀ e ∈ tr, Event.failedStep e = false) (hok : (addCerts.removes a tr ids).2.2 = true) :
    ∀ e ∈ (addCerts.removes a tr ids).2.1, Event.failedStep e = false := by
  induction ids generalizing a tr with
  | nil => exact htr
  | cons id r ih =>
    unfold addCerts.removes at hok ⊢
    split
    · rename_i hc
      rw [if_pos hc] at hok
      cases hr : agentRemove a id with
      | mk a' ok =>
        rw [hr] at hok
        cases ok with
        | false => simp at hok
        | true =>
          simp only [] at hok ⊢
          apply ih _ _ _ hok
          intro e he
          simp only [List.mem_append, List.mem_singleton] at he
          rcases he with he | rfl
          · exact htr e he
          · rfl
    · rename_i hc
      rw [if_neg hc] at hok
      exact ih a tr htr hok

theorem adds_true_events (k : Key) (lt : Nat) (a : Agent) (tr : Trace) (cs : List (Option CertV))
    (htr : ∀ e ∈ tr, Event.failedStep e = false) (hok : (addCerts.adds k lt a tr cs).2.2 = true) :
    ∀ e ∈ (addCerts.adds k lt a tr cs).2.1, Event.failedStep e = false := by
  induction cs generalizing a tr with
  | nil => exact htr
  | cons c r ih =>
    unfold addCerts.adds at hok ⊢
    cases c with
    | none => exact ih a tr htr hok
    | some c =>
      simp only [] at hok ⊢
      split
      · rename_i hc
        rw [if_pos hc] at hok
        simp at hok
      · rename_i hc
        rw [if_neg hc] at hok
        cases hr : agentAdd a ⟨k, some c, certLabel, lt⟩ with
        | mk a' ok =>
          rw [hr] at hok
          cases ok with
          | false => simp at hok
          | true =>
            simp only [] at hok ⊢
            apply ih _ _ _ hok
            intro e he
            simp only [List.mem_append, List.mem_singleton] at he
            rcases he with he | rfl
            · exact htr e he
            · rfl

theorem addCerts_true_events (conf : Conf) (k : Key) (certs : List (Option CertV)) (w : World)
    (hok : (addCerts conf k certs w).2.2 = true) :
    ∀ e ∈ (addCerts conf k certs w).2.1, Event.failedStep e = false := by
  unfold addCerts at hok ⊢
  cases hl : agentList w.agent with
  | mk a r =>
    rw [hl] at hok
    cases r with
    | none => simp at hok
    | some ids =>
      simp only [] at hok ⊢
      cases hrm : addCerts.removes a [.agentList true] ids with
      | mk a1 r1 =>
        obtain ⟨tr1, ok1⟩ := r1
        rw [hrm] at hok
        cases ok1 with
        | false => simp at hok
        | true =>
          simp only [] at hok ⊢
          have h1 : ∀ e ∈ tr1, Event.failedStep e = false := by
            have := removes_true_events a [.agentList true] ids (by simp [Event.failedStep]) (by rw [hrm])
            rw [hrm] at this; exact this
          cases had : addCerts.adds k (lifetimeOf conf.validity) a1 tr1 certs with
          | mk a2 r2 =>
            obtain ⟨tr2, ok2⟩ := r2
            rw [had] at hok
            simp only [] at hok ⊢
            subst hok
            have := adds_true_events k _ a1 tr1 certs h1 (by rw [had])
            rw [had] at this; exact this

theorem regularGenerate_ok_events (conf : Conf) (p : Param) (w : World) (kc : Key × CSR)
    (h : (regularGenerate conf p w).2.2 = .ok kc) :
    ∀ e ∈ (regularGenerate conf p w).2.1, Event.failedStep e = false := by
  unfold regularGenerate at h ⊢
  simp only [] at h ⊢
  split at h
  · simp at h
  · split <;> (intro e he; simp at he; subst he; rfl)

theorem signAll_ok_steps (k : Key) (n : Nat) (w : World) (cs : List (Option CertV))
    (h : (signAll k n w).2.2 = .ok cs) : ∀ e ∈ (signAll k n w).2.1, Event.failedStep e = false := by
  intro e he
  rw [signAll_ok_events k n w cs h e he]
  rfl

/-- **No silent success, for every handler list.** When `Run` reports success, nothing after the
    selection of the handler failed: every CA call was answered, the listing, every removal and
    every addition succeeded. -/
theorem c04_success_every_step (conf : Conf) (p : Param) (hs : List Handler) (w : World)
    (h : (run conf p hs w).2.2 = .ok) :
    ∃ rest, (run conf p hs w).2.1 = (selectHandler conf p 0 hs w).2.1 ++ rest ∧
      ∀ e ∈ rest, Event.failedStep e = false := by
  unfold run at h ⊢
  cases hsel : selectHandler conf p 0 hs w with
  | mk w1 r =>
    obtain ⟨tr, res⟩ := r
    rw [hsel] at h
    cases res with
    | error e => simp at h
    | ok jh =>
      obtain ⟨i, hd⟩ := jh
      simp only [] at h ⊢
      cases hd with
      | regular =>
        simp only [] at h ⊢
        cases hg : regularGenerate conf p w1 with
        | mk w2 r2 =>
          obtain ⟨tr2, res2⟩ := r2
          rw [hg] at h
          cases res2 with
          | error e => simp at h
          | ok kc =>
            obtain ⟨k, csr⟩ := kc
            simp only [] at h ⊢
            have htr2 : ∀ e ∈ tr2, Event.failedStep e = false := by
              have := regularGenerate_ok_events conf p w1 (k, csr) (by rw [hg])
              rw [hg] at this; exact this
            cases hsg : signAll k 1 w2 with
            | mk w3 r3 =>
              obtain ⟨tr3, res3⟩ := r3
              rw [hsg] at h
              cases res3 with
              | error e => cases e <;> simp at h
              | ok certs =>
                simp only [] at h ⊢
                have htr3 : ∀ e ∈ tr3, Event.failedStep e = false := by
                  have := signAll_ok_steps k 1 w2 certs (by rw [hsg])
                  rw [hsg] at this; exact this
                cases hac : addCerts conf k certs w3 with
                | mk w4 r4 =>
                  obtain ⟨tr4, ok4⟩ := r4
                  rw [hac] at h
                  cases ok4 with
                  | false => simp at h
                  | true =>
                    simp only [] at h ⊢
                    have htr4 : ∀ e ∈ tr4, Event.failedStep e = false := by
                      have := addCerts_true_events conf k certs w3 (by rw [hac])
                      rw [hac] at this; exact this
                    refine ⟨.generate i :: tr2 ++ tr3 ++ tr4, by simp, ?_⟩
                    intro e he
                    simp only [List.cons_append, List.mem_cons, List.mem_append] at he
                    rcases he with rfl | ((he | he) | he)
                    · rfl
                    · exact htr2 e he
                    · exact htr3 e he
                    · exact htr4 e he
      | scripted s =>
        simp only [] at h ⊢
        cases s with
        | genKey n addErr addPanic =>
          simp only [] at h ⊢
          cases hsg : signAll (.registered (500 + i)) n w1 with
          | mk w3 r3 =>
            obtain ⟨tr3, res3⟩ := r3
            rw [hsg] at h
            cases res3 with
            | error e => cases e <;> simp at h
            | ok certs =>
              simp only [] at h ⊢
              have htr3 : ∀ e ∈ tr3, Event.failedStep e = false := by
                have := signAll_ok_steps _ n w1 certs (by rw [hsg])
                rw [hsg] at this; exact this
              have hshape : ∀ (r : World × Trace × Result), r.2.1 = tr ++ [.generate i] ++ tr3 →
                  ∃ rest, r.2.1 = tr ++ rest ∧ ∀ e ∈ rest, Event.failedStep e = false := by
                intro r hr
                refine ⟨.generate i :: tr3, by rw [hr]; simp, ?_⟩
                intro e he
                simp only [List.mem_cons] at he
                rcases he with rfl | he
                · rfl
                · exact htr3 e he
              cases addPanic with
              | true => simp at h
              | false =>
                cases addErr with
                | some _ => simp at h
                | none => exact hshape _ rfl
        | genKeyNamePanic n =>
          simp only [] at h
          cases hsg : signAll (.registered (500 + i)) n w1 with
          | mk w3 r3 =>
            obtain ⟨tr3, res3⟩ := r3
            rw [hsg] at h
            cases res3 with
            | error e => cases e <;> simp at h
            | ok certs => simp at h
        | _ => simp at h

/-- The same read the other way round: a failed step after the selection is never followed by "ok". -/
theorem c04_failed_step_not_ok (conf : Conf) (p : Param) (hs : List Handler) (w : World) (rest : Trace) (e : Event)
    (htr : (run conf p hs w).2.1 = (selectHandler conf p 0 hs w).2.1 ++ rest) (he : e ∈ rest)
    (hf : Event.failedStep e = true) : (run conf p hs w).2.2 ≠ .ok := by
  intro hok
  obtain ⟨rest', h1, h2⟩ := c04_success_every_step conf p hs w hok
  have : rest = rest' := List.append_cancel_left (htr.symm.trans h1)
  subst this
  rw [h2 e he] at hf
  cases hf

/-- Non-vacuity: a handler list whose first handler refuses and whose second is the regular one
    succeeds with an honest agent and a CA that signs; with a CA that fails it does not. -/
example :
    let conf : Conf := ⟨3600, [(0, c!"id")], ⟨.key (.registered 1), .absent⟩⟩
    let p : Param := ⟨true, false, c!"alice", c!"t", c!"i", c!"u", c!"h", 0⟩
    let ag : Agent := ⟨[⟨.registered 1, none, [], 0⟩], .honest, 0, none, none⟩
    (run conf p [.scripted .reject, .regular] ⟨ag, 7, [.certs 2 1], 0⟩).2.2 = .ok ∧
    (run conf p [.scripted .reject, .regular] ⟨ag, 7, [.err], 0⟩).2.2 = .err .signerSign ∧
    (run conf p [.scripted .reject, .scripted (.genKey 2 none false)] ⟨ag, 7, [.certs 1 1, .certs 1 1], 0⟩).2.2 = .ok := by
  decide

end C04
end Ysshra
