import Ysshra.Props.C20
/-
C20, bursts: when several requests arrive back to back (on different connections, in any order),
exactly the clients waiting on one of their codes are released — whatever the order in which the
server happens to process the burst. No wake-up is lost because another code followed at once.
-/
namespace Ysshra
namespace C20
open Cond

/-- process a burst of (non-wait) requests; the released clients accumulated -/
def burst (n : Nat) (s : State) (cs : List UInt8) : State × List Tid :=
  cs.foldl (fun acc c => let r := broadcast n acc.1 c; (r.1, acc.2 ++ r.2)) (s, [])

theorem burst_spec (n : Nat) (cs : List UInt8) (s : State) (rel0 : List Tid) :
    (cs.foldl (fun acc c => let r := broadcast n acc.1 c; (r.1, acc.2 ++ r.2)) (s, rel0)).1 =
      s.filter (fun w => !(inRange n w.2 && cs.contains w.2)) ∧
    ∀ t, t ∈ (cs.foldl (fun acc c => let r := broadcast n acc.1 c; (r.1, acc.2 ++ r.2)) (s, rel0)).2 ↔
      t ∈ rel0 ∨ ∃ w ∈ s, w.1 = t ∧ inRange n w.2 = true ∧ w.2 ∈ cs := by
  induction cs generalizing s rel0 with
  | nil => exact ⟨by simp only [List.foldl_nil, List.contains_nil, Bool.and_false, Bool.not_false]; exact (List.filter_eq_self.mpr (fun _ _ => rfl)).symm, by simp⟩
  | cons c r ih =>
    simp only [List.foldl_cons]
    obtain ⟨ih1, ih2⟩ := ih (broadcast n s c).1 (rel0 ++ (broadcast n s c).2)
    refine ⟨?_, ?_⟩
    · rw [ih1]
      unfold broadcast
      by_cases hr : inRange n c = true
      · simp only [hr, if_true, List.filter_filter]
        apply List.filter_congr
        intro w _
        by_cases hw : w.2 = c
        · simp [hw, hr]
        · have : (c == w.2) = false := by simpa using fun e => hw e.symm
          simp [hw]
      · have hrf : inRange n c = false := by simpa using hr
        simp only [hrf, Bool.false_eq_true, if_false]
        apply List.filter_congr
        intro w _
        by_cases hw : w.2 = c
        · have hr' : inRange n w.2 = false := by rw [hw]; exact hrf
          simp [hr']
        · have : (c == w.2) = false := by simpa using fun e => hw e.symm
          simp [hw]
    · intro t
      rw [ih2]
      unfold broadcast
      by_cases hr : inRange n c = true
      · simp only [hr, if_true, List.mem_append, List.mem_map, List.mem_filter, decide_eq_true_eq]
        constructor
        · rintro ((h | ⟨w, ⟨hw, hc⟩, rfl⟩) | ⟨w, ⟨hw, hne⟩, rfl, hir, hmem⟩)
          · exact .inl h
          · exact .inr ⟨w, hw, rfl, by rw [hc]; exact hr, by simp [hc]⟩
          · exact .inr ⟨w, hw, rfl, hir, List.mem_cons_of_mem _ hmem⟩
        · rintro (h | ⟨w, hw, rfl, hir, hmem⟩)
          · exact .inl (.inl h)
          · by_cases hc : w.2 = c
            · exact .inl (.inr ⟨w, ⟨hw, hc⟩, rfl⟩)
            · rcases List.mem_cons.mp hmem with h | h
              · exact absurd h hc
              · exact .inr ⟨w, ⟨hw, by simpa using hc⟩, rfl, hir, h⟩
      · have hrf : inRange n c = false := by simpa using hr
        simp only [hrf, Bool.false_eq_true, if_false, List.append_nil]
        constructor
        · rintro (h | ⟨w, hw, rfl, hir, hmem⟩)
          · exact .inl h
          · exact .inr ⟨w, hw, rfl, hir, List.mem_cons_of_mem _ hmem⟩
        · rintro (h | ⟨w, hw, rfl, hir, hmem⟩)
          · exact .inl h
          · rcases List.mem_cons.mp hmem with h | h
            · rw [h] at hir; exact absurd hir hr
            · exact .inr ⟨w, hw, rfl, hir, h⟩

/-- **Bursts.** After a burst of requests with codes `cs`, the clients released are exactly those
    that were waiting on an in-range code occurring in `cs`, and exactly those stop waiting. -/
theorem c20_burst (n : Nat) (s : State) (cs : List UInt8) :
    (burst n s cs).1 = s.filter (fun w => !(inRange n w.2 && cs.contains w.2)) ∧
    ∀ t, t ∈ (burst n s cs).2 ↔ ∃ w ∈ s, w.1 = t ∧ inRange n w.2 = true ∧ w.2 ∈ cs := by
  obtain ⟨h1, h2⟩ := burst_spec n cs s []
  exact ⟨h1, fun t => by rw [burst, h2 t]; simp⟩

/-- … so the order in which the server processes the requests of a burst does not matter. -/
theorem c20_burst_order (n : Nat) (s : State) (cs cs' : List UInt8) (hp : ∀ c, c ∈ cs ↔ c ∈ cs') :
    (burst n s cs).1 = (burst n s cs').1 ∧ ∀ t, t ∈ (burst n s cs).2 ↔ t ∈ (burst n s cs').2 := by
  obtain ⟨a1, a2⟩ := c20_burst n s cs
  obtain ⟨b1, b2⟩ := c20_burst n s cs'
  refine ⟨?_, ?_⟩
  · rw [a1, b1]
    apply List.filter_congr
    intro w _
    have : cs.contains w.2 = cs'.contains w.2 := by
      rw [Bool.eq_iff_iff]; simp [hp]
    rw [this]
  · intro t
    rw [a2, b2]
    constructor <;> (rintro ⟨w, hw, h1, h2, h3⟩; exact ⟨w, hw, h1, h2, by first | exact (hp _).mp h3 | exact (hp _).mpr h3⟩)

example : (burst 40 [(1, 11), (2, 13), (3, 11), (4, 200)] [11, 13]).2 = [1, 3, 2] ∧
    (burst 40 [(1, 11), (2, 13), (3, 11), (4, 200)] [13, 11]).2 = [2, 1, 3] := by decide

end C20
end Ysshra
