import Ysshra.Bridge.Crypki
import Ysshra.Props.C17
/-
C18 — the RA talks only to CA servers authenticated by the configured CA bundle.
Partial: that `crypto/tls` implements `clientAccepts` is the documented behaviour of the library,
exercised by real handshakes in the correspondence run, not proved.
-/
namespace Ysshra
namespace C18
open Crypki

/-- With the regenerated configuration, the client accepts a server exactly when the server offers
    TLS 1.2 or later, its certificate chains to a configured CA certificate and matches the
    endpoint name. -/
theorem c18_accepts_iff (s : Server) :
    clientAccepts Gen.Crypki.tlsCfg s = true ↔
      (tls12 ≤ s.maxVersion ∧ s.chainsToConfigured = true ∧ s.nameMatches = true) := by
  have h := Bridge.Crypki.tls_bridge
  have hmin : Gen.Crypki.tlsCfg.effectiveMin = tls12 := by decide
  unfold clientAccepts
  simp only [h.1, h.2.1, Bool.or_self, Bool.false_eq_true, ↓reduceIte, hmin, Bool.and_eq_true, decide_eq_true_eq]
  exact ⟨fun ⟨⟨a, b⟩, c⟩ => ⟨a, b, c⟩, fun ⟨a, b, c⟩ => ⟨⟨a, b⟩, c⟩⟩

variable {E : Type}

/-- A signing call succeeds only through an endpoint whose server the client accepts (and that
    accepted the RA's client certificate): self-signed, foreign-CA, expired, wrongly named or
    TLS-1.1-only servers never produce the result. -/
theorem c18_only_trusted (cfg : TlsCfg) (server : E → Server) (reply : E → Reply) (eps : List E)
    (x : List Nat × List Bytes) (h : (sign (fun e => tlsReply cfg (server e) (reply e)) eps).1 = some x) :
    ∃ e ∈ eps, clientAccepts cfg (server e) = true ∧ (server e).acceptsClient = true ∧
      post (reply e) = some x := by
  have hloop : (signLoop (fun e => tlsReply cfg (server e) (reply e)) eps).1 = some x := by
    unfold sign at h; split at h
    · simp at h
    · exact h
  obtain ⟨pre, e, hc, hp, _⟩ := C17.c17_first_success _ eps x hloop
  obtain ⟨rest, hpre⟩ := C17.c17_order (fun e => tlsReply cfg (server e) (reply e)) eps
  have hmem : e ∈ eps := by rw [hpre, hc]; simp
  refine ⟨e, hmem, ?_⟩
  unfold tlsReply at hp
  split at hp
  · rename_i hacc
    simp only [Bool.and_eq_true] at hacc
    exact ⟨hacc.1, hacc.2, hp⟩
  · simp [post] at hp

/-- An impostor at any position is just a failed endpoint: a later genuine endpoint still serves
    the request. -/
theorem c18_impostor_skipped (cfg : TlsCfg) (server : E → Server) (reply : E → Reply)
    (impostors : List E) (good : E) (rest : List E) (x : List Nat × List Bytes)
    (himp : ∀ e ∈ impostors, clientAccepts cfg (server e) = false)
    (hgood : clientAccepts cfg (server good) = true ∧ (server good).acceptsClient = true)
    (hx : post (reply good) = some x) :
    (sign (fun e => tlsReply cfg (server e) (reply e)) (impostors ++ good :: rest)).1 = some x := by
  have hne : (impostors ++ good :: rest).isEmpty = false := by cases impostors <;> simp
  unfold sign; simp only [hne, Bool.false_eq_true, ↓reduceIte]
  clear hne
  induction impostors with
  | nil =>
    simp only [List.nil_append, signLoop, tlsReply, hgood.1, hgood.2, Bool.and_self, ↓reduceIte, hx]
  | cons i r ih =>
    have hi : post (tlsReply cfg (server i) (reply i)) = none := by
      simp [tlsReply, himp i (by simp), post]
    simp only [List.cons_append, signLoop, hi]
    exact ih (fun e he => himp e (by simp [he]))

end C18
end Ysshra
