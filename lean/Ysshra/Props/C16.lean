import Ysshra.Bridge.Attest
import Ysshra.Model.Pem
/-
C16 — device serial extraction is total (layer 1 of the C16 design: ModHex).
The certificate-decoding clauses are covered by the correspondence run against
crypto/x509 (see DESIGN.md §7 C16); they are not theorems.
-/
namespace Ysshra
namespace C16
open Attest
open Ysshra.Message (Res)

theorem modNibble_some (n : Nat) (h : n < 16) : ∃ c, modNibble n = some c ∧ c ∈ modHexMap := by
  have : n = 0 ∨ n = 1 ∨ n = 2 ∨ n = 3 ∨ n = 4 ∨ n = 5 ∨ n = 6 ∨ n = 7 ∨ n = 8 ∨ n = 9 ∨ n = 10 ∨
      n = 11 ∨ n = 12 ∨ n = 13 ∨ n = 14 ∨ n = 15 := by omega
  rcases this with h | h | h | h | h | h | h | h | h | h | h | h | h | h | h | h <;> subst h <;>
    exact ⟨_, rfl, by decide⟩

theorem modNibble_inj : ∀ a < 16, ∀ b < 16, modNibble a = modNibble b → a = b := by decide

theorem modByte_spec (b : UInt8) :
    ∃ x y, modByte b = [x, y] ∧ modNibble (b.toNat / 16) = some x ∧ modNibble (b.toNat % 16) = some y ∧
      x ∈ modHexMap ∧ y ∈ modHexMap := by
  obtain ⟨x, hx, hxm⟩ := modNibble_some (b.toNat / 16) (by have := b.toNat_lt; omega)
  obtain ⟨y, hy, hym⟩ := modNibble_some (b.toNat % 16) (by omega)
  exact ⟨x, y, by simp [modByte, hx, hy], hx, hy, hxm, hym⟩

theorem modByte_inj (a b : UInt8) (h : modByte a = modByte b) : a = b := by
  obtain ⟨x, y, h1, hx, hy, _, _⟩ := modByte_spec a
  obtain ⟨x', y', h2, hx', hy', _, _⟩ := modByte_spec b
  rw [h1, h2] at h
  simp only [List.cons.injEq, and_true] at h
  have ha := a.toNat_lt
  have hb := b.toNat_lt
  have e1 := modNibble_inj (a.toNat / 16) (by omega) (b.toNat / 16) (by omega) (by rw [hx, hx', h.1])
  have e2 := modNibble_inj (a.toNat % 16) (by omega) (b.toNat % 16) (by omega) (by rw [hy, hy', h.2])
  have : a.toNat = b.toNat := by omega
  exact UInt8.toNat_inj.1 this

theorem flatMap_modByte_length (s : Bytes) : (s.flatMap modByte).length = 2 * s.length := by
  induction s with
  | nil => rfl
  | cons b r ih =>
    obtain ⟨x, y, h1, _⟩ := modByte_spec b
    simp [List.flatMap_cons, h1, ih]; omega

theorem flatMap_modByte_mem (s : Bytes) : ∀ c ∈ s.flatMap modByte, c ∈ modHexMap := by
  intro c hc
  simp only [List.mem_flatMap] at hc
  obtain ⟨b, _, hb⟩ := hc
  obtain ⟨x, y, h1, _, _, hx, hy⟩ := modByte_spec b
  rw [h1] at hb; simp at hb
  rcases hb with rfl | rfl <;> assumption

theorem flatMap_modByte_inj (s t : Bytes) (hl : s.length = t.length)
    (h : s.flatMap modByte = t.flatMap modByte) : s = t := by
  induction s generalizing t with
  | nil => cases t <;> simp_all
  | cons a r ih =>
    cases t with
    | nil => simp at hl
    | cons b u =>
      obtain ⟨x, y, h1, _⟩ := modByte_spec a
      obtain ⟨x', y', h2, _⟩ := modByte_spec b
      simp only [List.flatMap_cons, h1, h2, List.cons_append, List.nil_append, List.cons.injEq] at h
      have hab : a = b := modByte_inj a b (by rw [h1, h2, h.1, h.2.1])
      rw [hab, ih u (by simpa using hl) h.2.2]

/-- The extractor never crashes, whatever the extension list (with the guard of the F5 repair;
    `Bridge.Attest.modhex_bridge` pins that guard in the source). -/
theorem c16_modhex_total (exts : List (Str × Bytes)) : modHex exts ≠ .crash := by
  unfold modHex; repeat' split
  all_goals simp

/-- A result has 8 characters, all from the ModHex alphabet `cbdefghijklnrtuv`. -/
theorem c16_modhex_shape (exts : List (Str × Bytes)) (s : Str) (h : modHex exts = .ok s) :
    s.length = 8 ∧ ∀ c ∈ s, c ∈ Gen.Attest.modHexMap := by
  rw [Bridge.Attest.modhex_bridge.1]
  unfold modHex at h
  split at h
  · cases h
  · cases h
  · rename_i serial _
    split at h
    · rename_i h3
      cases h
      refine ⟨by simp only [List.length_cons, flatMap_modByte_length, h3], ?_⟩
      intro c hc
      simp only [List.mem_cons] at hc
      rcases hc with rfl | rfl | hc
      · decide
      · decide
      · exact flatMap_modByte_mem _ _ hc
    · split at h
      · rename_i h4
        cases h
        exact ⟨by simp only [flatMap_modByte_length, h4], flatMap_modByte_mem _⟩
      · cases h

/-- the serial the extractor reads: value of the last vendor extension minus two header bytes -/
def serialOf (exts : List (Str × Bytes)) : Option (Option Bytes) := modHex.pick none exts

/-- Success exactly for a 3- or 4-byte serial; the 3-byte form is padded with `cc`. -/
theorem c16_modhex_iff (exts : List (Str × Bytes)) (s : Str) :
    modHex exts = .ok s ↔
      ∃ serial, serialOf exts = some (some serial) ∧
        ((serial.length = 3 ∧ s = 'c' :: 'c' :: serial.flatMap modByte) ∨
         (serial.length = 4 ∧ s = serial.flatMap modByte)) := by
  unfold modHex serialOf
  cases modHex.pick none exts with
  | none => simp
  | some o =>
    cases o with
    | none => simp
    | some serial =>
      simp only []
      by_cases h3 : serial.length = 3
      · simp [h3]; constructor <;> (intro h; exact h.symm)
      · by_cases h4 : serial.length = 4
        · simp [h4]; constructor <;> (intro h; exact h.symm)
        · simp [h3, h4]

/-- Distinct serials of the same length give distinct strings. -/
theorem c16_modhex_injective (s t : Bytes) (hl : s.length = t.length)
    (h : s.flatMap modByte = t.flatMap modByte) : s = t := flatMap_modByte_inj s t hl h

/-- … and a 3-byte serial collides exactly with the 4-byte serial that has a leading zero byte
    (that is what the `cc` padding means). -/
theorem c16_modhex_padding (s : Bytes) :
    ('c' :: 'c' :: s.flatMap modByte) = ((0 : UInt8) :: s).flatMap modByte := by
  have : modByte 0 = ['c', 'c'] := by decide
  simp [List.flatMap_cons, this]

/-- Non-vacuity: serial 00 9a 4f 21 behind the two DER header bytes. -/
example : modHex [(serialOID, [0x02, 0x04, 0x00, 0x9a, 0x4f, 0x21])] = .ok c!"ccklfvdb" := by decide

end C16
end Ysshra

namespace Ysshra
namespace C16
open Pem

/-- the serials of the blocks of a bundle, in order -/
def blockCerts : List Seg → List Nat
  | [] => []
  | .block (some c) :: r => c :: blockCerts r
  | _ :: r => blockCerts r

/-- A bundle in which every block parses, with any text in front of or between blocks and only
    white space after the last one, yields all its certificates in order. -/
theorem c16_pem_all_in_order (segs : List Seg)
    (hparse : ∀ s ∈ segs, s ≠ .block none)
    (htrail : ∀ pre post, segs = pre ++ post → post.any Seg.isBlock = false → post.all Seg.isWs = true) :
    certificates segs = some (blockCerts segs) := by
  induction segs with
  | nil => rfl
  | cons s r ih =>
    have ih' := ih (fun x hx => hparse x (List.mem_cons_of_mem _ hx))
      (fun pre post h hb => htrail (s :: pre) post (by simp [h]) hb)
    cases s with
    | block c =>
      cases c with
      | none => exact absurd rfl (hparse _ (List.mem_cons_self ..))
      | some c => simp [certificates, blockCerts, ih']
    | text ws =>
      simp only [certificates, blockCerts]
      by_cases hb : r.any Seg.isBlock = true
      · simp [hb, ih']
      · have hb' : r.any Seg.isBlock = false := by simpa using hb
        have hall := htrail [] (Seg.text ws :: r) rfl (by simpa [Seg.isBlock] using hb')
        simp only [List.all_cons, Bool.and_eq_true] at hall
        have hws : ws = true := by simpa [Seg.isWs] using hall.1
        have hnil : blockCerts r = [] := by
          clear ih ih' hparse htrail hall hb
          induction r with
          | nil => rfl
          | cons x xs ihx =>
            simp only [List.any_cons, Bool.or_eq_false_iff] at hb'
            cases x with
            | block c => simp [Seg.isBlock] at hb'
            | text w => simpa [blockCerts] using ihx hb'.2
        simp [hb', hws, hall.2, hnil]

/-- A block that does not parse makes the whole bundle an error. -/
theorem c16_pem_bad_block (pre post : List Seg) (h : ∀ s ∈ pre, s ≠ .block none) :
    certificates (pre ++ .block none :: post) = none := by
  induction pre with
  | nil => rfl
  | cons s r ih =>
    have ih' := ih (fun x hx => h x (List.mem_cons_of_mem _ hx))
    cases s with
    | block c =>
      cases c with
      | none => rfl
      | some c => simp [certificates, ih']
    | text ws => simp [certificates, Seg.isBlock, ih']

/-- Trailing non-white-space after the last block is an error. -/
theorem c16_pem_trailing_garbage (pre : List Seg) :
    certificates (pre ++ [.text false]) = none := by
  induction pre with
  | nil => rfl
  | cons s r ih =>
    cases s with
    | block c =>
      cases c with
      | none => rfl
      | some c => simp [certificates, ih]
    | text ws =>
      simp only [List.cons_append, certificates]
      by_cases hb : (r ++ [Seg.text false]).any Seg.isBlock = true
      · simp [hb, ih]
      · simp [hb, Seg.isWs]

example : certificates [.text false, .block (some 7), .text false, .block (some 9), .text true] = some [7, 9] := by
  decide

end C16
end Ysshra
