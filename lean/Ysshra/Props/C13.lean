import Ysshra.Model.Rpc
import Ysshra.Lemmas.Wire
import Ysshra.Lemmas.Text
import Ysshra.Bridge.Wire
/-
C13 — operations through the yubiagent client act exactly as on the served agent
(the protocol-extension operations; the standard agent operations travel through x/crypto's
client and server and are covered by the correspondence run).
-/
namespace Ysshra
namespace C13
open Wire Serve Rpc

def small (b : Bytes) : Prop := b.length < 2 ^ 32

theorem dec_enc_addHardCert (blob comment : Bytes) (h1 : small blob) (h2 : small comment) :
    decAddHardCert (encAddHardCert blob comment) = some (blob, comment) := by
  show decAddHardCert (31 :: (putString blob ++ putString comment)) = _
  rw [decAddHardCert_cons]; exact getTwoStrings_put blob comment h1 h2

/-- the dispatch of an add-hardware-certificate frame whose remainder is not itself a key -/
theorem handle_addhard_new (env : Env) (i : Nat) (req body blob comment : Bytes)
    (hreq : req = 31 :: body) (hold : env.pkOK body = false)
    (hdec : decAddHardCert req = some (blob, comment)) (hpk : env.pkOK blob = true) :
    handle env i req = .replyLogged (textOr (env.addHardCert i blob comment) success) := by
  subst hreq
  simp only [handle, ↓reduceIte, hold, Bool.false_eq_true, hdec, hpk]

theorem handle_addhard_unparsable (env : Env) (i : Nat) (req body blob comment : Bytes)
    (hreq : req = 31 :: body) (hold : env.pkOK body = false)
    (hdec : decAddHardCert req = some (blob, comment)) (hpk : env.pkOK blob = false) :
    handle env i req = .fail := by
  subst hreq
  simp only [handle, ↓reduceIte, hold, Bool.false_eq_true, hdec, hpk]

/-- Add-hardware-certificate, new wire format: the served agent receives exactly the caller's key
    blob and comment, and the caller gets the agent's verdict: success as success, an error as an
    error with the same text — unless the text is the in-band marker itself (finding F11). -/
theorem c13_addhard (env : Env) (i : Nat) (blob comment : Bytes) (h1 : small blob) (h2 : small comment)
    (hold : env.pkOK (putString blob ++ putString comment) = false) (hpk : env.pkOK blob = true) :
    addHardCert env i blob comment =
      match env.addHardCert i blob comment with
      | none => .ok ()
      | some e => if e = success then .ok () else .err e := by
  have hreq : handle env i (encAddHardCert blob comment) =
      .replyLogged (textOr (env.addHardCert i blob comment) success) :=
    handle_addhard_new env i _ _ blob comment rfl hold (dec_enc_addHardCert blob comment h1 h2) hpk
  simp only [addHardCert, exchange, hreq]
  cases env.addHardCert i blob comment with
  | none => simp [textOr]
  | some e => by_cases he : e = success <;> simp [textOr, he]

/-- the excluded point is real: an agent error whose text is `SUCCESS` reaches the caller as success -/
theorem c13_excluded_success_text (env : Env) (i : Nat) (blob comment : Bytes) (h1 : small blob)
    (h2 : small comment) (hold : env.pkOK (putString blob ++ putString comment) = false)
    (hpk : env.pkOK blob = true) (herr : env.addHardCert i blob comment = some success) :
    addHardCert env i blob comment = .ok () := by
  rw [c13_addhard env i blob comment h1 h2 hold hpk, herr]; simp

/-- Add-hardware-certificate, legacy wire format (`31 ‖ key blob`): the agent receives the blob
    with an empty comment. -/
theorem c13_addhard_legacy (env : Env) (i : Nat) (blob : Bytes) (hpk : env.pkOK blob = true) :
    handle env i (31 :: blob) = .replyLogged (textOr (env.addHardCert i blob []) success) := by
  simp [handle, hpk]

/-- a certificate the server cannot parse in either format ends the exchange with an error -/
theorem c13_addhard_unparsable (env : Env) (i : Nat) (blob comment : Bytes) (h1 : small blob)
    (h2 : small comment) (hno : ∀ b, env.pkOK b = false) :
    addHardCert env i blob comment = .connErr := by
  have hreq : handle env i (encAddHardCert blob comment) = .fail :=
    handle_addhard_unparsable env i _ _ blob comment rfl (hno _) (dec_enc_addHardCert blob comment h1 h2) (hno _)
  simp only [addHardCert, exchange, hreq]

/-- slot names as the wire format can carry them: non-empty, comma-free -/
def slotsWF (slots : List Bytes) : Prop := ∀ s ∈ slots, s ≠ [] ∧ (0x2c : UInt8) ∉ s

theorem decListSlotsResp_of (bs names err : Bytes) (h : getTwoStrings bs = some (names, err)) :
    decListSlotsResp bs = some (if names.isEmpty then [] else splitComma names, err) := by
  unfold decListSlotsResp; rw [h]

theorem dec_enc_listSlots (slots : List Bytes) (err : Bytes) (hwf : slotsWF slots)
    (h1 : small (joinComma slots)) (h2 : small err) :
    decListSlotsResp (encListSlotsResp slots err) = some (slots, err) := by
  have h := decListSlotsResp_of (encListSlotsResp slots err) (joinComma slots) err
    (getTwoStrings_put _ _ h1 h2)
  rw [h]
  cases slots with
  | nil => rfl
  | cons s r =>
    have hne : (joinComma (s :: r)).isEmpty = false := by
      have hs := (hwf s (by simp)).1
      cases r with
      | nil => cases s <;> simp_all [joinComma, Text.joinWith]
      | cons y r' => cases s <;> simp_all [joinComma, Text.joinWith]
    have hsplit : splitComma (joinComma (s :: r)) = s :: r :=
      Text.splitOn_joinWith 0x2c (s :: r) (by simp) (fun x hx => (hwf x hx).2)
    rw [hne, hsplit]; rfl

theorem listSlotsOf_some (resp : Bytes) (slots : List Bytes) (err : Bytes)
    (hd : decListSlotsResp resp = some (slots, err)) :
    listSlotsOf (some resp) = (if err.isEmpty then .ok slots else .err err, slots) := by
  simp only [listSlotsOf, hd]

theorem listSlots_of (env : Env) (i : Nat) (resp : Bytes) (slots : List Bytes) (err : Bytes)
    (hx : exchange env i [32] = some resp) (hd : decListSlotsResp resp = some (slots, err)) :
    listSlots env i = (if err.isEmpty then .ok slots else .err err, slots) := by
  unfold listSlots; rw [hx]; exact listSlotsOf_some resp slots err hd

/-- List-slots: the caller receives the agent's slot list in order and its error as an error —
    for slot names the name-list can carry, and a non-empty error text. -/
theorem c13_listslots (env : Env) (i : Nat) (hwf : slotsWF (env.listSlots i).1)
    (h1 : small (joinComma (env.listSlots i).1)) (h2 : small (errText (env.listSlots i).2)) :
    listSlots env i =
      (if (errText (env.listSlots i).2).isEmpty then .ok (env.listSlots i).1
       else .err (errText (env.listSlots i).2), (env.listSlots i).1) :=
  listSlots_of env i _ _ _ (by simp [exchange, handle]) (dec_enc_listSlots _ _ hwf h1 h2)

/-- the excluded point is real: an agent error with an empty text reaches the caller as success -/
theorem c13_excluded_empty_error (env : Env) (i : Nat) (hwf : slotsWF (env.listSlots i).1)
    (h1 : small (joinComma (env.listSlots i).1)) (he : (env.listSlots i).2 = some []) :
    (listSlots env i).1 = .ok (env.listSlots i).1 := by
  rw [c13_listslots env i hwf h1 (by simp [he, errText, textOr, small])]
  simp [he, errText, textOr]

theorem dec_enc_slotResp (cert err : Bytes) (h1 : small cert) (h2 : small err) :
    decSlotResp (encSlotResp cert err) = some (cert, err) := getTwoStrings_put cert err h1 h2

theorem slotOp_of (env : Env) (i : Nat) (code : UInt8) (slot resp cert err : Bytes)
    (hh : handle env i (code :: slot) = .reply resp) (hd : decSlotResp resp = some (cert, err)) :
    slotOp env i code slot = if err.isEmpty then .ok cert else .err err := by
  simp only [slotOp, exchange, hh, hd]

/-- Read-slot / attest-slot: the agent receives the slot name unchanged; the caller gets the PEM of
    the agent's certificate, or the agent's (non-empty) error text as an error. -/
theorem c13_readslot (env : Env) (i : Nat) (slot : Bytes)
    (h1 : small (textOr (env.readSlot i slot).1 [])) (h2 : small (errText (env.readSlot i slot).2)) :
    slotOp env i 33 slot =
      if (errText (env.readSlot i slot).2).isEmpty then .ok (textOr (env.readSlot i slot).1 [])
      else .err (errText (env.readSlot i slot).2) :=
  slotOp_of env i 33 slot _ _ _ (by simp [handle]) (dec_enc_slotResp _ _ h1 h2)

theorem c13_attestslot (env : Env) (i : Nat) (slot : Bytes)
    (h1 : small (textOr (env.attestSlot i slot).1 [])) (h2 : small (errText (env.attestSlot i slot).2)) :
    slotOp env i 34 slot =
      if (errText (env.attestSlot i slot).2).isEmpty then .ok (textOr (env.attestSlot i slot).1 [])
      else .err (errText (env.attestSlot i slot).2) :=
  slotOp_of env i 34 slot _ _ _ (by simp [handle]) (dec_enc_slotResp _ _ h1 h2)

/-- Wait: the agent is asked to wait for exactly the caller's code. -/
theorem c13_wait (env : Env) (i : Nat) (c : UInt8) :
    wait env i c =
      match env.wait i c with
      | none => .ok ()
      | some e => if e = success then .ok () else .err e := by
  have hh : handle env i [35, c] = .replyLogged (textOr (env.wait i c) success) := by simp [handle]
  simp only [wait, exchange, hh]
  cases env.wait i c with
  | none => simp [textOr]
  | some e => by_cases he : e = success <;> simp [textOr, he]

/-- Raw forward of a request the server does not interpret: relayed byte-for-byte both ways. -/
theorem c13_forward (env : Env) (i : Nat) (code : UInt8) (body : Bytes)
    (hc : code ∉ ([31, 32, 33, 34, 35] : List UInt8)) (hs : code ∉ stdCodes) :
    forward env i (code :: body) =
      match env.forward i (code :: body) with
      | some r => .ok r
      | none => .connErr := by
  have h31 : code ≠ 31 := fun h => hc (by simp [h])
  have h32 : code ≠ 32 := fun h => hc (by simp [h])
  have h33 : code ≠ 33 := fun h => hc (by simp [h])
  have h34 : code ≠ 34 := fun h => hc (by simp [h])
  have h35 : code ≠ 35 := fun h => hc (by simp [h])
  have hstd : stdCodes.contains code = false := by simpa using hs
  simp only [forward, exchange, handle, h31, h32, h33, h34, h35, hstd, ↓reduceIte, Bool.false_eq_true]
  cases env.forward i (code :: body) <;> rfl

/-- a request with a code the server does not interpret reaches the served agent's `Forward` as
    it is, and the reply comes back as it is -/
theorem exchange_uninterpreted (env : Env) (i : Nat) (code : UInt8) (body : Bytes)
    (hc : code ∉ ([31, 32, 33, 34, 35] : List UInt8)) (hs : code ∉ stdCodes) :
    exchange env i (code :: body) = env.forward i (code :: body) := by
  have h31 : code ≠ 31 := fun h => hc (by simp [h])
  have h32 : code ≠ 32 := fun h => hc (by simp [h])
  have h33 : code ≠ 33 := fun h => hc (by simp [h])
  have h34 : code ≠ 34 := fun h => hc (by simp [h])
  have h35 : code ≠ 35 := fun h => hc (by simp [h])
  have hstd : stdCodes.contains code = false := by simpa using hs
  simp only [exchange, handle, h31, h32, h33, h34, h35, hstd, ↓reduceIte, Bool.false_eq_true]
  cases env.forward i (code :: body) <;> rfl

theorem decAddSmartcard_cons (r : Bytes) : decAddSmartcard (26 :: r) = (match getString r with
    | some (id, r1) => (match getString r1 with | some (pin, cs) => some (id, pin, cs) | none => none)
    | none => none) := rfl

theorem decAddSmartcard_of (r a b r1 r2 : Bytes) (h1 : getString r = some (a, r1))
    (h2 : getString r1 = some (b, r2)) : decAddSmartcard (26 :: r) = some (a, b, r2) := by
  rw [decAddSmartcard_cons, h1]; simp only []; rw [h2]

/-- Smartcard keys: the server does not interpret codes 26 and 21, so the served agent's `Forward`
    receives the client's request byte for byte, the request reads back as the reader id, the PIN
    and the constraints the caller gave, and the caller's result is decided by the first byte of
    the agent's reply alone: success (6) is success, anything else a failure, an empty reply and a
    lost connection are errors. -/
theorem c13_smartcard_add (env : Env) (i : Nat) (id pin : Bytes) (lt : Bool) (secs : Nat) (confirm : Bool)
    (hid : small id) (hpin : small pin) :
    addSmartcardKey env i id pin lt secs confirm =
      smartcardRes (env.forward i (encAddSmartcard id pin lt secs confirm)) ∧
    decAddSmartcard (encAddSmartcard id pin lt secs confirm) =
      some (id, pin, smartcardConstraints lt secs confirm) := by
  constructor
  · unfold addSmartcardKey encAddSmartcard
    rw [exchange_uninterpreted env i 26 _ (by simp) (by simp [stdCodes])]
  · unfold encAddSmartcard
    rw [List.append_assoc]
    exact decAddSmartcard_of _ _ _ _ _ (getString_putString id _ hid) (getString_putString pin _ hpin)

theorem c13_smartcard_remove (env : Env) (i : Nat) (id pin : Bytes) (hid : small id) (hpin : small pin) :
    removeSmartcardKey env i id pin = smartcardRes (env.forward i (encRemoveSmartcard id pin)) ∧
    decRemoveSmartcard (encRemoveSmartcard id pin) = some (id, pin) := by
  constructor
  · unfold removeSmartcardKey encRemoveSmartcard
    rw [exchange_uninterpreted env i 21 _ (by simp) (by simp [stdCodes])]
  · simp only [decRemoveSmartcard, encRemoveSmartcard]
    exact getTwoStrings_put id pin hid hpin

/-- the result depends on the first byte of the agent's reply only -/
theorem c13_smartcard_result (r : Option Bytes) :
    (smartcardRes r = .ok ↔ ∃ rest, r = some (6 :: rest)) ∧
    (smartcardRes r = .connErr ↔ r = none) ∧ (smartcardRes r = .empty ↔ r = some []) := by
  cases r with
  | none => simp [smartcardRes]
  | some b =>
    cases b with
    | nil => simp [smartcardRes]
    | cons x xs =>
      by_cases hx : x = 6
      · subst hx; simp [smartcardRes]
      · simp [smartcardRes, hx]

/-- Slot listing: for every output of the PIV tool, in order, the two bytes after `Slot ` of every
    line of at least seven bytes that starts with `Slot`; nothing else; never a crash
    (`Bridge.Wire.slots_bridge` pins the length test and the slice in the source). -/
theorem c13_slots (output : Bytes) :
    parseSlots output =
      ((Text.splitOn 0x0a output).filter (fun l => l.length ≥ 7 && l.take 4 = slotPrefix)).map
        (fun l => (l.drop 5).take 2) := by
  unfold parseSlots
  induction Text.splitOn 0x0a output with
  | nil => rfl
  | cons l r ih =>
    by_cases h : (l.length ≥ 7 && l.take 4 = slotPrefix) = true
    · simp only [List.filterMap_cons, slotOfLine, h, ↓reduceIte, List.filter_cons, List.map_cons]
      rw [← ih]
    · simp only [List.filterMap_cons, slotOfLine, h, List.filter_cons]
      simpa [slotOfLine] using ih

theorem c13_slots_two_bytes (output : Bytes) : ∀ s ∈ parseSlots output, s.length = 2 := by
  intro s hs
  rw [c13_slots] at hs
  simp only [List.mem_map, List.mem_filter] at hs
  obtain ⟨l, ⟨_, hl⟩, rfl⟩ := hs
  simp only [Bool.and_eq_true, decide_eq_true_eq] at hl
  simp; omega

example : parseSlots b!"V\nSlot 9a:\nSlot 9\nSlot 9c:\n" = [b!"9a", b!"9c"] := by
  decide

end C13
end Ysshra
