import Ysshra.Lemmas.Gensign
/-
C01 / C02, for every history of runs: no challenge is ever issued twice and no key pair is ever
certified twice — across handlers of one run and across any number of runs on the same server
state — because every draw takes the next index of the random source, which only moves forward.
-/
namespace Ysshra
namespace C02
open Gensign

/-- the random-source index an event consumed: the challenge of an authentication, the key pair of
    a private-key addition -/
def Event.draw : Event → Option Nat
  | .agentSign _ d _ => some d
  | .agentAdd (.fresh r) none _ _ _ => some r
  | _ => none

def draws (tr : Trace) : List Nat := tr.filterMap Event.draw

/-- the draws of `tr` are strictly increasing and lie in `[lo, hi)` -/
def Fresh (lo hi : Nat) (tr : Trace) : Prop :=
  lo ≤ hi ∧ (draws tr).Pairwise (· < ·) ∧ ∀ d ∈ draws tr, lo ≤ d ∧ d < hi

theorem fresh_nodraw (lo hi : Nat) (tr : Trace) (h : lo ≤ hi) (hn : ∀ e ∈ tr, Event.draw e = none) :
    Fresh lo hi tr := by
  have : draws tr = [] := by
    unfold draws
    rw [List.filterMap_eq_nil_iff]
    exact hn
  exact ⟨h, by rw [this]; exact List.Pairwise.nil, by rw [this]; simp⟩

theorem fresh_append (a b c : Nat) (t1 t2 : Trace) (h1 : Fresh a b t1) (h2 : Fresh b c t2) :
    Fresh a c (t1 ++ t2) := by
  obtain ⟨ab, p1, r1⟩ := h1
  obtain ⟨bc, p2, r2⟩ := h2
  refine ⟨Nat.le_trans ab bc, ?_, ?_⟩
  · unfold draws at *
    rw [List.filterMap_append, List.pairwise_append]
    refine ⟨p1, p2, ?_⟩
    intro x hx y hy
    have := (r1 x hx).2
    have := (r2 y hy).1
    omega
  · intro d hd
    unfold draws at *
    rw [List.filterMap_append, List.mem_append] at hd
    rcases hd with hd | hd
    · have := r1 d hd; omega
    · have := r2 d hd; omega

theorem fresh_cons_nodraw (lo hi : Nat) (e : Event) (tr : Trace) (he : Event.draw e = none)
    (h : Fresh lo hi tr) : Fresh lo hi (e :: tr) := by
  have h0 : Fresh lo lo [e] := fresh_nodraw lo lo [e] (Nat.le_refl _) (by simpa using he)
  exact fresh_append lo lo hi [e] tr h0 h

theorem fresh_single (lo : Nat) (e : Event) (he : Event.draw e = some lo) : Fresh lo (lo + 1) [e] := by
  refine ⟨by omega, ?_, ?_⟩
  · simp [draws, he]
  · intro d hd
    simp [draws, he] at hd
    omega

/-- authentication by the regular handler -/
theorem regularAuth_fresh (conf : Conf) (p : Param) (w : World) :
    Fresh w.rng (regularAuth conf p w).1.rng (regularAuth conf p w).2.1 := by
  unfold regularAuth
  split
  · exact fresh_nodraw _ _ _ (Nat.le_refl _) (by simp)
  · split
    · exact fresh_nodraw _ _ _ (Nat.le_refl _) (by simp)
    · split
      · exact fresh_nodraw _ _ _ (Nat.le_refl _) (by simp)
      · simp only []
        split
        · exact fresh_single w.rng _ rfl
        · split <;> exact fresh_single w.rng _ rfl

theorem authOf_fresh (conf : Conf) (p : Param) (i : Nat) (h : Handler) (w : World) :
    Fresh w.rng (authOf conf p i h w).1.rng (authOf conf p i h w).2.1 := by
  cases h with
  | regular =>
    simp only [authOf]
    exact fresh_cons_nodraw _ _ _ _ rfl (regularAuth_fresh conf p w)
  | scripted s =>
    cases s <;> (simp only [authOf]; exact fresh_nodraw _ _ _ (Nat.le_refl _) (by simp [Event.draw]))

theorem selectHandler_fresh (conf : Conf) (p : Param) (i : Nat) (hs : List Handler) (w : World) :
    Fresh w.rng (selectHandler conf p i hs w).1.rng (selectHandler conf p i hs w).2.1 := by
  induction hs generalizing i w with
  | nil => exact fresh_nodraw _ _ _ (Nat.le_refl _) (by simp [selectHandler])
  | cons h rest ih =>
    have ha := authOf_fresh conf p i h w
    unfold selectHandler
    cases hauth : authOf conf p i h w with
    | mk w1 r =>
      obtain ⟨tr, res⟩ := r
      rw [hauth] at ha
      simp only [] at ha
      cases res with
      | none => exact ha
      | some e =>
        cases e <;> first
          | exact ha
          | (simp only []
             exact fresh_append _ _ _ _ _ ha (ih (i + 1) w1))

theorem regularGenerate_fresh (conf : Conf) (p : Param) (w : World) :
    Fresh w.rng (regularGenerate conf p w).1.rng (regularGenerate conf p w).2.1 := by
  unfold regularGenerate
  simp only []
  split
  · exact fresh_single w.rng _ rfl
  · split <;> exact fresh_single w.rng _ rfl

theorem caSign_rng (k : Key) (w : World) : (caSign k w).1.rng = w.rng := by
  unfold caSign
  split
  · rfl
  · split <;> rfl

theorem signAll_rng (k : Key) (n : Nat) (w : World) : (signAll k n w).1.rng = w.rng := by
  induction n generalizing w with
  | zero => rfl
  | succ m ih =>
    unfold signAll
    have hc := caSign_rng k w
    cases hcs : caSign k w with
    | mk w1 r =>
      obtain ⟨tr, res⟩ := r
      rw [hcs] at hc
      cases res with
      | error e => exact hc
      | ok cs =>
        simp only []
        have := ih w1
        cases hs : signAll k m w1 with
        | mk w2 r2 =>
          obtain ⟨tr2, res2⟩ := r2
          rw [hs] at this
          cases res2 <;> (simp only []; exact this.trans hc)

theorem signAll_fresh (k : Key) (n : Nat) (w : World) :
    Fresh w.rng (signAll k n w).1.rng (signAll k n w).2.1 := by
  rw [signAll_rng]
  refine fresh_nodraw _ _ _ (Nat.le_refl _) ?_
  intro e he
  obtain ⟨k', ok', rfl⟩ := signAll_only_ca k n w e he
  rfl

theorem addCerts_rng (conf : Conf) (k : Key) (certs : List (Option CertV)) (w : World) :
    (addCerts conf k certs w).1.rng = w.rng := by
  unfold addCerts
  split
  · rfl
  · simp only []
    split
    · rfl
    · rfl

theorem addCerts_nodraw (conf : Conf) (k : Key) (certs : List (Option CertV)) (w : World) :
    ∀ e ∈ (addCerts conf k certs w).2.1, Event.draw e = none := by
  unfold addCerts
  split
  · intro e he; simp at he; subst he; rfl
  · rename_i a ids hl
    simp only []
    have hrm : ∀ e ∈ (addCerts.removes a [.agentList true] ids).2.1, Event.draw e = none :=
      removes_events a [.agentList true] ids (fun e => Event.draw e = none)
        (by intro e he; simp at he; subst he; rfl) (fun _ _ _ => rfl)
    split
    · rename_i a1 tr1 hr
      rw [hr] at hrm; exact hrm
    · rename_i a1 tr1 hr
      rw [hr] at hrm
      exact adds_events k (lifetimeOf conf.validity) a1 tr1 certs (fun e => Event.draw e = none) hrm
        (fun _ _ => by cases k <;> rfl)

theorem addCerts_fresh (conf : Conf) (k : Key) (certs : List (Option CertV)) (w : World) :
    Fresh w.rng (addCerts conf k certs w).1.rng (addCerts conf k certs w).2.1 := by
  rw [addCerts_rng]
  exact fresh_nodraw _ _ _ (Nat.le_refl _) (addCerts_nodraw conf k certs w)

/-- one whole run -/
theorem run_fresh (conf : Conf) (p : Param) (hs : List Handler) (w : World) :
    Fresh w.rng (run conf p hs w).1.rng (run conf p hs w).2.1 := by
  have hsel := selectHandler_fresh conf p 0 hs w
  unfold run
  cases hs0 : selectHandler conf p 0 hs w with
  | mk w1 r =>
    obtain ⟨tr, res⟩ := r
    rw [hs0] at hsel
    simp only [] at hsel
    cases res with
    | error e => exact hsel
    | ok jh =>
      obtain ⟨i, hd⟩ := jh
      simp only []
      have hgen : ∀ (hi : Nat) (t : Trace), Fresh w1.rng hi t → Fresh w.rng hi (tr ++ .generate i :: t) :=
        fun hi t ht => fresh_append _ _ _ _ _ hsel (fresh_cons_nodraw _ _ _ _ rfl ht)
      cases hd with
      | regular =>
        simp only []
        have hg := regularGenerate_fresh conf p w1
        cases hge : regularGenerate conf p w1 with
        | mk w2 r2 =>
          obtain ⟨tr2, res2⟩ := r2
          rw [hge] at hg
          simp only [] at hg
          cases res2 with
          | error e => exact hgen _ _ hg
          | ok kc =>
            obtain ⟨k, csr⟩ := kc
            simp only []
            have hsg := signAll_fresh k 1 w2
            cases hsge : signAll k 1 w2 with
            | mk w3 r3 =>
              obtain ⟨tr3, res3⟩ := r3
              rw [hsge] at hsg
              simp only [] at hsg
              have h23 : Fresh w1.rng w3.rng (tr2 ++ tr3) := fresh_append _ _ _ _ _ hg hsg
              cases res3 with
              | error e =>
                cases e <;> (simp only []; rw [List.append_assoc]; exact hgen _ _ h23)
              | ok certs =>
                simp only []
                have hac := addCerts_fresh conf k certs w3
                cases hace : addCerts conf k certs w3 with
                | mk w4 r4 =>
                  obtain ⟨tr4, ok4⟩ := r4
                  rw [hace] at hac
                  simp only [] at hac
                  have h234 : Fresh w1.rng w4.rng (tr2 ++ tr3 ++ tr4) := fresh_append _ _ _ _ _ h23 hac
                  cases ok4 <;>
                    (simp only []
                     have e : tr ++ Event.generate i :: tr2 ++ tr3 ++ tr4 = tr ++ Event.generate i :: (tr2 ++ tr3 ++ tr4) := by
                       simp [List.append_assoc]
                     rw [e]; exact hgen _ _ h234)
      | scripted s =>
        simp only []
        have hnil : Fresh w.rng w1.rng (tr ++ [.generate i]) := by
          have := hgen w1.rng [] (fresh_nodraw _ _ _ (Nat.le_refl _) (by simp))
          simpa using this
        have hsig : ∀ n, Fresh w.rng (signAll (.registered (500 + i)) n w1).1.rng
            (tr ++ [.generate i] ++ (signAll (.registered (500 + i)) n w1).2.1) :=
          fun n => fresh_append _ _ _ _ _ hnil (signAll_fresh _ n w1)
        cases s with
        | genKey n addErr addPanic =>
          simp only []
          have := hsig n
          cases hsge : signAll (.registered (500 + i)) n w1 with
          | mk w3 r3 =>
            obtain ⟨tr3, res3⟩ := r3
            rw [hsge] at this
            simp only [] at this
            cases res3 with
            | error e => cases e <;> exact this
            | ok certs =>
              simp only []
              cases addPanic with
              | true => exact this
              | false => cases addErr <;> exact this
        | genKeyNamePanic n =>
          simp only []
          have := hsig n
          cases hsge : signAll (.registered (500 + i)) n w1 with
          | mk w3 r3 =>
            obtain ⟨tr3, res3⟩ := r3
            rw [hsge] at this
            simp only [] at this
            cases res3 with
            | error e => cases e <;> exact this
            | ok certs => exact this
        | _ => exact hnil

/-- a request as the server sees it: configuration, parameters, handler list, and the user's
    forwarded agent and the CA's behaviour at that time -/
structure Req where
  conf : Conf
  p : Param
  hs : List Handler
  agent : Agent
  ca : List CAReply

/-- a history of runs on one server: the random source carries over, agent and CA are the run's own -/
def history : World → List Req → World × Trace
  | w, [] => (w, [])
  | w, r :: rest =>
    let out := run r.conf r.p r.hs { w with agent := r.agent, ca := r.ca }
    let h := history out.1 rest
    (h.1, out.2.1 ++ h.2)

theorem history_fresh (w : World) (l : List Req) : Fresh w.rng (history w l).1.rng (history w l).2 := by
  induction l generalizing w with
  | nil => exact fresh_nodraw _ _ _ (Nat.le_refl _) (by simp [history])
  | cons r rest ih =>
    simp only [history]
    exact fresh_append _ _ _ _ _ (run_fresh r.conf r.p r.hs { w with agent := r.agent, ca := r.ca }) (ih _)

theorem pairwise_lt_nodup (l : List Nat) (h : l.Pairwise (· < ·)) : l.Nodup := by
  unfold List.Nodup
  exact h.imp (fun hab => Nat.ne_of_lt hab)

/-- **Freshness over every history.** In any sequence of runs — any handler lists, any agents, any
    CA behaviour, any faults — every challenge sent for signing and every key pair put into an
    agent takes its own index of the random source: no challenge is issued twice, no key pair is
    certified twice, and no challenge coincides with a key draw. -/
theorem c02_history_fresh (w : World) (l : List Req) : (draws (history w l).2).Nodup :=
  pairwise_lt_nodup _ (history_fresh w l).2.1

/-- … in particular two private-key additions anywhere in a history are for different keys, unless
    they are the same event. -/
theorem c02_keys_distinct (w : World) (l : List Req) (i j : Nat) (hij : i < j)
    (r1 r2 : Nat) (lt1 lt2 : Nat) (cm1 cm2 : Bytes) (ok1 ok2 : Bool)
    (h1 : (history w l).2[i]? = some (.agentAdd (.fresh r1) none lt1 cm1 ok1))
    (h2 : (history w l).2[j]? = some (.agentAdd (.fresh r2) none lt2 cm2 ok2)) : r1 < r2 := by
  have hp := (history_fresh w l).2.1
  unfold draws at hp
  rw [List.pairwise_filterMap, List.pairwise_iff_getElem] at hp
  obtain ⟨hi, e1⟩ := List.getElem?_eq_some_iff.mp h1
  obtain ⟨hj, e2⟩ := List.getElem?_eq_some_iff.mp h2
  exact hp i j hi hj hij r1 (by rw [e1]; rfl) r2 (by rw [e2]; rfl)

/-- … and two challenges anywhere in a history differ: a signature obtained for one can never
    answer another. -/
theorem c01_challenges_distinct (w : World) (l : List Req) (i j : Nat) (hij : i < j)
    (pk1 pk2 : Key) (d1 d2 : Nat) (ok1 ok2 : Bool)
    (h1 : (history w l).2[i]? = some (.agentSign pk1 d1 ok1))
    (h2 : (history w l).2[j]? = some (.agentSign pk2 d2 ok2)) : d1 < d2 := by
  have hp := (history_fresh w l).2.1
  unfold draws at hp
  rw [List.pairwise_filterMap, List.pairwise_iff_getElem] at hp
  obtain ⟨hi, e1⟩ := List.getElem?_eq_some_iff.mp h1
  obtain ⟨hj, e2⟩ := List.getElem?_eq_some_iff.mp h2
  exact hp i j hi hj hij d1 (by rw [e1]; rfl) d2 (by rw [e2]; rfl)

/-- Non-vacuity: two runs of the regular handler for the same user draw challenges 7 and 9 and
    key pairs 8 and 10. -/
example :
    let conf : Conf := ⟨3600, [(0, c!"id")], ⟨.key (.registered 1), .absent⟩⟩
    let p : Param := ⟨true, false, c!"alice", c!"t", c!"i", c!"u", c!"h", 0⟩
    let ag : Agent := ⟨[⟨.registered 1, none, [], 0⟩], .honest, 0, none, none⟩
    let r : Req := ⟨conf, p, [.regular], ag, [.certs 1 1]⟩
    draws (history ⟨ag, 7, [], 0⟩ [r, r]).2 = [7, 8, 9, 10] := by
  decide

end C02
end Ysshra
