import Ysshra.Model.Param
import Ysshra.Lemmas.Text
/-
C14 — request parameters parse totally and come from the server-side environment.
-/
namespace Ysshra
namespace C14
open Text Message

/-- the attributes `NewReqParam` works with, as bytes -/
def attrsOf (utf8 : Str → Bytes) : Decoded → AttrsB
  | .json a => toB utf8 a
  | .legacy a => a

/-- Building the parameters never crashes, for every original-command text (any token tree or
    none, any bytes), every LOGNAME / SSH_CONNECTION and every argument vector. -/
theorem c14_total (utf8 : Str → Bytes) (ipOK : Bytes → Bool) (rnd : Bytes) (e : Env) :
    newReqParam utf8 ipOK rnd e ≠ .crash := by
  have hu : ∀ raw, unmarshalLegacy raw ≠ .crash := by
    intro raw; unfold unmarshalLegacy; simp only []
    split <;> (try split) <;> simp
  unfold newReqParam
  cases hm : unmarshal e.cmdTok e.cmdRaw with
  | crash =>
    exfalso
    unfold unmarshal at hm
    split at hm
    · split at hm <;> cases hm
    · have := hu e.cmdRaw
      split at hm <;> simp_all
  | err => simp
  | ok d =>
    simp only []
    repeat' split
    all_goals simp

/-- `parseForceCommand` returns the second-last and last of 3..6 space-separated tokens, and the
    policy is one of the two defined values. -/
theorem forceCommand_spec (argv : List Bytes) (pol h : Bytes)
    (hp : parseForceCommand argv = some (pol, h)) :
    let toks := argv.flatMap (splitOn 0x20)
    3 ≤ toks.length ∧ toks.length ≤ 6 ∧ toks[toks.length - 2]? = some pol ∧
    toks[toks.length - 1]? = some h ∧ (pol = NONS ∨ pol = NSOK) := by
  unfold parseForceCommand at hp
  simp only [] at hp
  split at hp
  · cases hp
  · split at hp
    · cases hp
    · split at hp
      · rename_i pol' h' h1 h2
        split at hp
        · rename_i hv
          cases hp
          refine ⟨by omega, by omega, h1, h2, ?_⟩
          simpa [validPolicy] using hv
        · cases hp
      · cases hp

theorem hexLower_length (b : Bytes) : (hexLower b).length = 2 * b.length := by
  induction b with
  | nil => rfl
  | cons x r ih => simp [hexLower, List.flatMap_cons] at *; omega

def isLowerHex (c : UInt8) : Bool := (48 ≤ c.toNat && c.toNat ≤ 57) || (97 ≤ c.toNat && c.toNat ≤ 102)

theorem hexLower_alphabet (b : Bytes) : ∀ c ∈ hexLower b, isLowerHex c = true := by
  intro c hc
  simp only [hexLower, List.mem_flatMap] at hc
  obtain ⟨x, _, hx⟩ := hc
  have h1 := hexDigit_lower (x.toNat / 16) (by have := x.toNat_lt; omega)
  have h2 := hexDigit_lower (x.toNat % 16) (by omega)
  simp only [List.mem_cons, List.not_mem_nil, or_false] at hx
  have conv : ∀ n : Nat, n < 256 → (n.toUInt8).toNat = n := by
    intro n hn; simp [Nat.toUInt8, UInt8.toNat_ofNat', Nat.mod_eq_of_lt hn]
  rcases hx with rfl | rfl
  · simp only [isLowerHex] at *
    rcases h1 with h | h <;> (rw [conv _ (by omega)]; simp [h])
  · simp only [isLowerHex] at *
    rcases h2 with h | h <;> (rw [conv _ (by omega)]; simp [h])

/-- Everything a successful call returns comes from where the property says it comes from. -/
theorem c14_sound (utf8 : Str → Bytes) (ipOK : Bytes → Bool) (rnd : Bytes) (e : Env) (p : ReqParam)
    (hr : rnd.length = 5) (h : newReqParam utf8 ipOK rnd e = .ok p) :
    -- login name: the non-empty server-provided one
    p.LogName = e.logname ∧ e.logname ≠ [] ∧
    -- client IP: first field of SSH_CONNECTION, syntactically valid
    p.ClientIP = firstField e.sshConnection ∧ ipOK p.ClientIP = true ∧
    -- namespace policy and handler: from the forced command
    (let toks := e.argv.flatMap (splitOn 0x20)
     3 ≤ toks.length ∧ toks.length ≤ 6 ∧ toks[toks.length - 2]? = some p.NamespacePolicy ∧
     toks[toks.length - 1]? = some p.HandlerName) ∧
    (p.NamespacePolicy = NONS ∨ p.NamespacePolicy = NSOK) ∧
    -- transaction id: ten lower-case hex digits of the five fresh random bytes
    p.TransID = hexLower rnd ∧ p.TransID.length = 10 ∧ (∀ c ∈ p.TransID, isLowerHex c = true) ∧
    -- client claims: copied verbatim into their own fields; version as declared, 0.0 when omitted
    ∃ d, unmarshal e.cmdTok e.cmdRaw = .ok d ∧
      p.ReqUser = (attrsOf utf8 d).Username ∧ p.ReqHost = (attrsOf utf8 d).Hostname ∧
      (((attrsOf utf8 d).SSHClientVersion = [] ∧ p.SSHClientVersion = ⟨0, 0⟩) ∨
       ((attrsOf utf8 d).SSHClientVersion ≠ [] ∧
        versionUnmarshal (attrsOf utf8 d).SSHClientVersion = some p.SSHClientVersion)) := by
  unfold newReqParam at h
  cases hm : unmarshal e.cmdTok e.cmdRaw with
  | crash => simp [hm] at h
  | err => simp [hm] at h
  | ok d =>
    simp only [hm] at h
    split at h
    · cases h
    · rename_i hlog
      split at h
      · cases h
      · rename_i hip
        split at h
        · cases h
        · rename_i pol hn hpf
          have hfc := forceCommand_spec _ _ _ hpf
          split at h
          · cases h
          · rename_i v hv
            cases h
            simp only [] at hfc
            refine ⟨rfl, ?_, rfl, by simpa using hip, ⟨hfc.1, hfc.2.1, hfc.2.2.1, hfc.2.2.2.1⟩,
              hfc.2.2.2.2, rfl, ?_, hexLower_alphabet rnd, d, rfl, ?_, ?_, ?_⟩
            · intro he; simp [he] at hlog
            · rw [hexLower_length, hr]
            · cases d <;> rfl
            · cases d <;> rfl
            · have hv' : (if (attrsOf utf8 d).SSHClientVersion.isEmpty = true then some (⟨0, 0⟩ : Version)
                  else versionUnmarshal (attrsOf utf8 d).SSHClientVersion) = some v := by
                cases d <;> exact hv
              by_cases hemp : (attrsOf utf8 d).SSHClientVersion = []
              · left; simp [hemp] at hv'; exact ⟨hemp, hv'.symm⟩
              · right
                have : (attrsOf utf8 d).SSHClientVersion.isEmpty = false := by
                  cases hx : (attrsOf utf8 d).SSHClientVersion <;> simp_all
                simp [this] at hv'; exact ⟨hemp, hv'⟩

/-- `version.Unmarshal` accepts exactly `digits.digits` with both numbers below 2^16. -/
theorem version_spec (s : Bytes) (v : Version) (h : versionUnmarshal s = some v) :
    ∃ a b, s = a ++ 0x2e :: b ∧ a ≠ [] ∧ b ≠ [] ∧ a.all isDigit = true ∧ b.all isDigit = true ∧
      v.major = digitsVal a ∧ v.minor = digitsVal b ∧ v.major < 65536 ∧ v.minor < 65536 := by
  unfold versionUnmarshal at h
  split at h
  · cases h
  · rename_i a b hc
    split at h
    · cases h
    · split at h
      · rename_i x y hx hy
        cases h
        obtain ⟨hs, _⟩ := cutAt_spec _ _ _ _ hc
        obtain ⟨x1, x2, x3, x4⟩ := parseUint_lt _ _ _ hx
        obtain ⟨y1, y2, y3, y4⟩ := parseUint_lt _ _ _ hy
        exact ⟨a, b, hs, x2, y2, x3, y3, x4, y4, by simpa using x1, by simpa using y1⟩
      · cases h

/-- Non-vacuity: a concrete JSON request with the usual forced command succeeds. -/
example :
    (match (newReqParam (fun s => s.map (fun c => c.toNat.toUInt8)) (fun _ => true) [1, 2, 3, 4, 5]
      ⟨some (.obj [(c!"ifVer", .num (.ofInt 7)), (c!"username", .str c!"u"), (c!"hostname", .str c!"h"),
                   (c!"sshClientVersion", .str c!"8.1")]), [],
       b!"alice", b!"10.0.0.1 1234 10.0.0.2 22", [b!"gensign", b!"-c", b!"/usr/bin/gensign NONS regular"]⟩ : Res ReqParam) with
     | .ok p => decide (p.LogName = b!"alice" ∧ p.NamespacePolicy = NONS ∧ p.SSHClientVersion = ⟨8, 1⟩ ∧
                p.TransID = b!"0102030405")
     | _ => false) = true := by decide

end C14
end Ysshra
