import Ysshra.Lemmas.Shim
import Ysshra.Lemmas.ShimArr
import Ysshra.Lemmas.ShimSync
/-
C07 — the shim agent never lists or signs with expired, premature or keyless certificates.
-/
namespace Ysshra
namespace C07
open Shim

/-- the validity test, with the clamp of 64-bit values above MaxInt64 -/
theorem c07_validAt_iff (c : Cert) (now : Nat) :
    validAt c now = true ↔ min c.validAfter maxInt64 ≤ now ∧ now ≤ min c.validBefore maxInt64 := by
  unfold validAt
  simp only [Bool.not_eq_true', Bool.or_eq_false_iff, decide_eq_false_iff_not, Nat.not_lt]

/-- Certificates with unlimited validity (0 … 2^64-1, "forever") never expire: valid at every
    time a signed 64-bit clock can show. -/
theorem c07_forever (c : Cert) (now : Nat) (ha : c.validAfter = 0) (hb : c.validBefore = 2 ^ 64 - 1)
    (hn : now ≤ maxInt64) : validAt c now = true := by
  rw [c07_validAt_iff, ha, hb]
  have : min (2 ^ 64 - 1) maxInt64 = maxInt64 := by decide
  rw [this]; exact ⟨by simp, hn⟩

/-- … while a window that starts beyond MaxInt64 is never open. -/
theorem c07_clamp (c : Cert) (now : Nat) (ha : c.validAfter > maxInt64) (hn : now < maxInt64) :
    validAt c now = false := by
  have : ¬ (validAt c now = true) := by
    rw [c07_validAt_iff]; intro h
    have : min c.validAfter maxInt64 = maxInt64 := Nat.min_eq_right (Nat.le_of_lt ha)
    omega
  simpa using this

/-- After the in-memory pass, every in-memory certificate is inside its validity window. -/
theorem expiredInMemory_all_valid (now : Nat) (f : Faults) (s : State) (ka : KeyArr) :
    ∀ mc ∈ (expiredInMemory now f s ka).1.certs, validAt mc.cert now = true := by
  unfold expiredInMemory
  -- invariant: every remaining certificate is valid or still to be visited
  suffices h : ∀ (l : List MemCert) (acc : State × KeyArr),
      (∀ mc ∈ acc.1.certs, validAt mc.cert now = true ∨ mc ∈ l) →
      ∀ mc ∈ (l.foldl (fun (acc : State × KeyArr) mc =>
        if validAt mc.cert now then acc
        else let (s', ka', _) := removeFn acc.1 f acc.2 (.cert mc.cert); (s', ka')) acc).1.certs,
        validAt mc.cert now = true from
    h s.certs (s, ka) (fun mc hmc => .inr hmc)
  intro l
  induction l with
  | nil => intro acc h mc hmc; rcases h mc hmc with h | h; exact h; cases h
  | cons x r ih =>
    intro acc h
    simp only [List.foldl_cons]
    apply ih
    by_cases hv : validAt x.cert now = true
    · simp only [hv, ↓reduceIte]
      intro mc hmc
      rcases h mc hmc with h | h
      · exact .inl h
      · simp only [List.mem_cons] at h
        rcases h with rfl | h
        · exact .inl hv
        · exact .inr h
    · simp only [hv, Bool.false_eq_true, ↓reduceIte]
      intro mc hmc
      have hsub : mc ∈ acc.1.certs := by
        have := (removeFn_shrinks acc.1 f acc.2 (.cert x.cert)).certs mc
        exact this hmc
      rcases h mc hsub with h | h
      · exact .inl h
      · simp only [List.mem_cons] at h
        rcases h with rfl | h
        · -- `x` itself was still present: its removal cannot fail, so it is gone — contradiction
          exfalso
          have hhas : hasCert acc.1 mc.cert = true := by
            simp only [hasCert, List.any_eq_true]; exact ⟨mc, hsub, by simp⟩
          have hok := removeCore_inMem_ok acc.1 f mc.cert hhas
          have hrm := removeCore_removes acc.1 f mc.cert hok mc
          rw [removeFn_state] at hmc
          exact hrm hmc rfl
        · exact .inr h

/-- After the orphan pass on a non-empty listing, every in-memory certificate's public key is
    among the keys the underlying agent reported. -/
theorem filterOrphans_all_keyed (s : State) (f : Faults) (ka : KeyArr)
    (hne : (ka.arr.take ka.len) ≠ []) :
    ∀ mc ∈ (filterOrphans s f ka).1.certs, mc.cert.key ∈ (ka.arr.take ka.len).map (·.blob.pub) := by
  have hemp : (List.take ka.len ka.arr).isEmpty = false := by
    cases h : List.take ka.len ka.arr
    · exact absurd h hne
    · rfl
  simp only [filterOrphans, hemp, Bool.false_eq_true, ↓reduceIte]
  suffices h : ∀ (l : List MemCert) (acc : State × KeyArr),
      (∀ mc ∈ acc.1.certs, mc.cert.key ∈ (ka.arr.take ka.len).map (·.blob.pub) ∨ mc ∈ l) →
      ∀ mc ∈ (l.foldl (fun (acc : State × KeyArr) mc =>
        if ((ka.arr.take ka.len).map (·.blob.pub)).contains mc.cert.key then acc
        else let (s', ka', _) := removeFn acc.1 f acc.2 (.cert mc.cert); (s', ka')) acc).1.certs,
        mc.cert.key ∈ (ka.arr.take ka.len).map (·.blob.pub) from
    h s.certs (s, ka) (fun mc hmc => .inr hmc)
  intro l
  induction l with
  | nil => intro acc h mc hmc; rcases h mc hmc with h | h; exact h; cases h
  | cons x r ih =>
    intro acc h
    simp only [List.foldl_cons]
    apply ih
    by_cases hv : ((ka.arr.take ka.len).map (·.blob.pub)).contains x.cert.key = true
    · simp only [hv, ↓reduceIte]
      intro mc hmc
      rcases h mc hmc with h | h
      · exact .inl h
      · simp only [List.mem_cons] at h
        rcases h with rfl | h
        · exact .inl (by simpa using hv)
        · exact .inr h
    · simp only [hv, Bool.false_eq_true, ↓reduceIte]
      intro mc hmc
      have hsub : mc ∈ acc.1.certs := (removeFn_shrinks acc.1 f acc.2 (.cert x.cert)).certs mc hmc
      rcases h mc hsub with h | h
      · exact .inl h
      · simp only [List.mem_cons] at h
        rcases h with rfl | h
        · exfalso
          have hhas : hasCert acc.1 mc.cert = true := by
            simp only [hasCert, List.any_eq_true]; exact ⟨mc, hsub, by simp⟩
          have hok := removeCore_inMem_ok acc.1 f mc.cert hhas
          have hrm := removeCore_removes acc.1 f mc.cert hok mc
          rw [removeFn_state] at hmc
          exact hrm hmc rfl
        · exact .inr h

/-- An empty listing (a possibly locked agent) drops nothing as orphan. -/
theorem c07_empty_listing (s : State) (f : Faults) (arr : List Ident) :
    filterOrphans s f ⟨arr, 0⟩ = (s, ⟨arr, 0⟩) := by
  simp [filterOrphans]

/-- Whatever preceded it, after `filter` got a listing from the underlying agent: every in-memory
    certificate is inside its validity window, and — when the listing was non-empty — its public
    key is among the listed keys.  (Any state `s`: so after every history.) -/
theorem c07_memory_purged (s : State) (now : Nat) (f : Faults) (keys : List Ident) (u1 : UAgent)
    (hl : s.u.list f = (u1, some keys)) :
    (∀ mc ∈ (filter s now f).1.certs, validAt mc.cert now = true) ∧
    (keys ≠ [] → ∀ mc ∈ (filter s now f).1.certs, mc.cert.key ∈ keys.map (·.blob.pub)) := by
  unfold filter
  simp only [hl]
  constructor
  · intro mc hmc
    have : mc ∈ (expiredInMemory now f
        (expiredInAgent now f (filterOrphans { s with u := u1 } f ⟨keys, keys.length⟩).2.len 0
          (filterOrphans { s with u := u1 } f ⟨keys, keys.length⟩).1
          (filterOrphans { s with u := u1 } f ⟨keys, keys.length⟩).2 false).1
        (expiredInAgent now f (filterOrphans { s with u := u1 } f ⟨keys, keys.length⟩).2.len 0
          (filterOrphans { s with u := u1 } f ⟨keys, keys.length⟩).1
          (filterOrphans { s with u := u1 } f ⟨keys, keys.length⟩).2 false).2.1).1.certs := by
      split at hmc <;> exact hmc
    exact expiredInMemory_all_valid now f _ _ mc this
  · intro hne mc hmc
    have h1 := filterOrphans_all_keyed { s with u := u1 } f ⟨keys, keys.length⟩ (by simpa using hne)
    have hsh := (expiredInAgent_shrinks now f (filterOrphans { s with u := u1 } f ⟨keys, keys.length⟩).2.len 0
        (filterOrphans { s with u := u1 } f ⟨keys, keys.length⟩).1
        (filterOrphans { s with u := u1 } f ⟨keys, keys.length⟩).2 false).trans
      (expiredInMemory_shrinks now f _
        (expiredInAgent now f (filterOrphans { s with u := u1 } f ⟨keys, keys.length⟩).2.len 0
          (filterOrphans { s with u := u1 } f ⟨keys, keys.length⟩).1
          (filterOrphans { s with u := u1 } f ⟨keys, keys.length⟩).2 false).2.1)
    have : mc ∈ (filterOrphans { s with u := u1 } f ⟨keys, keys.length⟩).1.certs := by
      apply hsh.certs
      split at hmc <;> exact hmc
    simpa using h1 mc this

/-- A failing listing touches nothing. -/
theorem c07_list_failure (s : State) (now : Nat) (f : Faults) (u1 : UAgent) (hl : s.u.list f = (u1, none)) :
    filter s now f = ({ s with u := u1 }, none) := by
  unfold filter; simp [hl]

/-- **No listing contains a certificate outside its validity window — the underlying agent's
    half.**  Whatever the state, the clock and the faults: if `filter` succeeds, every certificate in
    the key list it returns (the underlying agent's identities, after the orphan pass, the in-agent
    expiry pass with its swap-removing `remove` closure over the live backing array, and the
    in-memory pass) is inside its validity window, the list has pairwise different blobs, and
    every entry was in the underlying agent's listing.  (`uniq`: the keyring never lists two
    identities with the same public blob.) -/
theorem c07_listing_valid (s : State) (now : Nat) (f : Faults) (listing keys : List Ident) (u1 : UAgent) (s' : State)
    (hl : s.u.list f = (u1, some listing)) (uniq : Distinct listing)
    (hf : filter s now f = (s', some keys)) :
    AllValid now keys ∧ Distinct keys ∧ ∀ x ∈ keys, x ∈ listing := by
  unfold filter at hf
  rw [hl] at hf
  simp only [] at hf
  -- the slice as it enters each pass
  have h0 : Good listing (⟨listing, listing.length⟩ : KeyArr) := by
    refine ⟨Nat.le_refl _, ?_, ?_⟩
    · unfold KeyArr.live; simpa using uniq
    · unfold KeyArr.live; intro x hx; simpa using hx
  have h1 := filterOrphans_good listing { s with u := u1 } f ⟨listing, listing.length⟩ h0
  cases ho : filterOrphans { s with u := u1 } f ⟨listing, listing.length⟩ with
  | mk s1 ka1 =>
    rw [ho] at hf h1
    simp only [] at hf h1
    cases he : expiredInAgent now f ka1.len 0 s1 ka1 false with
    | mk s2 r2 =>
      obtain ⟨ka2, err⟩ := r2
      rw [he] at hf
      simp only [] at hf
      cases hm : expiredInMemory now f s2 ka2 with
      | mk s3 ka3 =>
        rw [hm] at hf
        simp only [] at hf
        cases err with
        | true => simp at hf
        | false =>
          simp only [Bool.false_eq_true, ↓reduceIte, Prod.mk.injEq, Option.some.injEq] at hf
          obtain ⟨_, rfl⟩ := hf
          -- the in-agent pass: loop invariant from index 0 to the slice length at entry
          have hloop := expiredInAgent_inv ka1.arr ka1.len now f h1.wf ka1.len 0 s1 ka1 (by omega)
            (loopInv_init ka1 now h1.wf h1.distinct) (by rw [he])
          rw [he] at hloop
          have hv2 : AllValid now ka2.live := loopInv_final _ _ _ _ hloop
          have h2 : Good ka2.live ka2 := ⟨hloop.wf, hloop.distinct, fun _ h => h⟩
          have h3 := expiredInMemory_good ka2.live now s2 f ka2 h2
          rw [hm] at h3
          simp only [] at h3
          have hg2 := expiredInAgent_good listing now f ka1.len 0 s1 ka1 false h1
          rw [he] at hg2
          simp only [] at hg2
          refine ⟨?_, h3.distinct, ?_⟩
          · intro x hx c hc; exact hv2 x (h3.sub x hx) c hc
          · intro x hx; exact hg2.sub x (h3.sub x hx)

/-- every entry `listVisible` shows comes, blob for blob, from the key list it was given -/
theorem listVisible_blobs (s : State) (keys : List Ident) :
    ∀ id ∈ (listVisible s keys).2, ∃ id0 ∈ keys, id.blob = id0.blob := by
  induction keys generalizing s with
  | nil => intro id hid; simp [listVisible] at hid
  | cons k r ih =>
    intro id hid
    unfold listVisible at hid
    cases hb : k.blob with
    | key n =>
      rw [hb] at hid
      simp only [List.mem_cons] at hid
      rcases hid with hid | hid
      · exact ⟨k, by simp, by rw [hid]⟩
      · obtain ⟨id0, h0, e⟩ := ih s id hid; exact ⟨id0, List.mem_cons_of_mem _ h0, e⟩
    | cert c =>
      rw [hb] at hid
      simp only [] at hid
      split at hid
      · obtain ⟨id0, h0, e⟩ := ih s id hid; exact ⟨id0, List.mem_cons_of_mem _ h0, e⟩
      · split at hid
        · obtain ⟨id0, h0, e⟩ := ih _ id hid; exact ⟨id0, List.mem_cons_of_mem _ h0, e⟩
        · simp only [List.mem_cons] at hid
          rcases hid with hid | hid
          · exact ⟨k, by simp, by rw [hid, hb]⟩
          · obtain ⟨id0, h0, e⟩ := ih s id hid; exact ⟨id0, List.mem_cons_of_mem _ h0, e⟩

/-- **C07, as the client sees it.**  Whatever sequence of operations led to state `s`, whatever the
    clock and the faults: a listing the shim agent returns contains no certificate outside its
    validity window — neither among the in-memory hardware certificates nor among the identities
    of the underlying agent.  (`uniq`: what the underlying agent lists has pairwise different
    blobs.) -/
theorem c07_list_output_valid (s : State) (now : Nat) (f : Faults) (s' : State) (ids : List Ident)
    (uniq : ∀ u1 listing, s.u.list f = (u1, some listing) → Distinct listing)
    (h : step s now f .list = (s', .listing ids)) :
    ∀ id ∈ ids, ∀ c, id.blob = .cert c → validAt c now = true := by
  simp only [step] at h
  by_cases hlk : s.locked = true
  · simp only [hlk, ↓reduceIte, Prod.mk.injEq, Out.listing.injEq] at h
    obtain ⟨_, rfl⟩ := h
    intro id hid; cases hid
  · simp only [hlk, Bool.false_eq_true, ↓reduceIte] at h
    cases hl : s.u.list f with
    | mk u1 r =>
      cases r with
      | none =>
        rw [c07_list_failure s now f u1 hl] at h
        simp at h
      | some listing =>
        cases hf : filter s now f with
        | mk s1 r1 =>
          rw [hf] at h
          cases r1 with
          | none => simp at h
          | some keys =>
            simp only [Prod.mk.injEq, Out.listing.injEq] at h
            obtain ⟨_, rfl⟩ := h
            have hkeys := (c07_listing_valid s now f listing keys u1 s1 hl (uniq u1 listing hl) hf).1
            have hmem := (c07_memory_purged s now f listing u1 hl).1
            rw [hf] at hmem
            intro id hid c hc
            rcases List.mem_append.mp hid with hm | hv
            · simp only [List.mem_map] at hm
              obtain ⟨mc, hmc, rfl⟩ := hm
              simp only [Blob.cert.injEq] at hc
              subst hc
              exact hmem mc hmc
            · obtain ⟨id0, h0, e⟩ := listVisible_blobs s1 keys id hv
              exact hkeys id0 h0 c (by rw [← e]; exact hc)

/-- **Purged from both.**  With an underlying agent that answers (open, unlocked, no faults during
    this operation): after a successful `filter` the underlying agent itself holds no certificate
    outside its validity window any more, and holds exactly the identities of the returned list. -/
theorem c07_purged_from_agent (s : State) (now : Nat) (s' : State) (keys : List Ident)
    (hopen : s.u.closed = false) (hunl : s.u.locked = false) (uniq : Distinct s.u.idents)
    (hf : filter s now noFaults = (s', some keys)) :
    (∀ x, x ∈ s'.u.idents ↔ x ∈ keys) ∧
    ∀ x ∈ s'.u.idents, ∀ c, x.blob = .cert c → validAt c now = true := by
  have hl : s.u.list noFaults = (s.u, some s.u.idents) := by
    unfold UAgent.list UAgent.gate; simp [hopen, hunl, noFaults]
  have hvalid := (c07_listing_valid s now noFaults s.u.idents keys s.u s' hl uniq hf).1
  unfold filter at hf
  rw [hl] at hf
  simp only [] at hf
  have h0 : Sync { s with u := s.u } (⟨s.u.idents, s.u.idents.length⟩ : KeyArr) := by
    refine ⟨hopen, hunl, Nat.le_refl _, ?_, ?_⟩
    · unfold KeyArr.live; simpa using uniq
    · intro x; unfold KeyArr.live; simp
  have h1 := filterOrphans_sync _ _ h0
  cases ho : filterOrphans { s with u := s.u } noFaults ⟨s.u.idents, s.u.idents.length⟩ with
  | mk s1 ka1 =>
    rw [ho] at hf h1
    simp only [] at hf h1
    have h2 := expiredInAgent_sync now ka1.len 0 s1 ka1 false h1
    cases he : expiredInAgent now noFaults ka1.len 0 s1 ka1 false with
    | mk s2 r2 =>
      obtain ⟨ka2, err⟩ := r2
      rw [he] at hf h2
      simp only [] at hf h2
      have h3 := expiredInMemory_sync now s2 ka2 h2
      cases hm : expiredInMemory now noFaults s2 ka2 with
      | mk s3 ka3 =>
        rw [hm] at hf h3
        simp only [] at hf h3
        cases err with
        | true => simp at hf
        | false =>
          simp only [Bool.false_eq_true, ↓reduceIte, Prod.mk.injEq, Option.some.injEq] at hf
          obtain ⟨rfl, rfl⟩ := hf
          refine ⟨h3.same, ?_⟩
          intro x hx c hc
          exact hvalid x ((h3.same x).mp hx) c hc

/-- **A signing request naming a purged certificate fails.**  With an underlying agent that answers
    (open, unlocked, no faults during this operation), signing with a certificate that is outside its
    validity window at the time of the request never yields a signature — wherever the certificate
    was held. -/
theorem c07_sign_purged_fails (s : State) (now : Nat) (c : Cert) (hinv : validAt c now = false)
    (hopen : s.u.closed = false) (hunl : s.u.locked = false) (uniq : Distinct s.u.idents) :
    ∀ k, (step s now noFaults (.sign (.cert c))).2 ≠ .signed (.ok k) := by
  intro k
  simp only [step]
  by_cases hlk : s.locked = true
  · simp [hlk]
  · simp only [hlk, Bool.false_eq_true, ↓reduceIte]
    cases hf : filter s now noFaults with
    | mk s' r =>
      cases r with
      | none => simp
      | some keys =>
        simp only []
        -- not in memory any more
        have hl : s.u.list noFaults = (s.u, some s.u.idents) := by
          unfold UAgent.list UAgent.gate; simp [hopen, hunl, noFaults]
        have hmem := (c07_memory_purged s now noFaults s.u.idents s.u hl).1
        rw [hf] at hmem
        have hnm : hasCert s' c = false := by
          cases hh : hasCert s' c with
          | false => rfl
          | true =>
            unfold hasCert at hh
            simp only [List.any_eq_true, decide_eq_true_eq] at hh
            obtain ⟨mc, hmc, rfl⟩ := hh
            rw [hmem mc hmc] at hinv; cases hinv
        simp only [hnm, Bool.false_eq_true, ↓reduceIte]
        split
        · simp
        · -- not in the underlying agent any more
          have hag := (c07_purged_from_agent s now s' keys hopen hunl uniq hf).2
          have hgi : (s'.u.gate noFaults .sign).1.idents = s'.u.idents := by
            unfold UAgent.gate; split
            · rfl
            · simp [noFaults]
          have hsign : (s'.u.sign noFaults (.cert c)).2 = none := by
            unfold UAgent.sign
            simp only []
            split
            · rfl
            · split
              · rfl
              · split
                · rename_i hany
                  rw [hgi] at hany
                  simp only [List.any_eq_true, decide_eq_true_eq] at hany
                  obtain ⟨x, hx, hxb⟩ := hany
                  have := hag x hx c hxb
                  rw [this] at hinv; cases hinv
                · rfl
          unfold signOut
          cases hs : s'.u.sign noFaults (.cert c) with
          | mk u' r =>
            rw [hs] at hsign
            simp only [] at hsign
            subst hsign
            simp

/-- Non-vacuity, on the pattern that makes swap-removal delicate: three expired certificates and one
    valid one, the expired ones first, last and adjacent — the listing that comes back is exactly
    the valid certificate and the key. -/
example :
    let e1 : Cert := ⟨1, 1, 10, 20, false, none⟩
    let e2 : Cert := ⟨2, 1, 10, 20, false, none⟩
    let e3 : Cert := ⟨3, 1, 10, 20, false, none⟩
    let v : Cert := ⟨4, 1, 10, 2000, false, none⟩
    let ids : List Ident := [⟨.cert e1, []⟩, ⟨.key 1, []⟩, ⟨.cert v, []⟩, ⟨.cert e2, []⟩, ⟨.cert e3, []⟩]
    let s : State := ⟨[], [], false, false, ⟨ids, false, [], false⟩⟩
    (filter s 100 noFaults).2 = some [⟨.cert v, []⟩, ⟨.key 1, []⟩] ∨
    (filter s 100 noFaults).2 = some [⟨.key 1, []⟩, ⟨.cert v, []⟩] := by decide

end C07
end Ysshra
