import Ysshra.Model.Cond
/-
C20 — waiting on a message code wakes on the next request with that code, only then.
(`Bridge.Wire` proves that the table size and inRange regenerated from shimserver.go are the
`n = 40`, `<` used here, and that ServeAgent broadcasts before dispatch.)
-/
namespace Ysshra
namespace C20
open Cond

/-- every code that passes the inRange indexes inside a table of `n ≤ 256` entries -/
theorem c20_in_range (n : Nat) (hn : n ≤ 256) (c : UInt8) (h : inRange n c = true) : c.toNat < n := by
  unfold inRange at h
  have := Nat.mod_le n 256
  simp at h; omega

/-- A request with code `c` releases exactly the clients waiting on `c`, all of them together,
    and leaves every other code's waiters registered. -/
theorem c20_release (n : Nat) (s : State) (c : UInt8) (h : inRange n c = true) :
    (∀ t, t ∈ (step n s (.request c)).2 ↔ (t, c) ∈ s) ∧
    (∀ w, w ∈ (step n s (.request c)).1 ↔ (w ∈ s ∧ w.2 ≠ c)) := by
  simp only [step, h, ↓reduceIte]
  constructor
  · intro t
    simp only [List.mem_map, List.mem_filter, decide_eq_true_eq]
    constructor
    · rintro ⟨⟨t', c'⟩, ⟨hm, hc⟩, ht⟩; simp at hc ht; subst hc ht; exact hm
    · intro hm; exact ⟨(t, c), ⟨hm, rfl⟩, rfl⟩
  · intro w; simp [List.mem_filter]

/-- A request with another code leaves a waiter on `c` registered (and, by `c20_release`,
    releases only the clients registered on that other code). -/
theorem c20_other_code_keeps (n : Nat) (s : State) (c d : UInt8) (t : Tid) (hd : d ≠ c)
    (hm : (t, c) ∈ s) : (t, c) ∈ (step n s (.request d)).1 := by
  by_cases hg : inRange n d = true
  · exact ((c20_release n s d hg).2 (t, c)).2 ⟨hm, fun h => hd h.symm⟩
  · simp [step, hg, hm]

/-- A code outside the supported range returns immediately and changes nothing; a request with
    such a code wakes nobody. -/
theorem c20_out_of_range (n : Nat) (s : State) (t : Tid) (c : UInt8) (h : inRange n c = false) :
    step n s (.wait t c) = (s, [t]) ∧ step n s (.request c) = (s, []) := by
  simp [step, h]

/-- A supported wait registers the client and releases nobody. -/
theorem c20_wait_registers (n : Nat) (s : State) (t : Tid) (c : UInt8) (h : inRange n c = true) :
    step n s (.wait t c) = (s ++ [(t, c)], []) := by
  simp [step, h]

/-- History form: a client registered on `c` stays blocked through any sequence of events that
    contains no request with code `c`, and the next request with code `c` releases it. -/
theorem c20_next_request (n : Nat) (s : State) (t : Tid) (c : UInt8) (es : List Event)
    (hg : inRange n c = true) (hm : (t, c) ∈ s) (hno : ∀ e ∈ es, e ≠ .request c) :
    (t, c) ∈ (run n s es).1 ∧ t ∈ (step n (run n s es).1 (.request c)).2 := by
  induction es generalizing s with
  | nil => exact ⟨hm, ((c20_release n s c hg).1 t).2 hm⟩
  | cons e es ih =>
    have hm' : (t, c) ∈ (step n s e).1 := by
      cases e with
      | wait t' c' =>
        simp only [step]; split <;> simp [hm]
      | request d =>
        have hd : d ≠ c := fun h => hno (.request d) (List.mem_cons_self ..) (by rw [h])
        exact c20_other_code_keeps n s c d t hd hm
    have := ih (step n s e).1 hm' (fun e' he' => hno e' (List.mem_cons_of_mem _ he'))
    simpa [run] using this

/-- Non-vacuity: two waiters on 11, one on 13; a request 11 frees the first two only. -/
example : step 40 [(1, 11), (2, 13), (3, 11)] (.request 11) = ([(2, 13)], [1, 3]) := by decide

end C20
end Ysshra
