import Ysshra.Model.Cond
/-
C20 — waiting on a message code wakes on the next request with that code, only then.
(`Bridge.Wire` proves that the table size and guard regenerated from shimserver.go are the
`n = 40`, `<` used here, that ServeAgent broadcasts `req[0]` before dispatch and that the wait
code is 35.)
-/
namespace Ysshra
namespace C20
open Cond

/-- every code that passes the guard indexes inside a table of `n ≤ 256` entries -/
theorem c20_in_range (n : Nat) (hn : n ≤ 256) (c : UInt8) (h : inRange n c = true) : c.toNat < n := by
  unfold inRange at h
  have := Nat.mod_le n 256
  simp at h; omega

/-- A broadcast of `c` releases exactly the clients waiting on `c`, all of them together, and
    leaves every other code's waiters registered. -/
theorem c20_release (n : Nat) (s : State) (c : UInt8) (h : inRange n c = true) :
    (∀ t, t ∈ (broadcast n s c).2 ↔ (t, c) ∈ s) ∧
    (∀ w, w ∈ (broadcast n s c).1 ↔ (w ∈ s ∧ w.2 ≠ c)) := by
  simp only [broadcast, h, ↓reduceIte]
  constructor
  · intro t
    simp only [List.mem_map, List.mem_filter, decide_eq_true_eq]
    constructor
    · rintro ⟨⟨t', c'⟩, ⟨hm, hc⟩, ht⟩; simp at hc ht; subst hc ht; exact hm
    · intro hm; exact ⟨(t, c), ⟨hm, rfl⟩, rfl⟩
  · intro w; simp [List.mem_filter]

/-- A request (of any kind) whose first byte is not `c` leaves a waiter on `c` registered. -/
theorem c20_other_code_keeps (n : Nat) (s : State) (c : UInt8) (t : Tid) (e : Event)
    (hd : e.code ≠ c) (hm : (t, c) ∈ s) : (t, c) ∈ (step n s e).1 := by
  have hb : (t, c) ∈ (broadcast n s e.code).1 := by
    by_cases hg : inRange n e.code = true
    · exact ((c20_release n s e.code hg).2 (t, c)).2 ⟨hm, fun h => hd h.symm⟩
    · simp [broadcast, hg, hm]
  cases e with
  | request d => simpa [step] using hb
  | wait t' c' =>
    simp only [step]
    split <;> simp [hb]

/-- … and does not release it: the clients an event releases are those registered on the event's
    own first byte (plus, for a wait on an unsupported code, the caller itself). -/
theorem c20_released_only_matching (n : Nat) (s : State) (e : Event) (t : Tid)
    (h : t ∈ (step n s e).2) :
    (t, e.code) ∈ s ∨ (∃ c, e = .wait t c ∧ inRange n c = false) := by
  have hb : ∀ t, t ∈ (broadcast n s e.code).2 → (t, e.code) ∈ s := by
    intro t ht
    by_cases hg : inRange n e.code = true
    · exact ((c20_release n s e.code hg).1 t).1 ht
    · simp [broadcast, hg] at ht
  cases e with
  | request d => exact .inl (hb t (by simpa [step] using h))
  | wait t' c' =>
    simp only [step] at h
    split at h
    · exact .inl (hb t h)
    · rename_i hg
      simp only [List.mem_append, List.mem_singleton] at h
      rcases h with h | h
      · exact .inl (hb t h)
      · exact .inr ⟨c', by rw [h], by simpa using hg⟩

/-- A code outside the supported range returns immediately and changes nothing beyond the
    broadcast every request performs; a request with such a code wakes nobody. -/
theorem c20_out_of_range (n : Nat) (s : State) (t : Tid) (c : UInt8) (h : inRange n c = false) :
    (step n s (.wait t c)).1 = (broadcast n s waitCode).1 ∧ t ∈ (step n s (.wait t c)).2 ∧
    step n s (.request c) = (s, []) := by
  refine ⟨?_, ?_, ?_⟩
  · simp [step, h, Event.code]
  · simp [step, h]
  · simp [step, broadcast, h, Event.code]

/-- A supported wait registers the client. -/
theorem c20_wait_registers (n : Nat) (s : State) (t : Tid) (c : UInt8) (h : inRange n c = true) :
    (t, c) ∈ (step n s (.wait t c)).1 := by
  simp [step, h]

/-- History form: a client registered on `c` stays blocked through any sequence of requests none
    of which has first byte `c`, and the next request with first byte `c` releases it. -/
theorem c20_next_request (n : Nat) (s : State) (t : Tid) (c : UInt8) (es : List Event) (e : Event)
    (hg : inRange n c = true) (hm : (t, c) ∈ s) (hno : ∀ e' ∈ es, e'.code ≠ c) (he : e.code = c) :
    (t, c) ∈ (run n s es).1 ∧ t ∈ (step n (run n s es).1 e).2 := by
  induction es generalizing s with
  | nil =>
    refine ⟨hm, ?_⟩
    show t ∈ (step n s e).2
    have hb : t ∈ (broadcast n s e.code).2 := by rw [he]; exact ((c20_release n s c hg).1 t).2 hm
    cases e with
    | request d => simpa [step] using hb
    | wait t' c' => simp only [step]; split <;> simp [hb]
  | cons e0 es ih =>
    have hm' : (t, c) ∈ (step n s e0).1 :=
      c20_other_code_keeps n s c t e0 (hno e0 (List.mem_cons_self ..)) hm
    have := ih (step n s e0).1 hm' (fun e' he' => hno e' (List.mem_cons_of_mem _ he'))
    simpa [run] using this

/-- Non-vacuity: two waiters on 11, one on 13; a request 11 frees the first two only. -/
example : step 40 [(1, 11), (2, 13), (3, 11)] (.request 11) = ([(2, 13)], [1, 3]) := by decide
/-- a wait request is itself a request with code 35 -/
example : step 40 [(1, 35)] (.wait 2 13) = ([(2, 13)], [1]) := by decide

end C20
end Ysshra
