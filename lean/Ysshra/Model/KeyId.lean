import Ysshra.Model.Json
/-
Model of `keyid.KeyID`, `(*KeyID).Marshal` and `keyid.Unmarshal`.
Field names are Go's.  The tag list, the required-key table, the supported
versions and the two sanity checkers used here are the *specification-side*
constants; `Ysshra.Bridge.KeyId` proves that what the translator regenerates
from keyid.go (`Ysshra.Gen.KeyId`) is equal to them.
-/
namespace Ysshra

structure KeyID where
  Principals : Option (List Str)
  TransID : Str
  ReqUser : Str
  ReqIP : Str
  ReqHost : Str
  IsFirefighter : Bool
  IsHWKey : Bool
  IsHeadless : Bool
  IsNonce : Bool
  Usage : Int
  TouchPolicy : Int
  Version : Nat
deriving DecidableEq, Repr

namespace KeyID

def zero : KeyID := ⟨none, [], [], [], [], false, false, false, false, 0, 0, 0⟩

/-- Go's types bound the integers. -/
def wf (k : KeyID) : Prop :=
  -(2^63 : Int) ≤ k.Usage ∧ k.Usage < 2^63 ∧ -(2^63 : Int) ≤ k.TouchPolicy ∧ k.TouchPolicy < 2^63 ∧
  k.Version < 2^16

instance (k : KeyID) : Decidable k.wf := by unfold wf; exact inferInstance

def NeverTouch : Int := 1
def AlwaysTouch : Int := 2
def CachedTouch : Int := 3

/-- JSON member names in struct order. -/
def tags : List Str :=
  [c!"prins", c!"transID", c!"reqUser", c!"reqIP", c!"reqHost", c!"isFirefighter", c!"isHWKey",
   c!"isHeadless", c!"isNonce", c!"usage", c!"touchPolicy", c!"ver"]

def requiredV1 : List Str :=
  [c!"prins", c!"transID", c!"reqUser", c!"reqIP", c!"reqHost", c!"isFirefighter", c!"isHWKey",
   c!"isHeadless", c!"isNonce", c!"touchPolicy", c!"ver"]

def requiredKeys (ver : Nat) : Option (List Str) := if ver = 1 then some requiredV1 else none
def supported (ver : Nat) : Bool := ver = 1

/-- `sanityCheckerHeadless`: `true` = returns nil. -/
def saneHeadless (k : KeyID) : Bool :=
  if !k.IsHeadless then true
  else if k.IsHWKey then false
  else if k.IsFirefighter then false
  else if k.TouchPolicy != NeverTouch then false
  else true

/-- `sanityCheckerNonce`. -/
def saneNonce (k : KeyID) : Bool :=
  if !k.IsNonce then true
  else if k.IsFirefighter then false
  else if k.IsHeadless then false
  else if k.TouchPolicy != NeverTouch then false
  else true

/-- the version-1 checker closure -/
def sane (k : KeyID) : Bool := if !saneHeadless k then false else saneNonce k

/-- `json.Marshal(kid)` as a token tree (field order = struct order). -/
def toJ (k : KeyID) : JVal :=
  .obj [ (c!"prins", match k.Principals with
                      | none => .null
                      | some ps => .arr (ps.map .str)),
         (c!"transID", .str k.TransID), (c!"reqUser", .str k.ReqUser), (c!"reqIP", .str k.ReqIP),
         (c!"reqHost", .str k.ReqHost), (c!"isFirefighter", .bool k.IsFirefighter),
         (c!"isHWKey", .bool k.IsHWKey), (c!"isHeadless", .bool k.IsHeadless),
         (c!"isNonce", .bool k.IsNonce), (c!"usage", .num (.ofInt k.Usage)),
         (c!"touchPolicy", .num (.ofInt k.TouchPolicy)), (c!"ver", .num (.ofInt k.Version)) ]

inductive MarshalErr | unsupportedVersion | insane
deriving DecidableEq, Repr

def marshal (k : KeyID) : Except MarshalErr JVal :=
  if !supported k.Version then .error .unsupportedVersion
  else if !sane k then .error .insane
  else .ok (toJ k)

/-- Assign member value `v` to field number `i`; `none` = type error.  `bk` is the backing array
    of the `Principals` slice (see `decStrSlice`). -/
def setField (k : KeyID) (bk : List Str) (i : Nat) (v : JVal) : Option (KeyID × List Str) :=
  match i with
  | 0 => (decStrSlice bk v).map fun (x, bk') => ({ k with Principals := x }, bk')
  | 1 => (decStr k.TransID v).map fun x => ({ k with TransID := x }, bk)
  | 2 => (decStr k.ReqUser v).map fun x => ({ k with ReqUser := x }, bk)
  | 3 => (decStr k.ReqIP v).map fun x => ({ k with ReqIP := x }, bk)
  | 4 => (decStr k.ReqHost v).map fun x => ({ k with ReqHost := x }, bk)
  | 5 => (decBool k.IsFirefighter v).map fun x => ({ k with IsFirefighter := x }, bk)
  | 6 => (decBool k.IsHWKey v).map fun x => ({ k with IsHWKey := x }, bk)
  | 7 => (decBool k.IsHeadless v).map fun x => ({ k with IsHeadless := x }, bk)
  | 8 => (decBool k.IsNonce v).map fun x => ({ k with IsNonce := x }, bk)
  | 9 => (decInt 64 k.Usage v).map fun x => ({ k with Usage := x }, bk)
  | 10 => (decInt 64 k.TouchPolicy v).map fun x => ({ k with TouchPolicy := x }, bk)
  | 11 => (decUint 16 k.Version v).map fun x => ({ k with Version := x }, bk)
  | _ => some (k, bk)

/-- Walk the members of the top-level object in order.  A type error does not
    stop Go's decoder, but `keyid.Unmarshal` discards everything on error, so
    the model stops at the first one. -/
def decodeMembers (k : KeyID) (bk : List Str) : List (Str × JVal) → Option KeyID
  | [] => some k
  | (name, v) :: rest =>
    match fieldIndex tags name with
    | none => decodeMembers k bk rest
    | some i =>
      match setField k bk i v with
      | none => none
      | some (k', bk') => decodeMembers k' bk' rest

/-- `json.Unmarshal(text, kid)` with `kid` freshly zeroed. -/
def decodeStruct : Option JVal → Option KeyID
  | some (.obj ms) => decodeMembers zero [] ms
  | some .null => some zero
  | _ => none

inductive UnmarshalErr | json | unsupportedVersion | mapDecode | missingKey | insane
deriving DecidableEq, Repr

/-- `keyid.Unmarshal`. -/
def unmarshal (t : Option JVal) : Except UnmarshalErr KeyID :=
  match decodeStruct t with
  | none => .error .json
  | some k =>
    match requiredKeys k.Version with
    | none => .error .unsupportedVersion
    | some req =>
      match decodeToMapKeys t with
      | none => .error .mapDecode
      | some keys =>
        if !req.all (fun r => keys.contains r) then .error .missingKey
        else if !supported k.Version then .error .unsupportedVersion
        else if !sane k then .error .insane
        else .ok k

/-- The property's consistency sentence, written out. -/
def consistent (k : KeyID) : Prop :=
  (k.IsHeadless = true → k.IsHWKey = false ∧ k.IsFirefighter = false ∧ k.TouchPolicy = NeverTouch) ∧
  (k.IsNonce = true → k.IsFirefighter = false ∧ k.IsHeadless = false ∧ k.TouchPolicy = NeverTouch)

instance (k : KeyID) : Decidable k.consistent := by unfold consistent; exact inferInstance

end KeyID
end Ysshra
