import Ysshra.Model.Json
import Ysshra.Model.Text
/-
Model of package `message`: `Attributes`, `Marshal`, `Unmarshal`, `MarshalLegacy`,
`UnmarshalLegacy`, `parseAttrsLegacy`, `sanityCheck`, `populate`.

Texts decoded from JSON are `Str` (Go's decoder yields valid UTF-8); the legacy format is parsed
on raw bytes.  `Attrs T E` is generic in the text type and the extension-map type.
`Unmarshal` is modelled as repaired by the `fix:` commit for finding F1 (decode into the
allocated struct, so a top-level `null` is a no-op instead of nil-ing the pointer).
-/
namespace Ysshra
open Text

structure TSudo (T : Type) where
  IsFirefighter : Bool
  Hosts : T
  Time : Int
deriving DecidableEq, Repr

structure Attrs (T : Type) (E : Type) where
  IfVer : Int
  Username : T
  Hostname : T
  SSHClientVersion : T
  CAPubKeyAlgo : Int
  SignatureAlgo : Int
  HardKey : Bool
  Touch2SSH : Bool
  TouchlessSudo : Option (TSudo T)
  Exts : E
deriving DecidableEq, Repr

namespace Message

abbrev JExts := List (Str × JVal)
abbrev AttrsJ := Attrs Str JExts
abbrev AttrsB := Attrs Bytes (List (Bytes × Bytes))

def zeroJ : AttrsJ := ⟨0, [], [], [], 0, 0, false, false, none, []⟩
def zeroTS {T} [Inhabited T] (e : T) : TSudo T := ⟨false, e, 0⟩

/-- `sanityCheck`: `true` = nil -/
def sane {T E} (isEmpty : T → Bool) (a : Attrs T E) : Bool :=
  if isEmpty a.SSHClientVersion then false
  else if isEmpty a.Username then false
  else if isEmpty a.Hostname then false
  else true

def populate {T E} (e : T) (a : Attrs T E) : Attrs T E :=
  match a.TouchlessSudo with
  | none => { a with TouchlessSudo := some ⟨false, e, 0⟩ }
  | some _ => a

/-! ### JSON side -/

def tagsA : List Str :=
  [c!"ifVer", c!"username", c!"hostname", c!"sshClientVersion", c!"caPubKeyAlgo", c!"signatureAlgo",
   c!"hardKey", c!"touch2SSH", c!"touchlessSudo", c!"exts"]
def tagsT : List Str := [c!"isFirefighter", c!"hosts", c!"time"]

def setFieldT (t : TSudo Str) (i : Nat) (v : JVal) : Option (TSudo Str) :=
  match i with
  | 0 => (decBool t.IsFirefighter v).map fun x => { t with IsFirefighter := x }
  | 1 => (decStr t.Hosts v).map fun x => { t with Hosts := x }
  | 2 => (decInt 64 t.Time v).map fun x => { t with Time := x }
  | _ => some t

def decodeMembersT (t : TSudo Str) : List (Str × JVal) → Option (TSudo Str)
  | [] => some t
  | (name, v) :: rest =>
    match fieldIndex tagsT name with
    | none => decodeMembersT t rest
    | some i => match setFieldT t i v with
      | none => none
      | some t' => decodeMembersT t' rest

/-- `*TouchlessSudo` field: `null` → nil pointer; object → allocate if nil, then fill. -/
def decTSudo (cur : Option (TSudo Str)) : JVal → Option (Option (TSudo Str))
  | .null => some none
  | .obj ms =>
    let base := match cur with
      | some t => t
      | none => ⟨false, [], 0⟩
    (decodeMembersT base ms).map some
  | _ => none

/-- insert-or-replace, keeping first-insertion position irrelevant: the map is compared sorted -/
def mapSet {K V} [DecidableEq K] (m : List (K × V)) (k : K) (v : V) : List (K × V) :=
  m.filter (fun p => p.1 ≠ k) ++ [(k, v)]

/-- `map[string]interface{}` field: `null` → nil map; object → entries added to the existing map
    (later duplicates win); fails when a nested number overflows float64. -/
def decExts (cur : JExts) : JVal → Option JExts
  | .null => some []
  | .obj ms => if anyFailsMembers ms then none else some (ms.foldl (fun m p => mapSet m p.1 p.2) cur)
  | _ => none

def setFieldA (a : AttrsJ) (i : Nat) (v : JVal) : Option AttrsJ :=
  match i with
  | 0 => (decInt 64 a.IfVer v).map fun x => { a with IfVer := x }
  | 1 => (decStr a.Username v).map fun x => { a with Username := x }
  | 2 => (decStr a.Hostname v).map fun x => { a with Hostname := x }
  | 3 => (decStr a.SSHClientVersion v).map fun x => { a with SSHClientVersion := x }
  | 4 => (decInt 64 a.CAPubKeyAlgo v).map fun x => { a with CAPubKeyAlgo := x }
  | 5 => (decInt 64 a.SignatureAlgo v).map fun x => { a with SignatureAlgo := x }
  | 6 => (decBool a.HardKey v).map fun x => { a with HardKey := x }
  | 7 => (decBool a.Touch2SSH v).map fun x => { a with Touch2SSH := x }
  | 8 => (decTSudo a.TouchlessSudo v).map fun x => { a with TouchlessSudo := x }
  | 9 => (decExts a.Exts v).map fun x => { a with Exts := x }
  | _ => some a

def decodeMembersA (a : AttrsJ) : List (Str × JVal) → Option AttrsJ
  | [] => some a
  | (name, v) :: rest =>
    match fieldIndex tagsA name with
    | none => decodeMembersA a rest
    | some i => match setFieldA a i v with
      | none => none
      | some a' => decodeMembersA a' rest

/-- `json.Unmarshal(text, attrs)` into a fresh `Attributes` (repaired call, see header). -/
def decodeStruct : Option JVal → Option AttrsJ
  | some (.obj ms) => decodeMembersA zeroJ ms
  | some .null => some zeroJ
  | _ => none

def tsToJ (t : TSudo Str) : JVal :=
  .obj ((if t.IsFirefighter then [(c!"isFirefighter", JVal.bool true)] else []) ++
        (if t.Hosts ≠ [] then [(c!"hosts", JVal.str t.Hosts)] else []) ++
        (if t.Time ≠ 0 then [(c!"time", JVal.num (.ofInt t.Time))] else []))

def tsMembers : Option (TSudo Str) → List (Str × JVal)
  | some t => [(c!"touchlessSudo", tsToJ t)]
  | none => []

/-- `json.Marshal(a)` with the `omitempty` rules; `Exts` is taken to be in Go's output order
    (sorted keys). -/
def toJ (a : AttrsJ) : JVal :=
  .obj ([(c!"ifVer", JVal.num (.ofInt a.IfVer)), (c!"username", .str a.Username),
         (c!"hostname", .str a.Hostname), (c!"sshClientVersion", .str a.SSHClientVersion)] ++
        (if a.CAPubKeyAlgo ≠ 0 then [(c!"caPubKeyAlgo", JVal.num (.ofInt a.CAPubKeyAlgo))] else []) ++
        (if a.SignatureAlgo ≠ 0 then [(c!"signatureAlgo", JVal.num (.ofInt a.SignatureAlgo))] else []) ++
        [(c!"hardKey", JVal.bool a.HardKey)] ++
        (if a.Touch2SSH then [(c!"touch2SSH", JVal.bool true)] else []) ++
        tsMembers a.TouchlessSudo ++
        (if a.Exts.isEmpty then [] else [(c!"exts", JVal.obj a.Exts)]))


/-! ### legacy side (bytes) -/

def kIFVer := b!"IFVer"
def kReq := b!"req"
def kHardKey := b!"HardKey"
def kTouch2SSH := b!"Touch2SSH"
def kIsFirefighter := b!"IsFirefighter"
def kHosts := b!"TouchlessSudoHosts"
def kTime := b!"TouchlessSudoTime"
def kVersion := b!"SSHClientVersion"
def legacyInterfaceVersion := b!"IFVer=6"

/-- one token → (key, value) -/
def parseToken (tok : Bytes) : Bytes × Bytes :=
  match cutAt 0x3d tok with
  | none => (tok, [])
  | some (k, v) => (k, v)

/-- `parseAttrsLegacy`: split on single spaces, trim, skip empty, later duplicates win. -/
def parseAttrsLegacy (raw : Bytes) : List (Bytes × Bytes) :=
  (splitOn 0x20 raw).foldl (fun m tok =>
    let t := trimSpace tok
    if t.isEmpty then m else let (k, v) := parseToken t; mapSet m k v) []

def lookupB (m : List (Bytes × Bytes)) (k : Bytes) : Option Bytes :=
  (m.find? (fun p => p.1 = k)).map (·.2)

inductive Res (α : Type) where
  | ok (a : α)
  | err
  | crash
deriving Repr, DecidableEq

/-- `UnmarshalLegacy` -/
def unmarshalLegacy (raw : Bytes) : Res AttrsB :=
  let m := parseAttrsLegacy raw
  let ifver := match lookupB m kIFVer with
    | some v => parseIntLoose v
    | none => 0
  let ver := match lookupB m kVersion with
    | some v => v
    | none => []
  match lookupB m kReq with
  | none => .err
  | some req =>
    match splitOn 0x40 req with
    | [u, h] =>
      let hard := match lookupB m kHardKey with | some v => parseBoolLoose v | none => false
      let t2s := match lookupB m kTouch2SSH with | some v => parseBoolLoose v | none => false
      let ff := match lookupB m kIsFirefighter with | some v => parseBoolLoose v | none => false
      let hosts := match lookupB m kHosts with | some v => v | none => []
      let time := match lookupB m kTime with | some v => parseIntLoose v | none => 0
      .ok ⟨ifver, u, h, ver, 0, 0, hard, t2s, some ⟨ff, hosts, time⟩, m⟩
    | _ => .err

/-- `MarshalLegacy` (tokens, then joined by single spaces) -/
def legacyTokens (a : AttrsB) : List Bytes :=
  [legacyInterfaceVersion, kVersion ++ 0x3d :: a.SSHClientVersion,
   kReq ++ 0x3d :: (a.Username ++ 0x40 :: a.Hostname)] ++
  (if a.HardKey then [kHardKey ++ b!"=true"] else []) ++
  (if a.Touch2SSH then [kTouch2SSH ++ b!"=true"] else []) ++
  (match a.TouchlessSudo with
   | none => []
   | some t =>
     (if t.IsFirefighter then [kIsFirefighter ++ b!"=true"] else []) ++
     (if t.Hosts.isEmpty then [] else [kHosts ++ 0x3d :: t.Hosts]) ++
     (if t.Time = 0 then [] else [kTime ++ 0x3d :: intDec t.Time]))

def marshalLegacy (a : AttrsB) : Bytes := joinWith 0x20 (legacyTokens a)

/-! ### the two entry points -/

/-- Str-valued attributes as bytes (UTF-8); extension values are dropped to their keys here —
    callers that need them keep the `AttrsJ`. -/
def toB (utf8 : Str → Bytes) (a : AttrsJ) : AttrsB :=
  ⟨a.IfVer, utf8 a.Username, utf8 a.Hostname, utf8 a.SSHClientVersion, a.CAPubKeyAlgo, a.SignatureAlgo,
   a.HardKey, a.Touch2SSH, a.TouchlessSudo.map (fun t => ⟨t.IsFirefighter, utf8 t.Hosts, t.Time⟩),
   a.Exts.map (fun p => (utf8 p.1, []))⟩

inductive Decoded where
  | json (a : AttrsJ)
  | legacy (a : AttrsB)

/-- `message.Unmarshal(text)`: `tok` is the token tree of `text` (`none` = not JSON), `raw` its bytes. -/
def unmarshal (tok : Option JVal) (raw : Bytes) : Res Decoded :=
  match decodeStruct tok with
  | some a => if sane List.isEmpty a then .ok (.json (populate [] a)) else .err
  | none =>
    match unmarshalLegacy raw with
    | .ok a => .ok (.legacy a)
    | .err => .err
    | .crash => .crash

inductive Encoded where
  | json (j : JVal)
  | legacy (b : Bytes)

/-- `(*Attributes).Marshal` for JSON-typed attributes; the legacy branch needs their bytes. -/
def marshal (utf8 : Str → Bytes) (a : AttrsJ) : Option Encoded :=
  if !sane List.isEmpty a then none
  else if a.IfVer < 7 then some (.legacy (marshalLegacy (toB utf8 a)))
  else some (.json (toJ a))

end Message
end Ysshra
