import Ysshra.Util
/-
Model of `shimagent.Server` (agent/shimagent/shimserver.go, filter.go) as a state machine over
an abstract underlying ssh-agent (`UAgent`, the behaviour of x/crypto's keyring), as repaired by
the `fix:` commits for findings F6 (constructor returns the listing error) and F7 (Signers and
Extension take the exclusive lock — irrelevant to this sequential model).

Identities are abstract: marshalling is injective by construction, SHA-256 as the map key is
the identity.  What the libraries decide about a certificate is carried in it: validity window,
whether its KeyID decodes as a YSSHCA KeyID, and the label `cert.Label` computes (C19).
-/
namespace Ysshra.Shim
open Ysshra

structure Cert where
  id : Nat
  /-- the plain public key the certificate certifies -/
  key : Nat
  validAfter : Nat
  validBefore : Nat
  /-- `keyid.Unmarshal(cert.KeyId)` succeeds -/
  ysshca : Bool
  /-- `cert.Label(cert)`: `none` = error -/
  label : Option Bytes
deriving DecidableEq, Repr

inductive Blob
  | key (k : Nat)
  | cert (c : Cert)
deriving DecidableEq, Repr

def Blob.isCert : Blob → Bool
  | .cert _ => true
  | .key _ => false

/-- the public key behind an identity: the certified key for a certificate -/
def Blob.pub : Blob → Nat
  | .key k => k
  | .cert c => c.key

def maxInt64 : Nat := 2 ^ 63 - 1

/-- `certutil.ValidateSSHCertTime(cert, now)` with the clamp of values above MaxInt64 -/
def validAt (c : Cert) (now : Nat) : Bool :=
  let vb := min c.validBefore maxInt64
  let va := min c.validAfter maxInt64
  !(va > now || now > vb)

/-! ### the underlying agent -/

inductive Kind | list | add | remove | removeAll | sign | lock | unlock | forward
deriving DecidableEq, Repr

structure Ident where
  blob : Blob
  comment : Bytes
deriving DecidableEq, Repr

structure UAgent where
  idents : List Ident
  locked : Bool
  pass : Bytes
  /-- the connection from the shim to this agent is gone (every later request fails) -/
  closed : Bool
deriving DecidableEq, Repr

inductive Fault
  | none
  /-- this request gets an error (failure reply, malformed reply) -/
  | fail
  /-- the connection is lost at this request and stays lost -/
  | drop
deriving DecidableEq, Repr

/-- how the underlying agent treats each request kind during the current operation -/
abbrev Faults := Kind → Fault

def noFaults : Faults := fun _ => .none

namespace UAgent

/-- does a request of kind `k` reach the agent? -/
def gate (u : UAgent) (f : Faults) (k : Kind) : UAgent × Bool :=
  if u.closed then (u, false)
  else match f k with
    | .none => (u, true)
    | .fail => (u, false)
    | .drop => ({ u with closed := true }, false)

def list (u : UAgent) (f : Faults) : UAgent × Option (List Ident) :=
  let (u1, go) := u.gate f .list
  if !go then (u1, none) else (u1, some (if u1.locked then [] else u1.idents))

/-- the keyring's `Add`: replaces an identity with the same blob, else appends -/
def addIdent (u : UAgent) (id : Ident) : Option UAgent :=
  if u.locked then none
  else if u.idents.any (·.blob = id.blob) then
    some { u with idents := u.idents.map fun x => if x.blob = id.blob then id else x }
  else some { u with idents := u.idents ++ [id] }

def removeIdent (u : UAgent) (b : Blob) : Option UAgent :=
  if u.locked then none
  else if u.idents.any (·.blob = b) then some { u with idents := u.idents.filter (·.blob ≠ b) }
  else none

def clearIdents (u : UAgent) : Option UAgent :=
  if u.locked then none else some { u with idents := [] }

/-- result: new agent and whether the request succeeded -/
def add (u : UAgent) (f : Faults) (id : Ident) : UAgent × Bool :=
  let (u1, go) := u.gate f .add
  if !go then (u1, false) else match u1.addIdent id with
    | some u2 => (u2, true)
    | none => (u1, false)

def remove (u : UAgent) (f : Faults) (b : Blob) : UAgent × Bool :=
  let (u1, go) := u.gate f .remove
  if !go then (u1, false) else match u1.removeIdent b with
    | some u2 => (u2, true)
    | none => (u1, false)

def removeAll (u : UAgent) (f : Faults) : UAgent × Bool :=
  let (u1, go) := u.gate f .removeAll
  if !go then (u1, false) else match u1.clearIdents with
    | some u2 => (u2, true)
    | none => (u1, false)

/-- `some k`: a signature that verifies under public key `k` -/
def sign (u : UAgent) (f : Faults) (b : Blob) : UAgent × Option Nat :=
  let (u1, go) := u.gate f .sign
  if !go then (u1, none)
  else if u1.locked then (u1, none)
  else if u1.idents.any (·.blob = b) then (u1, some b.pub) else (u1, none)

def lock (u : UAgent) (f : Faults) (p : Bytes) : UAgent × Bool :=
  let (u1, go) := u.gate f .lock
  if !go then (u1, false)
  else if u1.locked then (u1, false) else ({ u1 with locked := true, pass := p }, true)

def unlock (u : UAgent) (f : Faults) (p : Bytes) : UAgent × Bool :=
  let (u1, go) := u.gate f .unlock
  if !go then (u1, false)
  else if !u1.locked then (u1, false)
  else if p = u1.pass then ({ u1 with locked := false, pass := [] }, true) else (u1, false)

end UAgent

/-! ### the shim -/

structure MemCert where
  cert : Cert
  comment : Bytes
deriving DecidableEq, Repr

structure State where
  /-- in-memory hardware certificates (a Go map: no two entries with the same certificate) -/
  certs : List MemCert
  /-- `upstreamSSHCACertCache` -/
  cache : List Cert
  locked : Bool
  noUp : Bool
  u : UAgent
deriving DecidableEq, Repr

def hasCert (s : State) (c : Cert) : Bool := s.certs.any (·.cert = c)

/-- `newShimAgent`: in no-upstream mode the cache is seeded from a listing, whose failure is
    returned (F6 repair) -/
def new (noUp : Bool) (u : UAgent) (f : Faults) : Option State :=
  if !noUp then some ⟨[], [], false, false, u⟩
  else match u.list f with
    | (_, none) => none
    | (u1, some ids) =>
      let cache := ids.filterMap fun id => match id.blob with
        | .cert c => if c.ysshca then some c else none
        | .key _ => none
      some ⟨[], cache, false, true, u1⟩

/-- the shared backing array of the in-agent key slice during `filter`: `arr` keeps its full
    original length (stale tail included), `len` is the current slice length -/
structure KeyArr where
  arr : List Ident
  len : Nat
deriving Repr

def dropCache (s : State) (b : Blob) : State :=
  if s.noUp then match b with
    | .cert c => { s with cache := s.cache.filter (· ≠ c) }
    | .key _ => s
  else s

/-- `Server.remove(pub)`: new state and success.  On failure only the underlying agent's
    connection state may have changed. -/
def removeCore (s : State) (f : Faults) (b : Blob) : State × Bool :=
  let inMem := match b with
    | .cert c => hasCert s c
    | .key _ => false
  let s1 : State := match b with
    | .cert c => { s with certs := s.certs.filter (·.cert ≠ c) }
    | .key _ => s
  match s1.u.remove f b with
  | (u', true) => (dropCache { s1 with u := u' } b, true)
  | (u', false) => if inMem then (dropCache { s1 with u := u' } b, true) else ({ s with u := u' }, false)

/-- the `remove` closure of `filter`: `Server.remove`, then swap-remove the first matching entry
    of the in-agent slice -/
def removeFn (s : State) (f : Faults) (ka : KeyArr) (b : Blob) : State × KeyArr × Bool :=
  match removeCore s f b with
  | (s', false) => (s', ka, false)
  | (s', true) =>
    match (ka.arr.take ka.len).findIdx? (·.blob = b) with
    | none => (s', ka, true)
    | some j =>
      match ka.arr[ka.len - 1]? with
      | none => (s', ka, true)
      | some last => (s', ⟨ka.arr.set j last, ka.len - 1⟩, true)

/-- `filterOrphanCerts`: never fails (an in-memory certificate is always "removed") -/
def filterOrphans (s : State) (f : Faults) (ka : KeyArr) : State × KeyArr :=
  let keys := ka.arr.take ka.len
  if keys.isEmpty then (s, ka)
  else
    let pubs := keys.map (·.blob.pub)
    s.certs.foldl (fun (acc : State × KeyArr) mc =>
      if pubs.contains mc.cert.key then acc
      else let (s', ka', _) := removeFn acc.1 f acc.2 (.cert mc.cert); (s', ka')) (s, ka)

/-- first loop of `filterExpiredCerts`: indices `i … n-1` of the *live* array, `n` fixed at entry -/
def expiredInAgent (now : Nat) (f : Faults) : Nat → Nat → State → KeyArr → Bool → State × KeyArr × Bool
  | 0, _, s, ka, err => (s, ka, err)
  | fuel + 1, i, s, ka, err =>
    match ka.arr[i]? with
    | none => (s, ka, err)
    | some id =>
      match id.blob with
      | .cert c =>
        if validAt c now then expiredInAgent now f fuel (i + 1) s ka err
        else
          let (s', ka', ok) := removeFn s f ka (.cert c)
          expiredInAgent now f fuel (i + 1) s' ka' (err || !ok)
      | .key _ => expiredInAgent now f fuel (i + 1) s ka err

/-- second loop: in-memory certificates still present -/
def expiredInMemory (now : Nat) (f : Faults) (s : State) (ka : KeyArr) : State × KeyArr :=
  s.certs.foldl (fun (acc : State × KeyArr) mc =>
    if validAt mc.cert now then acc
    else let (s', ka', _) := removeFn acc.1 f acc.2 (.cert mc.cert); (s', ka')) (s, ka)

/-- `Server.filter()`: `none` = error.  The state may have changed even then. -/
def filter (s : State) (now : Nat) (f : Faults) : State × Option (List Ident) :=
  match s.u.list f with
  | (u1, none) => ({ s with u := u1 }, none)
  | (u1, some keys) =>
    let s0 := { s with u := u1 }
    let ka : KeyArr := ⟨keys, keys.length⟩
    let (s1, ka1) := filterOrphans s0 f ka
    -- the slice header handed to filterExpiredCerts: current length, live array
    let (s2, ka2, err) := expiredInAgent now f ka1.len 0 s1 ka1 false
    let (s3, ka3) := expiredInMemory now f s2 ka2
    if err then (s3, none) else (s3, some (ka3.arr.take ka3.len))

inductive SignRes
  | ok (pub : Nat)
  | notFound
  | err
deriving DecidableEq, Repr

inductive Op
  | list
  | signers
  | sign (b : Blob)
  | add (id : Ident)
  | addHardCert (b : Blob) (suffix : Bytes)
  | remove (b : Blob)
  | removeAll
  | lock (p : Bytes)
  | unlock (p : Bytes)
  /-- somebody else talks to the underlying agent directly -/
  | uAdd (id : Ident)
  | uRemove (b : Blob)
  | uRemoveAll
  /-- a raw request the shim does not interpret (the test agent echoes it behind the byte 0xAA; a
      failure reply is the single byte 5) -/
  | forward (req : Bytes)
  /-- `Close`: refused while locked, otherwise the connection to the underlying agent is closed -/
  | close
deriving Repr

inductive Out
  | ok
  | err
  | listing (ids : List Ident)
  | signers (bs : List Blob)
  | signed (r : SignRes)
  /-- reply to a raw request, byte for byte -/
  | forwarded (reply : Bytes)
deriving DecidableEq, Repr

/-- comment of an underlying certificate in a listing -/
def listComment (c : Cert) (comment : Bytes) : Bytes :=
  match c.label with
  | none => comment
  | some l => if comment.isEmpty then l else l ++ 0x2d :: comment

/-- the part of `List` after `filter`: in-memory certificates, then the visible underlying identities -/
def listVisible (s : State) : List Ident → State × List Ident
  | [] => (s, [])
  | id :: r =>
    match id.blob with
    | .key _ => let (s', l) := listVisible s r; (s', id :: l)
    | .cert c =>
      if s.cache.contains c then listVisible s r
      else if s.noUp && c.ysshca then listVisible { s with cache := s.cache ++ [c] } r
      else let (s', l) := listVisible s r; (s', ⟨.cert c, listComment c id.comment⟩ :: l)

def signersVisible (s : State) : List Ident → State × List Blob
  | [] => (s, [])
  | id :: r =>
    if !s.noUp then let (s', l) := signersVisible s r; (s', id.blob :: l)
    else match id.blob with
      | .key _ => let (s', l) := signersVisible s r; (s', id.blob :: l)
      | .cert c =>
        if s.cache.contains c then signersVisible s r
        else if c.ysshca then signersVisible { s with cache := s.cache ++ [c] } r
        else let (s', l) := signersVisible s r; (s', id.blob :: l)

def signOut (s : State) (f : Faults) (b : Blob) : State × Out :=
  match s.u.sign f b with
  | (u', some k) => ({ s with u := u' }, .signed (.ok k))
  | (u', none) => ({ s with u := u' }, .signed .err)

/-- one operation at time `now` under fault set `f` -/
def step (s : State) (now : Nat) (f : Faults) : Op → State × Out
  | .list =>
    if s.locked then (s, .listing [])
    else match filter s now f with
      | (s', none) => (s', .err)
      | (s', some keys) =>
        let mem := s'.certs.map fun mc => (⟨.cert mc.cert, mc.comment⟩ : Ident)
        let (s'', vis) := listVisible s' keys
        (s'', .listing (mem ++ vis))
  | .signers =>
    if s.locked then (s, .err)
    else match filter s now f with
      | (s', none) => (s', .err)
      | (s', some _) =>
        -- `s.agent.Signers()` lists the underlying agent once more
        match s'.u.list f with
        | (u', none) => ({ s' with u := u' }, .err)
        | (u', some ids) =>
          let s1 := { s' with u := u' }
          let mem := s1.certs.map fun mc => Blob.cert mc.cert
          let (s'', vis) := signersVisible s1 ids
          (s'', .signers (mem ++ vis))
  | .sign b =>
    if s.locked then (s, .signed .err)
    else match filter s now f with
      | (s', none) => (s', .signed .err)
      | (s', some _) =>
        match b with
        | .cert c =>
          if hasCert s' c then signOut s' f (.key c.key)
          else if c.ysshca && s'.noUp then (s', .signed .notFound)
          else signOut s' f b
        | .key _ => signOut s' f b
  | .add id =>
    if s.locked then (s, .err)
    else match s.u.add f id with
      | (u', false) => ({ s with u := u' }, .err)
      | (u', true) => ({ s with u := u' }, .ok)
  | .addHardCert b suffix =>
    if s.locked then (s, .err)
    else match b with
      | .key _ => (s, .err)
      | .cert c =>
        if hasCert s c then (s, .ok)
        else match s.u.list f with
          | (u', none) => ({ s with u := u' }, .err)
          | (u', some keys) =>
            let s1 := { s with u := u' }
            if keys.any (·.blob = .key c.key) then
              let label := match c.label with
                | none => suffix
                | some l => if suffix.isEmpty then l else l ++ 0x2d :: suffix
              ({ s1 with certs := s1.certs ++ [⟨c, label⟩] }, .ok)
            else (s1, .err)
  | .remove b =>
    if s.locked then (s, .err)
    else match removeCore s f b with
      | (s', false) => (s', .err)
      | (s', true) => (s', .ok)
  | .removeAll =>
    if s.locked then (s, .err)
    else
      let s1 := { s with certs := [], cache := [] }
      match s1.u.removeAll f with
      | (u', false) => ({ s1 with u := u' }, .err)
      | (u', true) => ({ s1 with u := u' }, .ok)
  | .lock p =>
    if s.locked then (s, .err)
    else match s.u.lock f p with
      | (u', false) => ({ s with u := u' }, .err)
      | (u', true) => ({ s with u := u', locked := true }, .ok)
  | .unlock p =>
    if !s.locked then (s, .err)
    else match s.u.unlock f p with
      | (u', false) => ({ s with u := u' }, .err)
      | (u', true) => ({ s with u := u', locked := false }, .ok)
  | .uAdd id =>
    match s.u.addIdent id with
    | none => (s, .err)
    | some u' => ({ s with u := u' }, .ok)
  | .uRemove b =>
    match s.u.removeIdent b with
    | none => (s, .err)
    | some u' => ({ s with u := u' }, .ok)
  | .uRemoveAll =>
    match s.u.clearIdents with
    | none => (s, .err)
    | some u' => ({ s with u := u' }, .ok)
  | .forward req =>
    -- `Forward` is not gated by the lock flag: the frame goes to the underlying agent as it is and
    -- the next frame on the connection comes back as it is
    if s.u.closed then (s, .err)
    else match f .forward with
      | .none => (s, .forwarded (0xAA :: req))
      | .fail => (s, .forwarded [5])
      | .drop => ({ s with u := { s.u with closed := true } }, .err)
  | .close =>
    -- refused while locked; closing the connection a second time is an error
    if s.locked then (s, .err)
    else if s.u.closed then (s, .err)
    else ({ s with u := { s.u with closed := true } }, .ok)

/-- A sign request carrying signature flags (rsa-sha2-256 / rsa-sha2-512): the shim passes the
    flags through, so the request does to the state what the plain one does; the underlying agent
    can honour the flags only with an RSA key (`rsaKey`) and answers failure otherwise. -/
def stepSignFlags (rsaKey : Nat → Bool) (s : State) (now : Nat) (f : Faults) (b : Blob) : State × Out :=
  match step s now f (.sign b) with
  | (s', .signed (.ok k)) => (s', if rsaKey k then .signed (.ok k) else .signed .err)
  | r => r

end Ysshra.Shim
