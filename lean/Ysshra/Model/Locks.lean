import Ysshra.Util
/-
A reader–writer lock and threads that run *methods*: take the lock named by the method first
(exclusively, shared, or not at all), perform the method's accesses to shared cells one by one,
release on return (`defer`).  Any interleaving is a list of thread ids to step.
-/
namespace Ysshra.Locks

inductive Mode | excl | shared
deriving DecidableEq, Repr

inductive Access
  | read (cell : Nat)
  | write (cell : Nat)
deriving DecidableEq, Repr

def Access.cell : Access → Nat
  | .read c => c
  | .write c => c

def Access.isWrite : Access → Bool
  | .write _ => true
  | .read _ => false

structure Method where
  mode : Option Mode
  accesses : List Access
deriving DecidableEq, Repr

inductive Phase
  /-- has not taken the lock yet (blocked or not scheduled) -/
  | waiting
  /-- inside the body, `done` accesses performed -/
  | running (done : Nat)
  | finished
deriving DecidableEq, Repr

/-- one thread = one call of a method -/
structure Thread where
  method : Method
  phase : Phase
deriving DecidableEq, Repr

abbrev Sys := List Thread

def Thread.inside (t : Thread) : Bool := match t.phase with
  | .running _ => true
  | _ => false

def Thread.holdsExcl (t : Thread) : Bool := t.inside && t.method.mode == some .excl
def Thread.holdsShared (t : Thread) : Bool := t.inside && t.method.mode == some .shared
def Thread.holdsAny (t : Thread) : Bool := t.holdsExcl || t.holdsShared

/-- may thread number `i` enter its body now? (`sync.RWMutex`: `Lock` needs nobody holding
    anything, `RLock` needs no exclusive holder) -/
def canEnter (s : Sys) (m : Method) : Bool :=
  match m.mode with
  | none => true
  | some .excl => s.all fun t => !t.holdsAny
  | some .shared => s.all fun t => !t.holdsExcl

/-- one scheduling step of thread `i` (no-op when it is blocked or finished) -/
def stepThread (s : Sys) (i : Nat) : Sys :=
  match s[i]? with
  | none => s
  | some t =>
    match t.phase with
    | .waiting => if canEnter s t.method then s.set i { t with phase := .running 0 } else s
    | .running k =>
      if k < t.method.accesses.length then s.set i { t with phase := .running (k + 1) }
      else s.set i { t with phase := .finished }
    | .finished => s

/-- an arbitrary schedule -/
def run (s : Sys) : List Nat → Sys
  | [] => s
  | i :: r => run (stepThread s i) r

/-- mutual exclusion: an exclusive holder is alone among lock holders -/
def Excl (s : Sys) : Prop :=
  ∀ (i j : Nat) (ti tj : Thread), s[i]? = some ti → s[j]? = some tj → i ≠ j → ti.holdsExcl = true → tj.holdsAny = false

/-- the locking discipline of a set of methods: whoever writes a cell holds the lock exclusively,
    whoever reads a shared cell holds it at least shared -/
def disciplined (m : Method) : Bool :=
  (m.accesses.any Access.isWrite → m.mode == some .excl) && (!m.accesses.isEmpty → m.mode.isSome)

end Ysshra.Locks
