import Ysshra.Util
/-
Byte-level text helpers mirroring the Go standard-library calls ysshra makes on
request texts: strings.Split, strings.TrimSpace, strings.Index, strconv.Atoi / ParseInt /
ParseUint / ParseBool, fmt "%d".
-/
namespace Ysshra.Text
open Ysshra

/-- `strings.Split(s, sep)` for a one-byte separator: always at least one field. -/
def splitOn (sep : UInt8) : Bytes → List Bytes
  | [] => [[]]
  | c :: r =>
    if c = sep then [] :: splitOn sep r
    else match splitOn sep r with
      | [] => [[c]]          -- unreachable: splitOn never returns []
      | f :: fs => (c :: f) :: fs

/-- UTF-8 encodings of the runes for which `unicode.IsSpace` holds. -/
def spaceSeqs : List Bytes :=
  [[0x09], [0x0a], [0x0b], [0x0c], [0x0d], [0x20], [0xc2, 0x85], [0xc2, 0xa0], [0xe1, 0x9a, 0x80],
   [0xe2, 0x80, 0x80], [0xe2, 0x80, 0x81], [0xe2, 0x80, 0x82], [0xe2, 0x80, 0x83], [0xe2, 0x80, 0x84],
   [0xe2, 0x80, 0x85], [0xe2, 0x80, 0x86], [0xe2, 0x80, 0x87], [0xe2, 0x80, 0x88], [0xe2, 0x80, 0x89],
   [0xe2, 0x80, 0x8a], [0xe2, 0x80, 0xa8], [0xe2, 0x80, 0xa9], [0xe2, 0x80, 0xaf], [0xe2, 0x81, 0x9f],
   [0xe3, 0x80, 0x80]]

def stripSpacePrefix (s : Bytes) : Option Bytes :=
  spaceSeqs.findSome? fun p => if p.isPrefixOf s then some (s.drop p.length) else none

/-- trim leading white space; fuel = length -/
def trimLeft : Nat → Bytes → Bytes
  | 0, s => s
  | n + 1, s => match stripSpacePrefix s with
    | some r => trimLeft n r
    | none => s

/-- `strings.TrimSpace` (trailing side done on the reversed string with reversed patterns) -/
def stripSpaceSuffix (s : Bytes) : Option Bytes :=
  spaceSeqs.findSome? fun p =>
    if p.reverse.isPrefixOf s.reverse then some (s.take (s.length - p.length)) else none

def trimRight : Nat → Bytes → Bytes
  | 0, s => s
  | n + 1, s => match stripSpaceSuffix s with
    | some r => trimRight n r
    | none => s

def trimSpace (s : Bytes) : Bytes := trimRight s.length (trimLeft s.length s)

/-- `strings.Index(s, "=")`-style cut at the first occurrence of `b`. -/
def cutAt (b : UInt8) : Bytes → Option (Bytes × Bytes)
  | [] => none
  | c :: r => if c = b then some ([], r) else (cutAt b r).map fun (k, v) => (c :: k, v)

def isDigit (c : UInt8) : Bool := 48 ≤ c.toNat && c.toNat ≤ 57

def digitsVal (ds : Bytes) : Nat := ds.foldl (fun a c => a * 10 + (c.toNat - 48)) 0

/-- `strconv.ParseUint(s, 10, bits)`: `none` = error. -/
def parseUint (bits : Nat) (s : Bytes) : Option Nat :=
  if s.isEmpty || !s.all isDigit then none
  else let v := digitsVal s; if v < 2 ^ bits then some v else none

/-- The *value* `strconv.ParseInt(s, 10, 64)` / `Atoi` returns, error ignored: 0 on a syntax
    error, the clamped bound on a range error. -/
def parseIntLoose (s : Bytes) : Int :=
  let (neg, ds) := match s with
    | 0x2d :: r => (true, r)
    | 0x2b :: r => (false, r)
    | r => (false, r)
  if ds.isEmpty || !ds.all isDigit then 0
  else
    let v := digitsVal ds
    if neg then (if v > 2 ^ 63 then -(2 ^ 63 : Int) else -(v : Int))
    else (if v ≥ 2 ^ 63 then (2 ^ 63 - 1 : Int) else (v : Int))

def ascii (s : String) : Bytes := s.toUTF8.toList

/-- value of `strconv.ParseBool`, error ignored (→ false) -/
def parseBoolLoose (s : Bytes) : Bool :=
  s = [0x31] || s = [0x74] || s = [0x54] || s = [0x54, 0x52, 0x55, 0x45] || s = [0x74, 0x72, 0x75, 0x65] ||
  s = [0x54, 0x72, 0x75, 0x65]

/-- decimal digits of a natural number, most significant first (fuel-structured) -/
def natDigits : Nat → Nat → Bytes
  | 0, _ => []
  | fuel + 1, n => if n < 10 then [UInt8.ofNat (48 + n)] else natDigits fuel (n / 10) ++ [UInt8.ofNat (48 + n % 10)]

def natDec (n : Nat) : Bytes := natDigits (n + 1) n

/-- `fmt.Sprintf("%d", i)` -/
def intDec (i : Int) : Bytes := if i < 0 then 0x2d :: natDec i.natAbs else natDec i.natAbs

def joinWith (sep : UInt8) : List Bytes → Bytes
  | [] => []
  | [x] => x
  | x :: r => x ++ sep :: joinWith sep r

end Ysshra.Text
