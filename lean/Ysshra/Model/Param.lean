import Ysshra.Model.Message
/-
Model of `csr.NewReqParam`, `parseForceCommand`, `version.Unmarshal`, `transid.Generate`.
External facts carried as parameters: `ipOK` (net.ParseIP on the candidate), the five random
bytes of the transaction id.
-/
namespace Ysshra
open Text Message

structure Version where
  major : Nat
  minor : Nat
deriving DecidableEq, Repr

/-- `version.Unmarshal`: `^\d+\.\d+$` then two `ParseUint(…, 10, 16)`. -/
def versionUnmarshal (s : Bytes) : Option Version :=
  match cutAt 0x2e s with
  | none => none
  | some (a, b) =>
    if a.isEmpty || b.isEmpty || !a.all isDigit || !b.all isDigit then none
    else match parseUint 16 a, parseUint 16 b with
      | some x, some y => some ⟨x, y⟩
      | _, _ => none

def NONS := b!"NONS"
def NSOK := b!"NSOK"
def validPolicy (p : Bytes) : Bool := p = NONS || p = NSOK

/-- `parseForceCommand`: every argument split on single spaces, 3 ≤ n ≤ 6. -/
def parseForceCommand (argv : List Bytes) : Option (Bytes × Bytes) :=
  let args := argv.flatMap (splitOn 0x20)
  let l := args.length
  if l < 3 then none
  else if l > 6 then none
  else match args[l - 2]?, args[l - 1]? with
    | some pol, some h => if validPolicy pol then some (pol, h) else none
    | _, _ => none

def hexLower (b : Bytes) : Bytes :=
  b.flatMap fun x => [(hexDigit (x.toNat / 16)).toNat.toUInt8, (hexDigit (x.toNat % 16)).toNat.toUInt8]

structure ReqParam where
  NamespacePolicy : Bytes
  HandlerName : Bytes
  ClientIP : Bytes
  LogName : Bytes
  ReqUser : Bytes
  ReqHost : Bytes
  TransID : Bytes
  SSHClientVersion : Version
  SignatureAlgo : Int
  HardKey : Bool
  CAPubKeyAlgo : Int
deriving DecidableEq, Repr

structure Env where
  /-- SSH_ORIGINAL_COMMAND: token tree and raw bytes -/
  cmdTok : Option JVal
  cmdRaw : Bytes
  logname : Bytes
  sshConnection : Bytes
  argv : List Bytes

def firstField (conn : Bytes) : Bytes :=
  match splitOn 0x20 conn with
  | f :: _ => f
  | [] => []

/-- `NewReqParam`. `utf8` is the UTF-8 encoder on decoded JSON strings. -/
def newReqParam (utf8 : Str → Bytes) (ipOK : Bytes → Bool) (rnd : Bytes) (e : Env) : Res ReqParam :=
  match unmarshal e.cmdTok e.cmdRaw with
  | .crash => .crash
  | .err => .err
  | .ok d =>
    let a : AttrsB := match d with
      | .json a => toB utf8 a
      | .legacy a => a
    if e.logname.isEmpty then .err
    else
      let ip := firstField e.sshConnection
      if !ipOK ip then .err
      else match parseForceCommand e.argv with
        | none => .err
        | some (pol, h) =>
          let ver : Option Version :=
            if a.SSHClientVersion.isEmpty then some ⟨0, 0⟩ else versionUnmarshal a.SSHClientVersion
          match ver with
          | none => .err
          | some v =>
            .ok ⟨pol, h, ip, e.logname, a.Username, a.Hostname, hexLower rnd, v, a.SignatureAlgo,
                 a.HardKey, a.CAPubKeyAlgo⟩

end Ysshra
