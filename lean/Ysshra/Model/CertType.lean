import Ysshra.Model.KeyId
/-
Model of `sshutils/cert`: `GetType`, `Label`, `GetPrincipals`.
-/
namespace Ysshra

/-- What `GetType` / `Label` read from an `*ssh.Certificate`. -/
structure CertView where
  /-- the KeyId text, tokenised (`none` = not JSON) -/
  KeyId : Option JVal
  /-- `nil` map vs. a map -/
  CriticalOptions : Option (List (Str × Str))

/-- Go map index on a possibly-nil `map[string]string`: missing ↦ "". Later duplicates cannot
    exist in a Go map; the association list is taken to have unique keys (first match). -/
def goIndex (m : Option (List (Str × Str))) (k : Str) : Str :=
  match m with
  | none => []
  | some l => match l.find? (fun p => p.1 = k) with
    | some p => p.2
    | none => []

def goNotNil {α} (m : Option α) : Bool := m.isSome

inductive CType
  | unknown | touchSudo | touchless | touchlessSudo | firefighter | nonce
  | touchlessInAgent | touchlessSudoInAgent
deriving DecidableEq, Repr

namespace CType
def toNat : CType → Nat
  | unknown => 0 | touchSudo => 1 | touchless => 2 | touchlessSudo => 3 | firefighter => 4
  | nonce => 5 | touchlessInAgent => 7 | touchlessSudoInAgent => 8

def ofNat? : Nat → Option CType
  | 0 => some unknown | 1 => some touchSudo | 2 => some touchless | 3 => some touchlessSudo
  | 4 => some firefighter | 5 => some nonce | 7 => some touchlessInAgent
  | 8 => some touchlessSudoInAgent | _ => none

/-- `TypeLabel` -/
def label : CType → Option Str
  | unknown => none
  | touchSudo => some c!"TouchSudo"
  | touchless => some c!"Touchless"
  | touchlessSudo => some c!"TouchlessSudo"
  | firefighter => some c!"FireFighterSudo"
  | nonce => some c!"Nonce"
  | touchlessInAgent => some c!"TouchlessInAgent"
  | touchlessSudoInAgent => some c!"TouchlessSudoInAgent"
end CType

def critHosts : Str := c!"touchless-sudo-hosts"

/-- does the certificate carry a non-empty touchless-sudo-hosts critical option? -/
def critSet (cert : CertView) : Bool :=
  goNotNil cert.CriticalOptions && (goIndex cert.CriticalOptions critHosts != [])

/-- The `switch` of `GetType`. -/
def cascade (k : KeyID) (cert : CertView) : CType :=
  if k.IsNonce then .nonce
  else if k.IsFirefighter && k.IsHWKey then .firefighter
  else if k.IsFirefighter && !k.IsHWKey then
    (if critSet cert then .touchlessSudoInAgent else .touchlessInAgent)
  else if k.TouchPolicy == KeyID.CachedTouch || k.TouchPolicy == KeyID.AlwaysTouch then .touchSudo
  else if k.TouchPolicy == KeyID.NeverTouch then
    (if critSet cert then .touchlessSudo else .touchless)
  else .unknown

/-- `GetType`. -/
def getType : Option CertView → CType
  | none => .unknown
  | some cert =>
    match KeyID.unmarshal cert.KeyId with
    | .error _ => .unknown
    | .ok k => cascade k cert

/-- `Label`: `none` = error. -/
def certLabel (cert : Option CertView) : Option Str :=
  match cert with
  | none => none
  | some c =>
    match (getType cert).label with
    | none => none
    | some l =>
      match KeyID.unmarshal c.KeyId with
      | .error _ => none
      | .ok k => some (l ++ c!"SSH-" ++ k.TransID)

def touchlessSuffix : Str := c!":notouch"
def touchSuffix : Str := c!":touch"

/-- `GetPrincipals` (a nil result and an empty one are both `[]`). -/
def getPrincipals (ps : List Str) : CType → List Str
  | .unknown => []
  | .touchSudo => ps.map (· ++ touchSuffix)
  | .touchlessSudo => ps.map (· ++ touchlessSuffix)
  | .touchless => ps.map (· ++ touchlessSuffix)
  | _ => ps

end Ysshra
