import Ysshra.Util
/-
Model of `utils.ParsePEMCertificates` over a segmented bundle: `pem.Decode` (oracle) finds the
next block, skipping any text in front of it; `yubiattest.ParseCertificate` (oracle) turns a
block into a certificate (here: its serial) or fails.
-/
namespace Ysshra.Pem

inductive Seg
  /-- text containing no PEM block; `ws` = consists of white space only -/
  | text (ws : Bool)
  /-- a PEM block and the result of parsing its bytes as a certificate -/
  | block (cert : Option Nat)
deriving DecidableEq, Repr

def Seg.isBlock : Seg → Bool
  | .block _ => true
  | .text _ => false

def Seg.isWs : Seg → Bool
  | .text ws => ws
  | .block _ => false

/-- `ParsePEMCertificates`: `none` = error -/
def certificates : List Seg → Option (List Nat)
  | [] => some []
  | .block (some c) :: r => (certificates r).map (c :: ·)
  | .block none :: _ => none
  | .text ws :: r =>
    if r.any Seg.isBlock then certificates r
    else if ws && r.all Seg.isWs then some [] else none

/-- `ParsePEMCertificate`: the first certificate, error when there is none -/
def certificate (segs : List Seg) : Option Nat :=
  match certificates segs with
  | some (c :: _) => some c
  | _ => none

end Ysshra.Pem
