import Ysshra.Util
/-
JSON values as `encoding/json` tokenises them, and the observable rules of
`json.Unmarshal` for the field kinds ysshra uses.  The lexer (bytes → tokens,
UTF-8 repair, escapes) is Go's and is in the trusted base: the harness sends
the token tree, `none` standing for "not valid JSON".
-/
namespace Ysshra

/-- A JSON number literal, as far as Go's decoders look at it. -/
structure JNum where
  neg : Bool
  int : Nat
  /-- no fraction and no exponent part -/
  isInt : Bool
  /-- `strconv.ParseFloat(lit, 64)` fails (oracle carried on the case line) -/
  f64over : Bool
deriving DecidableEq, Repr

inductive JVal where
  | null
  | bool (b : Bool)
  | num (n : JNum)
  | str (s : Str)
  | arr (xs : List JVal)
  | obj (ms : List (Str × JVal))
deriving Repr

namespace JNum
def ofInt (i : Int) : JNum := ⟨decide (i < 0), i.natAbs, true, false⟩

/-- `strconv.ParseInt(lit, 10, 64)` on a valid JSON number literal. -/
def asInt (n : JNum) (bits : Nat) : Option Int :=
  if !n.isInt then none
  else
    let v : Int := if n.neg then - (n.int : Int) else n.int
    if - (2 ^ (bits - 1) : Int) ≤ v ∧ v < (2 ^ (bits - 1) : Int) then some v else none

/-- `strconv.ParseUint(lit, 10, bits)`: a leading `-` is a syntax error, even for `-0`. -/
def asUint (n : JNum) (bits : Nat) : Option Nat :=
  if !n.isInt || n.neg then none
  else if n.int < 2 ^ bits then some n.int else none
end JNum

/-- Go's `foldName` restricted to the orbit of ASCII letters: upper→lower,
    U+212A KELVIN SIGN → k, U+017F LONG S → s. -/
def foldChar (c : Char) : Char :=
  if 65 ≤ c.toNat ∧ c.toNat ≤ 90 then Char.ofNat (c.toNat + 32)
  else if c.toNat = 0x212A then 'k'
  else if c.toNat = 0x17F then 's'
  else c

def foldName (s : Str) : Str := s.map foldChar

/-- Field lookup of `json.Unmarshal`: exact tag first, then first tag equal under folding. -/
def fieldIndex (tags : List Str) (name : Str) : Option Nat :=
  match tags.findIdx? (· = name) with
  | some i => some i
  | none => tags.findIdx? (fun t => foldName t = foldName name)

/-- Decode a member value into a Go `string` field (current value `cur`). `none` = type error. -/
def decStr (cur : Str) : JVal → Option Str
  | .null => some cur
  | .str s => some s
  | _ => none

def decBool (cur : Bool) : JVal → Option Bool
  | .null => some cur
  | .bool b => some b
  | _ => none

def decInt (bits : Nat) (cur : Int) : JVal → Option Int
  | .null => some cur
  | .num n => n.asInt bits
  | _ => none

def decUint (bits : Nat) (cur : Nat) : JVal → Option Nat
  | .null => some cur
  | .num n => n.asUint bits
  | _ => none

/-- Elements of a `[]string` decoded over the backing array left by an earlier duplicate member:
    a string element is stored, a `null` element leaves whatever the backing array holds at that
    index (the zero value `""` beyond it). -/
def decStrElems (backing : List Str) : List JVal → Option (List Str)
  | [] => some []
  | .str s :: r => (decStrElems backing.tail r).map (s :: ·)
  | .null :: r =>
    let old := match backing with
      | [] => []
      | b :: _ => b
    (decStrElems backing.tail r).map (old :: ·)
  | _ => none

/-- `[]string` field. Returns the new slice value and the new backing array.
    `null` → nil slice (backing dropped); `[]` → fresh empty slice; otherwise the decoded elements,
    with stale elements of a longer earlier array still behind them. -/
def decStrSlice (backing : List Str) : JVal → Option (Option (List Str) × List Str)
  | .null => some (none, [])
  | .arr [] => some (some [], [])
  | .arr xs => (decStrElems backing xs).map fun r => (some r, r ++ backing.drop r.length)
  | _ => none

mutual
/-- Does decoding into `interface{}` fail?  Only a number literal that
    overflows `float64` makes it fail. -/
def JVal.anyFails : JVal → Bool
  | .num n => n.f64over
  | .arr xs => anyFailsList xs
  | .obj ms => anyFailsMembers ms
  | _ => false
def anyFailsList : List JVal → Bool
  | [] => false
  | x :: r => x.anyFails || anyFailsList r
def anyFailsMembers : List (Str × JVal) → Bool
  | [] => false
  | (_, v) :: r => v.anyFails || anyFailsMembers r
end

/-- `json.Unmarshal(text, &map[string]interface{})`: key set on success. -/
def decodeToMapKeys : Option JVal → Option (List Str)
  | some (.obj ms) => if anyFailsMembers ms then none else some (ms.map (·.1))
  | some .null => some []
  | _ => none

end Ysshra
