import Ysshra.Util
/-
Model of `crypki.Signer.Sign` (ordered failover over the configured endpoints, as repaired for
finding F8: no endpoint configured is an error), `key.GetPublicKeysFromBytes`, the client-side
TLS acceptance rule of `tlsutils.TLSClientConfiguration`, and `backoff.Config.Backoff` over ℚ
(as repaired for finding F9a: a zero base delay stays zero).
-/
namespace Ysshra.Crypki
open Ysshra

/-- one line of the key material a CA returns: a parsable key/certificate with its comment, or
    something `ssh.ParseAuthorizedKey` skips -/
abbrev Line := Option (Nat × Bytes)

/-- `GetPublicKeysFromBytes`: every parsable line in order, keys and comments in lock-step;
    `none` = error (no key at all) -/
def keysFromLines (ls : List Line) : Option (List Nat × List Bytes) :=
  let ks := ls.filterMap id
  if ks.isEmpty then none else some (ks.map (·.1), ks.map (·.2))

/-- what one endpoint does with the request -/
inductive Reply
  /-- RPC succeeded and returned this key material -/
  | text (ls : List Line)
  /-- RPC error of any status code, deadline, connection / handshake failure -/
  | fail
deriving DecidableEq, Repr

/-- `postUserSSHCertificate` against one endpoint -/
def post (r : Reply) : Option (List Nat × List Bytes) :=
  match r with
  | .text ls => keysFromLines ls
  | .fail => none

/-- the loop of `Sign`: endpoints in order, stop at the first success.  Returns the result and
    the endpoints that were contacted. -/
def signLoop {E : Type} (reply : E → Reply) : List E → Option (List Nat × List Bytes) × List E
  | [] => (none, [])
  | e :: r =>
    match post (reply e) with
    | some x => (some x, [e])
    | none => let (res, c) := signLoop reply r; (res, e :: c)

/-- `Signer.Sign` -/
def sign {E : Type} (reply : E → Reply) (eps : List E) : Option (List Nat × List Bytes) × List E :=
  if eps.isEmpty then (none, []) else signLoop reply eps

/-! ### TLS -/

structure TlsCfg where
  /-- `MinVersion` if set (0x0303 = TLS 1.2) -/
  minVersion : Option Nat
  insecureSkipVerify : Bool
  customVerifier : Bool
  /-- RootCAs is a fresh pool filled from exactly the configured files -/
  rootsFromConfiguredFilesOnly : Bool
  clientCertGetter : Bool
deriving DecidableEq, Repr

def tls12 : Nat := 0x0303

/-- Go's client default when `MinVersion` is unset -/
def TlsCfg.effectiveMin (c : TlsCfg) : Nat := c.minVersion.getD tls12

structure Server where
  /-- highest protocol version the server offers -/
  maxVersion : Nat
  /-- its certificate chains to one of the configured CA certificates, now -/
  chainsToConfigured : Bool
  /-- its certificate is valid for the endpoint name -/
  nameMatches : Bool
  /-- the server accepts the client certificate the RA presents (or asks for none) -/
  acceptsClient : Bool
deriving DecidableEq, Repr

/-- the documented behaviour of a `crypto/tls` client with this configuration -/
def clientAccepts (c : TlsCfg) (s : Server) : Bool :=
  if c.insecureSkipVerify || c.customVerifier then true
  else decide (c.effectiveMin ≤ s.maxVersion) && s.chainsToConfigured && s.nameMatches

/-- an endpoint behind TLS: a handshake that fails on either side is a failed endpoint -/
def tlsReply (c : TlsCfg) (s : Server) (r : Reply) : Reply :=
  if clientAccepts c s && s.acceptsClient then r else .fail

/-! ### back-off -/

structure BackoffCfg where
  base : Rat
  mult : Rat
  max : Rat
  jitter : Rat

/-- `Backoff(attempt)` for the random draw `r ∈ [0,1)` -/
def backoff (c : BackoffCfg) (attempt : Nat) (r : Rat) : Rat :=
  if attempt = 0 ∨ c.base = 0 then c.base
  else min (c.base * c.mult ^ attempt) c.max * (1 + c.jitter * (r * 2 - 1))

end Ysshra.Crypki
