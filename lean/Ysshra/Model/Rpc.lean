import Ysshra.Model.Serve
/-
Model of the yubiagent *client* (agent/yubiagent/client.go) talking to `ServeAgent`: each
operation is request encoder ∘ `Serve.handle` ∘ response decoder.  The transport delivers one
request frame and returns one response frame (`C12`).  Also `ListSlots`' parsing of the PIV
tool's status output.
-/
namespace Ysshra.Rpc
open Ysshra Ysshra.Wire Ysshra.Serve

/-- what a caller of the client gets: `ok v`, or an error with its text -/
inductive CallRes (α : Type) where
  | ok (v : α)
  | err (text : Bytes)
  /-- the connection ended without a response -/
  | connErr
deriving Repr, DecidableEq

/-- one request/response exchange with the server model -/
def exchange (env : Env) (i : Nat) (req : Bytes) : Option Bytes :=
  match handle env i req with
  | .reply b => some b
  | .replyLogged b => some b
  | .fail => none

/-- `client.AddHardCert(key, comment)` with `blob = key.Marshal()` -/
def addHardCert (env : Env) (i : Nat) (blob comment : Bytes) : CallRes Unit :=
  match exchange env i (encAddHardCert blob comment) with
  | none => .connErr
  | some resp => if resp ≠ success then .err resp else .ok ()

/-- decoding side of `client.ListSlots()`: slots are returned even with an error -/
def listSlotsOf : Option Bytes → CallRes (List Bytes) × List Bytes
  | none => (.connErr, [])
  | some resp =>
    match decListSlotsResp resp with
    | none => (.connErr, [])
    | some (slots, err) => (if err.isEmpty then .ok slots else .err err, slots)

/-- `client.ListSlots()` -/
def listSlots (env : Env) (i : Nat) : CallRes (List Bytes) × List Bytes :=
  listSlotsOf (exchange env i [32])

/-- `client.ReadSlot(slot)` / `AttestSlot`: the PEM text handed to the certificate parser -/
def slotOp (env : Env) (i : Nat) (code : UInt8) (slot : Bytes) : CallRes Bytes :=
  match exchange env i (code :: slot) with
  | none => .connErr
  | some resp =>
    match decSlotResp resp with
    | none => .connErr
    | some (cert, err) => if err.isEmpty then .ok cert else .err err

/-- `client.Wait(code)` -/
def wait (env : Env) (i : Nat) (c : UInt8) : CallRes Unit :=
  match exchange env i [35, c] with
  | none => .connErr
  | some resp => if resp ≠ success then .err resp else .ok ()

/-- `client.Forward(req)`: the raw frame goes through the server's dispatch -/
def forward (env : Env) (i : Nat) (req : Bytes) : CallRes Bytes :=
  match exchange env i req with
  | none => .connErr
  | some resp => .ok resp

/-! ### smartcard keys: `client.AddSmartcardKey` / `RemoveSmartcardKey`

The server does not interpret these codes: the request reaches the served agent's `Forward` as it
is, and the first byte of its reply decides the result. -/

/-- lifetime and confirm constraints as the client encodes them: a lifetime constraint (code 1 and
    the seconds, big-endian) iff the lifetime is not zero — `secs` is the whole seconds of the
    duration —, then the confirm constraint (code 2) iff asked for -/
def smartcardConstraints (lifetimeNonZero : Bool) (secs : Nat) (confirm : Bool) : Bytes :=
  (if lifetimeNonZero then 1 :: be32 secs else []) ++ (if confirm then [2] else [])

def encAddSmartcard (id pin : Bytes) (lifetimeNonZero : Bool) (secs : Nat) (confirm : Bool) : Bytes :=
  26 :: (putString id ++ putString pin ++ smartcardConstraints lifetimeNonZero secs confirm)

def encRemoveSmartcard (id pin : Bytes) : Bytes := 21 :: (putString id ++ putString pin)

/-- what the served agent reads back from an add-smartcard-key request -/
def decAddSmartcard : Bytes → Option (Bytes × Bytes × Bytes)
  | 26 :: r =>
    match getString r with
    | some (id, r1) =>
      match getString r1 with
      | some (pin, cs) => some (id, pin, cs)
      | none => none
    | none => none
  | _ => none

def decRemoveSmartcard : Bytes → Option (Bytes × Bytes)
  | 21 :: r => getTwoStrings r
  | _ => none

inductive SmartcardRes
  | ok
  /-- the agent answered with something other than success -/
  | failure
  /-- an empty reply -/
  | empty
  | connErr
deriving Repr, DecidableEq

def smartcardRes : Option Bytes → SmartcardRes
  | none => .connErr
  | some [] => .empty
  | some (b :: _) => if b = 6 then .ok else .failure

def addSmartcardKey (env : Env) (i : Nat) (id pin : Bytes) (lifetimeNonZero : Bool) (secs : Nat) (confirm : Bool) : SmartcardRes :=
  smartcardRes (exchange env i (encAddSmartcard id pin lifetimeNonZero secs confirm))

def removeSmartcardKey (env : Env) (i : Nat) (id pin : Bytes) : SmartcardRes :=
  smartcardRes (exchange env i (encRemoveSmartcard id pin))

/-! ### `(*server).ListSlots`: parsing the PIV tool's `-a status` output -/

def slotPrefix : Bytes := b!"Slot"

/-- the slot name of one output line: bytes 5 and 6 of a line of at least 7 bytes starting with
    `Slot` (as repaired for finding F4: shorter lines are skipped) -/
def slotOfLine (line : Bytes) : Option Bytes :=
  if line.length ≥ 7 && line.take 4 = slotPrefix then some ((line.drop 5).take 2) else none

def parseSlots (output : Bytes) : List Bytes :=
  (Text.splitOn 0x0a output).filterMap slotOfLine

end Ysshra.Rpc
