import Ysshra.Util
/-
Model of the per-code condition variables of `shimagent.Server` (`Wait` / `Broadcast`) driven by
`yubiagent.ServeAgent`, which broadcasts the first byte of every received request before
dispatching it.  `n` is the size of the table, `inRange` the comparison guarding every access.
-/
namespace Ysshra.Cond

abbrev Tid := Nat

/-- `msg < byte(len(s.conds))` with the table size taken modulo 256 as the conversion does -/
def inRange (n : Nat) (c : UInt8) : Bool := c.toNat < n % 256

/-- waiters registered on a condition variable, oldest first -/
abbrev State := List (Tid × UInt8)

inductive Event
  /-- client `t` asks to wait for code `c` (its own wait request has been broadcast already) -/
  | wait (t : Tid) (c : UInt8)
  /-- a request with first byte `c` arrives on any connection -/
  | request (c : UInt8)
deriving DecidableEq, Repr

/-- one event: new state and the clients whose `Wait` returns because of it -/
def step (n : Nat) (s : State) : Event → State × List Tid
  | .wait t c => if inRange n c then (s ++ [(t, c)], []) else (s, [t])
  | .request c =>
    if inRange n c then (s.filter (fun w => w.2 ≠ c), (s.filter (fun w => w.2 = c)).map (·.1))
    else (s, [])

/-- run a history; the released clients per event -/
def run (n : Nat) : State → List Event → State × List (List Tid)
  | s, [] => (s, [])
  | s, e :: es =>
    let (s', rel) := step n s e
    let (s'', rels) := run n s' es
    (s'', rel :: rels)

end Ysshra.Cond
