import Ysshra.Util
/-
Model of the per-code condition variables of `shimagent.Server` (`Wait` / `Broadcast`) driven by
`yubiagent.ServeAgent`, which broadcasts the first byte of every received request before
dispatching it — including wait requests themselves, whose first byte is the wait code 35.
`n` is the size of the table, `inRange` the comparison guarding every access.
-/
namespace Ysshra.Cond

abbrev Tid := Nat

/-- `msg < byte(len(s.conds))` with the table size taken modulo 256 as the conversion does -/
def inRange (n : Nat) (c : UInt8) : Bool := c.toNat < n % 256

/-- waiters registered on a condition variable, oldest first -/
abbrev State := List (Tid × UInt8)

/-- the message code of a wait request (`AgentMessageWait`) -/
def waitCode : UInt8 := 35

inductive Event
  /-- client `t` sends a wait request for code `c` -/
  | wait (t : Tid) (c : UInt8)
  /-- any other request with first byte `c` arrives on any connection -/
  | request (c : UInt8)
deriving DecidableEq, Repr

/-- first byte of the request frame behind an event -/
def Event.code : Event → UInt8
  | .wait _ _ => waitCode
  | .request c => c

/-- `Broadcast(c)`: new state and the released clients -/
def broadcast (n : Nat) (s : State) (c : UInt8) : State × List Tid :=
  if inRange n c then (s.filter (fun w => w.2 ≠ c), (s.filter (fun w => w.2 = c)).map (·.1))
  else (s, [])

/-- one event: the broadcast of its first byte, then (for a wait request) the registration —
    or the immediate return when the code is outside the table -/
def step (n : Nat) (s : State) (e : Event) : State × List Tid :=
  let (s1, rel) := broadcast n s e.code
  match e with
  | .request _ => (s1, rel)
  | .wait t c => if inRange n c then (s1 ++ [(t, c)], rel) else (s1, rel ++ [t])

/-- run a history; the released clients per event -/
def run (n : Nat) : State → List Event → State × List (List Tid)
  | s, [] => (s, [])
  | s, e :: es =>
    let (s', rel) := step n s e
    let (s'', rels) := run n s' es
    (s'', rel :: rels)

end Ysshra.Cond
