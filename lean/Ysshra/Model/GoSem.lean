import Ysshra.Model.Param
/-
The Go expression forms the statement translator (`extract/param.go`) emits, with Go's own
semantics: `len` is an `int`, index and slice expressions can panic (`none`), calls that return
`(value, error)` are `Option`s. The definitions the translator generates in `Gen/Param.lean` are
written against these; `Bridge/Param.lean` proves them equal to the hand-written model.
-/
namespace Ysshra.GoSem
open Ysshra Ysshra.Text

/-- `len(x)` -/
def len {α : Type} (xs : List α) : Int := xs.length

/-- `x[i]`: `none` = index out of range (panic) -/
def index {α : Type} (xs : List α) (i : Int) : Option α :=
  if i < 0 then none else xs[i.toNat]?

/-- `s[lo:hi]` with either bound optional: `none` = slice bounds out of range (panic) -/
def slice (s : Bytes) (lo hi : Option Int) : Option Bytes :=
  let l := lo.getD 0
  let h := hi.getD s.length
  if l < 0 ∨ h < l ∨ h > s.length then none else some ((s.take h.toNat).drop l.toNat)

/-- `strings.Split(s, sep)` for a one-byte separator (the only form the translated code uses;
    any other separator gives the marker value `[]`, which `strings.Split` never returns) -/
def split (s sep : Bytes) : List Bytes :=
  match sep with
  | [c] => splitOn c s
  | _ => []

/-- `strings.Index(s, sep)` for a one-byte separator: `-1` when absent -/
def indexOf (s sep : Bytes) : Int :=
  match sep with
  | [c] => match cutAt c s with
    | some (k, _) => k.length
    | none => -1
  | _ => -1

/-- `strconv.ParseUint(s, base, bitSize)`: `none` = error (base 10 only) -/
def parseUint (s : Bytes) (base bitSize : Int) : Option Nat :=
  if base = 10 ∧ 0 ≤ bitSize then Text.parseUint bitSize.toNat s else none

/-- `uint16(x)` of an unsigned value -/
def toUint16 (n : Nat) : Nat := n % 65536

def mkVersion (major minor : Nat) : Nat × Nat := (major, minor)

/-- `^\d+\.\d+$` -/
def digitsDotDigits (s : Bytes) : Bool :=
  match cutAt 0x2e s with
  | some (a, b) => !a.isEmpty && !b.isEmpty && a.all isDigit && b.all isDigit
  | none => false

/-- `regexp.MustCompile(re).MatchString(s)` for the regular expressions that are modelled -/
def reMatch (re : String) (s : Bytes) : Option Bool :=
  if re = "^\\d+\\.\\d+$" then some (digitsDotDigits s) else none

end Ysshra.GoSem
