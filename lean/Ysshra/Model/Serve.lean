import Ysshra.Model.Wire
/-
Model of `yubiagent.ServeAgent`: the request loop and the per-code dispatch, as repaired by the
`fix:` commits for findings F2 (length guards before `req[0]` / `req[1]`) and F3 (a panic inside
the forwarded standard-agent call ends the connection with an error).
Everything the served agent and the libraries decide is an oracle in `Env`, indexed by the
request number so that it may behave differently on every call.
-/
namespace Ysshra.Serve
open Ysshra Ysshra.Wire

structure Env where
  /-- `ssh.ParsePublicKey` succeeds on these bytes -/
  pkOK : Bytes → Bool
  /-- `agent.AddHardCert(key, comment)`: `none` = nil, `some text` = error text -/
  addHardCert : Nat → Bytes → Bytes → Option Bytes
  /-- `agent.ListSlots()` -/
  listSlots : Nat → List Bytes × Option Bytes
  /-- `agent.ReadSlot(slot)`: PEM of the returned certificate (if any) and error text (if any) -/
  readSlot : Nat → Bytes → Option Bytes × Option Bytes
  attestSlot : Nat → Bytes → Option Bytes × Option Bytes
  /-- `agent.Wait(code)` -/
  wait : Nat → UInt8 → Option Bytes
  /-- the standard agent server of x/crypto on this single request: `some reply`, or `none` when
      it returns an error or panics (recovered) -/
  std : Nat → Bytes → Option Bytes
  /-- `agent.Forward(req)`: `none` = error -/
  forward : Nat → Bytes → Option Bytes

def success : Bytes := b!"SUCCESS"

/-- message codes forwarded to the standard agent server -/
def stdCodes : List UInt8 := [22, 23, 13, 17, 25, 18, 19, 1, 11]

inductive Handled
  /-- a response body to be framed and written; a write error ends the connection -/
  | reply (body : Bytes)
  /-- same, but a write error is only logged (add-hardware-certificate, wait) -/
  | replyLogged (body : Bytes)
  /-- the connection ends with an error, nothing is written -/
  | fail
deriving Repr, DecidableEq

def textOr (e : Option Bytes) (dflt : Bytes) : Bytes := match e with
  | some t => t
  | none => dflt

def errText (e : Option Bytes) : Bytes := textOr e []

/-- the dispatch of one complete request `req` (number `i` on this connection) -/
def handle (env : Env) (i : Nat) (req : Bytes) : Handled :=
  match req with
  | [] => .fail                                   -- guard added by the F2 repair
  | code :: body =>
    if code = 31 then
      -- old format first: the rest of the frame is the key blob
      if env.pkOK body then .replyLogged (textOr (env.addHardCert i body []) success)
      else match decAddHardCert req with
        | none => .fail
        | some (blob, comment) =>
          if env.pkOK blob then .replyLogged (textOr (env.addHardCert i blob comment) success)
          else .fail
    else if code = 32 then
      let (slots, err) := env.listSlots i
      .reply (encListSlotsResp slots (errText err))
    else if code = 33 then
      let (cert, err) := env.readSlot i body
      .reply (encSlotResp (textOr cert []) (errText err))
    else if code = 34 then
      let (cert, err) := env.attestSlot i body
      .reply (encSlotResp (textOr cert []) (errText err))
    else if code = 35 then
      match body with
      | [] => .fail                                -- guard added by the F2 repair
      | c :: _ => .replyLogged (textOr (env.wait i c) success)
    else if stdCodes.contains code then
      match env.std i req with
      | some r => .reply r
      | none => .fail
    else
      match env.forward i req with
      | some r => .reply r
      | none => .fail

inductive Ending | clean | error
deriving DecidableEq, Repr

structure Outcome where
  /-- bodies of the response frames written, in order -/
  resps : List Bytes
  /-- sizes of the request buffers allocated -/
  allocs : List Nat
  ending : Ending
deriving Repr

/-- `ServeAgent` on the byte stream `bs`, starting with request number `i`; `fuel` bounds the
    number of frames (`bs.length + 1` always suffices: every frame consumes at least 4 bytes). -/
def serve (env : Env) : Nat → Nat → Bytes → Outcome
  | 0, _, _ => ⟨[], [], .error⟩
  | fuel + 1, i, bs =>
    match readFrame bs with
    | .eof => ⟨[], [], .clean⟩
    | .truncated => ⟨[], [], .error⟩
    | .tooLarge _ => ⟨[], [], .error⟩
    | .frame req rest alloc =>
      match handle env i req with
      | .fail => ⟨[], [alloc], .error⟩
      | .reply body =>
        if body.length > maxAgentResponseBytes then ⟨[], [alloc], .error⟩
        else
          let o := serve env fuel (i + 1) rest
          ⟨body :: o.resps, alloc :: o.allocs, o.ending⟩
      | .replyLogged body =>
        let o := serve env fuel (i + 1) rest
        if body.length > maxAgentResponseBytes then ⟨o.resps, alloc :: o.allocs, o.ending⟩
        else ⟨body :: o.resps, alloc :: o.allocs, o.ending⟩

def run (env : Env) (bs : Bytes) : Outcome := serve env (bs.length + 1) 0 bs

end Ysshra.Serve
