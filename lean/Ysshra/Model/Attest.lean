import Ysshra.Model.Pkcs1
import Ysshra.Model.Message
/-
Model of `yubiattest.Attest` / `checkSignature` (composition around `Pkcs1.verify`) and of
`yubiattest.ModHex`.
-/
namespace Ysshra.Attest
open Ysshra Ysshra.Pkcs1
open Ysshra.Message (Res)

/-- RFC 8017 §9.2 DigestInfo prefixes with the NULL parameter, by crypto.Hash number
    (3 SHA-1, 5 SHA-256, 6 SHA-384, 7 SHA-512). -/
def prefixNull : Nat → Option Bytes
  | 3 => some [0x30, 0x21, 0x30, 0x09, 0x06, 0x05, 0x2b, 0x0e, 0x03, 0x02, 0x1a, 0x05, 0x00, 0x04, 0x14]
  | 5 => some [0x30, 0x31, 0x30, 0x0d, 0x06, 0x09, 0x60, 0x86, 0x48, 0x01, 0x65, 0x03, 0x04, 0x02, 0x01, 0x05, 0x00, 0x04, 0x20]
  | 6 => some [0x30, 0x41, 0x30, 0x0d, 0x06, 0x09, 0x60, 0x86, 0x48, 0x01, 0x65, 0x03, 0x04, 0x02, 0x02, 0x05, 0x00, 0x04, 0x30]
  | 7 => some [0x30, 0x51, 0x30, 0x0d, 0x06, 0x09, 0x60, 0x86, 0x48, 0x01, 0x65, 0x03, 0x04, 0x02, 0x03, 0x05, 0x00, 0x04, 0x40]
  | _ => none

/-- the same with the NULL parameter omitted (lengths adjusted) -/
def prefixNoNull : Nat → Option Bytes
  | 3 => some [0x30, 0x1f, 0x30, 0x07, 0x06, 0x05, 0x2b, 0x0e, 0x03, 0x02, 0x1a, 0x04, 0x14]
  | 5 => some [0x30, 0x2f, 0x30, 0x0b, 0x06, 0x09, 0x60, 0x86, 0x48, 0x01, 0x65, 0x03, 0x04, 0x02, 0x01, 0x04, 0x20]
  | 6 => some [0x30, 0x3f, 0x30, 0x0b, 0x06, 0x09, 0x60, 0x86, 0x48, 0x01, 0x65, 0x03, 0x04, 0x02, 0x02, 0x04, 0x30]
  | 7 => some [0x30, 0x4f, 0x30, 0x0b, 0x06, 0x09, 0x60, 0x86, 0x48, 0x01, 0x65, 0x03, 0x04, 0x02, 0x03, 0x04, 0x40]
  | _ => none

def hashSize : Nat → Nat
  | 3 => 20 | 5 => 32 | 6 => 48 | 7 => 64 | _ => 0

/-- x509.SignatureAlgorithm number → digest, as the statement lists them -/
def algoSpec (algo : Nat) : AlgoRes :=
  if algo = 3 ∨ algo = 7 ∨ algo = 9 then .hash 3
  else if algo = 4 ∨ algo = 8 ∨ algo = 10 then .hash 5
  else if algo = 5 ∨ algo = 11 then .hash 6
  else if algo = 6 ∨ algo = 12 then .hash 7
  else if algo = 1 ∨ algo = 2 then .insecure
  else .unsupported

inductive PubKey
  | rsa (n e : Nat)
  | other            -- ECDSA, Ed25519, …
deriving Repr

inductive Verdict | accept | reject | crash
deriving DecidableEq, Repr

/-- `checkSignature(algo, tbs, sig, key)`; `digest h` is the digest of the to-be-signed bytes
    under hash `h` (oracle). -/
def checkSignature (algo : Nat) (digest : Nat → Bytes) (sig : Bytes) (key : PubKey) : Verdict :=
  match algoSpec algo with
  | .insecure => .reject
  | .unsupported => .reject
  | .hash h =>
    match key with
    | .other => .reject
    | .rsa n e =>
      match prefixNull h, prefixNoNull h with
      | some p1, some p2 =>
        if (digest h).length ≠ hashSize h then .reject   -- pkcs1v15HashInfo: input must be hashed message
        else match verify n e p1 p2 (digest h) sig with
          | none => .crash
          | some true => .accept
          | some false => .reject
      | _, _ => .reject

/-- `Attest`: chain verification of the device certificate (oracle), then the signature check. -/
def attest (chainOK : Bool) (algo : Nat) (digest : Nat → Bytes) (sig : Bytes) (key : PubKey) : Verdict :=
  if !chainOK then .reject else checkSignature algo digest sig key

/-! ### ModHex -/

def modHexMap : List Char := c!"cbdefghijklnrtuv"
def serialOID : Str := c!"1.3.6.1.4.1.41482.3.7"

def modNibble (n : Nat) : Option Char := modHexMap[n]?

/-- two ModHex characters per byte -/
def modByte (b : UInt8) : List Char :=
  match modNibble (b.toNat / 16), modNibble (b.toNat % 16) with
  | some a, some c => [a, c]
  | _, _ => []          -- unreachable: both indices are below 16

/-- `ModHex(cert)` on the extension list `(oid text, value)`; as repaired for finding F5 a
    value shorter than its two header bytes is an error, not a slice panic. -/
def modHex (exts : List (Str × Bytes)) : Res Str :=
  let rec pick (serial : Option Bytes) : List (Str × Bytes) → Option (Option Bytes)
    | [] => some serial
    | (oid, v) :: r =>
      if oid = serialOID then (if v.length < 2 then none else pick (some (v.drop 2)) r)
      else pick serial r
  match pick none exts with
  | none => .err
  | some none => .err
  | some (some serial) =>
    if serial.length = 3 then .ok ('c' :: 'c' :: serial.flatMap modByte)
    else if serial.length = 4 then .ok (serial.flatMap modByte)
    else .err

end Ysshra.Attest
