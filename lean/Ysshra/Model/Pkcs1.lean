import Ysshra.Util
/-
Model of `yubiattest.verifyPKCS1v15`, `leftPad`, `encrypt` (square-and-multiply is Go's
`big.Int.Exp`; here `c ^ e % n` on naturals) and the algorithm switch of `checkSignature`.
Every index / slice expression of the Go code is a checked access here: `none` = the Go code
would panic.
-/
namespace Ysshra.Pkcs1
open Ysshra

/-- Go `em[a:b]` on a slice of length = capacity: panics unless `a ≤ b ≤ len`. -/
def slice (em : Bytes) (a b : Nat) : Option Bytes :=
  if a ≤ b ∧ b ≤ em.length then some ((em.drop a).take (b - a)) else none

/-- The comparison part of `verifyPKCS1v15` on the left-padded encoded message `em`
    (`k` = modulus length in bytes, `p1`/`p2` the two DigestInfo prefixes, `hashed` the digest). -/
def verifyEM (k : Nat) (p1 p2 hashed em : Bytes) : Option Bool := do
  let hashLen := hashed.length
  let tLen1 := p1.length + hashLen
  let tLen2 := p2.length + hashLen
  if k < tLen1 + 11 then some false else
  let e0 ← em[0]?
  let e1 ← em[1]?
  let dig ← slice em (k - hashLen) k
  let s1 ← slice em (k - tLen1) (k - hashLen)
  let s2 ← slice em (k - tLen2) (k - hashLen)
  -- Go's int arithmetic: k - tLen - 1 must not be negative
  if k < tLen1 + 1 ∨ k < tLen2 + 1 then none else
  let z1 ← em[k - tLen1 - 1]?
  let z2 ← em[k - tLen2 - 1]?
  let ok0 := e0 == 0 && e1 == 1 && dig == hashed
  let prefix1ok := s1 == p1 && z1 == 0
  let prefix2ok := s2 == p2 && z2 == 0
  let correctTLen := if prefix1ok then tLen1 else if prefix2ok then tLen2 else 0
  -- for i := 2; i < k-correctTLen-1; i++ { ok &= em[i] == 0xff }
  let pad ← slice em 2 (max 2 (k - correctTLen - 1))
  some (ok0 && (prefix1ok || prefix2ok) && pad.all (· == 0xff))

/-- big-endian bytes of a natural number, no leading zeros (`big.Int.Bytes`) -/
def natBytes : Nat → Nat → Bytes
  | 0, _ => []
  | fuel + 1, n => if n = 0 then [] else natBytes fuel (n / 256) ++ [UInt8.ofNat (n % 256)]

def bytesNat (b : Bytes) : Nat := b.foldl (fun a x => a * 256 + x.toNat) 0

/-- `leftPad(input, size)`: note that an over-long input is *truncated on the right*
    (`copy(out[len(out)-n:], input)` with `n = size`). -/
def leftPad (input : Bytes) (size : Nat) : Bytes :=
  let n := min input.length size
  List.replicate (size - n) 0 ++ input.take n

/-- number of bytes of the modulus: `(N.BitLen() + 7) / 8` -/
def modLen (n : Nat) : Nat := (natBytes (n + 1) n).length

/-- square-and-multiply; fuel `e + 1` is more than the number of bits of `e` -/
def modpowAux : Nat → Nat → Nat → Nat → Nat
  | 0, _, _, n => 1 % n
  | f + 1, b, e, n =>
    if e = 0 then 1 % n
    else
      let h := modpowAux f (b * b % n) (e / 2) n
      if e % 2 = 1 then b * h % n else h

/-- `big.Int.Exp(c, e, n)` for `n > 0` -/
def modpow (c e n : Nat) : Nat := modpowAux (e + 1) (c % n) e n

/-- `verifyPKCS1v15(pub, hash, hashed, sig)` with `pub = (n, e)` -/
def verify (n e : Nat) (p1 p2 hashed sig : Bytes) : Option Bool :=
  let k := modLen n
  if k < p1.length + hashed.length + 11 then some false
  else
    let c := bytesNat sig
    let m := if n = 0 then 0 else modpow c e n   -- big.Int.Exp(c, e, n); n = 0 cannot be a parsed key
    verifyEM k p1 p2 hashed (leftPad (natBytes (m + 1) m) k)

inductive AlgoRes
  | hash (h : Nat)        -- crypto.Hash number
  | insecure
  | unsupported
deriving DecidableEq, Repr

end Ysshra.Pkcs1
