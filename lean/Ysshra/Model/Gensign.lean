import Ysshra.Model.KeyId
/-
Model of `gensign.Run`, the `regular` handler (`Authenticate`, `Generate`, `challengePubKey`,
`lookupPubKeyFile`), `agent/ssh.AgentKey` (`NewSSHAgentKeyWithOpt`, `AddCertsToAgent`,
`refreshKeys`) over a scripted world: the server's public-key directory, the requester's
forwarded agent (identities + behaviour + fault schedule), the random source (a counter: a new
draw is a new index), the CA (a script of replies), and further handlers (scripted).

Cryptography is an oracle with the honest-signer law built in: a signature value records which
key signed which challenge, and `verifies` accepts exactly the matching one.  That forged
signatures do not verify is therefore an assumption of this model (see DESIGN.md §10).
-/
namespace Ysshra.Gensign
open Ysshra

inductive Key
  /-- a long-term key registered on the server / held by users -/
  | registered (n : Nat)
  /-- the key pair drawn at random-source index `n` -/
  | fresh (n : Nat)
deriving DecidableEq, Repr

inductive ErrKind
  | invalidParams | handlerAuthN | handlerGenCSR | handlerConf | allAuthFailed | signerSign
  | agentOpCert | panic
  /-- an error that is not a gensign error (a scripted handler may return anything) -/
  | other
deriving DecidableEq, Repr

inductive Result
  | ok
  | err (k : ErrKind)
deriving DecidableEq, Repr

/-- a certificate as the CA returns it -/
structure CertV where
  id : Nat
  /-- the key it certifies -/
  key : Key
deriving DecidableEq, Repr

structure AIdent where
  key : Key
  cert : Option CertV
  comment : Bytes
  /-- agent lifetime in seconds, 0 = none -/
  lifetime : Nat
deriving DecidableEq, Repr

inductive SigV
  | by (k : Key) (challenge : Nat)
  | garbage
  | empty
deriving DecidableEq, Repr

/-- `pubKey.Verify(challenge, sig)` -/
def verifies (pk : Key) (challenge : Nat) : SigV → Bool
  | .by k c => k = pk && c = challenge
  | _ => false

inductive SignBehav
  /-- signs the given data with the named key if it holds it, fails otherwise -/
  | honest
  | otherKey (k : Key)
  | otherData
  /-- returns the signature it produced for an earlier challenge -/
  | replay (oldChallenge : Nat)
  | garbage
  | empty
  | fail
deriving DecidableEq, Repr

structure Agent where
  idents : List AIdent
  behav : SignBehav
  /-- number of requests it has received in this run -/
  ops : Nat
  /-- the request with this index gets a failure reply -/
  failAt : Option Nat
  /-- the connection is closed at the request with this index (it and all later ones fail) -/
  closeAt : Option Nat
deriving Repr

/-- does request number `a.ops` go through? returns the agent with the counter advanced -/
def Agent.tick (a : Agent) : Agent × Bool :=
  let fails := a.failAt = some a.ops || (match a.closeAt with | some c => c ≤ a.ops | none => false)
  ({ a with ops := a.ops + 1 }, !fails)

inductive Event
  | auth (handler : Nat)
  | generate (handler : Nat)
  | agentSign (pk : Key) (challenge : Nat) (ok : Bool)
  | agentAdd (key : Key) (cert : Option CertV) (lifetime : Nat) (comment : Bytes) (ok : Bool)
  | agentList (ok : Bool)
  | agentRemove (key : Key) (cert : Option CertV) (ok : Bool)
  | caSign (csrKey : Key) (ok : Bool)
deriving DecidableEq, Repr

inductive FileState
  | absent
  | key (k : Key)
  | unparsable
  /-- exists but cannot be read (a directory, no permission) -/
  | unreadable
deriving DecidableEq, Repr

/-- the two candidate files for one login name -/
structure KeyDir where
  pub : FileState     -- `<dir>/<logname>.pub`
  bare : FileState    -- `<dir>/<logname>`
deriving DecidableEq, Repr

/-- `lookupPubKeyFile` + `os.ReadFile` + `ssh.ParseAuthorizedKey`: the registered key, if any -/
def registeredKey (d : KeyDir) : Option Key :=
  let chosen := if d.pub ≠ .absent then d.pub else d.bare
  match chosen with
  | .key k => some k
  | _ => none

structure Param where
  /-- namespace policy is NONS -/
  nons : Bool
  hardKey : Bool
  logName : Str
  transID : Str
  clientIP : Str
  reqUser : Str
  reqHost : Str
  caAlgo : Int
deriving Repr

structure Conf where
  validity : Nat                       -- cert_validity_sec (uint64)
  keyIds : List (Int × Str)            -- key_identifiers
  dir : KeyDir
deriving Repr

/-- a signing request as the CA sees it -/
structure CSR where
  keyMeta : Str
  validity : Nat
  principals : List Str
  extensions : List Str
  publicKey : Key
  keyId : KeyID
deriving Repr

/-- the fixed default extension set of `crypki.GetDefaultExtension` (all with empty values) -/
def defaultExtensions : List Str :=
  [c!"permit-X11-forwarding", c!"permit-agent-forwarding", c!"permit-port-forwarding", c!"permit-pty",
   c!"permit-user-rc"]

inductive CAReply
  /-- `n` certificates for the request's key, with `m` comments -/
  | certs (n : Nat) (m : Nat)
  /-- a certificate for somebody else's key -/
  | foreign
  /-- a plain public key where a certificate was expected -/
  | plainKey
  /-- `n` certificates for the request's key, a plain public key, `m` more certificates -/
  | mixed (n : Nat) (m : Nat)
  | err
  | panic
deriving DecidableEq, Repr

/-- how a scripted (non-regular) handler behaves -/
inductive Scripted
  | reject | authPanic | namePanicAfterReject
  /-- authenticates; `Generate` fails with this error -/
  | genErr (k : ErrKind)
  | genPanic
  /-- authenticates and returns no agent key at all -/
  | genEmpty
  /-- authenticates; one agent key with `n` requests; adding its certificates ends as given -/
  | genKey (csrs : Nat) (addCerts : Option ErrKind) (addPanic : Bool)
  /-- authenticates and generates like `genKey n none false`, but its `Name()` panics (`Run` asks
      the selected handler for its name only when it logs success) -/
  | genKeyNamePanic (csrs : Nat)
deriving DecidableEq, Repr

inductive Handler
  | regular
  | scripted (s : Scripted)
deriving DecidableEq, Repr

structure World where
  agent : Agent
  /-- next index of the random source -/
  rng : Nat
  /-- remaining replies of the CA -/
  ca : List CAReply
  /-- serial of the last certificate the CA issued -/
  lastCert : Nat
deriving Repr

def handlerName : Bytes := b!"paranoids.regular"
def certLabel : Bytes := b!"paranoids.regular-cert"
def privateKeyLabel : Bytes := b!"private-key"

/-- `uint32(validity) + uint32(3600)` -/
def lifetimeOf (validity : Nat) : Nat := (validity % 2 ^ 32 + 3600) % 2 ^ 32

/-- `strings.Contains(comment, HandlerName)` -/
def containsSub (sub : Bytes) : Bytes → Bool
  | [] => sub.isEmpty
  | c :: r => sub.isPrefixOf (c :: r) || containsSub sub r

abbrev Trace := List Event

/-- the agent can sign with `k`: it holds the plain-key identity -/
def Agent.holds (a : Agent) (k : Key) : Bool := a.idents.any fun x => x.key = k && x.cert.isNone

/-- the agent's answer to a sign request for `pk` over challenge `d` -/
def agentSign (a : Agent) (pk : Key) (d : Nat) : Agent × Option SigV :=
  let (a1, go) := a.tick
  if !go then (a1, none)
  else match a1.behav with
    | .honest => if a1.holds pk then (a1, some (.by pk d)) else (a1, none)
    | .otherKey k => if a1.holds k then (a1, some (.by k d)) else (a1, none)
    | .otherData => if a1.holds pk then (a1, some (.by pk (d + 1000000))) else (a1, none)
    | .replay old => (a1, some (.by pk old))
    | .garbage => (a1, some .garbage)
    | .empty => (a1, some .empty)
    | .fail => (a1, none)

/-- the keyring's `Add`: replace the identity with the same public blob, else append.  A
    certificate must match the private key it is stored with. -/
def agentAdd (a : Agent) (id : AIdent) : Agent × Bool :=
  let (a1, go) := a.tick
  if !go then (a1, false)
  else match id.cert with
    | some c => if c.key ≠ id.key then (a1, false) else (put a1, true)
    | none => (put a1, true)
where
  put (a : Agent) : Agent :=
    if a.idents.any (fun x => x.key = id.key && x.cert = id.cert) then
      { a with idents := a.idents.map fun x => if x.key = id.key && x.cert = id.cert then id else x }
    else { a with idents := a.idents ++ [id] }

def agentList (a : Agent) : Agent × Option (List AIdent) :=
  let (a1, go) := a.tick
  if !go then (a1, none) else (a1, some a1.idents)

/-- x/crypto keyring `removeLocked`: walk the slice; every entry that matches is overwritten by
    the current last entry and the slice shrinks by one (the same index is examined again).
    The order of the remaining entries therefore changes — and with it the order in which a later
    refresh asks for removals. -/
def swapRemoveAll {α} (p : α → Bool) : Nat → Nat → List α → List α
  | 0, _, l => l
  | fuel + 1, i, l =>
    match l[i]? with
    | none => l
    | some x =>
      if p x then
        match l.getLast? with
        | none => l
        | some last => swapRemoveAll p fuel i ((l.set i last).dropLast)
      else swapRemoveAll p fuel (i + 1) l

def agentRemove (a : Agent) (id : AIdent) : Agent × Bool :=
  let (a1, go) := a.tick
  if !go then (a1, false)
  else if a1.idents.any (fun x => x.key = id.key && x.cert = id.cert) then
    let rest := swapRemoveAll (fun x => x.key = id.key && x.cert = id.cert) (2 * a1.idents.length + 1) 0 a1.idents
    ({ a1 with idents := rest }, true)
  else (a1, false)

/-- `(*Handler).Authenticate` of the regular handler: `none` = nil -/
def regularAuth (conf : Conf) (p : Param) (w : World) : World × Trace × Option ErrKind :=
  if !p.nons then (w, [], some .handlerAuthN)
  else if p.hardKey then (w, [], some .handlerAuthN)
  else match registeredKey conf.dir with
    | none => (w, [], some .handlerAuthN)
    | some pk =>
      let d := w.rng
      let w1 := { w with rng := w.rng + 1 }
      match agentSign w1.agent pk d with
      | (a, none) => ({ w1 with agent := a }, [.agentSign pk d false], some .handlerAuthN)
      | (a, some sig) =>
        let w2 := { w1 with agent := a }
        if verifies pk d sig then (w2, [.agentSign pk d true], none)
        else (w2, [.agentSign pk d true], some .handlerAuthN)

def regularKeyID (p : Param) : KeyID :=
  ⟨some [p.logName], p.transID, p.reqUser, p.clientIP, p.reqHost, false, false, false, false, 0, 1, 1⟩

/-- `(*Handler).Generate` of the regular handler: the key it put into the agent and its request -/
def regularGenerate (conf : Conf) (p : Param) (w : World) : World × Trace × Except ErrKind (Key × CSR) :=
  let k := Key.fresh w.rng
  let w1 := { w with rng := w.rng + 1 }
  let lt := lifetimeOf conf.validity
  match agentAdd w1.agent ⟨k, none, privateKeyLabel, lt⟩ with
  | (a, false) => ({ w1 with agent := a }, [.agentAdd k none lt privateKeyLabel false], .error .handlerGenCSR)
  | (a, true) =>
    let w2 := { w1 with agent := a }
    let tr := [Event.agentAdd k none lt privateKeyLabel true]
    match conf.keyIds.lookup p.caAlgo with
    | none => (w2, tr, .error .handlerConf)
    | some ident =>
      (w2, tr, .ok (k, ⟨ident, conf.validity, [p.logName], defaultExtensions, k, regularKeyID p⟩))

/-- `refreshKeys` then the adds of `AddCertsToAgent`; `none` = nil -/
def addCerts (conf : Conf) (k : Key) (certs : List (Option CertV)) (w : World) : World × Trace × Bool :=
  match agentList w.agent with
  | (a, none) => ({ w with agent := a }, [.agentList false], false)
  | (a, some ids) =>
    let rec removes (a : Agent) (tr : Trace) : List AIdent → Agent × Trace × Bool
      | [] => (a, tr, true)
      | id :: r =>
        if containsSub handlerName id.comment then
          match agentRemove a id with
          | (a', false) => (a', tr ++ [.agentRemove id.key id.cert false], false)
          | (a', true) => removes a' (tr ++ [.agentRemove id.key id.cert true]) r
        else removes a tr r
    match removes a [.agentList true] ids with
    | (a1, tr1, false) => ({ w with agent := a1 }, tr1, false)
    | (a1, tr1, true) =>
      let lt := lifetimeOf conf.validity
      let rec adds (a : Agent) (tr : Trace) : List (Option CertV) → Agent × Trace × Bool
        | [] => (a, tr, true)
        | none :: r => adds a tr r                       -- not a certificate: skipped
        | some c :: r =>
          -- the agent client refuses a certificate that does not match the private key before
          -- sending anything
          if c.key ≠ k then (a, tr, false) else
          match agentAdd a ⟨k, some c, certLabel, lt⟩ with
          | (a', false) => (a', tr ++ [.agentAdd k (some c) lt certLabel false], false)
          | (a', true) => adds a' (tr ++ [.agentAdd k (some c) lt certLabel true]) r
      match adds a1 tr1 certs with
      | (a2, tr2, ok) => ({ w with agent := a2 }, tr2, ok)

/-- one CA call for a request certifying `k` -/
def caSign (k : Key) (w : World) : World × Trace × Except ErrKind (List (Option CertV)) :=
  match w.ca with
  | [] => (w, [.caSign k false], .error .signerSign)
  | r :: rest =>
    let w1 := { w with ca := rest }
    match r with
    | .certs n _ =>
      ({ w1 with lastCert := w1.lastCert + n }, [.caSign k true],
       .ok ((List.range n).map fun i => some ⟨w1.lastCert + 1 + i, k⟩))
    | .foreign => ({ w1 with lastCert := w1.lastCert + 1 }, [.caSign k true], .ok [some ⟨w1.lastCert + 1, .registered 3⟩])
    | .plainKey => (w1, [.caSign k true], .ok [none])
    | .mixed n m =>
      ({ w1 with lastCert := w1.lastCert + n + m }, [.caSign k true],
       .ok ((List.range n).map (fun i => some ⟨w1.lastCert + 1 + i, k⟩) ++ [none] ++
            (List.range m).map (fun i => some ⟨w1.lastCert + 1 + n + i, k⟩)))
    | .err => (w1, [.caSign k false], .error .signerSign)
    | .panic => (w1, [.caSign k false], .error .panic)

/-- authenticate handler number `i` -/
def authOf (conf : Conf) (p : Param) (i : Nat) (h : Handler) (w : World) : World × Trace × Option ErrKind :=
  match h with
  | .regular => let (w', tr, r) := regularAuth conf p w; (w', .auth i :: tr, r)
  | .scripted .reject => (w, [.auth i], some .handlerAuthN)
  | .scripted .namePanicAfterReject => (w, [.auth i], some .panic)
  | .scripted .authPanic => (w, [.auth i], some .panic)
  | .scripted _ => (w, [.auth i], none)

/-- the selection loop of `Run`: the first handler that authenticates -/
def selectHandler (conf : Conf) (p : Param) : Nat → List Handler → World → World × Trace × Except ErrKind (Nat × Handler)
  | _, [], w => (w, [], .error .allAuthFailed)
  | i, h :: rest, w =>
    match authOf conf p i h w with
    | (w1, tr, none) => (w1, tr, .ok (i, h))
    | (w1, tr, some .panic) => (w1, tr, .error .panic)
    | (w1, tr, some _) =>
      let (w2, tr2, r) := selectHandler conf p (i + 1) rest w1
      (w2, tr ++ tr2, r)

/-- sign `n` requests of one key; all replies are collected before anything is added -/
def signAll (k : Key) : Nat → World → World × Trace × Except ErrKind (List (Option CertV))
  | 0, w => (w, [], .ok [])
  | n + 1, w =>
    match caSign k w with
    | (w1, tr, .error e) => (w1, tr, .error e)
    | (w1, tr, .ok cs) =>
      match signAll k n w1 with
      | (w2, tr2, .error e) => (w2, tr ++ tr2, .error e)
      | (w2, tr2, .ok cs2) => (w2, tr ++ tr2, .ok (cs ++ cs2))

/-- `gensign.Run` -/
def run (conf : Conf) (p : Param) (hs : List Handler) (w : World) : World × Trace × Result :=
  match selectHandler conf p 0 hs w with
  | (w1, tr, .error e) => (w1, tr, .err e)
  | (w1, tr, .ok (i, h)) =>
    match h with
    | .regular =>
      match regularGenerate conf p w1 with
      | (w2, tr2, .error e) => (w2, tr ++ .generate i :: tr2, .err e)
      | (w2, tr2, .ok (k, _csr)) =>
        match signAll k 1 w2 with
        | (w3, tr3, .error .panic) => (w3, tr ++ .generate i :: tr2 ++ tr3, .err .panic)
        | (w3, tr3, .error _) => (w3, tr ++ .generate i :: tr2 ++ tr3, .err .signerSign)
        | (w3, tr3, .ok certs) =>
          match addCerts conf k certs w3 with
          | (w4, tr4, true) => (w4, tr ++ .generate i :: tr2 ++ tr3 ++ tr4, .ok)
          | (w4, tr4, false) => (w4, tr ++ .generate i :: tr2 ++ tr3 ++ tr4, .err .agentOpCert)
    | .scripted s =>
      let trg := tr ++ [.generate i]
      match s with
      | .genErr e => (w1, trg, .err e)
      | .genPanic => (w1, trg, .err .panic)
      | .genEmpty => (w1, trg, .err .handlerGenCSR)
      | .genKey n addErr addPanic =>
        match signAll (.registered (500 + i)) n w1 with
        | (w3, tr3, .error .panic) => (w3, trg ++ tr3, .err .panic)
        | (w3, tr3, .error _) => (w3, trg ++ tr3, .err .signerSign)
        | (w3, tr3, .ok _) =>
          if addPanic then (w3, trg ++ tr3, .err .panic)
          else match addErr with
            | some _ => (w3, trg ++ tr3, .err .agentOpCert)
            | none => (w3, trg ++ tr3, .ok)
      | .genKeyNamePanic n =>
        match signAll (.registered (500 + i)) n w1 with
        | (w3, tr3, .error .panic) => (w3, trg ++ tr3, .err .panic)
        | (w3, tr3, .error _) => (w3, trg ++ tr3, .err .signerSign)
        | (w3, tr3, .ok _) => (w3, trg ++ tr3, .err .panic)
      | _ => (w1, trg, .err .panic)     -- unreachable: these scripts never authenticate

end Ysshra.Gensign
