import Ysshra.Util
import Ysshra.Model.Text
/-
SSH wire primitives used by the yubiagent protocol extension (`ssh.Marshal` / `ssh.Unmarshal`
for the message structs of agent/yubiagent/message.go) and the 4-byte length framing of
io.go / shimserver.go.
-/
namespace Ysshra.Wire
open Ysshra

def maxAgentResponseBytes : Nat := 16777216

def be32 (n : Nat) : Bytes :=
  [UInt8.ofNat (n / 2 ^ 24 % 256), UInt8.ofNat (n / 2 ^ 16 % 256), UInt8.ofNat (n / 2 ^ 8 % 256),
   UInt8.ofNat (n % 256)]

def readBe32 : Bytes → Option (Nat × Bytes)
  | a :: b :: c :: d :: r => some (a.toNat * 2 ^ 24 + b.toNat * 2 ^ 16 + c.toNat * 2 ^ 8 + d.toNat, r)
  | _ => none

/-- `write(c, data)`: the frame put on the wire, `none` when `data` is over the bound -/
def frame (data : Bytes) : Option Bytes :=
  if data.length > maxAgentResponseBytes then none else some (be32 data.length ++ data)

inductive ReadRes
  /-- no byte left at a frame boundary (also: header read, body absent — `io.ReadFull` reports
      plain EOF when it read nothing) -/
  | eof
  /-- stream ends inside a header or inside a body -/
  | truncated
  /-- declared length above 16 MiB: refused before allocating -/
  | tooLarge (declared : Nat)
  /-- a complete frame; `alloc` is the size of the buffer that was allocated for it -/
  | frame (body : Bytes) (rest : Bytes) (alloc : Nat)
deriving Repr

/-- `read(c)` of io.go on the remaining stream -/
def readFrame (bs : Bytes) : ReadRes :=
  if bs.isEmpty then .eof
  else match readBe32 bs with
    | none => .truncated
    | some (l, rest) =>
      if l > maxAgentResponseBytes then .tooLarge l
      else if rest.length < l then (if rest.isEmpty then .eof else .truncated)
      else .frame (rest.take l) (rest.drop l) l

/-- SSH `string`: u32 length ‖ bytes -/
def putString (s : Bytes) : Bytes := be32 s.length ++ s

def getString (bs : Bytes) : Option (Bytes × Bytes) :=
  match readBe32 bs with
  | none => none
  | some (l, rest) => if rest.length < l then none else some (rest.take l, rest.drop l)

/-- `bytes.Split(s, ",")` / `strings.Join(l, ",")` -/
def splitComma (s : Bytes) : List Bytes := Text.splitOn 0x2c s
def joinComma (l : List Bytes) : Bytes := Text.joinWith 0x2c l

def putNameList (l : List Bytes) : Bytes := putString (joinComma l)

def getNameList (bs : Bytes) : Option (List Bytes × Bytes) :=
  (getString bs).map fun (s, rest) => (if s.isEmpty then [] else splitComma s, rest)

/-! message structs -/

/-- `agentAddHardCertReq{KeyBlob []byte `sshtype:"31"`; Comment string}` -/
def encAddHardCert (blob comment : Bytes) : Bytes := 31 :: (putString blob ++ putString comment)

/-- two consecutive SSH strings filling the input exactly -/
def getTwoStrings (bs : Bytes) : Option (Bytes × Bytes) :=
  match getString bs with
  | none => none
  | some (a, r1) =>
    match getString r1 with
    | none => none
    | some (b, r2) => if r2.isEmpty then some (a, b) else none

def decAddHardCert : Bytes → Option (Bytes × Bytes)
  | 31 :: r => getTwoStrings r
  | _ => none

/-- `agentListSlotsResp{Slots []string; Err string}` (no type byte) -/
def encListSlotsResp (slots : List Bytes) (err : Bytes) : Bytes := putNameList slots ++ putString err

def decListSlotsResp (bs : Bytes) : Option (List Bytes × Bytes) :=
  match getTwoStrings bs with
  | none => none
  | some (names, err) => some (if names.isEmpty then [] else splitComma names, err)

/-- `agentReadSlotResp{Cert []byte; Err string}` (also used for attest) -/
def encSlotResp (cert err : Bytes) : Bytes := putString cert ++ putString err

def decSlotResp (bs : Bytes) : Option (Bytes × Bytes) := getTwoStrings bs

end Ysshra.Wire
